package main

import (
	"fmt"
	"go/ast"
	"go/constant"
	"go/token"
	"go/types"
	"strings"

	"golang.org/x/tools/go/cfg"
)

// ---- three-valued branch evaluation ------------------------------------------------------------

type c35Tri int

const (
	c35Unknown c35Tri = iota
	c35True
	c35False
)

type c35Fact int

const (
	c35NonNilNotEOF c35Fact = iota + 1 // an error that is neither nil nor io.EOF
	c35IsNil                           // a nil error
	c35BoolTrue                        // a true boolean
	c35BoolFalse                       // a false boolean
)

func c35Not(t c35Tri) c35Tri {
	switch t {
	case c35True:
		return c35False
	case c35False:
		return c35True
	}
	return c35Unknown
}

func c35IsEOF(info *types.Info, e ast.Expr) bool {
	var id *ast.Ident
	switch x := ast.Unparen(e).(type) {
	case *ast.SelectorExpr:
		id = x.Sel
	case *ast.Ident:
		id = x
	default:
		return false
	}
	v, ok := info.Uses[id].(*types.Var)
	return ok && v.Pkg() != nil && v.Pkg().Path() == "io" && v.Name() == "EOF" && !v.IsField()
}

// c35Eval evaluates a branch condition under facts about variables; anything it does not
// recognise is Unknown (both branches are followed).
func c35Eval(info *types.Info, e ast.Expr, facts map[types.Object]c35Fact, ex ...func(ast.Expr) c35Tri) c35Tri {
	for _, fn := range ex { // facts about whole sub-expressions
		if t := fn(ast.Unparen(e)); t != c35Unknown {
			return t
		}
	}
	switch x := ast.Unparen(e).(type) {
	case *ast.Ident:
		switch facts[c35Obj(info, x)] {
		case c35BoolTrue:
			return c35True
		case c35BoolFalse:
			return c35False
		}
	case *ast.UnaryExpr:
		if x.Op == token.NOT {
			return c35Not(c35Eval(info, x.X, facts, ex...))
		}
	case *ast.BinaryExpr:
		switch x.Op {
		case token.LAND:
			a, b := c35Eval(info, x.X, facts, ex...), c35Eval(info, x.Y, facts, ex...)
			if a == c35False || b == c35False {
				return c35False
			}
			if a == c35True && b == c35True {
				return c35True
			}
		case token.LOR:
			a, b := c35Eval(info, x.X, facts, ex...), c35Eval(info, x.Y, facts, ex...)
			if a == c35True || b == c35True {
				return c35True
			}
			if a == c35False && b == c35False {
				return c35False
			}
		case token.EQL, token.NEQ:
			var varSide, other ast.Expr
			if f := facts[c35Obj(info, x.X)]; f == c35NonNilNotEOF || f == c35IsNil {
				varSide, other = x.X, x.Y
			} else if f := facts[c35Obj(info, x.Y)]; f == c35NonNilNotEOF || f == c35IsNil {
				varSide, other = x.Y, x.X
			}
			if varSide == nil {
				return c35Unknown
			}
			fact := facts[c35Obj(info, varSide)]
			var eq c35Tri
			switch {
			case isNilIdent(info, other):
				eq = map[bool]c35Tri{true: c35True, false: c35False}[fact == c35IsNil]
			case c35IsEOF(info, other):
				eq = c35False
			default:
				return c35Unknown
			}
			if x.Op == token.NEQ {
				return c35Not(eq)
			}
			return eq
		}
	case *ast.CallExpr:
		// errors.Is(e, io.EOF)
		if fn := Callee(info, x); fn != nil && FullName(fn) == "errors.Is" && len(x.Args) == 2 && c35IsEOF(info, x.Args[1]) {
			if f := facts[c35Obj(info, x.Args[0])]; f == c35NonNilNotEOF || f == c35IsNil {
				return c35False
			}
		}
	}
	return c35Unknown
}

// c35CondOf returns the branch condition that ends block b (if/for conditions only).
func c35CondOf(b *cfg.Block) ast.Expr {
	if len(b.Succs) != 2 || len(b.Nodes) == 0 {
		return nil
	}
	switch b.Succs[0].Kind {
	case cfg.KindIfThen, cfg.KindForBody:
	default:
		return nil
	}
	e, _ := b.Nodes[len(b.Nodes)-1].(ast.Expr)
	return e
}

// c35EdgeOK prunes the infeasible successor of a condition under the facts.
func c35EdgeOK(info *types.Info, b *cfg.Block, succ int, facts map[types.Object]c35Fact, ex ...func(ast.Expr) c35Tri) bool {
	cond := c35CondOf(b)
	if cond == nil {
		return true
	}
	switch c35Eval(info, cond, facts, ex...) {
	case c35True:
		return succ == 0
	case c35False:
		return succ == 1
	}
	return true
}

// ---- units ---------------------------------------------------------------------------------------

type c35Unit struct {
	f        *c35Fn
	lit      *ast.FuncLit
	body     *ast.BlockStmt
	name     string
	results  *ast.FieldList
	errIdx   int          // index of the (last) error result, -1 if none
	nres     int          // number of results
	namedErr types.Object // the named error result, if any
	deferIn  *c35Unit     // set when the literal is the operand of a defer statement of that unit
	deferSt  *ast.DeferStmt
}

func (f *c35Fn) units() []*c35Unit {
	var out []*c35Unit
	byLit := map[*ast.FuncLit]*c35Unit{}
	mk := func(lit *ast.FuncLit, body *ast.BlockStmt, res *ast.FieldList) *c35Unit {
		u := &c35Unit{f: f, lit: lit, body: body, results: res, errIdx: -1}
		if res != nil {
			for _, fl := range res.List {
				n := len(fl.Names)
				if n == 0 {
					n = 1
				}
				for i := 0; i < n; i++ {
					if IsErrorType(f.info.TypeOf(fl.Type)) {
						u.errIdx = u.nres
						u.namedErr = nil
						if len(fl.Names) > 0 {
							u.namedErr = f.info.Defs[fl.Names[i]]
						}
					}
					u.nres++
				}
			}
		}
		return u
	}
	top := mk(nil, f.fd.Body, f.fd.Type.Results)
	top.name = f.name
	out = append(out, top)
	ast.Inspect(f.fd.Body, func(n ast.Node) bool {
		lit, ok := n.(*ast.FuncLit)
		if !ok {
			return true
		}
		u := mk(lit, lit.Body, lit.Type.Results)
		byLit[lit] = u
		parent := top
		if pl := f.unitOf(lit); pl != nil && byLit[pl] != nil {
			parent = byLit[pl]
		}
		switch {
		case f.stageOf(lit) != nil && f.stageOf(lit).lit == lit:
			u.name = f.name + "/" + f.stageOf(lit).name
		default:
			u.name = parent.name + "/lit"
			if call, ok := f.parent(lit).(*ast.CallExpr); ok && ast.Unparen(call.Fun) == ast.Expr(lit) {
				if ds, ok := f.parent(call).(*ast.DeferStmt); ok {
					u.name = parent.name + "/deferred"
					u.deferIn, u.deferSt = parent, ds
				}
			} else if h := f.litHolder(lit); h != "a closure" {
				u.name = parent.name + "/lit(" + h + ")"
			}
		}
		out = append(out, u)
		return true
	})
	return out
}

type c35RetKind int

const (
	c35RetNil c35RetKind = iota
	c35RetIdent
	c35RetOther
	c35RetNoErr // the unit has no error result
)

// retErr classifies the error operand of a return statement of the unit.
func (u *c35Unit) retErr(ret *ast.ReturnStmt) (c35RetKind, types.Object, ast.Expr) {
	if u.errIdx < 0 {
		return c35RetNoErr, nil, nil
	}
	if len(ret.Results) == 0 {
		if u.namedErr != nil {
			return c35RetIdent, u.namedErr, nil
		}
		return c35RetNil, nil, nil
	}
	var e ast.Expr
	switch {
	case len(ret.Results) == u.nres:
		e = ret.Results[u.errIdx]
	case len(ret.Results) == 1: // return f() with a tuple
		return c35RetOther, nil, ret.Results[0]
	default:
		return c35RetOther, nil, nil
	}
	if isNilIdent(u.f.info, e) {
		return c35RetNil, nil, e
	}
	if id, ok := ast.Unparen(e).(*ast.Ident); ok {
		return c35RetIdent, c35Obj(u.f.info, id), e
	}
	return c35RetOther, nil, e
}

// ---- E1: error propagation ---------------------------------------------------------------------------

func (f *c35Fn) relevantCall(call *ast.CallExpr) bool {
	if !c35LastIsError(f.info.TypeOf(call)) {
		return false
	}
	if _, ok := f.iterMethodCall(call); ok {
		return true
	}
	if f.groupVar != nil {
		if sel, ok := ast.Unparen(call.Fun).(*ast.SelectorExpr); ok && c35Obj(f.info, sel.X) == f.groupVar {
			return true
		}
	}
	if v, ok := c35Obj(f.info, call.Fun).(*types.Var); ok && c35FuncVarWithErr(v) {
		return true
	}
	if fn := Callee(f.info, call); fn != nil && fn.Pkg() == f.pk.Types {
		return true
	}
	return false
}

func (f *c35Fn) writesVar(n ast.Node, o types.Object) bool {
	switch x := n.(type) {
	case *ast.AssignStmt:
		for _, l := range x.Lhs {
			if c35Obj(f.info, l) == o {
				return true
			}
		}
	case *ast.RangeStmt:
		return (x.Key != nil && c35Obj(f.info, x.Key) == o) || (x.Value != nil && c35Obj(f.info, x.Value) == o)
	case *ast.IncDecStmt:
		return c35Obj(f.info, x.X) == o
	}
	return false
}

func (f *c35Fn) ruleE1() {
	c := f.c
	for _, u := range f.units() {
		u := u
		var calls []*ast.CallExpr
		inspectNoLit(u.body, func(n ast.Node) bool {
			if call, ok := n.(*ast.CallExpr); ok && f.relevantCall(call) {
				calls = append(calls, call)
			}
			return true
		})
		for _, call := range calls {
			key := u.name + "/" + strings.ReplaceAll(types.ExprString(call.Fun), " ", "")
			switch p := f.parent(call).(type) {
			case *ast.ReturnStmt:
				k, _, e := u.retErr(p)
				if k == c35RetOther && e != nil && ast.Unparen(e) == ast.Expr(call) {
					c.Ok("C35-E1", key, call.Pos(), "returned directly")
				} else {
					c.Bad("C35-E1", key, call.Pos(), fmt.Sprintf("%s: the error result of %s is returned in a non-error position", u.name, types.ExprString(call.Fun)))
				}
			case *ast.AssignStmt:
				if len(p.Rhs) != 1 {
					c.Undecided("C35-E1", key, call.Pos(), "call in a multi-value assignment")
					continue
				}
				f.errBound(u, key, call, p, p.Lhs[len(p.Lhs)-1])
			case *ast.ValueSpec:
				f.errBound(u, key, call, f.parent(f.parent(p)), p.Names[len(p.Names)-1])
			case *ast.ExprStmt:
				f.errDiscarded(u, key, call, p)
			case *ast.DeferStmt:
				f.errDiscarded(u, key, call, p)
			case *ast.GoStmt:
				f.errDiscarded(u, key, call, p)
			default:
				c.Undecided("C35-E1", key, call.Pos(), fmt.Sprintf("%s: the error result of %s is consumed inside an expression", u.name, types.ExprString(call.Fun)))
			}
		}
	}
}

// errDiscarded: the error is dropped; that is a violation when the enclosing function can still
// report success afterwards.
func (f *c35Fn) errDiscarded(u *c35Unit, key string, call *ast.CallExpr, st ast.Node) {
	c := f.c
	eu, at := u, st
	for eu.deferIn != nil { // a deferred literal: success is decided by the function that defers it
		eu, at = eu.deferIn, eu.deferSt
	}
	g := c.P.CFG(f.info, eu.body)
	pt, ok := FindNode(g, at)
	if !ok {
		c.Note("C35-E1", key, call.Pos(), "unreachable")
		return
	}
	succ := func(n ast.Node) bool {
		ret, ok := n.(*ast.ReturnStmt)
		if !ok {
			return false
		}
		k, _, _ := eu.retErr(ret)
		return k == c35RetNil || k == c35RetNoErr
	}
	var p []ast.Node
	if eu.errIdx < 0 {
		p = []ast.Node{at}
	} else {
		p = PathAvoiding(g, pt, nil, succ, nil)
	}
	if p != nil {
		c.Bad("C35-E1", key, call.Pos(), fmt.Sprintf("%s: the error returned by %s is discarded and the function can still return a nil error afterwards: the in-process engine reports this error (e.g. a failed commit from RowIter.Close), the client is told the statement succeeded", u.name, types.ExprString(call.Fun)), c.P.DescribePath(p)...)
		return
	}
	c.Ok("C35-E1", key, call.Pos(), "discarded on paths that return an error anyway")
}

// errBound: the error is bound to a variable; follow the paths on which it is a real error.
func (f *c35Fn) errBound(u *c35Unit, key string, call *ast.CallExpr, st ast.Node, lhs ast.Expr) {
	c := f.c
	if id, ok := ast.Unparen(lhs).(*ast.Ident); ok && id.Name == "_" {
		f.errDiscarded(u, key, call, st)
		return
	}
	e := c35Obj(f.info, lhs)
	if e == nil {
		c.Undecided("C35-E1", key, call.Pos(), u.name+": the error result is stored into a non-local location")
		return
	}
	g := c.P.CFG(f.info, u.body)
	pt, ok := FindNode(g, st)
	if !ok {
		c.Note("C35-E1", key, call.Pos(), "unreachable")
		return
	}
	origin := pt.B.Nodes[pt.I]
	facts := map[types.Object]c35Fact{e: c35NonNilNotEOF}
	if u.deferIn != nil && u.deferIn.namedErr != nil && u.deferIn.namedErr != e {
		// inside a deferred closure only the world in which no other error is pending matters:
		// if one is pending the function returns an error anyway
		facts[u.deferIn.namedErr] = c35IsNil
	}
	comms := c35CommStmts(u.body)
	why := ""
	path := pathExplore(g, pt, struct{}{},
		func(n ast.Node, s struct{}) (struct{}, pathAct) {
			if st, ok := n.(ast.Stmt); ok && comms[st] != nil {
				return s, pathGo
			}
			if n == origin {
				why = "the call is executed again (the error is overwritten)"
				return s, pathBad
			}
			if as, ok := n.(*ast.AssignStmt); ok && u.deferIn != nil && u.deferIn.namedErr != nil && len(as.Lhs) == len(as.Rhs) {
				for i, l := range as.Lhs {
					if c35Obj(f.info, l) == u.deferIn.namedErr && c35Obj(f.info, as.Rhs[i]) == e {
						return s, pathStop // stored into the function's error result
					}
				}
			}
			if ret, ok := n.(*ast.ReturnStmt); ok {
				k, o, _ := u.retErr(ret)
				switch {
				case k == c35RetOther, k == c35RetIdent && o == e:
					return s, pathStop
				case k == c35RetNil:
					why = "a nil error is returned"
				case k == c35RetIdent:
					why = "a different variable (" + o.Name() + ") is returned"
				default:
					why = "the closure returns without storing it in the function's error result"
				}
				return s, pathBad
			}
			if f.writesVar(n, e) {
				why = "the variable is overwritten"
				return s, pathBad
			}
			return s, pathGo
		},
		func(b *cfg.Block, succ int, s struct{}) (struct{}, bool) { return s, c35EdgeOK(f.info, b, succ, facts) },
		func(s struct{}, ret *ast.ReturnStmt) bool {
			if ret == nil {
				why = "the function ends without returning or storing it"
				return true
			}
			return false
		})
	if path != nil {
		c.Bad("C35-E1", key, call.Pos(), fmt.Sprintf("%s: on a path on which the error of %s is non-nil and not io.EOF, %s before it reaches the returned error: the engine's error is lost or turned into an end-of-rows", u.name, types.ExprString(call.Fun), why), c.P.DescribePath(path)...)
		return
	}
	c.Ok("C35-E1", key, call.Pos(), "every non-nil, non-EOF path returns it (or a constructed error)")
}

// ---- P4: row flow ------------------------------------------------------------------------------------

type c35Count struct {
	a, b, alt  int8 // saturating at 2
	order, chk bool
}

func c35Sat(x int8) int8 {
	if x >= 2 {
		return 2
	}
	return x + 1
}

// rootedAt: e is a selector/index chain whose root identifier is v; returns the first field selected.
func (f *c35Fn) rootedAt(e ast.Expr, v *types.Var) (field string, ok bool) {
	for {
		switch x := ast.Unparen(e).(type) {
		case *ast.SelectorExpr:
			if c35Obj(f.info, x.X) == v {
				return x.Sel.Name, true
			}
			e = x.X
		case *ast.IndexExpr:
			e = x.X
		case *ast.SliceExpr:
			e = x.X
		case *ast.StarExpr:
			e = x.X
		default:
			return "", false
		}
	}
}

func (f *c35Fn) mentions(n ast.Node, o types.Object) bool {
	found := false
	ast.Inspect(n, func(m ast.Node) bool {
		if id, ok := m.(*ast.Ident); ok && f.info.Uses[id] == o {
			found = true
		}
		return !found
	})
	return found
}

func (f *c35Fn) caseBodyBlock(g *cfg.CFG, cc *ast.CommClause) *cfg.Block {
	for _, b := range g.Blocks {
		if b.Kind == cfg.KindSelectCaseBody && b.Stmt == ast.Node(cc) {
			return b
		}
	}
	return nil
}

func (f *c35Fn) ruleP4() {
	c := f.c
	// ---- reading stage: the one place where a (T, error) method of the iterator is called
	type site struct {
		s    *c35Stage
		call *ast.CallExpr
	}
	var sites []site
	ast.Inspect(f.fd.Body, func(n ast.Node) bool {
		if call, ok := n.(*ast.CallExpr); ok {
			if m, ok := f.iterMethodCall(call); ok && m != "Close" {
				if t, ok := f.info.TypeOf(call).(*types.Tuple); ok && t.Len() == 2 {
					sites = append(sites, site{f.stageOf(call), call})
				}
			}
		}
		return true
	})
	var rowCh *c35Chan
	switch {
	case len(sites) != 1:
		c.Bad("C35-P4", f.name+"/reading-stage", f.fd.Pos(), fmt.Sprintf("%s: the iterator is read at %d places (want exactly one, inside one stage): two readers interleave the rows, none delivers nothing", f.name, len(sites)))
	case sites[0].s == nil || f.unitOf(sites[0].call) != sites[0].s.lit:
		c.Bad("C35-P4", f.name+"/reading-stage", sites[0].call.Pos(), f.name+": the iterator is read outside the stages")
	default:
		rowCh = f.p4Reader(sites[0].s, sites[0].call)
	}
	// ---- batching stage: receives from the reader's channel and sends on another
	if rowCh == nil || rowCh.receiver == nil {
		c.Undecided("C35-P4", f.name+"/batching-stage", f.fd.Pos(), "the stage that receives the reader's channel was not identified (see P1)")
		return
	}
	f.p4Batcher(rowCh)
}

func (f *c35Fn) p4Reader(s *c35Stage, next *ast.CallExpr) *c35Chan {
	c := f.c
	key := f.name + "/" + s.name + "/row-sent-once"
	as, ok := f.parent(next).(*ast.AssignStmt)
	if !ok || len(as.Lhs) != 2 || len(as.Rhs) != 1 {
		c.Undecided("C35-P4", key, next.Pos(), "the iterator call is not of the form `row, err := iter.Next(ctx)`")
		return nil
	}
	rowVar, _ := c35Obj(f.info, as.Lhs[0]).(*types.Var)
	errVar := c35Obj(f.info, as.Lhs[1])
	if rowVar == nil || errVar == nil {
		c.Undecided("C35-P4", key, next.Pos(), "row/error of the iterator call are not bound to variables")
		return nil
	}
	var sends []*ast.SendStmt
	ast.Inspect(s.lit.Body, func(n ast.Node) bool {
		if x, ok := n.(*ast.SendStmt); ok {
			sends = append(sends, x)
		}
		return true
	})
	if len(sends) == 0 || len(s.sends) != 1 {
		c.Bad("C35-P4", key, next.Pos(), fmt.Sprintf("%s/%s: the stage that reads the iterator must send on exactly one channel", f.name, s.name))
		return nil
	}
	ch := f.chanOf(s.sends[0])
	for _, sd := range sends {
		if c35Obj(f.info, sd.Value) != rowVar {
			c.Bad("C35-P4", key, sd.Pos(), fmt.Sprintf("%s/%s: the value sent on %s is `%s`, not the row `%s` returned by %s: the client receives something else than the engine produced", f.name, s.name, ch.v.Name(), types.ExprString(sd.Value), rowVar.Name(), types.ExprString(next.Fun)))
			return ch
		}
	}
	// the row variable is written by the iterator call only
	writes := 0
	ast.Inspect(s.lit.Body, func(n ast.Node) bool {
		if st, ok := n.(ast.Stmt); ok && f.writesVar(st, rowVar) {
			writes++
		}
		return true
	})
	if writes != 1 {
		c.Bad("C35-P4", key, next.Pos(), fmt.Sprintf("%s/%s: the row variable %s is written %d times (want once, by the iterator call)", f.name, s.name, rowVar.Name(), writes))
		return ch
	}
	g := c.P.CFG(f.info, s.lit.Body)
	pt, ok := FindNode(g, as)
	if !ok {
		c.Undecided("C35-P4", key, next.Pos(), "iterator call unreachable")
		return ch
	}
	origin := pt.B.Nodes[pt.I]
	facts := map[types.Object]c35Fact{errVar: c35IsNil}
	comms := c35CommStmts(s.lit.Body)
	why := ""
	path := pathExplore(g, pt, c35Count{},
		func(n ast.Node, st c35Count) (c35Count, pathAct) {
			if n == origin {
				if st.a != 1 {
					why = fmt.Sprintf("the next %s is reached after %d sends of the row (want exactly 1)", types.ExprString(next.Fun), st.a)
					return st, pathBad
				}
				return st, pathStop
			}
			if sm, ok := n.(ast.Stmt); ok && comms[sm] != nil {
				return st, pathGo
			}
			if sd, ok := n.(*ast.SendStmt); ok && c35Obj(f.info, sd.Chan) == ch.v {
				st.a = c35Sat(st.a) // a send outside a select (P3 reports it); still counted
			}
			if ret, ok := n.(*ast.ReturnStmt); ok && st.a == 0 {
				if k, _, _ := c35UnitOfLit(f, s.lit).retErr(ret); k == c35RetNil {
					why = "the stage returns a nil error without having sent the row it just read"
					return st, pathBad
				}
			}
			if st.a == 2 {
				why = "the row is sent twice"
				return st, pathBad
			}
			return st, pathGo
		},
		func(b *cfg.Block, succ int, st c35Count) (c35Count, bool) {
			if !c35EdgeOK(f.info, b, succ, facts) {
				return st, false
			}
			nb := b.Succs[succ]
			if nb.Kind == cfg.KindSelectCaseBody {
				cc := nb.Stmt.(*ast.CommClause)
				if f.isGroupDoneClause(cc) {
					return st, false // cancellation: the statement fails as a whole
				}
				if sd, ok := cc.Comm.(*ast.SendStmt); ok && c35Obj(f.info, sd.Chan) == ch.v {
					st.a = c35Sat(st.a)
				}
			}
			return st, true
		}, nil)
	if path != nil {
		c.Bad("C35-P4", key, next.Pos(), fmt.Sprintf("%s/%s: after a successful %s, %s: rows are lost or duplicated", f.name, s.name, types.ExprString(next.Fun), why), c.P.DescribePath(path)...)
		return ch
	}
	c.Ok("C35-P4", key, next.Pos(), fmt.Sprintf("each row returned by %s is sent unchanged on %s exactly once before the next call", types.ExprString(next.Fun), ch.v.Name()))
	return ch
}

func c35UnitOfLit(f *c35Fn, lit *ast.FuncLit) *c35Unit {
	for _, u := range f.units() {
		if u.lit == lit {
			return u
		}
	}
	return nil
}

func (f *c35Fn) p4Batcher(rowCh *c35Chan) {
	c := f.c
	s := rowCh.receiver
	skey := f.name + "/" + s.name
	if len(s.sends) != 1 {
		c.Undecided("C35-P4", skey+"/row-stored-once", s.lit.Pos(), "the stage that receives the rows does not send on exactly one channel")
		return
	}
	resCh := f.chanOf(s.sends[0])
	// the receive: `row, ok := <-rowChan` as a select case
	var recvCC *ast.CommClause
	var recvAs *ast.AssignStmt
	ast.Inspect(s.lit.Body, func(n ast.Node) bool {
		if cc, ok := n.(*ast.CommClause); ok && cc.Comm != nil {
			if as, ok := cc.Comm.(*ast.AssignStmt); ok && len(as.Lhs) == 2 {
				if r := c35CommRecv(as); r != nil && c35Obj(f.info, r.(*ast.UnaryExpr).X) == rowCh.v {
					recvCC, recvAs = cc, as
				}
			}
		}
		return true
	})
	if recvCC == nil {
		c.Undecided("C35-P4", skey+"/row-stored-once", s.lit.Pos(), "the rows are not received by a select case of the form `row, ok := <-"+rowCh.v.Name()+"`")
		return
	}
	rowVar, _ := c35Obj(f.info, recvAs.Lhs[0]).(*types.Var)
	okVar := c35Obj(f.info, recvAs.Lhs[1])
	// the batch variable: what is sent on the result channel
	var sendBatch *ast.SendStmt
	nsend := 0
	ast.Inspect(s.lit.Body, func(n ast.Node) bool {
		if sd, ok := n.(*ast.SendStmt); ok && c35Obj(f.info, sd.Chan) == resCh.v {
			sendBatch = sd
			nsend++
		}
		return true
	})
	batch, _ := c35Obj(f.info, sendBatch.Value).(*types.Var)
	if nsend != 1 || batch == nil || rowVar == nil || okVar == nil {
		c.Undecided("C35-P4", skey+"/row-stored-once", s.lit.Pos(), "the batch sent on "+resCh.v.Name()+" is not a single variable sent at a single place")
		return
	}
	f.batchVar = batch
	// conversion: out, err := conv(..., row, ...)
	var convAs *ast.AssignStmt
	var outVar *types.Var
	ast.Inspect(recvCC, func(n ast.Node) bool {
		as, ok := n.(*ast.AssignStmt)
		if !ok || len(as.Rhs) != 1 || len(as.Lhs) != 2 {
			return true
		}
		call, ok := ast.Unparen(as.Rhs[0]).(*ast.CallExpr)
		if !ok || !c35LastIsError(f.info.TypeOf(call)) {
			return true
		}
		for _, a := range call.Args {
			if c35Obj(f.info, a) == rowVar && convAs == nil {
				convAs = as
				outVar, _ = c35Obj(f.info, as.Lhs[0]).(*types.Var)
			}
		}
		return true
	})
	if convAs == nil || outVar == nil {
		c.Bad("C35-P4", skey+"/row-stored-once", recvCC.Pos(), fmt.Sprintf("%s/%s: no conversion call takes the received row %s and binds its result", f.name, s.name, rowVar.Name()))
		return
	}
	// stores of the converted row into the batch, counter increments, alternative consumption
	var rowsField, counterField, storeShape string
	indexStore := false
	var indexExpr ast.Expr
	isStore := func(n ast.Node) bool {
		as, ok := n.(*ast.AssignStmt)
		if !ok || len(as.Lhs) != 1 || len(as.Rhs) != 1 {
			return false
		}
		fld, ok := f.rootedAt(as.Lhs[0], batch)
		if !ok || !f.mentions(as.Rhs[0], outVar) {
			return false
		}
		rowsField = fld
		if ix, ok := ast.Unparen(as.Lhs[0]).(*ast.IndexExpr); ok {
			indexStore, indexExpr = true, ix.Index
			// batch.rows[i] = out : the converted row itself
			if c35Obj(f.info, as.Rhs[0]) != outVar {
				storeShape = fmt.Sprintf("`%s` does not store the converted row %s itself", shortNode(f.c.P.Fset, as), outVar.Name())
			}
			return true
		}
		// batch.rows = append(batch.rows, out) : at the end, nothing else
		call, isCall := ast.Unparen(as.Rhs[0]).(*ast.CallExpr)
		okShape := isCall && IsBuiltinCall(f.info, call, "append") && len(call.Args) == 2 && !call.Ellipsis.IsValid() && c35Obj(f.info, call.Args[1]) == outVar
		if okShape {
			af, ok := f.rootedAt(call.Args[0], batch)
			okShape = ok && af == fld && types.ExprString(call.Args[0]) == types.ExprString(as.Lhs[0])
		}
		if !okShape {
			storeShape = fmt.Sprintf("`%s` is not `%s = append(%s, %s)`: the converted row is not appended unchanged at the end of the batch (order / content of the rows changes)", shortNode(f.c.P.Fset, as), types.ExprString(as.Lhs[0]), types.ExprString(as.Lhs[0]), outVar.Name())
		}
		return true
	}
	isInc := func(n ast.Node) bool {
		x, ok := n.(*ast.IncDecStmt)
		if !ok || x.Tok != token.INC {
			return false
		}
		fld, ok := f.rootedAt(x.X, batch)
		if ok {
			counterField = fld
		}
		return ok
	}
	isAlt := func(n ast.Node) bool {
		as, ok := n.(*ast.AssignStmt)
		if !ok {
			return false
		}
		for i, l := range as.Lhs {
			if c35Obj(f.info, l) == batch && i < len(as.Rhs) && f.mentions(as.Rhs[i], rowVar) {
				return true
			}
		}
		return false
	}
	ast.Inspect(recvCC, func(n ast.Node) bool { isStore(n); isInc(n); return true })
	// flush condition: if batch.counter ==/>= K { select { case resChan <- batch: ... } }
	var flushIf *ast.IfStmt
	var flushK constant.Value
	var flushOp token.Token
	for p := f.parents[sendBatch]; p != nil && p != ast.Node(s.lit); p = f.parents[p] {
		if is, ok := p.(*ast.IfStmt); ok {
			if be, ok := ast.Unparen(is.Cond).(*ast.BinaryExpr); ok {
				if fld, ok := f.rootedAt(be.X, batch); ok && fld == counterField && f.info.Types[be.Y].Value != nil {
					flushIf, flushK, flushOp = is, constant.ToInt(f.info.Types[be.Y].Value), be.Op
				}
			}
			break
		}
	}
	g := c.P.CFG(f.info, s.lit.Body)
	blk := f.caseBodyBlock(g, recvCC)
	if blk == nil {
		c.Undecided("C35-P4", skey+"/row-stored-once", recvCC.Pos(), "receive case not found in the control-flow graph")
		return
	}
	facts := map[types.Object]c35Fact{okVar: c35BoolTrue}
	comms := c35CommStmts(s.lit.Body)
	unit := c35UnitOfLit(f, s.lit)
	why := ""
	path := pathExplore(g, CFGPoint{blk, -1}, c35Count{},
		func(n ast.Node, st c35Count) (c35Count, pathAct) {
			if n == ast.Node(recvAs) { // next iteration
				switch {
				case st.alt == 1 && st.a == 0 && st.b == 0:
				case st.alt == 0 && st.a == 1 && st.b == 1 && (flushIf == nil || st.chk):
				default:
					why = fmt.Sprintf("the next row is received after %d stores of the converted row and %d increments of %s.%s (want exactly 1 and 1%s)", st.a, st.b, batch.Name(), counterField,
						map[bool]string{true: ", followed by the flush test", false: ""}[flushIf != nil && !st.chk && st.a == 1 && st.b == 1])
					return st, pathBad
				}
				return st, pathStop
			}
			if sm, ok := n.(ast.Stmt); ok && comms[sm] != nil {
				return st, pathGo
			}
			if flushIf != nil && n == ast.Node(flushIf.Cond) {
				st.chk = st.a == 1 && st.b == 1
			}
			switch {
			case isAlt(n):
				st.alt = c35Sat(st.alt)
			case isStore(n):
				if st.b > 0 {
					st.order = true
				}
				st.a = c35Sat(st.a)
			case isInc(n):
				st.b = c35Sat(st.b)
			}
			if indexStore && st.order {
				why = fmt.Sprintf("%s.%s is incremented before the row is stored at index %s: slot 0 stays empty and the last row of a batch is out of range", batch.Name(), counterField, types.ExprString(indexExpr))
				return st, pathBad
			}
			if st.a == 2 || st.b == 2 || st.alt == 2 {
				why = "the row is stored or counted twice"
				return st, pathBad
			}
			if ret, ok := n.(*ast.ReturnStmt); ok && st.a == 0 && st.alt == 0 {
				if k, _, _ := unit.retErr(ret); k == c35RetNil {
					why = "the stage returns a nil error without having stored the row it received"
					return st, pathBad
				}
			}
			return st, pathGo
		},
		func(b *cfg.Block, succ int, st c35Count) (c35Count, bool) {
			if !c35EdgeOK(f.info, b, succ, facts) {
				return st, false
			}
			if nb := b.Succs[succ]; nb.Kind == cfg.KindSelectCaseBody && f.isGroupDoneClause(nb.Stmt.(*ast.CommClause)) {
				return st, false
			}
			return st, true
		}, nil)
	rkey := skey + "/row-stored-once"
	switch {
	case path != nil:
		c.Bad("C35-P4", rkey, recvCC.Pos(), fmt.Sprintf("%s/%s: after receiving a row, %s: rows are lost, duplicated or miscounted", f.name, s.name, why), c.P.DescribePath(path)...)
	case storeShape != "":
		c.Bad("C35-P4", rkey, recvCC.Pos(), fmt.Sprintf("%s/%s: %s", f.name, s.name, storeShape))
	case rowsField == "" || counterField == "":
		c.Bad("C35-P4", rkey, recvCC.Pos(), fmt.Sprintf("%s/%s: the converted row %s is never stored into the batch %s, or no field of it counts the rows", f.name, s.name, outVar.Name(), batch.Name()))
	default:
		c.Ok("C35-P4", rkey, recvCC.Pos(), fmt.Sprintf("each received row: %s := %s(…%s…), one store into %s.%s, one %s.%s++", outVar.Name(), types.ExprString(convAs.Rhs[0].(*ast.CallExpr).Fun), rowVar.Name(), batch.Name(), rowsField, batch.Name(), counterField))
	}
	// flush
	fkey := f.name + "/batch/flush"
	switch {
	case flushIf == nil:
		c.Bad("C35-P4", fkey, sendBatch.Pos(), fmt.Sprintf("%s/%s: the send of the batch on %s is not under `if %s.%s == K` with a constant K", f.name, s.name, resCh.v.Name(), batch.Name(), counterField))
	case flushOp != token.EQL && flushOp != token.GEQ && !(flushOp == token.GTR && !indexStore):
		c.Bad("C35-P4", fkey, flushIf.Pos(), fmt.Sprintf("%s/%s: the flush test `%s` never fires at the batch size", f.name, s.name, types.ExprString(flushIf.Cond)))
	case constant.Sign(flushK) <= 0:
		c.Bad("C35-P4", fkey, flushIf.Pos(), f.name+": flush constant is not positive")
	default:
		c.Ok("C35-P4", fkey, flushIf.Pos(), fmt.Sprintf("batch flushed under `%s` (K = %s)", types.ExprString(flushIf.Cond), flushK))
	}
	// allocation / store / truncate discipline
	f.p4Alloc(s, batch, rowsField, counterField, indexStore, indexExpr, flushK)
	// overwrites of the batch variable
	f.p4Overwrites(s, batch, resCh, sendBatch)
	// final batch
	f.p4Final(batch, rowsField, counterField, indexStore)
}

func (f *c35Fn) p4Alloc(s *c35Stage, batch *types.Var, rowsField, counterField string, indexStore bool, indexExpr ast.Expr, flushK constant.Value) {
	c := f.c
	key := f.name + "/batch/alloc-store"
	// allocation: batch = &T{ rowsField: make(X, len[, cap]) }
	var mk *ast.CallExpr
	ast.Inspect(f.fd.Body, func(n ast.Node) bool {
		as, ok := n.(*ast.AssignStmt)
		if !ok || len(as.Lhs) != 1 || c35Obj(f.info, as.Lhs[0]) != batch {
			return true
		}
		ast.Inspect(as.Rhs[0], func(m ast.Node) bool {
			if kv, ok := m.(*ast.KeyValueExpr); ok {
				if id, ok := kv.Key.(*ast.Ident); ok && id.Name == rowsField {
					if call, ok := ast.Unparen(kv.Value).(*ast.CallExpr); ok && IsBuiltinCall(f.info, call, "make") {
						mk = call
					}
				}
			}
			return true
		})
		return true
	})
	if rowsField == "" {
		return
	}
	if mk == nil || len(mk.Args) < 2 {
		c.Bad("C35-P4", key, batch.Pos(), fmt.Sprintf("%s: no allocation `%s = &T{%s: make(…)}` of the batch's row slice was found", f.name, batch.Name(), rowsField))
		return
	}
	lenV := f.info.Types[mk.Args[1]].Value
	if lenV == nil {
		c.Bad("C35-P4", key, mk.Pos(), f.name+": the length of the batch's row slice is not a constant")
		return
	}
	lenV = constant.ToInt(lenV)
	switch {
	case !indexStore && constant.Sign(lenV) != 0:
		c.Bad("C35-P4", key, mk.Pos(), fmt.Sprintf("%s: rows are appended to %s.%s, which is allocated with length %s: every batch starts with %s empty rows", f.name, batch.Name(), rowsField, lenV, lenV))
	case indexStore && (func() bool { fld, ok := f.rootedAt(indexExpr, batch); return !ok || fld != counterField })():
		c.Bad("C35-P4", key, indexExpr.Pos(), fmt.Sprintf("%s: rows are stored at index `%s`, which is not the row counter %s.%s", f.name, types.ExprString(indexExpr), batch.Name(), counterField))
	case indexStore && (flushK == nil || !constant.Compare(lenV, token.EQL, flushK)):
		c.Bad("C35-P4", key, mk.Pos(), fmt.Sprintf("%s: rows are stored by index into %s.%s of length %s but the batch is flushed at %v rows: a longer slice sends empty rows to the client, a shorter one indexes out of range", f.name, batch.Name(), rowsField, lenV, flushK))
	default:
		how := "append into a zero-length slice"
		if indexStore {
			how = fmt.Sprintf("index store at %s into a slice of the flush length %s", types.ExprString(indexExpr), lenV)
		}
		c.Ok("C35-P4", key, mk.Pos(), how)
	}
}

func (f *c35Fn) p4Overwrites(s *c35Stage, batch *types.Var, resCh *c35Chan, sendBatch *ast.SendStmt) {
	c := f.c
	sg := c.P.CFG(f.info, s.lit.Body)
	facts := map[types.Object]c35Fact{batch: c35NonNilNotEOF} // a batch that rows were stored into is not nil
	// unsent(as): a path from a row store to the assignment that does not enter the sending case
	unsent := func(as *ast.AssignStmt) []ast.Node {
		for _, b := range sg.Blocks {
			for i, nd := range b.Nodes {
				if !f.isBatchStore(nd, batch) {
					continue
				}
				p := pathExplore(sg, CFGPoint{b, i}, struct{}{},
					func(x ast.Node, z struct{}) (struct{}, pathAct) {
						if x == ast.Node(as) {
							return z, pathBad
						}
						return z, pathGo
					},
					func(bb *cfg.Block, succ int, z struct{}) (struct{}, bool) {
						nb := bb.Succs[succ]
						if nb.Kind == cfg.KindSelectCaseBody && nb.Stmt.(*ast.CommClause).Comm == ast.Stmt(sendBatch) {
							return z, false // the batch has been sent
						}
						return z, c35EdgeOK(f.info, bb, succ, facts)
					}, nil)
				if p != nil {
					return append([]ast.Node{nd}, p...)
				}
			}
		}
		return nil
	}
	ast.Inspect(f.fd.Body, func(n ast.Node) bool {
		as, ok := n.(*ast.AssignStmt)
		if !ok {
			return true
		}
		for i, l := range as.Lhs {
			if c35Obj(f.info, l) != batch {
				continue
			}
			var rhs ast.Expr
			if len(as.Rhs) == len(as.Lhs) {
				rhs = as.Rhs[i]
			} else {
				rhs = as.Rhs[0]
			}
			txt := types.ExprString(rhs)
			if call, ok := ast.Unparen(rhs).(*ast.CallExpr); ok {
				txt = types.ExprString(call.Fun) + "(…)"
			} else if u, ok := ast.Unparen(rhs).(*ast.UnaryExpr); ok && u.Op == token.AND {
				txt = "&" + strings.SplitN(types.ExprString(u.X), "{", 2)[0] + "{…}"
			}
			key := f.name + "/batch/assign " + batch.Name() + " = " + txt
			if f.stageOf(as) != s || f.unitOf(as) != s.lit {
				c.Bad("C35-P4", key, as.Pos(), fmt.Sprintf("%s: the batch %s is assigned outside the batching stage %s (the stage owns it until group.Wait() has returned)", f.name, batch.Name(), s.name))
				continue
			}
			p := unsent(as)
			if p == nil {
				c.Ok("C35-P4", key, as.Pos(), "reached only when the batch is empty or has just been sent")
				continue
			}
			if f.exc("C35-P4", key, as.Pos()) {
				continue
			}
			c.Bad("C35-P4", key, as.Pos(), fmt.Sprintf("%s: the batch %s is overwritten on a path on which rows were stored into it and it was not sent on %s: those rows never reach the client", f.name, batch.Name(), resCh.v.Name()), c.P.DescribePath(p)...)
		}
		return true
	})
}

// isBatchStore: a statement that puts something into the batch (field store through the batch variable).
func (f *c35Fn) isBatchStore(n ast.Node, batch *types.Var) bool {
	as, ok := n.(*ast.AssignStmt)
	if !ok {
		return false
	}
	for _, l := range as.Lhs {
		if _, ok := f.rootedAt(l, batch); ok {
			return true
		}
	}
	return false
}

func (f *c35Fn) p4Final(batch *types.Var, rowsField, counterField string, indexStore bool) {
	c := f.c
	key := f.name + "/batch/final-returned"
	top := f.units()[0]
	g := c.P.CFG(f.info, f.fd.Body)
	// the group Wait
	var waitAs ast.Node
	var waitErr types.Object
	inspectNoLit(f.fd.Body, func(n ast.Node) bool {
		if as, ok := n.(*ast.AssignStmt); ok && len(as.Rhs) == 1 && len(as.Lhs) == 1 {
			if call, ok := ast.Unparen(as.Rhs[0]).(*ast.CallExpr); ok && f.isMethodCallOn(call, f.groupVar, "Wait") {
				waitAs, waitErr = as, c35Obj(f.info, as.Lhs[0])
			}
		}
		return true
	})
	if waitAs == nil || waitErr == nil {
		c.Undecided("C35-P4", key, f.fd.Pos(), "`err := group.Wait()` not found in the pipeline function")
		return
	}
	pt, ok := FindNode(g, waitAs)
	if !ok {
		c.Undecided("C35-P4", key, waitAs.Pos(), "group.Wait unreachable")
		return
	}
	// success returns: reachable from Wait with a nil error
	facts := map[types.Object]c35Fact{waitErr: c35IsNil}
	isTrim := func(n ast.Node) bool {
		as, ok := n.(*ast.AssignStmt)
		if !ok || len(as.Lhs) != 1 || len(as.Rhs) != 1 {
			return false
		}
		lf, ok1 := f.rootedAt(as.Lhs[0], batch)
		sl, ok2 := ast.Unparen(as.Rhs[0]).(*ast.SliceExpr)
		if !ok1 || !ok2 || lf != rowsField || sl.Low != nil || sl.High == nil {
			return false
		}
		rf, ok3 := f.rootedAt(sl.X, batch)
		hf, ok4 := f.rootedAt(sl.High, batch)
		return ok3 && ok4 && rf == rowsField && hf == counterField
	}
	why := ""
	nret := 0
	path := pathExplore(g, pt, c35Count{},
		func(n ast.Node, st c35Count) (c35Count, pathAct) {
			if isTrim(n) {
				st.chk = true
			}
			if as, ok := n.(*ast.AssignStmt); ok {
				for _, l := range as.Lhs {
					if c35Obj(f.info, l) == batch {
						why = "the batch variable is overwritten after the stages have finished"
						return st, pathBad
					}
				}
			}
			if ret, ok := n.(*ast.ReturnStmt); ok {
				k, o, _ := top.retErr(ret)
				if k == c35RetNil || (k == c35RetIdent && o == waitErr) {
					nret++
					if len(ret.Results) == 0 || c35Obj(f.info, ret.Results[0]) != batch {
						why = fmt.Sprintf("the success return does not return the batch variable %s: the rows of the final, partially filled batch never reach the client", batch.Name())
						return st, pathBad
					}
					if indexStore && !st.chk {
						why = fmt.Sprintf("the success return is reached without `%s.%s = %s.%s[:%s.%s]`: the slice has the full batch length, so the client receives empty rows after the last real one", batch.Name(), rowsField, batch.Name(), rowsField, batch.Name(), counterField)
						return st, pathBad
					}
				}
				return st, pathStop
			}
			return st, pathGo
		},
		func(b *cfg.Block, succ int, st c35Count) (c35Count, bool) { return st, c35EdgeOK(f.info, b, succ, facts) }, nil)
	if path != nil {
		c.Bad("C35-P4", key, waitAs.Pos(), f.name+": "+why, c.P.DescribePath(path)...)
		return
	}
	if nret == 0 {
		c.Bad("C35-P4", key, waitAs.Pos(), f.name+": no success return is reachable after group.Wait()")
		return
	}
	// no success return before the Wait
	early := PathAvoiding(g, EntryPoint(g), func(n ast.Node) bool { return n == waitAs }, func(n ast.Node) bool {
		ret, ok := n.(*ast.ReturnStmt)
		if !ok {
			return false
		}
		k, _, _ := top.retErr(ret)
		return k == c35RetNil
	}, nil)
	if early != nil {
		c.Bad("C35-P4", key, waitAs.Pos(), f.name+": a nil-error return is reachable before group.Wait(): the batch is read while the stages are still filling it", c.P.DescribePath(early)...)
		return
	}
	c.Ok("C35-P4", key, waitAs.Pos(), fmt.Sprintf("after group.Wait() succeeded the function returns the batch variable %s%s", batch.Name(), map[bool]string{true: " truncated to its counter", false: ""}[indexStore]))
}

// ---- W1 and the processed flag (inside a pipeline) ----------------------------------------------------------

func (f *c35Fn) ruleW1() {
	c := f.c
	key := f.name + "/callback-target"
	if f.cbVar == nil {
		c.Undecided("C35-W1", key, f.fd.Pos(), "no callback parameter (func … error) found")
		return
	}
	var assigns []*ast.AssignStmt
	ast.Inspect(f.fd.Body, func(n ast.Node) bool {
		if as, ok := n.(*ast.AssignStmt); ok {
			for _, l := range as.Lhs {
				if c35Obj(f.info, l) == f.cbVar {
					assigns = append(assigns, as)
				}
			}
		}
		return true
	})
	// the delivering stage calls the callback variable
	delivered := false
	for _, s := range f.stages {
		if f.containsCall(s.lit.Body, f.isCallbackCall) {
			delivered = true
		}
	}
	if !delivered {
		c.Bad("C35-W1", key, f.fd.Pos(), f.name+": no stage calls the caller's callback: full batches are never delivered")
		return
	}
	if len(assigns) == 0 {
		c.Ok("C35-W1", key, f.cbVar.Pos(), "the callback parameter is never reassigned")
		return
	}
	g := c.P.CFG(f.info, f.fd.Body)
	for _, as := range assigns {
		if len(as.Lhs) != 1 || len(as.Rhs) != 1 || f.unitOf(as) != nil {
			c.Bad("C35-W1", key, as.Pos(), f.name+": the callback variable is reassigned in a form that is not `callback = func(…) error {…}` in the function body")
			return
		}
		lit, ok := ast.Unparen(as.Rhs[0]).(*ast.FuncLit)
		if !ok {
			c.Bad("C35-W1", key, as.Pos(), f.name+": the callback variable is replaced by something that is not a wrapper literal: the caller's callback (the client connection) is no longer what the delivering stage invokes")
			return
		}
		if f.mentions(lit.Body, f.cbVar) {
			c.Bad("C35-W1", key, as.Pos(), fmt.Sprintf("%s: the wrapper stored in %s refers to %s itself: a closure captures the variable, not its old value, so the wrapper calls itself (unbounded recursion, fatal stack overflow) and the caller's callback is never reached. Save the old value in another variable first", f.name, f.cbVar.Name(), f.cbVar.Name()))
			return
		}
		// saved copies: v := callback, executed before the reassignment on every path
		saved := map[types.Object]bool{}
		inspectNoLit(f.fd.Body, func(n ast.Node) bool {
			if a2, ok := n.(*ast.AssignStmt); ok && len(a2.Lhs) == 1 && len(a2.Rhs) == 1 && c35Obj(f.info, a2.Rhs[0]) == f.cbVar {
				if v := c35Obj(f.info, a2.Lhs[0]); v != nil && v != f.cbVar {
					a2 := a2
					if p := PathAvoiding(g, EntryPoint(g), func(m ast.Node) bool { return m == ast.Node(a2) }, func(m ast.Node) bool { return m == ast.Node(as) }, nil); p == nil {
						saved[v] = true
					}
				}
			}
			return true
		})
		// parameters of the wrapper
		var params []types.Object
		for _, fl := range lit.Type.Params.List {
			for _, n := range fl.Names {
				params = append(params, f.info.Defs[n])
			}
		}
		isFwd := func(n ast.Node) (fwd, wrongArgs bool) {
			inspectNoLit(n, func(m ast.Node) bool {
				call, ok := m.(*ast.CallExpr)
				if !ok || !saved[c35Obj(f.info, call.Fun)] {
					return true
				}
				fwd = true
				if len(call.Args) != len(params) {
					wrongArgs = true
					return true
				}
				for i, a := range call.Args {
					if c35Obj(f.info, a) != params[i] {
						wrongArgs = true
					}
				}
				return true
			})
			return
		}
		lg := c.P.CFG(f.info, lit.Body)
		wu := c35UnitOfLit(f, lit)
		why := ""
		path := pathExplore(lg, EntryPoint(lg), c35Count{},
			func(n ast.Node, st c35Count) (c35Count, pathAct) {
				if ds, ok := n.(*ast.DeferStmt); ok {
					if fw, _ := isFwd(ds.Call); fw {
						why = "the saved callback is deferred"
						return st, pathBad
					}
					return st, pathGo
				}
				fw, wrong := isFwd(n)
				if wrong {
					why = "the wrapper does not forward its own arguments unchanged"
					return st, pathBad
				}
				if fw {
					st.a = c35Sat(st.a)
				}
				if st.a == 2 {
					why = "the saved callback is invoked twice (the batch is sent to the client twice)"
					return st, pathBad
				}
				return st, pathGo
			}, nil,
			func(st c35Count, ret *ast.ReturnStmt) bool {
				if st.a == 1 {
					return false
				}
				// not forwarded: fine only when the wrapper reports an error instead
				if ret != nil {
					if k, _, _ := wu.retErr(ret); k == c35RetOther || k == c35RetIdent {
						return false
					}
				}
				why = "the wrapper can return a nil error without having invoked the saved callback (the batch is not sent)"
				return true
			})
		if path != nil {
			c.Bad("C35-W1", key, as.Pos(), fmt.Sprintf("%s: wrapper stored in %s: %s", f.name, f.cbVar.Name(), why), c.P.DescribePath(path)...)
			return
		}
	}
	c.Ok("C35-W1", key, assigns[0].Pos(), "reassigned only to a wrapper that forwards its arguments exactly once to a saved copy of the caller's callback")
}

// ruleFlag: the `processed at least one batch` result is set only together with a callback call.
func (f *c35Fn) ruleFlag() {
	c := f.c
	key := f.name + "/processed-flag"
	top := f.units()[0]
	if top.nres != 3 {
		return
	}
	// the flag: the variable returned in the middle position of the success return
	var flag *types.Var
	inspectNoLit(f.fd.Body, func(n ast.Node) bool {
		if ret, ok := n.(*ast.ReturnStmt); ok && len(ret.Results) == 3 {
			if v, ok := c35Obj(f.info, ret.Results[1]).(*types.Var); ok {
				flag = v
			}
		}
		return true
	})
	if flag == nil {
		c.Undecided("C35-P6", key, f.fd.Pos(), "the pipeline's second result is not a variable on any return")
		return
	}
	n := 0
	bad := ""
	var badPos token.Pos
	ast.Inspect(f.fd.Body, func(m ast.Node) bool {
		as, ok := m.(*ast.AssignStmt)
		if !ok {
			return true
		}
		for i, l := range as.Lhs {
			if c35Obj(f.info, l) != flag {
				continue
			}
			n++
			s := f.stageOf(as)
			if s == nil || f.unitOf(as) != s.lit || len(as.Rhs) != len(as.Lhs) {
				bad, badPos = "it is assigned outside a stage", as.Pos()
				continue
			}
			if tv := f.info.Types[as.Rhs[i]]; tv.Value == nil || tv.Value.Kind() != constant.Bool {
				bad, badPos = "it is assigned a non-constant", as.Pos()
				continue
			} else if !constant.BoolVal(tv.Value) {
				continue // = false is harmless (the final callback is made)
			}
			sg := c.P.CFG(f.info, s.lit.Body)
			pt, ok := FindNode(sg, as)
			if !ok {
				continue
			}
			comms := c35CommStmts(s.lit.Body)
			hasCb := func(x ast.Node) bool { return f.containsCallNoLit(x, f.isCallbackCall) }
			// every path from the assignment reaches a callback call before the next receive or an exit
			p := PathAvoiding(sg, pt, hasCb, func(x ast.Node) bool {
				if st, ok := x.(ast.Stmt); ok && comms[st] != nil {
					return true
				}
				if ret, isRet := x.(*ast.ReturnStmt); isRet {
					k, _, _ := c35UnitOfLit(f, s.lit).retErr(ret)
					return k == c35RetNil // an error return fails the statement anyway
				}
				return false
			}, nil)
			if p != nil {
				// or the callback call precedes it on every path from the stage entry
				if q := PathAvoiding(sg, EntryPoint(sg), hasCb, func(x ast.Node) bool { return x == ast.Node(as) }, nil); q != nil {
					bad, badPos = "it is set to true on a path on which the callback is not invoked", as.Pos()
				}
			}
		}
		return true
	})
	if bad != "" {
		c.Bad("C35-P6", key, badPos, fmt.Sprintf("%s: the flag %s tells doQuery that the client has already received a batch, so that an empty final result is not sent again; %s: the client may receive no result set at all", f.name, flag.Name(), bad))
		return
	}
	c.Ok("C35-P6", key, flag.Pos(), fmt.Sprintf("%s is set (%d place) only next to a callback call", flag.Name(), n))
}

// ruleDeliver: every batch received by the delivering stage is passed to the callback exactly once.
func (f *c35Fn) ruleDeliver() {
	c := f.c
	if f.cbVar == nil {
		return
	}
	for _, s := range f.stages {
		if !f.containsCall(s.lit.Body, f.isCallbackCall) {
			continue
		}
		key := f.name + "/" + s.name + "/batch-delivered-once"
		var recvCC *ast.CommClause
		var recvAs *ast.AssignStmt
		nrecv := 0
		ast.Inspect(s.lit.Body, func(n ast.Node) bool {
			if cc, ok := n.(*ast.CommClause); ok && cc.Comm != nil {
				if as, ok := cc.Comm.(*ast.AssignStmt); ok && len(as.Lhs) == 2 {
					if r := c35CommRecv(as); r != nil {
						if v, ok := c35Obj(f.info, r.(*ast.UnaryExpr).X).(*types.Var); ok && f.chanOf(v) != nil {
							recvCC, recvAs = cc, as
							nrecv++
						}
					}
				}
			}
			return true
		})
		if nrecv != 1 {
			c.Undecided("C35-P6", key, s.lit.Pos(), "the delivering stage does not receive its batches by exactly one select case `r, ok := <-chan`")
			continue
		}
		rVar, okVar := c35Obj(f.info, recvAs.Lhs[0]), c35Obj(f.info, recvAs.Lhs[1])
		g := c.P.CFG(f.info, s.lit.Body)
		blk := f.caseBodyBlock(g, recvCC)
		if blk == nil || rVar == nil || okVar == nil {
			c.Undecided("C35-P6", key, recvCC.Pos(), "receive case not found in the control-flow graph")
			continue
		}
		facts := map[types.Object]c35Fact{okVar: c35BoolTrue}
		comms := c35CommStmts(s.lit.Body)
		unit := c35UnitOfLit(f, s.lit)
		why := ""
		path := pathExplore(g, CFGPoint{blk, -1}, c35Count{},
			func(n ast.Node, st c35Count) (c35Count, pathAct) {
				if n == ast.Node(recvAs) {
					if st.a != 1 {
						why = fmt.Sprintf("the next batch is received after %d callback calls for this one (want exactly 1)", st.a)
						return st, pathBad
					}
					return st, pathStop
				}
				if sm, ok := n.(ast.Stmt); ok && comms[sm] != nil {
					return st, pathGo
				}
				wrong := false
				inspectNoLit(n, func(m ast.Node) bool {
					if call, ok := m.(*ast.CallExpr); ok && f.isCallbackCall(call) {
						st.a = c35Sat(st.a)
						if len(call.Args) == 0 || c35Obj(f.info, call.Args[0]) != rVar {
							wrong = true
						}
					}
					return true
				})
				if wrong {
					why = fmt.Sprintf("the callback is not invoked with the received batch %s", rVar.Name())
					return st, pathBad
				}
				if st.a == 2 {
					why = "the batch is passed to the callback twice (the client receives 128 rows twice)"
					return st, pathBad
				}
				if ret, ok := n.(*ast.ReturnStmt); ok && st.a == 0 {
					if k, _, _ := unit.retErr(ret); k == c35RetNil {
						why = "the stage returns a nil error without having delivered the batch it received"
						return st, pathBad
					}
				}
				return st, pathGo
			},
			func(b *cfg.Block, succ int, st c35Count) (c35Count, bool) {
				if !c35EdgeOK(f.info, b, succ, facts) {
					return st, false
				}
				if nb := b.Succs[succ]; nb.Kind == cfg.KindSelectCaseBody && f.isGroupDoneClause(nb.Stmt.(*ast.CommClause)) {
					return st, false
				}
				return st, true
			}, nil)
		if path != nil {
			c.Bad("C35-P6", key, recvCC.Pos(), fmt.Sprintf("%s/%s: after receiving a full batch, %s: rows are lost or duplicated at a batch boundary", f.name, s.name, why), c.P.DescribePath(path)...)
			continue
		}
		c.Ok("C35-P6", key, recvCC.Pos(), fmt.Sprintf("each received batch: exactly one %s(%s, …)", f.cbVar.Name(), rVar.Name()))
	}
}

// ruleColumns (C1): every result a family function builds carries the column metadata it was given.
func (f *c35Fn) ruleColumns() {
	c := f.c
	sig, _ := f.info.Defs[f.fd.Name].Type().(*types.Signature)
	if sig == nil || sig.Results().Len() == 0 {
		return
	}
	pt, ok := sig.Results().At(0).Type().(*types.Pointer)
	if !ok {
		return
	}
	st, ok := pt.Elem().Underlying().(*types.Struct)
	if !ok {
		return
	}
	// (parameter, field) pairs of identical slice type
	type pair struct {
		p     *types.Var
		field string
	}
	var pairs []pair
	for i := 0; i < sig.Params().Len(); i++ {
		p := sig.Params().At(i)
		if _, isSlice := p.Type().(*types.Slice); !isSlice {
			continue
		}
		for j := 0; j < st.NumFields(); j++ {
			if types.Identical(st.Field(j).Type(), p.Type()) {
				pairs = append(pairs, pair{p, st.Field(j).Name()})
			}
		}
	}
	if len(pairs) == 0 {
		return
	}
	ast.Inspect(f.fd.Body, func(n ast.Node) bool {
		cl, ok := n.(*ast.CompositeLit)
		if !ok || !types.Identical(f.info.TypeOf(cl), pt.Elem()) {
			return true
		}
		for _, pr := range pairs {
			key := f.name + "/" + types.ExprString(cl.Type) + "{" + pr.field + "}"
			found := false
			for _, e := range cl.Elts {
				if kv, ok := e.(*ast.KeyValueExpr); ok {
					if id, ok := kv.Key.(*ast.Ident); ok && id.Name == pr.field && c35Obj(f.info, kv.Value) == pr.p {
						found = true
					}
				}
			}
			if !found {
				c.Bad("C35-C1", key, cl.Pos(), fmt.Sprintf("%s: a %s is built without `%s: %s`: that result set reaches the client without the statement's column metadata", f.name, types.ExprString(cl.Type), pr.field, pr.p.Name()))
			} else {
				c.Ok("C35-C1", key, cl.Pos(), pr.field+": "+pr.p.Name())
			}
		}
		return true
	})
}

// ---- P6: the dispatcher --------------------------------------------------------------------------------

func (f *c35Fn) ruleP6(famCalls map[*types.Func][]*ast.CallExpr) {
	c := f.c
	key := f.name + "/final-callback"
	if f.cbVar == nil {
		c.Undecided("C35-P6", key, f.fd.Pos(), "the dispatcher has no callback parameter")
		return
	}
	top := f.units()[0]
	g := c.P.CFG(f.info, f.fd.Body)
	var resVar, flagVar, errVar types.Object
	var origins []*ast.AssignStmt
	fromFamily := map[*ast.AssignStmt]bool{}
	for _, calls := range famCalls {
		for _, call := range calls {
			as, ok := f.parent(call).(*ast.AssignStmt)
			if !ok || len(as.Rhs) != 1 || len(as.Lhs) < 2 {
				c.Undecided("C35-P6", key, call.Pos(), "a resultFor* call is not of the form `r[, flag], err = resultFor…(…)`")
				return
			}
			r, e := c35Obj(f.info, as.Lhs[0]), c35Obj(f.info, as.Lhs[len(as.Lhs)-1])
			if resVar == nil {
				resVar, errVar = r, e
			}
			if r != resVar || e != errVar || r == nil || e == nil {
				c.Bad("C35-P6", key, call.Pos(), f.name+": the resultFor* calls do not all store their result and error in the same variables")
				return
			}
			if len(as.Lhs) == 3 {
				fl := c35Obj(f.info, as.Lhs[1])
				if flagVar == nil {
					flagVar = fl
				}
				if fl != flagVar {
					c.Bad("C35-P6", key, call.Pos(), f.name+": the pipelines do not store their processed-flag in the same variable")
					return
				}
			}
			origins = append(origins, as)
			fromFamily[as] = true
		}
	}
	// flag source
	if flagVar != nil {
		fkey := f.name + "/processed-flag-source"
		bad := false
		ast.Inspect(f.fd.Body, func(n ast.Node) bool {
			if as, ok := n.(*ast.AssignStmt); ok && !fromFamily[as] {
				for _, l := range as.Lhs {
					if c35Obj(f.info, l) == flagVar {
						c.Bad("C35-P6", fkey, as.Pos(), fmt.Sprintf("%s: %s is written by something else than a pipeline's second result: when it is true without a callback having been made, an empty final result is never sent", f.name, flagVar.Name()))
						bad = true
					}
				}
			}
			return true
		})
		if !bad {
			c.Ok("C35-P6", fkey, flagVar.Pos(), flagVar.Name()+" is written only by the pipelines' second result")
		}
	}
	// A nil-error return that has not passed the result to the callback is legitimate only when the
	// client already got a batch and the final result is empty. Instead of matching the shape of the
	// guard, the paths are explored in the two worlds in which that is NOT the case — (A) the
	// processed flag is false, (B) result.RowsAffected != 0 — with every branch condition evaluated
	// three-valued under the world's facts: in neither world may such a return be reachable.
	rowsZero := func(e ast.Expr) c35Tri { // world B: `r.<field> == 0` is false, `r.<field> != 0` / `> 0` true
		be, ok := e.(*ast.BinaryExpr)
		if !ok {
			return c35Unknown
		}
		sel, ok := ast.Unparen(be.X).(*ast.SelectorExpr)
		if !ok || c35Obj(f.info, sel.X) != resVar {
			return c35Unknown
		}
		if t, ok := f.info.TypeOf(sel).Underlying().(*types.Basic); !ok || t.Info()&types.IsInteger == 0 {
			return c35Unknown
		}
		v := f.info.Types[be.Y].Value
		if v == nil || constant.Sign(constant.ToInt(v)) != 0 {
			return c35Unknown
		}
		switch be.Op {
		case token.EQL, token.LEQ:
			return c35False
		case token.NEQ, token.GTR:
			return c35True
		}
		return c35Unknown
	}
	type world struct {
		name string
		obj  map[types.Object]c35Fact
		ex   []func(ast.Expr) c35Tri
	}
	worlds := []world{{name: "the result has RowsAffected != 0", obj: map[types.Object]c35Fact{}, ex: []func(ast.Expr) c35Tri{rowsZero}}}
	if flagVar != nil {
		worlds = append(worlds, world{name: "no batch has been delivered yet (" + flagVar.Name() + " == false)", obj: map[types.Object]c35Fact{flagVar: c35BoolFalse}})
	} else {
		worlds = append(worlds, world{name: "no pipeline flag exists", obj: map[types.Object]c35Fact{}})
	}
	n := 0
	for _, as := range origins {
		pt, ok := FindNode(g, as)
		if !ok {
			continue
		}
		n++
		for _, w := range worlds {
			type st struct {
				calls int8
				alive bool
			}
			why := ""
			path := pathExplore(g, pt, st{0, true},
				func(nd ast.Node, s st) (st, pathAct) {
					if nd != ast.Node(as) && f.writesVar(nd, errVar) {
						s.alive = false
					}
					wrong := false
					ncb := 0
					inspectNoLit(nd, func(m ast.Node) bool {
						if call, ok := m.(*ast.CallExpr); ok && f.isCallbackCall(call) {
							ncb++
							if len(call.Args) == 0 || c35Obj(f.info, call.Args[0]) != resVar {
								wrong = true
							}
						}
						return true
					})
					if wrong {
						why = "the callback is invoked with something else than the result returned by resultFor*"
						return s, pathBad
					}
					for i := 0; i < ncb; i++ {
						s.calls = c35Sat(s.calls)
					}
					if s.calls >= 2 {
						why = "the callback can be invoked twice for the final result (the client receives the last rows twice)"
						return s, pathBad
					}
					if nd != ast.Node(as) && f.writesVar(nd, resVar) {
						why = "the result variable is overwritten before it is delivered"
						return s, pathBad
					}
					if ret, ok := nd.(*ast.ReturnStmt); ok {
						k, o, _ := top.retErr(ret)
						isNil := k == c35RetNil || (k == c35RetIdent && o == errVar && s.alive)
						if isNil && s.calls == 0 {
							why = fmt.Sprintf("when %s, doQuery can return a nil error without having passed the result to the callback: the client never receives the (final) result", w.name)
							return s, pathBad
						}
						return s, pathStop
					}
					return s, pathGo
				},
				func(b *cfg.Block, succ int, s st) (st, bool) {
					obj := map[types.Object]c35Fact{}
					for k, v := range w.obj {
						obj[k] = v
					}
					if s.alive {
						obj[errVar] = c35IsNil
					}
					return s, c35EdgeOK(f.info, b, succ, obj, w.ex...)
				}, nil)
			if path != nil {
				c.Bad("C35-P6", key, as.Pos(), f.name+": "+why, c.P.DescribePath(path)...)
				return
			}
		}
	}
	if n == 0 {
		c.Undecided("C35-P6", key, f.fd.Pos(), "no resultFor* call found in the dispatcher's control-flow graph")
		return
	}
	c.Ok("C35-P6", key, f.fd.Pos(), fmt.Sprintf("after each of the %d resultFor* calls: at most one callback(%s, …); a nil-error return without it is infeasible when %s.RowsAffected != 0 and when the processed flag is false", n, resVar.Name(), resVar.Name()))
}
