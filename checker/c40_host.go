package main

import (
	"fmt"
	"go/ast"
	"go/token"
	"go/types"
	"strconv"
)

// C40-H1 (account selection depends on the client host): in the account lookup (GetUser) an
// account is handed back only under a condition that constrains the client's host. The
// acceptance condition of every `return <candidate>` is put in disjunctive form as parsed
// (|| binds weaker than &&, parentheses respected); every disjunct must mention the client host
// - the host parameter or a local copied from it - or be the wildcard test (a comparison of a
// candidate field with the literal "%"). A disjunct that looks only at the stored account
// accepts that account for a client connecting from anywhere. The exact-key lookup that
// precedes the scan must carry the client host in its key.
//
// hostParam is the name of the lookup's client-host parameter; candidates are range variables
// and values obtained from calls inside the function whose type is the function's result type.

func runC40Host(c *Ctx, rel, getUserName, hostParam string) {
	const rule = "C40-H1"
	pk, fd := c.P.FuncDecl(rel, getUserName)
	if pk == nil || fd == nil || fd.Body == nil {
		c.Undecided(rule, getUserName, 0, "lookup function not found")
		return
	}
	info := pk.TypesInfo
	// client-host variables: the parameter and locals assigned from it (x := host)
	hostVars := map[types.Object]bool{}
	for _, f := range fd.Type.Params.List {
		for _, n := range f.Names {
			if n.Name == hostParam {
				hostVars[info.Defs[n]] = true
			}
		}
	}
	if len(hostVars) == 0 {
		c.Undecided(rule, getUserName+"/"+hostParam, fd.Pos(), "client-host parameter not found")
		return
	}
	for changed := true; changed; {
		changed = false
		ast.Inspect(fd.Body, func(n ast.Node) bool {
			as, ok := n.(*ast.AssignStmt)
			if !ok || len(as.Lhs) != len(as.Rhs) {
				return true
			}
			for i, r := range as.Rhs {
				if id := identOf(r); id != nil && hostVars[info.Uses[id]] {
					if l := identOf(as.Lhs[i]); l != nil {
						o := info.Defs[l]
						if o == nil {
							o = info.Uses[l]
						}
						if o != nil && !hostVars[o] {
							hostVars[o] = true
							changed = true
						}
					}
				}
			}
			return true
		})
	}
	mentionsHost := func(e ast.Node) bool {
		found := false
		ast.Inspect(e, func(n ast.Node) bool {
			if id, ok := n.(*ast.Ident); ok && hostVars[info.Uses[id]] {
				found = true
			}
			return !found
		})
		return found
	}
	isWildcard := func(e ast.Expr) bool {
		found := false
		ast.Inspect(e, func(n ast.Node) bool {
			be, ok := n.(*ast.BinaryExpr)
			if !ok || be.Op != token.EQL {
				return true
			}
			for _, side := range []ast.Expr{be.X, be.Y} {
				if tv, ok := info.Types[side]; ok && tv.Value != nil {
					if s, err := strconv.Unquote(tv.Value.ExactString()); err == nil && s == "%" {
						found = true
					}
				}
			}
			return !found
		})
		return found
	}
	var disjuncts func(e ast.Expr) []ast.Expr
	disjuncts = func(e ast.Expr) []ast.Expr {
		e = ast.Unparen(e)
		if be, ok := e.(*ast.BinaryExpr); ok && be.Op == token.LOR {
			return append(disjuncts(be.X), disjuncts(be.Y)...)
		}
		return []ast.Expr{e}
	}
	resT := fd.Type.Results
	if resT == nil || len(resT.List) == 0 {
		c.Undecided(rule, getUserName, fd.Pos(), "lookup has no result")
		return
	}
	// returns of a non-nil value, with the chain of enclosing if-conditions
	n := 0
	var walk func(stmts []ast.Stmt, conds []ast.Expr)
	walkStmt := func(s ast.Stmt, conds []ast.Expr) {}
	walkStmt = func(s ast.Stmt, conds []ast.Expr) {
		switch x := s.(type) {
		case *ast.BlockStmt:
			walk(x.List, conds)
		case *ast.IfStmt:
			walk(x.Body.List, append(append([]ast.Expr{}, conds...), x.Cond))
			if x.Else != nil {
				walkStmt(x.Else, conds) // the negated condition constrains nothing we rely on
			}
			if x.Init != nil {
				// `if u, ok := exactLookup(Key{Host: host}); ok { return u }`: the key must carry the client host
				if as, ok := x.Init.(*ast.AssignStmt); ok && len(as.Rhs) == 1 {
					if call, ok := ast.Unparen(as.Rhs[0]).(*ast.CallExpr); ok {
						returnsCand := false
						ast.Inspect(x.Body, func(m ast.Node) bool {
							if rs, ok := m.(*ast.ReturnStmt); ok && len(rs.Results) == 1 {
								if id := identOf(rs.Results[0]); id != nil {
									for _, l := range as.Lhs {
										if li := identOf(l); li != nil && info.Defs[li] != nil && info.Defs[li] == info.Uses[id] {
											returnsCand = true
										}
									}
								}
							}
							return true
						})
						if returnsCand {
							n++
							key := getUserName + "/exact-lookup"
							if mentionsHost(call) {
								c.Ok(rule, key, call.Pos(), "the exact-key lookup carries the client host")
							} else {
								c.Bad(rule, key, call.Pos(), "the exact-key account lookup does not use the client host: the account is returned for a client connecting from any host")
							}
						}
					}
				}
			}
		case *ast.ForStmt:
			walk(x.Body.List, conds)
		case *ast.RangeStmt:
			walk(x.Body.List, conds)
		case *ast.SwitchStmt:
			for _, cl := range x.Body.List {
				walk(cl.(*ast.CaseClause).Body, conds)
			}
		case *ast.ReturnStmt:
			if len(x.Results) != 1 {
				return
			}
			if tv, ok := info.Types[x.Results[0]]; ok && tv.IsNil() {
				return
			}
			if len(conds) == 0 {
				return
			}
			// the innermost condition decides which candidate is accepted
			cond := conds[len(conds)-1]
			if identOf(cond) != nil {
				return // `if u, ok := exactLookup(...); ok`: decided as the exact-key lookup above
			}
			for _, d := range disjuncts(cond) {
				n++
				key := fmt.Sprintf("%s/accept:%s", getUserName, types.ExprString(d))
				switch {
				case mentionsHost(d):
					c.Ok(rule, key, d.Pos(), "constrains the client host")
				case isWildcard(d):
					c.Ok(rule, key, d.Pos(), "wildcard account host")
				default:
					c.Bad(rule, key, d.Pos(), fmt.Sprintf("the acceptance disjunct `%s` does not mention the client host (%s) and is not the '%%' wildcard test: an account satisfying it is returned for a client connecting from any host", types.ExprString(d), hostParam))
				}
			}
		}
	}
	walk = func(stmts []ast.Stmt, conds []ast.Expr) {
		for _, s := range stmts {
			walkStmt(s, conds)
		}
	}
	walk(fd.Body.List, nil)
	if n == 0 {
		c.Undecided(rule, getUserName, fd.Pos(), "no accepting return found in the lookup")
	}
}
