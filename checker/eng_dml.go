package main

import (
	"go/ast"
	"go/token"
	"go/types"
	"sort"
	"strings"

	"golang.org/x/tools/go/cfg"
	"golang.org/x/tools/go/packages"
	"golang.org/x/tools/go/ssa"
)

// Shared helpers of the DML / statement-protocol family (C14–C21). Everything is prefixed
// `dml` to keep the package namespace clean.

// ---- stateful CFG path search ------------------------------------------------------------

// dmlVerdict is what a node callback tells the search.
type dmlVerdict int

const (
	dmlGo   dmlVerdict = iota // continue along the path
	dmlStop                   // the path is discharged here (obligation met, or path irrelevant)
	dmlHit                    // the path violates: report it
)

// dmlSearch walks the CFG forward from just after `from`, carrying a small integer state.
// node(n, st) is called for every CFG node in execution order and may change the state,
// discharge the path or report it. edge(b, succ, st) may prune or change state on the edge
// leaving block b through successor succ (nil = follow everything). atEnd(st) is asked when
// the path falls off the end of the function (nil = never a hit). A ReturnStmt node always
// terminates the path after node() has seen it. The result is one violating path (its last
// element is the node that reported dmlHit, or nil for the implicit return), or nil if there
// is none. visited is keyed by (block, state): the search is exact for finite states.
func dmlSearch(g *cfg.CFG, from CFGPoint, init int,
	node func(n ast.Node, st int) (int, dmlVerdict),
	edge func(b *cfg.Block, succ int, st int) (int, bool),
	atEnd func(st int) bool) []ast.Node {

	type key struct {
		b  *cfg.Block
		st int
	}
	visited := map[key]bool{}
	var walk func(b *cfg.Block, i int, st int, tr *trail) []ast.Node
	walk = func(b *cfg.Block, i int, st int, tr *trail) []ast.Node {
		for ; i < len(b.Nodes); i++ {
			n := b.Nodes[i]
			st2, v := node(n, st)
			switch v {
			case dmlStop:
				return nil
			case dmlHit:
				return tr.with(n)
			}
			st = st2
			if _, ok := n.(*ast.ReturnStmt); ok {
				return nil
			}
		}
		if len(b.Succs) == 0 {
			if atEnd != nil && isFallOffEnd(b) && atEnd(st) {
				return tr.with(nil)
			}
			return nil
		}
		var last ast.Node
		if len(b.Nodes) > 0 {
			last = b.Nodes[len(b.Nodes)-1]
		}
		for si, s := range b.Succs {
			st2 := st
			if edge != nil {
				var ok bool
				if st2, ok = edge(b, si, st); !ok {
					continue
				}
			}
			k := key{s, st2}
			if visited[k] {
				continue
			}
			visited[k] = true
			if r := walk(s, 0, st2, &trail{prev: tr, n: last, branch: si, nsucc: len(b.Succs)}); r != nil {
				return r
			}
		}
		return nil
	}
	return walk(from.B, from.I+1, init, nil)
}

// dmlCondEdge describes the comparison a two-way block ends in, seen from successor succ:
// (obj, "nil"|<full name of the compared package-level var, e.g. "io.EOF">, equal) meaning
// "on this edge obj ==/!= that value". ok is false when the block does not end in such a test.
func dmlCondEdge(info *types.Info, b *cfg.Block, succ int) (obj types.Object, what string, equal bool, ok bool) {
	if len(b.Nodes) == 0 || len(b.Succs) != 2 {
		return nil, "", false, false
	}
	e, isExpr := b.Nodes[len(b.Nodes)-1].(ast.Expr)
	if !isExpr {
		return nil, "", false, false
	}
	neg := false
	e = ast.Unparen(e)
	for {
		u, isU := e.(*ast.UnaryExpr)
		if !isU || u.Op != token.NOT {
			break
		}
		neg = !neg
		e = ast.Unparen(u.X)
	}
	be, isBin := e.(*ast.BinaryExpr)
	if !isBin || (be.Op != token.NEQ && be.Op != token.EQL) {
		return nil, "", false, false
	}
	classify := func(x ast.Expr) (string, bool) {
		if isNilIdent(info, x) {
			return "nil", true
		}
		if sel, isSel := ast.Unparen(x).(*ast.SelectorExpr); isSel {
			if v, isVar := info.Uses[sel.Sel].(*types.Var); isVar && v.Pkg() != nil && v.Parent() == v.Pkg().Scope() {
				return v.Pkg().Path() + "." + v.Name(), true
			}
		}
		return "", false
	}
	var id *ast.Ident
	if w, isK := classify(be.Y); isK {
		what = w
		id, _ = ast.Unparen(be.X).(*ast.Ident)
	} else if w, isK := classify(be.X); isK {
		what = w
		id, _ = ast.Unparen(be.Y).(*ast.Ident)
	}
	if id == nil {
		return nil, "", false, false
	}
	o := info.Uses[id]
	if o == nil {
		return nil, "", false, false
	}
	condTrue := succ == 0
	if neg {
		condTrue = !condTrue
	}
	equal = (be.Op == token.EQL) == condTrue
	return o, what, equal, true
}

// ---- small AST/type helpers ---------------------------------------------------------------

// dmlLookupIface resolves a named interface type "Name" in module package rel.
func dmlLookupIface(p *Prog, rel, name string) *types.Interface {
	pk := p.Pkg(rel)
	if pk == nil {
		return nil
	}
	tn, _ := pk.Types.Scope().Lookup(name).(*types.TypeName)
	if tn == nil {
		return nil
	}
	it, _ := tn.Type().Underlying().(*types.Interface)
	return it
}

// dmlImplements: T or *T implements iface.
func dmlImplements(t types.Type, iface *types.Interface) bool {
	if t == nil || iface == nil {
		return false
	}
	if types.Implements(t, iface) {
		return true
	}
	if _, isPtr := t.(*types.Pointer); !isPtr {
		if _, isIface := t.Underlying().(*types.Interface); !isIface {
			return types.Implements(types.NewPointer(t), iface)
		}
	}
	return false
}

// dmlNamedOf strips pointers and returns the named type (nil if none).
func dmlNamedOf(t types.Type) *types.Named {
	for {
		switch x := t.(type) {
		case *types.Pointer:
			t = x.Elem()
			continue
		case *types.Alias:
			t = types.Unalias(x)
			continue
		case *types.Named:
			return x
		}
		return nil
	}
}

// dmlRecvObj returns the receiver variable of a method declaration (nil for functions or
// anonymous receivers).
func dmlRecvObj(info *types.Info, fd *ast.FuncDecl) types.Object {
	if fd.Recv == nil || len(fd.Recv.List) == 0 || len(fd.Recv.List[0].Names) == 0 {
		return nil
	}
	return info.Defs[fd.Recv.List[0].Names[0]]
}

// dmlRecvNamed returns the named receiver type of a method declaration.
func dmlRecvNamed(info *types.Info, fd *ast.FuncDecl) *types.Named {
	fn, _ := info.Defs[fd.Name].(*types.Func)
	if fn == nil {
		return nil
	}
	sig := fn.Type().(*types.Signature)
	if sig.Recv() == nil {
		return nil
	}
	return dmlNamedOf(sig.Recv().Type())
}

// dmlBaseIdent walks selectors / index / star / paren / type-assert down to the base identifier.
func dmlBaseIdent(e ast.Expr) *ast.Ident {
	for {
		switch x := e.(type) {
		case *ast.Ident:
			return x
		case *ast.SelectorExpr:
			e = x.X
		case *ast.IndexExpr:
			e = x.X
		case *ast.StarExpr:
			e = x.X
		case *ast.ParenExpr:
			e = x.X
		case *ast.TypeAssertExpr:
			e = x.X
		case *ast.UnaryExpr:
			e = x.X
		default:
			return nil
		}
	}
}

// dmlIsFieldSel reports whether e is `recv.field` for the given receiver object and field name.
func dmlIsFieldSel(info *types.Info, e ast.Expr, recv types.Object, field string) bool {
	sel, ok := ast.Unparen(e).(*ast.SelectorExpr)
	if !ok || sel.Sel.Name != field {
		return false
	}
	id, ok := ast.Unparen(sel.X).(*ast.Ident)
	return ok && recv != nil && info.Uses[id] == recv
}

// dmlMentions reports whether node n (not descending into function literals unless intoLits)
// uses the object.
func dmlMentions(info *types.Info, n ast.Node, obj types.Object, intoLits bool) bool {
	found := false
	ast.Inspect(n, func(m ast.Node) bool {
		if found {
			return false
		}
		switch x := m.(type) {
		case *ast.FuncLit:
			return intoLits
		case *ast.Ident:
			if info.Uses[x] == obj {
				found = true
			}
		}
		return true
	})
	return found
}

// dmlAssigns reports whether node n assigns (=, :=, op=) to the object as a whole variable.
func dmlAssigns(info *types.Info, n ast.Node, obj types.Object) bool {
	switch x := n.(type) {
	case *ast.AssignStmt:
		for _, l := range x.Lhs {
			if id, ok := ast.Unparen(l).(*ast.Ident); ok && (info.Uses[id] == obj || info.Defs[id] == obj) {
				return true
			}
		}
	case *ast.ValueSpec:
		for _, id := range x.Names {
			if info.Defs[id] == obj {
				return true
			}
		}
	case *ast.RangeStmt:
		for _, l := range []ast.Expr{x.Key, x.Value} {
			if id, ok := l.(*ast.Ident); ok && (info.Uses[id] == obj || info.Defs[id] == obj) {
				return true
			}
		}
	}
	return false
}

// dmlCallsIn lists call expressions in n, outermost first, optionally descending into
// function literals.
func dmlCallsIn(n ast.Node, intoLits bool) []*ast.CallExpr {
	var out []*ast.CallExpr
	if n == nil {
		return nil
	}
	ast.Inspect(n, func(m ast.Node) bool {
		switch x := m.(type) {
		case *ast.FuncLit:
			return intoLits
		case *ast.CallExpr:
			out = append(out, x)
		}
		return true
	})
	return out
}

// dmlMethodCallOn: call is `X.name(...)`; returns X.
func dmlMethodCallOn(call *ast.CallExpr, name string) (ast.Expr, bool) {
	sel, ok := ast.Unparen(call.Fun).(*ast.SelectorExpr)
	if !ok || sel.Sel.Name != name {
		return nil, false
	}
	return sel.X, true
}

// dmlErrOperand returns the last result expression of a return statement when the enclosing
// function's last result is an error (nil for bare returns).
func dmlErrOperand(info *types.Info, sig *types.Signature, r *ast.ReturnStmt) ast.Expr {
	n := sig.Results().Len()
	if n == 0 || !IsErrorType(sig.Results().At(n-1).Type()) {
		return nil
	}
	if len(r.Results) == n {
		return r.Results[n-1]
	}
	return nil
}

// dmlFuncsOfType lists the method declarations (with bodies) of a named type in a package.
func dmlMethodDecls(pk *packages.Package, named *types.Named) []*ast.FuncDecl {
	var out []*ast.FuncDecl
	for _, f := range pk.Syntax {
		for _, d := range f.Decls {
			fd, ok := d.(*ast.FuncDecl)
			if !ok || fd.Body == nil || fd.Recv == nil {
				continue
			}
			if dmlRecvNamed(pk.TypesInfo, fd) == named {
				out = append(out, fd)
			}
		}
	}
	sort.Slice(out, func(i, j int) bool { return out[i].Name.Name < out[j].Name.Name })
	return out
}

// dmlNamedTypes lists the package-level named (non-alias, non-interface) types of a package.
func dmlNamedTypes(pk *packages.Package) []*types.Named {
	var out []*types.Named
	sc := pk.Types.Scope()
	for _, name := range sc.Names() {
		tn, ok := sc.Lookup(name).(*types.TypeName)
		if !ok || tn.IsAlias() {
			continue
		}
		nt, ok := tn.Type().(*types.Named)
		if !ok {
			continue
		}
		if _, isIface := nt.Underlying().(*types.Interface); isIface {
			continue
		}
		out = append(out, nt)
	}
	return out
}

// dmlRelOfPkg renders a package path relative to the module (or the fixture module).
func dmlRelOfPkg(path string) string {
	path = strings.TrimPrefix(path, modPath+"/")
	path = strings.TrimPrefix(path, "vchk/")
	return path
}

// dmlTypeKey renders a named type as rel/pkg.Name.
func dmlTypeKey(nt *types.Named) string {
	if nt.Obj().Pkg() == nil {
		return nt.Obj().Name()
	}
	return dmlRelOfPkg(nt.Obj().Pkg().Path()) + "." + nt.Obj().Name()
}

// dmlEnclosingFuncs maps every function declaration of the package for position lookup.
func dmlEnclosingDecl(pk *packages.Package, pos token.Pos) *ast.FuncDecl {
	for _, f := range pk.Syntax {
		if pos < f.Pos() || pos > f.End() {
			continue
		}
		for _, d := range f.Decls {
			if fd, ok := d.(*ast.FuncDecl); ok && fd.Pos() <= pos && pos <= fd.End() {
				return fd
			}
		}
	}
	return nil
}

// dmlNormPath renders an access path rooted at the receiver with range variables expanded
// to "<ranged expr>[*]", so that two methods that reach the same sub-object through
// differently named loop variables agree. Unknown roots are rendered by their identifier.
func dmlNormPath(info *types.Info, body *ast.BlockStmt, recv types.Object, e ast.Expr) string {
	// collect range-variable definitions once per body
	rangeOf := map[types.Object]ast.Expr{}
	assignOf := map[types.Object]ast.Expr{}
	ast.Inspect(body, func(n ast.Node) bool {
		switch x := n.(type) {
		case *ast.RangeStmt:
			if id, ok := x.Value.(*ast.Ident); ok && x.Tok == token.DEFINE {
				if o := info.Defs[id]; o != nil {
					rangeOf[o] = x.X
				}
			}
		case *ast.AssignStmt:
			if x.Tok == token.DEFINE && len(x.Lhs) == len(x.Rhs) {
				for i, l := range x.Lhs {
					if id, ok := l.(*ast.Ident); ok {
						if o := info.Defs[id]; o != nil {
							assignOf[o] = x.Rhs[i]
						}
					}
				}
			}
		}
		return true
	})
	var render func(e ast.Expr, depth int) string
	render = func(e ast.Expr, depth int) string {
		if depth > 8 {
			return "?"
		}
		switch x := ast.Unparen(e).(type) {
		case *ast.Ident:
			o := info.Uses[x]
			if o != nil && o == recv {
				return "recv"
			}
			if r, ok := rangeOf[o]; ok {
				return render(r, depth+1) + "[*]"
			}
			if r, ok := assignOf[o]; ok {
				return render(r, depth+1)
			}
			return x.Name
		case *ast.SelectorExpr:
			return render(x.X, depth+1) + "." + x.Sel.Name
		case *ast.IndexExpr:
			return render(x.X, depth+1) + "[*]"
		case *ast.StarExpr:
			return render(x.X, depth+1)
		case *ast.TypeAssertExpr:
			return render(x.X, depth+1)
		case *ast.CallExpr:
			return types.ExprString(x.Fun) + "()"
		}
		return types.ExprString(e)
	}
	return render(e, 0)
}

// ---- abstract value of an error variable along a path -----------------------------------------
//
// The abstract value of an error variable is a subset of {nil, io.EOF, other} encoded in 3 bits.
// go/cfg does not decompose && / || / !, so branch conditions are evaluated in Kleene logic under
// each hypothesis and an edge keeps the hypotheses that are consistent with the edge's truth value.

const (
	dmlErrNil   = 1
	dmlErrEOF   = 2
	dmlErrOther = 4
	dmlErrAny   = 7
)

// dmlEvalCond evaluates e under the hypothesis that v has the single abstract value a.
// Result: 1 true, 0 false, -1 unknown.
func dmlEvalCond(info *types.Info, e ast.Expr, v types.Object, a int) int {
	e = ast.Unparen(e)
	switch x := e.(type) {
	case *ast.UnaryExpr:
		if x.Op == token.NOT {
			r := dmlEvalCond(info, x.X, v, a)
			if r < 0 {
				return -1
			}
			return 1 - r
		}
	case *ast.BinaryExpr:
		switch x.Op {
		case token.LAND, token.LOR:
			l, r := dmlEvalCond(info, x.X, v, a), dmlEvalCond(info, x.Y, v, a)
			if x.Op == token.LAND {
				if l == 0 || r == 0 {
					return 0
				}
				if l == 1 && r == 1 {
					return 1
				}
				return -1
			}
			if l == 1 || r == 1 {
				return 1
			}
			if l == 0 && r == 0 {
				return 0
			}
			return -1
		case token.EQL, token.NEQ:
			isV := func(y ast.Expr) bool {
				id, ok := ast.Unparen(y).(*ast.Ident)
				return ok && info.Uses[id] == v
			}
			konst := func(y ast.Expr) int {
				if isNilIdent(info, y) {
					return dmlErrNil
				}
				if sel, ok := ast.Unparen(y).(*ast.SelectorExpr); ok {
					if o, ok := info.Uses[sel.Sel].(*types.Var); ok && o.Pkg() != nil && o.Pkg().Path() == "io" && o.Name() == "EOF" {
						return dmlErrEOF
					}
				}
				return 0
			}
			k := 0
			if isV(x.X) {
				k = konst(x.Y)
			} else if isV(x.Y) {
				k = konst(x.X)
			}
			if k == 0 {
				return -1
			}
			eq := a == k
			if a == dmlErrOther {
				eq = false
			}
			if (x.Op == token.EQL) == eq {
				return 1
			}
			return 0
		}
	}
	return -1
}

// dmlRefineErr narrows the abstract value set st of v along the edge b→Succs[succ]. ok=false
// means the edge is infeasible for every remaining hypothesis.
func dmlRefineErr(info *types.Info, b *cfg.Block, succ int, v types.Object, st int) (int, bool) {
	if v == nil || len(b.Succs) != 2 || len(b.Nodes) == 0 {
		return st, true
	}
	cond, isExpr := b.Nodes[len(b.Nodes)-1].(ast.Expr)
	if !isExpr {
		return st, true
	}
	want := 1
	if succ == 1 {
		want = 0
	}
	out := 0
	for _, a := range []int{dmlErrNil, dmlErrEOF, dmlErrOther} {
		if st&a == 0 {
			continue
		}
		if r := dmlEvalCond(info, cond, v, a); r < 0 || r == want {
			out |= a
		}
	}
	return out, out != 0
}

// dmlCondOnlyNilTests reports whether every mention of v in cond is inside a comparison of v with nil.
func dmlCondOnlyNilTests(info *types.Info, cond ast.Expr, v types.Object) bool {
	ok := true
	var walk func(e ast.Expr)
	walk = func(e ast.Expr) {
		e = ast.Unparen(e)
		switch x := e.(type) {
		case *ast.UnaryExpr:
			if x.Op == token.NOT {
				walk(x.X)
				return
			}
		case *ast.BinaryExpr:
			if x.Op == token.LAND || x.Op == token.LOR {
				walk(x.X)
				walk(x.Y)
				return
			}
			if x.Op == token.EQL || x.Op == token.NEQ {
				if (isNilIdent(info, x.X) || isNilIdent(info, x.Y)) && (dmlMentions(info, x.X, v, true) || dmlMentions(info, x.Y, v, true)) {
					return
				}
			}
		}
		if dmlMentions(info, e, v, true) {
			ok = false
		}
	}
	walk(cond)
	return ok
}

// dmlSSAFuncs lists every SSA function with a body that belongs to the given packages: package-level
// functions, methods of every named type (exported or not, reachable or not — unlike
// ssautil.AllFunctions this includes dead code), their anonymous functions, and the instantiations
// of generic functions that any of them calls. Sorted by position for determinism.
func dmlSSAFuncs(p *Prog, prog *ssa.Program, pkgs map[*types.Package]bool, pkgOf func(*ssa.Function) *types.Package) []*ssa.Function {
	seen := map[*ssa.Function]bool{}
	var out []*ssa.Function
	var add func(f *ssa.Function)
	add = func(f *ssa.Function) {
		if f == nil || seen[f] || len(f.Blocks) == 0 || !pkgs[pkgOf(f)] {
			return
		}
		seen[f] = true
		out = append(out, f)
		for _, af := range f.AnonFuncs {
			add(af)
		}
		for _, b := range f.Blocks {
			for _, in := range b.Instrs {
				if ci, ok := in.(ssa.CallInstruction); ok {
					add(ci.Common().StaticCallee())
				}
				if mc, ok := in.(*ssa.MakeClosure); ok {
					if fn, ok := mc.Fn.(*ssa.Function); ok {
						add(fn)
					}
				}
			}
		}
	}
	for _, pk := range p.Module {
		if !pkgs[pk.Types] {
			continue
		}
		sp := prog.Package(pk.Types)
		if sp == nil {
			continue
		}
		var names []string
		for n := range sp.Members {
			names = append(names, n)
		}
		sort.Strings(names)
		for _, n := range names {
			switch m := sp.Members[n].(type) {
			case *ssa.Function:
				add(m)
			case *ssa.Type:
				for _, t := range []types.Type{m.Type(), types.NewPointer(m.Type())} {
					if _, isIface := m.Type().Underlying().(*types.Interface); isIface {
						continue
					}
					ms := prog.MethodSets.MethodSet(t)
					for i := 0; i < ms.Len(); i++ {
						if fn := prog.MethodValue(ms.At(i)); fn != nil && fn.Synthetic == "" {
							add(fn)
						}
					}
				}
			}
		}
	}
	sort.Slice(out, func(i, j int) bool {
		if out[i].Pos() != out[j].Pos() {
			return out[i].Pos() < out[j].Pos()
		}
		return out[i].String() < out[j].String()
	})
	return out
}
