package main

import (
	"fmt"
	"go/ast"
	"go/constant"
	"go/types"
	"sort"
	"strings"

	"golang.org/x/tools/go/packages"
)

// C14-P — precedence of the pending edits of a statement ("the latest edit of a key wins").
//
// A table editor of package memory does not write rows: it records them in an edit accumulator
// (pending adds + pending deletes) that is consulted by the duplicate checks (Get, GetByCols) and
// applied at the end (ApplyEdits). Writers and readers of the two pending containers have to agree
// on what a key that is in BOTH containers means. That agreement is decided, not assumed: for every
// implementation of the accumulator interface the real bodies of Insert / Delete are folded
// (eng_mini) over every edit history of one key (keyed accumulators: containers are cmap.Map
// fields) or of two row values (list accumulators: containers are []sql.Row fields), and then the
// real bodies of the readers are folded on the resulting abstract container state. The verdict of
// every reader must equal the sequential meaning of the history.
// Given meaning by type, not executed: cmap.Map.Get/Set/Del/Foreach/FindForeach (map lookup /
// store / delete / iteration), columnsMatch and sql.Row.Equals (same tracked row value), the
// insert/delete helpers (add / remove one row of the table data), ranges over
// TableData.partitions (the stored rows).

type c14pParams struct {
	memRel, sqlRel, cmapRel string
	accIface                string   // "tableEditAccumulator"
	cmapType                string   // "Map"
	insertFn, deleteFn      string   // writers (interface methods)
	getFn, byColsFn         string   // readers returning (row, found, error)
	applyFn                 string   // reader applying the edits to the table data
	insertHelper            string   // method of an implementation: adds one row to the table data
	deleteHelper            string   // … removes one row
	matchFn                 string   // "columnsMatch"
	rowType, equalsFn       string   // "Row", "Equals"
	tableDataType           string   // "TableData"
	partitionsField         string   // "partitions"
	falseFns                []string // predicates folded as false ("Schema.HasVirtualColumns")
	floor                   int
}

var c14pRepo = c14pParams{memRel: "memory", sqlRel: "sql", cmapRel: "internal/cmap", accIface: "tableEditAccumulator", cmapType: "Map",
	insertFn: "Insert", deleteFn: "Delete", getFn: "Get", byColsFn: "GetByCols", applyFn: "ApplyEdits", insertHelper: "insertHelper", deleteHelper: "deleteHelper",
	matchFn: "columnsMatch", rowType: "Row", equalsFn: "Equals", tableDataType: "TableData", partitionsField: "partitions",
	falseFns: []string{"Schema.HasVirtualColumns"}, floor: 5}

type c14pAnchors struct {
	c          *Ctx
	p          c14pParams
	mem        *packages.Package
	rowT       *types.Named
	cmapT      *types.Named
	cmapFns    map[*types.Func]string // origin method -> "Get"/"Set"/"Del"/"Foreach"/"FindForeach"
	matchFn    *types.Func
	equalsFn   *types.Func
	partitions *types.Var
	falseFns   map[*types.Func]bool
}

type c14pSelKey struct {
	base *MSym
	name string
}

type c14pState struct {
	a       *c14pAnchors
	accT    *types.Named
	keyed   bool
	sets    map[*types.Var]bool  // keyed containers: is the tracked key present
	lists   map[*types.Var][]int // list containers: row value ids
	stored  []int                // stored rows (value ids) in table order
	rowSyms map[int]*MSym
	rowID   map[*MSym]int
	keySym  *MSym
	partSym *MSym
	nilSym  *MSym
	memo    map[c14pSelKey]*MSym
	field   map[*MSym]*types.Var
	outer   map[types.Object]MV
	undec   string
}

func (a *c14pAnchors) newState(accT *types.Named, keyed bool) *c14pState {
	return &c14pState{a: a, accT: accT, keyed: keyed, sets: map[*types.Var]bool{}, lists: map[*types.Var][]int{}, rowSyms: map[int]*MSym{}, rowID: map[*MSym]int{},
		keySym: &MSym{Name: "key"}, partSym: &MSym{Name: "stored-partition"}, nilSym: &MSym{Name: "nil", Nil: true}, memo: map[c14pSelKey]*MSym{}, field: map[*MSym]*types.Var{}}
}

func (st *c14pState) clone() *c14pState {
	n := st.a.newState(st.accT, st.keyed)
	for k, v := range st.sets {
		n.sets[k] = v
	}
	for k, v := range st.lists {
		n.lists[k] = append([]int{}, v...)
	}
	n.stored = append([]int{}, st.stored...)
	return n
}

func (st *c14pState) row(id int) *MSym {
	if s, ok := st.rowSyms[id]; ok {
		return s
	}
	s := &MSym{Name: fmt.Sprintf("row%c", 'A'+id)}
	st.rowSyms[id] = s
	st.rowID[s] = id
	return s
}

func (st *c14pState) rowOf(v MV) (int, bool) {
	s, _ := v.(*MSym)
	id, ok := st.rowID[s]
	return id, ok
}

func (st *c14pState) fail(format string, a ...any) {
	if st.undec == "" {
		st.undec = fmt.Sprintf(format, a...)
	}
}

// container: the accumulator field a folded value stands for (nil if none).
func (st *c14pState) container(v MV) *types.Var {
	s, _ := v.(*MSym)
	if s == nil {
		return nil
	}
	return st.field[s]
}

func (a *c14pAnchors) isCmap(t types.Type) bool {
	n := dmlNamedOf(t)
	return n != nil && a.cmapT != nil && n.Origin() == a.cmapT
}

func (a *c14pAnchors) isRowSlice(t types.Type) bool {
	sl, ok := t.Underlying().(*types.Slice)
	return ok && dmlNamedOf(sl.Elem()) == a.rowT
}

func (st *c14pState) mini() *Mini {
	a := st.a
	m := &Mini{P: a.c.P, Info: a.mem.TypesInfo, Counters: true}
	m.Sel = func(m *Mini, sel *ast.SelectorExpr, base MV) (MV, bool) {
		bs, ok := base.(*MSym)
		if !ok || bs == nil || bs.Nil {
			return nil, false
		}
		s := m.Info.Selections[sel]
		if s == nil || s.Kind() != types.FieldVal {
			return nil, false
		}
		k := c14pSelKey{bs, sel.Sel.Name}
		if x, ok := st.memo[k]; ok {
			return x, true
		}
		x := &MSym{Name: bs.Name + "." + sel.Sel.Name}
		st.memo[k] = x
		if fv, ok := s.Obj().(*types.Var); ok {
			st.field[x] = fv
		}
		return x, true
	}
	m.Unroll = func(m *Mini, rs *ast.RangeStmt, eval func(ast.Expr) MV) (int, func(int) (MV, MV), bool) {
		x := eval(rs.X)
		fv := st.container(x)
		t := m.Info.TypeOf(rs.X)
		switch {
		case fv != nil && fv == a.partitions:
			return 1, func(int) (MV, MV) { return &MSym{Name: "partition-key"}, st.partSym }, true
		case x == MV(st.partSym):
			snap := append([]int{}, st.stored...)
			return len(snap), func(i int) (MV, MV) { return constant.MakeInt64(int64(i)), st.row(snap[i]) }, true
		case fv != nil && t != nil && a.isRowSlice(t):
			if _, isList := st.lists[fv]; isList {
				snap := append([]int{}, st.lists[fv]...)
				return len(snap), func(i int) (MV, MV) { return constant.MakeInt64(int64(i)), st.row(snap[i]) }, true
			}
		}
		return 0, nil, false
	}
	m.Store = func(m *Mini, s *ast.AssignStmt, i int, v MV, eval func(ast.Expr) MV) bool {
		fv := st.container(eval(s.Lhs[i]))
		if fv == nil {
			return false
		}
		if _, isList := st.lists[fv]; !isList {
			if _, isSet := st.sets[fv]; isSet {
				st.fail("the pending container %s is replaced in a folded method", fv.Name())
			}
			return false
		}
		if len(s.Rhs) != len(s.Lhs) {
			st.fail("unrecognised update of %s", fv.Name())
			return false
		}
		call, ok := ast.Unparen(s.Rhs[i]).(*ast.CallExpr)
		if !ok || !IsBuiltinCall(m.Info, call, "append") || len(call.Args) < 2 {
			st.fail("the update of the pending list %s is not an append (%s)", fv.Name(), types.ExprString(s.Rhs[i]))
			return false
		}
		isSelf := func(x ast.Expr) bool { return st.container(eval(x)) == fv }
		// xs = append(xs, v…)
		if !call.Ellipsis.IsValid() && isSelf(call.Args[0]) {
			for _, arg := range call.Args[1:] {
				id, ok := st.rowOf(eval(arg))
				if !ok {
					st.fail("a value that is not a tracked row is appended to %s", fv.Name())
					return false
				}
				st.lists[fv] = append(st.lists[fv], id)
			}
			return true
		}
		// xs = append(xs[:i], xs[i+1:]...)
		if call.Ellipsis.IsValid() && len(call.Args) == 2 {
			lo, ok1 := ast.Unparen(call.Args[0]).(*ast.SliceExpr)
			hi, ok2 := ast.Unparen(call.Args[1]).(*ast.SliceExpr)
			if ok1 && ok2 && isSelf(lo.X) && isSelf(hi.X) && lo.Low == nil && lo.High != nil && hi.Low != nil && hi.High == nil && !lo.Slice3 && !hi.Slice3 {
				i, okA := MInt(eval(lo.High))
				j, okB := MInt(eval(hi.Low))
				if okA && okB && j == i+1 && i >= 0 && int(i) < len(st.lists[fv]) {
					l := st.lists[fv]
					st.lists[fv] = append(append([]int{}, l[:i]...), l[i+1:]...)
					return true
				}
			}
		}
		st.fail("the update of the pending list %s is neither `append(xs, row)` nor `append(xs[:i], xs[i+1:]...)` (%s)", fv.Name(), types.ExprString(s.Rhs[i]))
		return false
	}
	m.Call = func(m *Mini, call *ast.CallExpr, fn *types.Func, recv MV, args []MV) ([]MV, bool) {
		if fn == nil {
			return nil, false
		}
		sig := fn.Type().(*types.Signature)
		var recvT *types.Named
		if sig.Recv() != nil {
			recvT = dmlNamedOf(sig.Recv().Type())
		}
		if op, ok := a.cmapFns[fn.Origin()]; ok {
			fv := st.container(recv)
			if fv == nil {
				st.fail("%s on a map that is not a field of the accumulator (%s)", op, types.ExprString(call.Fun))
				return nil, false
			}
			if _, tracked := st.sets[fv]; !tracked {
				st.fail("%s on an untracked container %s", op, fv.Name())
				return nil, false
			}
			keyOK := func() bool {
				if len(args) == 0 || args[0] != MV(st.keySym) {
					st.fail("%s.%s is not keyed by the row's key function (%s)", fv.Name(), op, types.ExprString(call))
					return false
				}
				return true
			}
			switch op {
			case "Set":
				if !keyOK() {
					return nil, false
				}
				if _, isRow := st.rowOf(args[1]); !isRow {
					st.fail("%s.Set stores a value that is not the edited row", fv.Name())
					return nil, false
				}
				st.sets[fv] = true
				return []MV{}, true
			case "Del":
				if !keyOK() {
					return nil, false
				}
				st.sets[fv] = false
				return []MV{}, true
			case "Get":
				if !keyOK() {
					return nil, false
				}
				if st.sets[fv] {
					return []MV{st.row(0), constant.MakeBool(true)}, true
				}
				return []MV{st.nilSym, constant.MakeBool(false)}, true
			case "Foreach", "FindForeach":
				lit, _ := ast.Unparen(call.Args[0]).(*ast.FuncLit)
				if lit == nil {
					st.fail("%s.%s with a callback that is not a function literal", fv.Name(), op)
					return nil, false
				}
				if op == "Foreach" {
					if !st.sets[fv] {
						return []MV{st.nilSym}, true
					}
					res := st.runLit(lit, []MV{st.keySym, st.row(0)})
					if len(res) != 1 {
						return nil, false
					}
					return res, true
				}
				if st.sets[fv] {
					res := st.runLit(lit, []MV{st.keySym, st.row(0)})
					if len(res) != 1 {
						return nil, false
					}
					b, ok := MBool(res[0])
					if !ok {
						st.fail("the callback of %s.FindForeach does not fold to a boolean", fv.Name())
						return nil, false
					}
					if b {
						return []MV{st.keySym, st.row(0), constant.MakeBool(true)}, true
					}
				}
				return []MV{&MSym{Name: "zero-key"}, st.nilSym, constant.MakeBool(false)}, true
			}
		}
		switch {
		case fn == a.matchFn:
			var ids []int
			for i := 0; i < sig.Params().Len() && i < len(args); i++ {
				if dmlNamedOf(sig.Params().At(i).Type()) == a.rowT {
					id, ok := st.rowOf(args[i])
					if !ok {
						st.fail("%s compares a value that is not a tracked row", fn.Name())
						return nil, false
					}
					ids = append(ids, id)
				}
			}
			if len(ids) != 2 {
				return nil, false
			}
			return []MV{constant.MakeBool(ids[0] == ids[1])}, true
		case fn == a.equalsFn:
			x, ok1 := st.rowOf(recv)
			var y int
			ok2 := false
			for i := 0; i < sig.Params().Len() && i < len(args); i++ {
				if dmlNamedOf(sig.Params().At(i).Type()) == a.rowT {
					y, ok2 = st.rowOf(args[i])
				}
			}
			if !ok1 || !ok2 {
				st.fail("Row.%s on a value that is not a tracked row", fn.Name())
				return nil, false
			}
			return []MV{constant.MakeBool(x == y), st.nilSym}, true
		case a.falseFns[fn.Origin()]:
			return []MV{constant.MakeBool(false)}, true
		case recvT != nil && recvT == st.accT:
			rowArg := func() (int, bool) {
				for i := 0; i < sig.Params().Len() && i < len(args); i++ {
					if dmlNamedOf(sig.Params().At(i).Type()) == a.rowT {
						return st.rowOf(args[i])
					}
				}
				return 0, false
			}
			switch {
			case fn.Name() == a.p.insertHelper || fn.Name() == a.p.deleteHelper:
				id, ok := rowArg()
				if !ok {
					st.fail("%s is applied to a value that is not a pending row", fn.Name())
					return nil, false
				}
				at := -1
				for i, s := range st.stored {
					if s == id {
						at = i
						break
					}
				}
				if fn.Name() == a.p.insertHelper {
					if !(st.keyed && at >= 0) { // a keyed table overwrites the row of the same key
						st.stored = append(st.stored, id)
					}
				} else if at >= 0 {
					st.stored = append(append([]int{}, st.stored[:at]...), st.stored[at+1:]...)
				}
				return []MV{st.nilSym}, true
			case sig.Results().Len() == 1 && sig.Params().Len() == 1 && dmlNamedOf(sig.Params().At(0).Type()) == a.rowT:
				if b, ok := sig.Results().At(0).Type().Underlying().(*types.Basic); ok && b.Info()&types.IsString != 0 {
					if _, ok := rowArg(); ok {
						return []MV{st.keySym}, true // the key function of the accumulator (its encoding is C14-K1's subject)
					}
				}
			}
			return nil, false // other own methods are inlined
		case sig.Results().Len() == 0:
			return []MV{}, true // sorting / publishing the table data: outside the abstraction, no effect on it
		}
		return nil, false
	}
	return m
}

// runLit folds the body of a callback literal.
func (st *c14pState) runLit(lit *ast.FuncLit, args []MV) []MV {
	info := st.a.mem.TypesInfo
	bind := map[types.Object]MV{}
	for o, v := range st.outer {
		bind[o] = v
	}
	i := 0
	for _, fl := range lit.Type.Params.List {
		for _, n := range fl.Names {
			if o := info.Defs[n]; o != nil && i < len(args) {
				bind[o] = args[i]
			}
			i++
		}
	}
	ret, returned, panicked, _, err := st.mini().RunBlock(lit.Body.List, bind)
	if err != nil || panicked || !returned {
		st.fail("callback not foldable: %v", err)
		return nil
	}
	return ret
}

// runMethod folds a method of the accumulator with its row parameter bound to the row value id.
func (st *c14pState) runMethod(fd *ast.FuncDecl, id int) ([]MV, error) {
	info := st.a.mem.TypesInfo
	bind := map[types.Object]MV{}
	if o := dmlRecvObj(info, fd); o != nil {
		bind[o] = &MSym{Name: o.Name()}
	}
	for _, fl := range fd.Type.Params.List {
		for _, n := range fl.Names {
			o := info.Defs[n]
			if o == nil {
				continue
			}
			if dmlNamedOf(o.Type()) == st.a.rowT {
				bind[o] = st.row(id)
			} else {
				bind[o] = &MSym{Name: n.Name}
			}
		}
	}
	st.outer = bind
	res, panicked, err := st.mini().RunFunc(fd, bind)
	if err == nil && panicked {
		err = fmt.Errorf("panics")
	}
	if err == nil && st.undec != "" {
		err = fmt.Errorf("%s", st.undec)
	}
	return res, err
}

type c14pOp struct {
	ins bool
	id  int
}

func c14pHistName(h []c14pOp, keyed bool) string {
	if len(h) == 0 {
		return "no edit"
	}
	var p []string
	for _, o := range h {
		s := "del"
		if o.ins {
			s = "ins"
		}
		if !keyed {
			s += string(rune('A' + o.id))
		}
		p = append(p, s)
	}
	return strings.Join(p, "·")
}

func c14pHistories(ops []c14pOp, maxLen int) [][]c14pOp {
	out := [][]c14pOp{{}}
	prev := [][]c14pOp{{}}
	for l := 1; l <= maxLen; l++ {
		var cur [][]c14pOp
		for _, p := range prev {
			for _, o := range ops {
				cur = append(cur, append(append([]c14pOp{}, p...), o))
			}
		}
		out = append(out, cur...)
		prev = cur
	}
	return out
}

func runC14P(c *Ctx, p c14pParams) {
	c.Rule("C14-P", "pending-edit precedence: Insert/Delete of every edit accumulator folded over the edit histories of one key (two row values for keyless tables); Get, GetByCols and ApplyEdits folded on the resulting pending state must report / produce what the latest edit of the key says", p.floor)
	mem, sqlPk, cm := c.P.Pkg(p.memRel), c.P.Pkg(p.sqlRel), c.P.Pkg(p.cmapRel)
	if mem == nil || sqlPk == nil || cm == nil {
		c.Undecided("C14-P", "packages", 0, "packages not loaded")
		return
	}
	a := &c14pAnchors{c: c, p: p, mem: mem, cmapFns: map[*types.Func]string{}, falseFns: map[*types.Func]bool{}}
	named := func(pk *packages.Package, n string) *types.Named {
		if tn, ok := pk.Types.Scope().Lookup(n).(*types.TypeName); ok {
			return dmlNamedOf(tn.Type())
		}
		return nil
	}
	a.rowT, a.cmapT = named(sqlPk, p.rowType), named(cm, p.cmapType)
	for _, n := range []string{"Get", "Set", "Del", "Foreach", "FindForeach"} {
		if fn := LookupFunc(cm, p.cmapType+"."+n); fn != nil {
			a.cmapFns[fn.Origin()] = n
		}
	}
	a.matchFn = LookupFunc(mem, p.matchFn)
	a.equalsFn = LookupFunc(sqlPk, p.rowType+"."+p.equalsFn)
	if td := named(mem, p.tableDataType); td != nil {
		if o, _, _ := types.LookupFieldOrMethod(td, true, mem.Types, p.partitionsField); o != nil {
			a.partitions, _ = o.(*types.Var)
		}
	}
	for _, n := range p.falseFns {
		if fn := LookupFunc(sqlPk, n); fn != nil {
			a.falseFns[fn.Origin()] = true
		} else {
			c.Undecided("C14-P", "anchor "+n, 0, "predicate "+n+" not found")
		}
	}
	iface := dmlLookupIface(c.P, p.memRel, p.accIface)
	if a.rowT == nil || a.cmapT == nil || len(a.cmapFns) != 5 || a.matchFn == nil || a.equalsFn == nil || a.partitions == nil || iface == nil {
		c.Undecided("C14-P", "anchors", 0, fmt.Sprintf("anchors not found (row=%v cmap=%v/%d match=%v equals=%v partitions=%v iface=%v)", a.rowT != nil, a.cmapT != nil, len(a.cmapFns), a.matchFn != nil, a.equalsFn != nil, a.partitions != nil, iface != nil))
		return
	}
	var impls []*types.Named
	for _, nt := range dmlNamedTypes(mem) {
		if _, isIface := nt.Underlying().(*types.Interface); !isIface && dmlImplements(nt, iface) {
			impls = append(impls, nt)
		}
	}
	sort.Slice(impls, func(i, j int) bool { return impls[i].Obj().Name() < impls[j].Obj().Name() })
	if len(impls) == 0 {
		c.Undecided("C14-P", p.accIface, 0, "no implementation of "+p.accIface+" found")
		return
	}
	for _, nt := range impls {
		a.decide(nt)
	}
}

func (a *c14pAnchors) decide(nt *types.Named) {
	c, p := a.c, a.p
	tname := p.memRel + "." + nt.Obj().Name()
	decl := func(n string) *ast.FuncDecl {
		return c.P.Decl(LookupFunc(a.mem, nt.Obj().Name()+"."+n))
	}
	// the pending containers: fields that are cmap maps (keyed) or row slices (lists)
	st0 := a.newState(nt, false)
	stt, _ := nt.Underlying().(*types.Struct)
	for i := 0; stt != nil && i < stt.NumFields(); i++ {
		f := stt.Field(i)
		switch {
		case a.isCmap(f.Type()):
			st0.sets[f] = false
			st0.keyed = true
		case a.isRowSlice(f.Type()):
			st0.lists[f] = nil
		}
	}
	if (len(st0.sets) == 0) == (len(st0.lists) == 0) {
		c.Undecided("C14-P", tname+"/containers", nt.Obj().Pos(), tname+": expected either cmap.Map fields or []Row fields as the pending containers")
		return
	}
	ins, del := decl(p.insertFn), decl(p.deleteFn)
	if ins == nil || del == nil {
		c.Undecided("C14-P", tname+"/writers", nt.Obj().Pos(), "Insert / Delete not found")
		return
	}
	keyed := st0.keyed
	var ops []c14pOp
	var storeds [][]int
	if keyed {
		ops = []c14pOp{{true, 0}, {false, 0}}
		storeds = [][]int{{}, {0}}
	} else {
		ops = []c14pOp{{true, 0}, {false, 0}, {true, 1}, {false, 1}}
		storeds = [][]int{{}, {0}, {1}, {0, 1}, {0, 0}}
	}
	type reader struct {
		name, what string
		fd         *ast.FuncDecl
	}
	var readers []reader
	suffix := "/latest-edit-wins"
	if !keyed {
		suffix = "/net-count"
	}
	if keyed {
		readers = append(readers, reader{p.getFn, "found", decl(p.getFn)})
	}
	readers = append(readers, reader{p.byColsFn, "found", decl(p.byColsFn)}, reader{p.applyFn, "apply", decl(p.applyFn)})
	bad := map[string][]string{}
	undec := map[string]string{}
	folds := map[string]int{}
	for _, stored := range storeds {
		for _, h := range c14pHistories(ops, 3) {
			// sequential meaning; a DELETE only ever names a row that exists at that point
			cnt := map[int]int{}
			for _, id := range stored {
				cnt[id]++
			}
			feasible := true
			for _, o := range h {
				switch {
				case o.ins && keyed:
					cnt[o.id] = 1
				case o.ins:
					cnt[o.id]++
				case cnt[o.id] > 0:
					cnt[o.id]--
				case !keyed:
					feasible = false
				}
			}
			if !feasible {
				continue
			}
			st := st0.clone()
			st.stored = append([]int{}, stored...)
			werr := ""
			for _, o := range h {
				fd := del
				if o.ins {
					fd = ins
				}
				res, err := st.runMethod(fd, o.id)
				if err != nil {
					werr = fmt.Sprintf("%s is not foldable after %s: %v", DeclName(fd), c14pHistName(h, keyed), err)
					break
				}
				if len(res) != 1 || st.classifyNil(res[0]) != "nil" {
					werr = fmt.Sprintf("%s does not return nil in history %s", DeclName(fd), c14pHistName(h, keyed))
					break
				}
			}
			hn := fmt.Sprintf("%s on a table that holds %s", c14pHistName(h, keyed), c14pStoredName(stored, keyed))
			for _, r := range readers {
				key := tname + "." + r.name + suffix
				if r.fd == nil {
					undec[key] = "method not found"
					continue
				}
				if werr != "" {
					if undec[key] == "" {
						undec[key] = werr
					}
					continue
				}
				rs := st.clone()
				res, err := rs.runMethod(r.fd, 0)
				if err != nil {
					if undec[key] == "" {
						undec[key] = fmt.Sprintf("%s is not foldable after %s: %v", DeclName(r.fd), hn, err)
					}
					continue
				}
				folds[key]++
				var msg string
				switch r.what {
				case "found":
					if len(res) != 3 || rs.classifyNil(res[2]) != "nil" {
						msg = fmt.Sprintf("after %s: returns an error / unexpected shape", hn)
						break
					}
					got, ok := MBool(res[1])
					want := cnt[0] > 0
					if !ok {
						msg = fmt.Sprintf("after %s: the found flag does not fold to a boolean", hn)
					} else if got != want {
						msg = fmt.Sprintf("after %s: reports the key as %s, the edits so far leave it %s", hn, c14pPresent(got), c14pPresent(want))
					}
				case "apply":
					if len(res) != 1 || rs.classifyNil(res[0]) != "nil" {
						msg = fmt.Sprintf("after %s: returns an error", hn)
						break
					}
					after := map[int]int{}
					for _, id := range rs.stored {
						after[id]++
					}
					for id := 0; id < 2; id++ {
						if after[id] != cnt[id] {
							msg = fmt.Sprintf("after %s: the table holds %d row(s) of %s, the edits in order leave %d", hn, after[id], c14pRowName(id, keyed), cnt[id])
							break
						}
					}
				}
				if msg != "" && len(bad[key]) < 3 {
					bad[key] = append(bad[key], msg)
				}
			}
		}
	}
	for _, r := range readers {
		key := tname + "." + r.name + suffix
		pos := nt.Obj().Pos()
		if r.fd != nil {
			pos = r.fd.Pos()
		}
		switch {
		case undec[key] != "":
			c.Undecided("C14-P", key, pos, undec[key])
		case len(bad[key]) > 0:
			c.Bad("C14-P", key, pos, fmt.Sprintf("%s.%s disagrees with %s/%s about the pending edits of a statement: %s", tname, r.name, p.insertFn, p.deleteFn, strings.Join(bad[key], "; ")))
		default:
			c.Ok("C14-P", key, pos, fmt.Sprintf("%d histories folded", folds[key]))
		}
	}
}

func (st *c14pState) classifyNil(v MV) string {
	if s, ok := v.(*MSym); ok && s.Nil {
		return "nil"
	}
	return "non-nil"
}

func c14pPresent(b bool) string {
	if b {
		return "present"
	}
	return "absent"
}

func c14pRowName(id int, keyed bool) string {
	if keyed {
		return "the key"
	}
	return fmt.Sprintf("row value %c", 'A'+id)
}

func c14pStoredName(stored []int, keyed bool) string {
	if len(stored) == 0 {
		if keyed {
			return "no row of the key"
		}
		return "no such row"
	}
	if keyed {
		return "the key"
	}
	var p []string
	for _, id := range stored {
		p = append(p, string(rune('A'+id)))
	}
	return "rows " + strings.Join(p, ",")
}
