package main

import (
	"fmt"
	"go/constant"
	"go/token"
	"go/types"
	"math"
	"math/big"

	"golang.org/x/tools/go/ssa"
)

// E7 interval engine: a one-variable interval domain over dominating branch conditions.
//
// Range(v, at) bounds a numeric SSA value at a program point (a basic block):
//   * constants are points; a value of unknown origin (type assertion, call result, field load,
//     parameter) has the full range of its type;
//   * value-preserving conversions (every value of the source interval is representable in the
//     target type) keep the interval; other conversions yield the target's full range;
//   * + - * neg of intervals use interval arithmetic and are clipped to the type's range when they
//     do not fit (wrap-around makes every value possible);
//   * phi = hull of the incoming values, each bounded at its predecessor block;
//   * the result is intersected with every fact `x op c` that holds on an edge dominating `at`,
//     where x is v itself (or a value-preserving conversion of/from v) and c an expression whose
//     own interval is known (constants, conversions of constants, math.MaxInt64 …). && and || are
//     separate blocks in SSA, so conjunctions on the taken edge come for free.
// No relations between two variables are tracked (see ivRelationalGuard for the syntactic
// acceptance of two-operand overflow guards). NaN is not modelled.

const ivPrec = 320

type ivInterval struct {
	Lo, Hi *big.Float // may be ±Inf
}

func ivF(x float64) *big.Float    { return new(big.Float).SetPrec(ivPrec).SetFloat64(x) }
func ivInf(neg bool) *big.Float   { return new(big.Float).SetPrec(ivPrec).SetInf(neg) }
func ivInt(x *big.Int) *big.Float { return new(big.Float).SetPrec(ivPrec).SetInt(x) }

func (i ivInterval) String() string {
	return fmt.Sprintf("[%s, %s]", i.Lo.Text('g', 22), i.Hi.Text('g', 22))
}

func (i ivInterval) Within(o ivInterval) bool { return i.Lo.Cmp(o.Lo) >= 0 && i.Hi.Cmp(o.Hi) <= 0 }
func (i ivInterval) Empty() bool              { return i.Lo.Cmp(i.Hi) > 0 }

func ivHull(a, b ivInterval) ivInterval {
	r := a
	if b.Lo.Cmp(r.Lo) < 0 {
		r.Lo = b.Lo
	}
	if b.Hi.Cmp(r.Hi) > 0 {
		r.Hi = b.Hi
	}
	return r
}

func ivMeet(a, b ivInterval) ivInterval {
	r := a
	if b.Lo.Cmp(r.Lo) > 0 {
		r.Lo = b.Lo
	}
	if b.Hi.Cmp(r.Hi) < 0 {
		r.Hi = b.Hi
	}
	return r
}

// ivTypeRange is the value range of a basic numeric type (int/uint/uintptr are 64-bit).
func ivTypeRange(t types.Type) (ivInterval, bool, bool) { // interval, isInteger, ok
	b, ok := t.Underlying().(*types.Basic)
	if !ok {
		return ivInterval{}, false, false
	}
	pow := func(n uint) *big.Int { return new(big.Int).Lsh(big.NewInt(1), n) }
	signed := func(bits uint) ivInterval {
		lo := new(big.Int).Neg(pow(bits - 1))
		hi := new(big.Int).Sub(pow(bits-1), big.NewInt(1))
		return ivInterval{ivInt(lo), ivInt(hi)}
	}
	unsigned := func(bits uint) ivInterval {
		return ivInterval{ivF(0), ivInt(new(big.Int).Sub(pow(bits), big.NewInt(1)))}
	}
	switch b.Kind() {
	case types.Int8:
		return signed(8), true, true
	case types.Int16:
		return signed(16), true, true
	case types.Int32:
		return signed(32), true, true
	case types.Int64, types.Int, types.UntypedInt:
		return signed(64), true, true
	case types.Uint8:
		return unsigned(8), true, true
	case types.Uint16:
		return unsigned(16), true, true
	case types.Uint32:
		return unsigned(32), true, true
	case types.Uint64, types.Uint, types.Uintptr:
		return unsigned(64), true, true
	case types.Float32:
		m := ivF(3.40282346638528859811704183484516925440e+38)
		return ivInterval{new(big.Float).SetPrec(ivPrec).Neg(m), m}, false, true
	case types.Float64, types.UntypedFloat:
		m := ivF(1.79769313486231570814527423731704356798070e+308)
		return ivInterval{new(big.Float).SetPrec(ivPrec).Neg(m), m}, false, true
	}
	return ivInterval{}, false, false
}

type ivEngine struct {
	fn    *ssa.Function
	depth int
}

func newIvEngine(fn *ssa.Function) *ivEngine { return &ivEngine{fn: fn} }

func ivConst(c *ssa.Const) (ivInterval, bool) {
	if c.Value == nil {
		return ivInterval{}, false
	}
	switch c.Value.Kind() {
	case constant.Int:
		if bi, ok := constant.Val(c.Value).(*big.Int); ok {
			f := ivInt(bi)
			return ivInterval{f, f}, true
		}
		if i, ok := constant.Int64Val(c.Value); ok {
			f := new(big.Float).SetPrec(ivPrec).SetInt64(i)
			return ivInterval{f, f}, true
		}
	case constant.Float:
		switch x := constant.Val(c.Value).(type) {
		case *big.Rat:
			f := new(big.Float).SetPrec(ivPrec).SetRat(x)
			return ivInterval{f, f}, true
		case *big.Float:
			f := new(big.Float).SetPrec(ivPrec).Set(x)
			return ivInterval{f, f}, true
		}
		if x, ok := constant.Float64Val(c.Value); ok {
			f := ivF(x)
			return ivInterval{f, f}, true
		}
	}
	return ivInterval{}, false
}

// Range bounds v at block `at`. ok=false when v is not of a basic numeric type.
func (e *ivEngine) Range(v ssa.Value, at *ssa.BasicBlock) (ivInterval, bool) {
	tr, isInt, ok := ivTypeRange(v.Type())
	if !ok {
		return ivInterval{}, false
	}
	if e.depth > 40 {
		return tr, true
	}
	e.depth++
	defer func() { e.depth-- }()
	r := e.base(v, at, tr, isInt)
	r = ivMeet(r, tr)
	r = e.refine(v, at, r, isInt)
	return r, true
}

func (e *ivEngine) base(v ssa.Value, at *ssa.BasicBlock, tr ivInterval, isInt bool) ivInterval {
	switch x := v.(type) {
	case *ssa.Const:
		if c, ok := ivConst(x); ok {
			return c
		}
	case *ssa.Convert:
		if src, ok := e.Range(x.X, at); ok {
			_, srcInt, _ := ivTypeRange(x.X.Type())
			if src.Within(tr) && (srcInt || !isInt) {
				if !isInt && srcInt {
					return src // int -> float: rounding stays within the hull of the bounds' roundings; keep (over-approximation is harmless for range checks against far larger float ranges)
				}
				return src
			}
			if src.Within(tr) && !srcInt && isInt {
				// float -> int inside the range: truncation toward zero keeps it inside
				return src
			}
		}
	case *ssa.ChangeType:
		if src, ok := e.Range(x.X, at); ok {
			return src
		}
	case *ssa.Call:
		// math.Round/Floor/Ceil/Trunc are monotone and map integers to themselves: [lo,hi] -> [floor(lo), ceil(hi)]
		if f := x.Call.StaticCallee(); f != nil && f.Pkg != nil && f.Pkg.Pkg.Path() == "math" && len(x.Call.Args) == 1 {
			switch f.Name() {
			case "Round", "Floor", "Ceil", "Trunc", "RoundToEven":
				if a, ok := e.Range(x.Call.Args[0], at); ok {
					return ivInterval{ivFloor(a.Lo), ivCeil(a.Hi)}
				}
			}
		}
	case *ssa.Phi:
		var out ivInterval
		first := true
		for i, ed := range x.Edges {
			if ed == v {
				continue
			}
			r, ok := e.Range(ed, x.Block().Preds[i])
			if !ok {
				return tr
			}
			if first {
				out, first = r, false
			} else {
				out = ivHull(out, r)
			}
		}
		if !first {
			return out
		}
	case *ssa.UnOp:
		if x.Op == token.SUB {
			if a, ok := e.Range(x.X, at); ok {
				r := ivInterval{new(big.Float).SetPrec(ivPrec).Neg(a.Hi), new(big.Float).SetPrec(ivPrec).Neg(a.Lo)}
				if r.Within(tr) {
					return r
				}
			}
		}
	case *ssa.BinOp:
		a, ok1 := e.Range(x.X, at)
		b, ok2 := e.Range(x.Y, at)
		if ok1 && ok2 {
			if r, ok := ivArith(x.Op, a, b); ok && r.Within(tr) {
				return r
			}
		}
	}
	return tr
}

func ivFloor(x *big.Float) *big.Float {
	if x.IsInf() || x.IsInt() {
		return x
	}
	i, _ := x.Int(nil) // truncates toward zero
	f := ivInt(i)
	if x.Sign() < 0 {
		f = new(big.Float).SetPrec(ivPrec).Sub(f, ivF(1))
	}
	return f
}

func ivCeil(x *big.Float) *big.Float {
	if x.IsInf() || x.IsInt() {
		return x
	}
	i, _ := x.Int(nil)
	f := ivInt(i)
	if x.Sign() > 0 {
		f = new(big.Float).SetPrec(ivPrec).Add(f, ivF(1))
	}
	return f
}

// ivArith is interval arithmetic for + - * (exact at ivPrec for 64-bit operands).
func ivArith(op token.Token, a, b ivInterval) (ivInterval, bool) {
	if a.Lo.IsInf() || a.Hi.IsInf() || b.Lo.IsInf() || b.Hi.IsInf() {
		return ivInterval{}, false
	}
	nf := func() *big.Float { return new(big.Float).SetPrec(ivPrec) }
	switch op {
	case token.ADD:
		return ivInterval{nf().Add(a.Lo, b.Lo), nf().Add(a.Hi, b.Hi)}, true
	case token.SUB:
		return ivInterval{nf().Sub(a.Lo, b.Hi), nf().Sub(a.Hi, b.Lo)}, true
	case token.MUL:
		c := []*big.Float{nf().Mul(a.Lo, b.Lo), nf().Mul(a.Lo, b.Hi), nf().Mul(a.Hi, b.Lo), nf().Mul(a.Hi, b.Hi)}
		lo, hi := c[0], c[0]
		for _, x := range c[1:] {
			if x.Cmp(lo) < 0 {
				lo = x
			}
			if x.Cmp(hi) > 0 {
				hi = x
			}
		}
		return ivInterval{lo, hi}, true
	}
	return ivInterval{}, false
}

// ivSameVar: a and v denote the same mathematical value (identical, or linked by conversions
// that preserve the value for every possible value of the narrower side).
func (e *ivEngine) ivSameVar(a, v ssa.Value) bool {
	strip := func(x ssa.Value) ssa.Value {
		for i := 0; i < 4; i++ {
			switch c := x.(type) {
			case *ssa.Convert:
				srcR, srcInt, ok1 := ivTypeRange(c.X.Type())
				dstR, dstInt, ok2 := ivTypeRange(c.Type())
				if ok1 && ok2 && srcR.Within(dstR) && (srcInt == dstInt || srcInt && !dstInt && srcR.Hi.Cmp(ivF(1<<53)) <= 0) {
					x = c.X
					continue
				}
			case *ssa.ChangeType:
				x = c.X
				continue
			}
			break
		}
		return x
	}
	return a == v || strip(a) == strip(v)
}

// refine intersects r with the branch facts known at `at`: the facts of an edge hold in its
// target; where several edges meet, the hull of what holds along each of them (so `a == 0 ||
// (a >= 1901 && a <= 2155)` bounds a by [0, 2155]). The walk goes backwards from `at` to the
// block that defines v (or the entry); a cycle (loop) contributes no facts.
func (e *ivEngine) refine(v ssa.Value, at *ssa.BasicBlock, r ivInterval, isInt bool) ivInterval {
	if _, isConst := v.(*ssa.Const); isConst {
		return r
	}
	var def *ssa.BasicBlock
	if in, ok := v.(ssa.Instruction); ok {
		def = in.Block()
	}
	memo := map[*ssa.BasicBlock]*ivInterval{}
	onStack := map[*ssa.BasicBlock]bool{}
	budget := 4000
	var at2 func(b *ssa.BasicBlock) ivInterval
	at2 = func(b *ssa.BasicBlock) ivInterval {
		if m, ok := memo[b]; ok {
			return *m
		}
		if b == def || len(b.Preds) == 0 || onStack[b] || budget <= 0 {
			return r
		}
		budget--
		onStack[b] = true
		var out ivInterval
		first := true
		for _, p := range b.Preds {
			if def != nil && !def.Dominates(p) {
				continue // v does not exist on that path
			}
			pr := at2(p)
			if len(p.Instrs) > 0 && len(p.Succs) == 2 && p.Succs[0] != p.Succs[1] {
				if iff, ok := p.Instrs[len(p.Instrs)-1].(*ssa.If); ok {
					pr = e.applyCond(iff.Cond, p.Succs[0] == b, v, p, pr, isInt)
				}
			}
			if pr.Empty() {
				continue // infeasible edge
			}
			if first {
				out, first = pr, false
			} else {
				out = ivHull(out, pr)
			}
		}
		onStack[b] = false
		if first {
			out = r
		}
		memo[b] = &out
		return out
	}
	return at2(at)
}

// ivNextFloat: the nearest value of float type t strictly above (up) or below x, when x is itself
// a value of that type (a strict comparison against x excludes x); otherwise x.
func ivNextFloat(x *big.Float, t types.Type, up bool) *big.Float {
	if x.IsInf() {
		return x
	}
	b, ok := t.Underlying().(*types.Basic)
	if !ok {
		return x
	}
	dir := math.Inf(-1)
	if up {
		dir = math.Inf(1)
	}
	switch b.Kind() {
	case types.Float32:
		f, acc := x.Float32()
		if acc != big.Exact || math.IsInf(float64(f), 0) {
			return x
		}
		return ivF(float64(math.Nextafter32(f, float32(dir))))
	case types.Float64, types.UntypedFloat:
		f, acc := x.Float64()
		if acc != big.Exact || math.IsInf(f, 0) {
			return x
		}
		return ivF(math.Nextafter(f, dir))
	}
	return x
}

func ivNegate(op token.Token) token.Token {
	switch op {
	case token.LSS:
		return token.GEQ
	case token.LEQ:
		return token.GTR
	case token.GTR:
		return token.LEQ
	case token.GEQ:
		return token.LSS
	case token.EQL:
		return token.NEQ
	case token.NEQ:
		return token.EQL
	}
	return token.ILLEGAL
}

func ivFlip(op token.Token) token.Token {
	switch op {
	case token.LSS:
		return token.GTR
	case token.LEQ:
		return token.GEQ
	case token.GTR:
		return token.LSS
	case token.GEQ:
		return token.LEQ
	}
	return op
}

func (e *ivEngine) applyCond(cond ssa.Value, taken bool, v ssa.Value, at *ssa.BasicBlock, r ivInterval, isInt bool) ivInterval {
	switch c := cond.(type) {
	case *ssa.UnOp:
		if c.Op == token.NOT {
			return e.applyCond(c.X, !taken, v, at, r, isInt)
		}
	case *ssa.BinOp:
		op := c.Op
		switch op {
		case token.LSS, token.LEQ, token.GTR, token.GEQ, token.EQL, token.NEQ:
		default:
			return r
		}
		var other ssa.Value
		if e.ivSameVar(c.X, v) {
			other = c.Y
		} else if e.ivSameVar(c.Y, v) {
			other = c.X
			op = ivFlip(op)
		} else {
			return r
		}
		if !taken {
			op = ivNegate(op)
		}
		// the other side must not depend on v (one-variable domain): constants and conversions of constants only
		if !ivIsConstExpr(other) {
			return r
		}
		o, ok := e.Range(other, at)
		if !ok {
			return r
		}
		one := ivF(1)
		nf := func() *big.Float { return new(big.Float).SetPrec(ivPrec) }
		switch op {
		case token.LSS:
			hi := o.Hi
			if isInt && hi.IsInt() {
				hi = nf().Sub(hi, one)
			} else if !isInt {
				hi = ivNextFloat(hi, v.Type(), false)
			}
			r = ivMeet(r, ivInterval{ivInf(true), hi})
		case token.LEQ:
			r = ivMeet(r, ivInterval{ivInf(true), o.Hi})
		case token.GTR:
			lo := o.Lo
			if isInt && lo.IsInt() {
				lo = nf().Add(lo, one)
			} else if !isInt {
				lo = ivNextFloat(lo, v.Type(), true)
			}
			r = ivMeet(r, ivInterval{lo, ivInf(false)})
		case token.GEQ:
			r = ivMeet(r, ivInterval{o.Lo, ivInf(false)})
		case token.EQL:
			r = ivMeet(r, o)
		case token.NEQ:
			if isInt && o.Lo.Cmp(o.Hi) == 0 {
				if r.Lo.Cmp(o.Lo) == 0 {
					r.Lo = nf().Add(r.Lo, one)
				} else if r.Hi.Cmp(o.Lo) == 0 {
					r.Hi = nf().Sub(r.Hi, one)
				}
			}
		}
	}
	return r
}

// ivIsConstExpr: the value is a constant or built from constants by conversions/arithmetic.
func ivIsConstExpr(v ssa.Value) bool {
	switch x := v.(type) {
	case *ssa.Const:
		return true
	case *ssa.Convert:
		return ivIsConstExpr(x.X)
	case *ssa.ChangeType:
		return ivIsConstExpr(x.X)
	case *ssa.UnOp:
		return x.Op == token.SUB && ivIsConstExpr(x.X)
	case *ssa.BinOp:
		return ivIsConstExpr(x.X) && ivIsConstExpr(x.Y)
	}
	return false
}

// ---- overflow obligations -----------------------------------------------------------------

type ivOp struct {
	Instr ssa.Instruction
	Kind  string // "ADD" "SUB" "MUL" "NEG" "QUO" "CONV"
	Type  types.Type
	Args  []ssa.Value
}

// ivCollectOps lists the fixed-width integer operations of a function that can lose the exact
// value: + - * on integers, unary minus, signed / (MinInt / -1), and conversions to an integer
// type that cannot hold every value of the source type (narrowing, sign change, float -> int).
func ivCollectOps(fn *ssa.Function) []ivOp {
	var out []ivOp
	for _, b := range fn.Blocks {
		for _, in := range b.Instrs {
			switch x := in.(type) {
			case *ssa.BinOp:
				_, isInt, ok := ivTypeRange(x.Type())
				if !ok || !isInt {
					continue
				}
				switch x.Op {
				case token.ADD, token.SUB, token.MUL:
					out = append(out, ivOp{in, x.Op.String(), x.Type(), []ssa.Value{x.X, x.Y}})
				case token.QUO:
					tr, _, _ := ivTypeRange(x.Type())
					if tr.Lo.Sign() < 0 {
						out = append(out, ivOp{in, "QUO", x.Type(), []ssa.Value{x.X, x.Y}})
					}
				}
			case *ssa.UnOp:
				if x.Op != token.SUB {
					continue
				}
				if _, isInt, ok := ivTypeRange(x.Type()); ok && isInt {
					out = append(out, ivOp{in, "NEG", x.Type(), []ssa.Value{x.X}})
				}
			case *ssa.Convert:
				dst, _, ok1 := ivTypeRange(x.Type())
				src, _, ok2 := ivTypeRange(x.X.Type())
				if !ok1 || !ok2 {
					continue
				}
				if _, isConst := x.X.(*ssa.Const); isConst {
					continue
				}
				if !src.Within(dst) {
					out = append(out, ivOp{in, "CONV", x.Type(), []ssa.Value{x.X}})
				}
			}
		}
	}
	return out
}

func ivKindSymbol(k string) string {
	switch k {
	case "+":
		return "ADD"
	case "-":
		return "SUB"
	case "*":
		return "MUL"
	}
	return k
}

// Exact decides whether the operation yields the mathematically exact value for every operand
// value the interval domain allows at its program point. The second result explains a failure.
func (e *ivEngine) Exact(op ivOp) (bool, string) {
	at := op.Instr.Block()
	tr, _, _ := ivTypeRange(op.Type)
	switch op.Kind {
	case "+", "-", "*":
		a, ok1 := e.Range(op.Args[0], at)
		b, ok2 := e.Range(op.Args[1], at)
		if !ok1 || !ok2 {
			return false, "operand range unknown"
		}
		var tok token.Token
		switch op.Kind {
		case "+":
			tok = token.ADD
		case "-":
			tok = token.SUB
		default:
			tok = token.MUL
		}
		r, ok := ivArith(tok, a, b)
		if ok && r.Within(tr) {
			return true, ""
		}
		return false, fmt.Sprintf("operands in %s and %s: the exact result ranges over %s, outside %s %s", a, b, r, op.Type, tr)
	case "NEG":
		a, ok := e.Range(op.Args[0], at)
		if !ok {
			return false, "operand range unknown"
		}
		r := ivInterval{new(big.Float).SetPrec(ivPrec).Neg(a.Hi), new(big.Float).SetPrec(ivPrec).Neg(a.Lo)}
		if r.Within(tr) {
			return true, ""
		}
		return false, fmt.Sprintf("operand in %s: the exact negation ranges over %s, outside %s %s", a, r, op.Type, tr)
	case "QUO":
		a, ok1 := e.Range(op.Args[0], at)
		b, ok2 := e.Range(op.Args[1], at)
		if !ok1 || !ok2 {
			return false, "operand range unknown"
		}
		minusOne := ivF(-1)
		if a.Lo.Cmp(tr.Lo) == 0 && b.Lo.Cmp(minusOne) <= 0 && b.Hi.Cmp(minusOne) >= 0 {
			return false, fmt.Sprintf("dividend can be %s and divisor -1: the exact quotient %s+1 is outside %s", tr.Lo.Text('f', 0), tr.Hi.Text('f', 0), op.Type)
		}
		return true, ""
	case "CONV":
		a, ok := e.Range(op.Args[0], at)
		if !ok {
			return false, "operand range unknown"
		}
		if a.Within(tr) {
			return true, ""
		}
		return false, fmt.Sprintf("operand (%s) in %s does not fit %s %s", op.Args[0].Type(), a, op.Type, tr)
	}
	return false, "unknown operation"
}

// ivRelationalGuard accepts the two-operand overflow guards the interval domain cannot express:
//
//	pre-check:  before the operation there are branch conditions that (together) mention a value
//	            derived from every non-constant operand (e.g. l > math.MaxInt64 - r, or
//	            l == math.MinInt64 && r == -1) and that sit on a short-circuit chain one of whose
//	            exits can only return a non-nil error / panic;
//	post-check: every use of the result other than comparisons is dominated by a comparison that
//	            mentions the result (e.g. sum := l + r; if (sum > l) != (r > 0) { return err }).
//
// It is an acceptance test (never the source of a report): it recognises the shape of a guard,
// not its arithmetic correctness.
func ivRelationalGuard(op ivOp) bool {
	res, _ := op.Instr.(ssa.Value)
	fn := op.Instr.Parent()
	opBlock := op.Instr.Block()
	condOf := func(b *ssa.BasicBlock) ssa.Value {
		if len(b.Instrs) == 0 || len(b.Succs) != 2 {
			return nil
		}
		iff, ok := b.Instrs[len(b.Instrs)-1].(*ssa.If)
		if !ok {
			return nil
		}
		c := iff.Cond
		if u, ok := c.(*ssa.UnOp); ok && u.Op == token.NOT {
			c = u.X
		}
		return c
	}
	mentionsOne := func(cond, v ssa.Value) bool {
		bo, ok := cond.(*ssa.BinOp)
		return ok && (ivDerives(bo.X, v, 0) || ivDerives(bo.Y, v, 0))
	}
	// pre-check
	reach := map[*ssa.BasicBlock]bool{} // blocks from which opBlock is reachable
	{
		work := []*ssa.BasicBlock{opBlock}
		reach[opBlock] = true
		for len(work) > 0 {
			x := work[len(work)-1]
			work = work[:len(work)-1]
			for _, p := range x.Preds {
				if !reach[p] {
					reach[p] = true
					work = append(work, p)
				}
			}
		}
	}
	guard := map[*ssa.BasicBlock]bool{}
	for _, b := range fn.Blocks {
		if condOf(b) == nil || !reach[b] || b == opBlock {
			continue
		}
		for _, s := range b.Succs {
			if ivOnlyFails(s, map[*ssa.BasicBlock]bool{}) {
				guard[b] = true
			}
		}
	}
	for changed := true; changed; { // short-circuit chains leading into a guard block
		changed = false
		for _, b := range fn.Blocks {
			if guard[b] || condOf(b) == nil || !reach[b] || b == opBlock {
				continue
			}
			for _, s := range b.Succs {
				if guard[s] && len(s.Instrs) <= 3 {
					guard[b] = true
					changed = true
				}
			}
		}
	}
	if len(guard) > 0 {
		all := true
		nvars := 0
		for _, a := range op.Args {
			if ivIsConstExpr(a) {
				continue
			}
			nvars++
			found := false
			for b := range guard {
				if mentionsOne(condOf(b), a) {
					found = true
				}
			}
			if !found {
				all = false
			}
		}
		if all && nvars >= 2 {
			return true
		}
	}
	// post-check: a branch that mentions the result, has an error-only exit, and lies on a path to every
	// consuming use of the result (uses that only feed comparisons are part of the check itself)
	if res != nil && res.Referrers() != nil {
		var checks []*ssa.BasicBlock
		for _, b := range fn.Blocks {
			c := condOf(b)
			if c == nil || !mentionsOne(c, res) {
				continue
			}
			for _, s := range b.Succs {
				if ivOnlyFails(s, map[*ssa.BasicBlock]bool{}) {
					checks = append(checks, b)
					break
				}
			}
		}
		if len(checks) == 0 {
			return false
		}
		reaches := func(from, to *ssa.BasicBlock) bool {
			seen := map[*ssa.BasicBlock]bool{from: true}
			work := []*ssa.BasicBlock{from}
			for len(work) > 0 {
				x := work[len(work)-1]
				work = work[:len(work)-1]
				for _, s := range x.Succs {
					if s == to {
						return true
					}
					if !seen[s] {
						seen[s] = true
						work = append(work, s)
					}
				}
			}
			return false
		}
		n := 0
		for _, u := range *res.Referrers() {
			if _, ok := u.(*ssa.DebugRef); ok {
				continue
			}
			if uv, ok := u.(ssa.Value); ok && ivOnlyFeedsComparisons(uv, 0) {
				continue
			}
			n++
			ok := false
			for _, cb := range checks {
				if reaches(cb, u.Block()) {
					ok = true
				}
			}
			if !ok {
				return false
			}
		}
		return n > 0
	}
	return false
}

// ivOnlyFeedsComparisons: the value is a comparison, or arithmetic all of whose uses are such.
func ivOnlyFeedsComparisons(v ssa.Value, depth int) bool {
	if depth > 3 {
		return false
	}
	if bo, ok := v.(*ssa.BinOp); ok {
		switch bo.Op {
		case token.LSS, token.LEQ, token.GTR, token.GEQ, token.EQL, token.NEQ:
			return true
		}
	}
	switch v.(type) {
	case *ssa.BinOp, *ssa.UnOp, *ssa.Convert:
	default:
		return false
	}
	refs := v.Referrers()
	if refs == nil || len(*refs) == 0 {
		return false
	}
	for _, r := range *refs {
		if _, ok := r.(*ssa.DebugRef); ok {
			continue
		}
		rv, ok := r.(ssa.Value)
		if !ok || !ivOnlyFeedsComparisons(rv, depth+1) {
			return false
		}
	}
	return true
}

func ivDerives(x, from ssa.Value, depth int) bool {
	if x == from {
		return true
	}
	if depth > 4 {
		return false
	}
	switch t := x.(type) {
	case *ssa.BinOp:
		return ivDerives(t.X, from, depth+1) || ivDerives(t.Y, from, depth+1)
	case *ssa.UnOp:
		return ivDerives(t.X, from, depth+1)
	case *ssa.Convert:
		return ivDerives(t.X, from, depth+1)
	case *ssa.ChangeType:
		return ivDerives(t.X, from, depth+1)
	case *ssa.Phi:
		for _, e := range t.Edges {
			if ivDerives(e, from, depth+1) {
				return true
			}
		}
	}
	return false
}

// ivOnlyFails: every path from b ends in a return whose last result is a non-nil error, or in a panic.
func ivOnlyFails(b *ssa.BasicBlock, seen map[*ssa.BasicBlock]bool) bool {
	if seen[b] {
		return true
	}
	seen[b] = true
	if len(b.Instrs) == 0 {
		return false
	}
	switch t := b.Instrs[len(b.Instrs)-1].(type) {
	case *ssa.Return:
		if len(t.Results) == 0 {
			return false
		}
		last := t.Results[len(t.Results)-1]
		if !IsErrorType(last.Type()) {
			return false
		}
		return !ngIsNilConst(last)
	case *ssa.Panic:
		return true
	case *ssa.Jump, *ssa.If:
		for _, s := range b.Succs {
			if !ivOnlyFails(s, seen) {
				return false
			}
		}
		return true
	}
	return false
}

// ivDescribe names an operand for construct keys: the asserted type of a type-switch binding,
// the callee of a call, conv(..) of a conversion, the literal of a constant.
func ivDescribe(v ssa.Value, depth int) string {
	if depth > 3 {
		return "…"
	}
	q := func(t types.Type) string {
		return types.TypeString(t, func(p *types.Package) string { return p.Name() })
	}
	switch x := v.(type) {
	case *ssa.Const:
		if x.Value != nil {
			return x.Value.ExactString()
		}
		return "nil"
	case *ssa.Extract:
		if ta, ok := x.Tuple.(*ssa.TypeAssert); ok {
			return q(ta.AssertedType)
		}
		return ivDescribe(x.Tuple, depth+1)
	case *ssa.TypeAssert:
		return q(x.AssertedType)
	case *ssa.Call:
		if f := x.Call.StaticCallee(); f != nil {
			if f.Pkg != nil && f.Pkg.Pkg.Path() == "math" && len(x.Call.Args) == 1 {
				return "math." + f.Name() + "(" + ivDescribe(x.Call.Args[0], depth+1) + ")"
			}
			if f.Signature.Recv() != nil {
				return q(f.Signature.Recv().Type()) + "." + f.Name()
			}
			if f.Pkg != nil {
				return f.Pkg.Pkg.Name() + "." + f.Name()
			}
			return f.Name()
		}
		if x.Call.IsInvoke() {
			return "." + x.Call.Method.Name()
		}
		return "call"
	case *ssa.Convert:
		return q(x.Type()) + "(" + ivDescribe(x.X, depth+1) + ")"
	case *ssa.ChangeType:
		return ivDescribe(x.X, depth+1)
	case *ssa.Parameter:
		return x.Name()
	case *ssa.Phi:
		return "phi:" + q(x.Type())
	case *ssa.BinOp:
		return "(" + ivDescribe(x.X, depth+1) + x.Op.String() + ivDescribe(x.Y, depth+1) + ")"
	case *ssa.UnOp:
		if x.Op == token.MUL {
			return "*" + ivDescribe(x.X, depth+1)
		}
		return x.Op.String() + ivDescribe(x.X, depth+1)
	case *ssa.FieldAddr:
		if p, ok := x.X.Type().Underlying().(*types.Pointer); ok {
			if s, ok := p.Elem().Underlying().(*types.Struct); ok {
				return "." + s.Field(x.Field).Name()
			}
		}
	case *ssa.Field:
		if s, ok := x.X.Type().Underlying().(*types.Struct); ok {
			return ivDescribe(x.X, depth+1) + "." + s.Field(x.Field).Name()
		}
	}
	return q(v.Type())
}
