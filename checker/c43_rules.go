package main

import (
	"fmt"
	"go/ast"
	"go/constant"
	"go/token"
	"go/types"
	"sort"
	"strings"

	"golang.org/x/tools/go/packages"
)

// c43CallKey names the callee of a call: "<pkg rel>.<Type>.<Method>", "<pkg rel>.<Func>", or, for a call through a
// package-level function variable, "<pkg rel>.<Var>".
func c43CallKey(info *types.Info, call *ast.CallExpr) string {
	trim := func(s string) string {
		s = strings.TrimPrefix(s, modPath+"/")
		return strings.TrimPrefix(s, "vchk/")
	}
	if fn := Callee(info, call); fn != nil {
		return trim(FullName(fn.Origin()))
	}
	var v *types.Var
	switch f := ast.Unparen(call.Fun).(type) {
	case *ast.Ident:
		v, _ = info.Uses[f].(*types.Var)
	case *ast.SelectorExpr:
		v, _ = info.Uses[f.Sel].(*types.Var)
	}
	if v != nil && !v.IsField() && v.Pkg() != nil && v.Parent() == v.Pkg().Scope() {
		return trim(v.Pkg().Path() + "." + v.Name())
	}
	return ""
}

func c43ShortKey(k string) string {
	if i := strings.LastIndex(k, "/"); i >= 0 {
		k = k[i+1:]
	}
	if i := strings.Index(k, "."); i >= 0 {
		k = k[i+1:]
	}
	return k
}

func (r *c43Run) lookupAny(name string) (*packages.Package, *types.Func) {
	if fn := LookupFunc(r.isPk, name); fn != nil {
		return r.isPk, fn
	}
	if fn := LookupFunc(r.exPk, name); fn != nil {
		return r.exPk, fn
	}
	if fn := LookupFunc(r.sqlPk, name); fn != nil {
		return r.sqlPk, fn
	}
	return nil, nil
}

func c43RootOf(e ast.Expr) *ast.Ident {
	for {
		switch x := ast.Unparen(e).(type) {
		case *ast.Ident:
			return x
		case *ast.SelectorExpr:
			e = x.X
		case *ast.IndexExpr:
			e = x.X
		case *ast.StarExpr:
			e = x.X
		case *ast.SliceExpr:
			e = x.X
		default:
			return nil
		}
	}
}

// ---- M1: live reads ----------------------------------------------------------------------------------------

func (r *c43Run) ruleLive(entries []*c43Entry, readers []*types.Func, execs []c43Exec) {
	c, cfg := r.c, r.cfg
	// (a) package-level variables are never assigned by a function
	type wr struct {
		pos token.Pos
		fn  string
	}
	scanWrites := func(pk *packages.Package, fds []*ast.FuncDecl) map[*types.Var][]wr {
		out := map[*types.Var][]wr{}
		info := pk.TypesInfo
		note := func(e ast.Expr, fd *ast.FuncDecl) {
			id := c43RootOf(e)
			if id == nil {
				return
			}
			v, _ := info.Uses[id].(*types.Var)
			if v == nil || v.IsField() || v.Pkg() != pk.Types || v.Parent() != pk.Types.Scope() {
				return
			}
			out[v] = append(out[v], wr{e.Pos(), DeclName(fd)})
		}
		for _, fd := range fds {
			if fd.Body == nil {
				continue
			}
			ast.Inspect(fd.Body, func(n ast.Node) bool {
				switch x := n.(type) {
				case *ast.AssignStmt:
					if x.Tok != token.DEFINE {
						for _, lh := range x.Lhs {
							note(lh, fd)
						}
					}
				case *ast.IncDecStmt:
					note(x.X, fd)
				case *ast.CallExpr:
					if (IsBuiltinCall(info, x, "delete") || IsBuiltinCall(info, x, "clear")) && len(x.Args) > 0 {
						note(x.Args[0], fd)
					}
				case *ast.UnaryExpr:
					if x.Op == token.AND {
						// &pkgVar escaping into a call: treated as a write only for map/slice/struct element addresses — not needed today
					}
				}
				return true
			})
		}
		return out
	}
	pkgVars := func(pk *packages.Package, files map[string]bool) []*types.Var {
		var vs []*types.Var
		for _, file := range pk.Syntax {
			if len(files) > 0 && !files[c.P.RelFile(file.Pos())] {
				continue
			}
			for _, d := range file.Decls {
				gd, ok := d.(*ast.GenDecl)
				if !ok || gd.Tok != token.VAR {
					continue
				}
				for _, sp := range gd.Specs {
					for _, n := range sp.(*ast.ValueSpec).Names {
						if v, ok := pk.TypesInfo.Defs[n].(*types.Var); ok && n.Name != "_" {
							vs = append(vs, v)
						}
					}
				}
			}
		}
		return vs
	}
	var isFds []*ast.FuncDecl
	c.P.EachFuncDecl([]string{cfg.isRel}, func(pk *packages.Package, fd *ast.FuncDecl) { isFds = append(isFds, fd) })
	isW := scanWrites(r.isPk, isFds)
	for _, v := range pkgVars(r.isPk, nil) {
		if ws := isW[v]; len(ws) > 0 {
			c.Bad("C43-M1", "var/"+v.Name(), ws[0].pos, fmt.Sprintf("package-level variable %s is assigned in %s: state kept in the package outlives the statement, later listings can be served from it instead of the catalog", v.Name(), ws[0].fn))
		} else {
			c.Ok("C43-M1", "var/"+v.Name(), v.Pos(), "")
		}
	}
	// SHOW executors: variables of the executor package written inside the executors' closure
	var roots []*types.Func
	for _, ex := range execs {
		roots = append(roots, ex.fn)
	}
	var exFds []*ast.FuncDecl
	for _, fn := range c43Closure(c.P, r.exPk, roots, r.iter, "Next") {
		exFds = append(exFds, c.P.Decl(fn))
	}
	exW := scanWrites(r.exPk, exFds)
	var exVs []*types.Var
	for v := range exW {
		exVs = append(exVs, v)
	}
	sort.Slice(exVs, func(i, j int) bool { return exVs[i].Name() < exVs[j].Name() })
	for _, v := range exVs {
		ws := exW[v]
		c.Bad("C43-M1", "var/"+v.Name(), ws[0].pos, fmt.Sprintf("package-level variable %s is assigned by SHOW executor code (%s): listings can be served from state that outlives the statement", v.Name(), ws[0].fn))
	}
	c.Ok("C43-M1", "show-executors", token.NoPos, fmt.Sprintf("%d functions in the closure of the SHOW executors assign no package-level variable", len(exFds)))

	// (b) fields of package-local structs written after construction
	info := r.isPk.TypesInfo
	ownerOf := func(f *types.Var) string {
		sc := r.isPk.Types.Scope()
		for _, name := range sc.Names() {
			tn, ok := sc.Lookup(name).(*types.TypeName)
			if !ok {
				continue
			}
			st, ok := tn.Type().Underlying().(*types.Struct)
			if !ok {
				continue
			}
			for i := 0; i < st.NumFields(); i++ {
				if st.Field(i) == f {
					return tn.Name()
				}
			}
		}
		return ""
	}
	written := map[string]token.Pos{}
	for _, fd := range isFds {
		ast.Inspect(fd.Body, func(n ast.Node) bool {
			var lhs []ast.Expr
			switch x := n.(type) {
			case *ast.AssignStmt:
				lhs = x.Lhs
			case *ast.IncDecStmt:
				lhs = []ast.Expr{x.X}
			}
			for _, lh := range lhs {
				e := ast.Unparen(lh)
				for {
					if ix, ok := e.(*ast.IndexExpr); ok {
						e = ast.Unparen(ix.X)
						continue
					}
					break
				}
				sel, ok := e.(*ast.SelectorExpr)
				if !ok {
					continue
				}
				s := info.Selections[sel]
				if s == nil || s.Kind() != types.FieldVal {
					continue
				}
				f, _ := s.Obj().(*types.Var)
				if f == nil || f.Pkg() != r.isPk.Types {
					continue
				}
				if root := c43RootOf(lh); root != nil && c43UnderConstruction(r.lay.fnInfo(r.isPk, fd), info, root) {
					continue // filling an object this function has just built from a literal
				}
				if own := ownerOf(f); own != "" {
					k := own + "." + f.Name()
					if _, ok := written[k]; !ok {
						written[k] = lh.Pos()
					}
				}
			}
			return true
		})
	}
	var wk []string
	for k := range written {
		wk = append(wk, k)
	}
	sort.Strings(wk)
	for _, k := range wk {
		if why, ok := cfg.fieldWrites[k]; ok {
			c.Exc("C43-M1", "field/"+k, written[k], why)
		} else {
			c.Bad("C43-M1", "field/"+k, written[k], "field "+k+" of an information_schema object is assigned after construction and is not in the frozen set: table objects live in the long-lived registry, state written into them survives the statement")
		}
	}

	// (c) memoising table types are constructed afresh by the database lookup
	var lookupRets []*types.TypeName
	if pk, fd := c.P.FuncDecl(cfg.isRel, cfg.dbType+"."+cfg.lookupMethod); fd != nil && fd.Body != nil {
		c43InspectOwn(fd.Body, func(n ast.Node) {
			rs, ok := n.(*ast.ReturnStmt)
			if !ok || len(rs.Results) == 0 {
				return
			}
			if call, ok := ast.Unparen(rs.Results[0]).(*ast.CallExpr); ok {
				t := pk.TypesInfo.TypeOf(call)
				if p, ok := types.Unalias(t).(*types.Pointer); ok {
					t = p.Elem()
				}
				if nt, ok := types.Unalias(t).(*types.Named); ok {
					lookupRets = append(lookupRets, nt.Obj())
				}
			}
		})
	} else {
		c.Undecided("C43-M1", "memo/"+cfg.dbType+"."+cfg.lookupMethod, 0, "database lookup method not found")
	}
	registered := map[*types.TypeName]bool{}
	for _, en := range entries {
		if en.typ != nil {
			registered[en.typ] = true
		}
	}
	for _, fd := range isFds {
		if fd.Recv == nil || len(fd.Recv.List) != 1 || len(fd.Recv.List[0].Names) != 1 {
			continue
		}
		star, ok := fd.Recv.List[0].Type.(*ast.StarExpr)
		if !ok {
			continue
		}
		tn, _ := info.Uses[c43RootOf(star.X)].(*types.TypeName)
		recv, _ := info.Defs[fd.Recv.List[0].Names[0]].(*types.Var)
		if tn == nil || recv == nil || !registered[tn] {
			continue
		}
		fieldOf := func(e ast.Expr) *types.Var {
			sel, ok := ast.Unparen(e).(*ast.SelectorExpr)
			if !ok {
				return nil
			}
			id, ok := ast.Unparen(sel.X).(*ast.Ident)
			if !ok || info.Uses[id] != recv {
				return nil
			}
			if s := info.Selections[sel]; s != nil && s.Kind() == types.FieldVal {
				f, _ := s.Obj().(*types.Var)
				return f
			}
			return nil
		}
		assigned, returned := map[*types.Var]token.Pos{}, map[*types.Var]bool{}
		ast.Inspect(fd.Body, func(n ast.Node) bool {
			switch x := n.(type) {
			case *ast.AssignStmt:
				for _, lh := range x.Lhs {
					if f := fieldOf(lh); f != nil {
						assigned[f] = lh.Pos()
					}
				}
			case *ast.ReturnStmt:
				for _, res := range x.Results {
					if f := fieldOf(res); f != nil {
						returned[f] = true
					}
				}
			}
			return true
		})
		for f, pos := range assigned {
			if !returned[f] {
				continue
			}
			fresh := false
			for _, t := range lookupRets {
				if t == tn {
					fresh = true
				}
			}
			c.Check(fresh, "C43-M1", "memo/"+tn.Name()+"."+f.Name(), pos, "",
				fmt.Sprintf("%s.%s memoises catalog objects in field %s, but %s.%s never returns a freshly constructed %s: the registry's long-lived instance would answer later statements from the memo (stale after DDL)",
					tn.Name(), fd.Name.Name, f.Name(), cfg.dbType, cfg.lookupMethod, tn.Name()))
		}
	}
}

// c43UnderConstruction: the identifier is a local variable all of whose definitions are (addresses of) composite literals.
func c43UnderConstruction(fi *c43FnInfo, info *types.Info, id *ast.Ident) bool {
	v, _ := info.Uses[id].(*types.Var)
	if v == nil {
		return false
	}
	defs := fi.defs[v]
	if len(defs) == 0 {
		return false
	}
	for _, d := range defs {
		e := d.rhs
		if e == nil {
			return false
		}
		e = ast.Unparen(e)
		if u, ok := e.(*ast.UnaryExpr); ok && u.Op == token.AND {
			e = ast.Unparen(u.X)
		}
		if _, ok := e.(*ast.CompositeLit); !ok {
			return false
		}
	}
	return true
}

// ---- E1 / E2: common enumeration -----------------------------------------------------------------------------

// c43Reach: for every function of the closure, the set of call keys it (transitively) performs.
func (r *c43Run) reach(pk *packages.Package, fns []*types.Func, edges map[*types.Func][]*types.Func) map[*types.Func]map[string]bool {
	c := r.c
	direct := map[*types.Func]map[string]bool{}
	for _, fn := range fns {
		direct[fn] = map[string]bool{}
		fd := c.P.Decl(fn)
		ast.Inspect(fd.Body, func(n ast.Node) bool {
			if call, ok := n.(*ast.CallExpr); ok {
				if k := c43CallKey(pk.TypesInfo, call); k != "" {
					direct[fn][k] = true
				}
			}
			return true
		})
	}
	for changed := true; changed; {
		changed = false
		for _, fn := range fns {
			for _, cal := range edges[fn] {
				for k := range direct[cal] {
					if !direct[fn][k] {
						direct[fn][k] = true
						changed = true
					}
				}
			}
		}
	}
	return direct
}

func (r *c43Run) ruleEnumeration(readers []*types.Func, execs []c43Exec) {
	c, cfg := r.c, r.cfg
	var names []string
	for n := range cfg.needs {
		names = append(names, n)
	}
	sort.Strings(names)
	dbEnumKey := cfg.isRel + "." + cfg.dbEnum
	for _, name := range names {
		pk, root := r.lookupAny(name)
		if root == nil || c.P.Decl(root) == nil {
			c.Undecided("C43-E1", name, 0, "function not found in "+cfg.isRel+" / "+cfg.execRel)
			continue
		}
		info := pk.TypesInfo
		fns, edges := c43ClosureEdges(c.P, pk, []*types.Func{root}, r.iter, "Next")
		reach := r.reach(pk, fns, edges)
		fd := c.P.Decl(root)
		// the loop over the databases
		var dbVars []*types.Var
		ast.Inspect(fd.Body, func(n ast.Node) bool {
			as, ok := n.(*ast.AssignStmt)
			if !ok || len(as.Rhs) != 1 || len(as.Lhs) == 0 {
				return true
			}
			if call, ok := ast.Unparen(as.Rhs[0]).(*ast.CallExpr); ok && c43CallKey(info, call) == dbEnumKey {
				if id, ok := as.Lhs[0].(*ast.Ident); ok {
					if v, ok := info.Defs[id].(*types.Var); ok {
						dbVars = append(dbVars, v)
					} else if v, ok := info.Uses[id].(*types.Var); ok {
						dbVars = append(dbVars, v)
					}
				}
			}
			return true
		})
		var loops []*ast.RangeStmt
		ast.Inspect(fd.Body, func(n ast.Node) bool {
			rs, ok := n.(*ast.RangeStmt)
			if !ok {
				return true
			}
			if id, ok := ast.Unparen(rs.X).(*ast.Ident); ok {
				for _, v := range dbVars {
					if info.Uses[id] == v {
						loops = append(loops, rs)
					}
				}
			}
			return true
		})
		has := func(scope ast.Node, anyOf []string) bool {
			found := false
			ast.Inspect(scope, func(n ast.Node) bool {
				call, ok := n.(*ast.CallExpr)
				if !ok || found {
					return !found
				}
				k := c43CallKey(info, call)
				for _, want := range anyOf {
					if k == want {
						found = true
					}
				}
				cal := Callee(info, call)
				if cal == nil {
					cal = c43FuncVarTarget(c.P, info, call.Fun)
				}
				if cal != nil {
					if rs, ok := reach[cal.Origin()]; ok {
						for _, want := range anyOf {
							if rs[want] {
								found = true
							}
						}
					}
				}
				return !found
			})
			return found
		}
		for _, need := range cfg.needs[name] {
			key := name + "/" + need.what
			if !need.perDB {
				ok := false
				for _, want := range need.anyOf {
					if reach[root.Origin()][want] {
						ok = true
					}
				}
				c.Check(ok, "C43-E1", key, root.Pos(), "", fmt.Sprintf("%s never calls %s: it cannot list %s from the catalog", name, strings.Join(need.anyOf, " / "), need.what))
				continue
			}
			if len(loops) == 0 {
				c.Bad("C43-E1", key, root.Pos(), fmt.Sprintf("%s has no loop over the result of %s: %s are not enumerated for every database", name, cfg.dbEnum, need.what))
				continue
			}
			ok := false
			for _, lp := range loops {
				if has(lp.Body, need.anyOf) {
					ok = true
				}
			}
			c.Check(ok, "C43-E1", key, loops[0].Pos(), "", fmt.Sprintf("inside its loop over all databases %s never calls %s: %s are missing from the listing (or taken from somewhere other than the catalog interface that owns them)", name, strings.Join(need.anyOf, " / "), need.what))
		}
		for _, need := range cfg.needs[name] {
			if need.emits {
				r.needEmits(name, pk, root, fns, edges, need)
			}
		}
	}

	// E2: one visibility argument
	type site struct {
		root string
		pos  token.Pos
		val  string
	}
	var sites []site
	count := map[string]int{}
	for _, root := range readers {
		pk := c.P.PkgOf(root)
		if pk == nil || c.P.Decl(root) == nil {
			continue
		}
		for _, fn := range c43Closure(c.P, pk, []*types.Func{root}, nil, "") {
			fd := c.P.Decl(fn)
			ast.Inspect(fd.Body, func(n ast.Node) bool {
				call, ok := n.(*ast.CallExpr)
				if !ok || c43CallKey(pk.TypesInfo, call) != dbEnumKey || len(call.Args) == 0 {
					return true
				}
				last := call.Args[len(call.Args)-1]
				tv, ok := pk.TypesInfo.Types[last]
				if !ok || tv.Value == nil || tv.Value.Kind() != constant.Bool {
					c.Undecided("C43-E2", root.Name()+"/"+cfg.dbEnum, call.Pos(), "visibility argument is not a constant")
					return true
				}
				v := tv.Value.String()
				sites = append(sites, site{root.Name(), call.Pos(), v})
				count[v]++
				return true
			})
		}
	}
	major := ""
	for v, n := range count {
		if n > count[major] || (n == count[major] && v < major) {
			major = v
		}
	}
	for _, s := range sites {
		if s.val == major {
			c.Ok("C43-E2", s.root+"/"+cfg.dbEnum, s.pos, "")
		} else {
			c.Bad("C43-E2", fmt.Sprintf("%s/%s(%s)", s.root, cfg.dbEnum, s.val), s.pos,
				fmt.Sprintf("%s enumerates databases with %s(…, %s) while %d other readers pass %s: this table unwraps the privilege-checking database and lists objects the sibling tables (and SHOW) hide from the same user", s.root, cfg.dbEnum, s.val, count[major], major))
		}
	}
}

// needEmits: some call of the required source in the closure feeds a loop (or DBTableIter callback) that builds rows.
func (r *c43Run) needEmits(name string, pk *packages.Package, root *types.Func, fns []*types.Func, edges map[*types.Func][]*types.Func, need c43Need) {
	c := r.c
	info := pk.TypesInfo
	isEmit := func(n ast.Node) bool {
		switch x := n.(type) {
		case *ast.CallExpr:
			if IsBuiltinCall(info, x, "append") && len(x.Args) >= 1 && r.row.isSliceOf(info.TypeOf(x.Args[0])) {
				return true
			}
		case *ast.AssignStmt:
			for _, lh := range x.Lhs {
				if ix, ok := ast.Unparen(lh).(*ast.IndexExpr); ok && r.row.isSliceOf(info.TypeOf(ix.X)) {
					return true
				}
			}
		}
		return false
	}
	// functions of the closure that (transitively) build rows
	emitsFn := map[*types.Func]bool{}
	for _, fn := range fns {
		ast.Inspect(c.P.Decl(fn).Body, func(n ast.Node) bool {
			if n != nil && isEmit(n) {
				emitsFn[fn] = true
			}
			return !emitsFn[fn]
		})
	}
	for changed := true; changed; {
		changed = false
		for _, fn := range fns {
			if emitsFn[fn] {
				continue
			}
			for _, cal := range edges[fn] {
				if emitsFn[cal] {
					emitsFn[fn] = true
					changed = true
				}
			}
		}
	}
	bodyEmits := func(body ast.Node) bool {
		found := false
		ast.Inspect(body, func(n ast.Node) bool {
			if n == nil || found {
				return false
			}
			if isEmit(n) {
				found = true
				return false
			}
			if call, ok := n.(*ast.CallExpr); ok {
				cal := Callee(info, call)
				if cal == nil {
					cal = c43FuncVarTarget(c.P, info, call.Fun)
				}
				if cal != nil && emitsFn[cal.Origin()] {
					found = true
				}
			}
			return !found
		})
		return found
	}
	isSource := func(call *ast.CallExpr) bool {
		k := c43CallKey(info, call)
		for _, want := range need.anyOf {
			if k == want {
				return true
			}
		}
		return false
	}
	sites, good := 0, false
	var first token.Pos
	for _, fn := range fns {
		fd := c.P.Decl(fn)
		// variables bound to a source call, and ranges directly over a source call
		bound := map[*types.Var]bool{}
		ast.Inspect(fd.Body, func(n ast.Node) bool {
			switch x := n.(type) {
			case *ast.CallExpr:
				if !isSource(x) {
					return true
				}
				sites++
				if first == token.NoPos {
					first = x.Pos()
				}
				// a callback-style source: the function literal arguments are the loop body
				for _, a := range x.Args {
					if fl, ok := ast.Unparen(a).(*ast.FuncLit); ok && bodyEmits(fl.Body) {
						good = true
					}
				}
			case *ast.AssignStmt:
				if len(x.Rhs) == 1 {
					if call, ok := ast.Unparen(x.Rhs[0]).(*ast.CallExpr); ok && isSource(call) && len(x.Lhs) > 0 {
						if id, ok := x.Lhs[0].(*ast.Ident); ok {
							if v, ok := info.Defs[id].(*types.Var); ok {
								bound[v] = true
							} else if v, ok := info.Uses[id].(*types.Var); ok {
								bound[v] = true
							}
						}
					}
				}
			}
			return true
		})
		ast.Inspect(fd.Body, func(n ast.Node) bool {
			rs, ok := n.(*ast.RangeStmt)
			if !ok {
				return true
			}
			over := false
			switch x := ast.Unparen(rs.X).(type) {
			case *ast.Ident:
				if v, ok := info.Uses[x].(*types.Var); ok && bound[v] {
					over = true
				}
			case *ast.CallExpr:
				over = isSource(x)
			}
			if over && bodyEmits(rs.Body) {
				good = true
			}
			return true
		})
	}
	if sites == 0 {
		return // reported by the presence clause
	}
	c.Check(good, "C43-E1", name+"/"+need.what+": rows", first, "",
		fmt.Sprintf("%s enumerates %s (%s) but no loop over the result (nor a callback passed to it) builds an output row: the objects are read and not listed", name, need.what, strings.Join(need.anyOf, " / ")))
}

// ---- X1: error discipline ----------------------------------------------------------------------------------

func (r *c43Run) allRoots(readers []*types.Func, execs []c43Exec) []*types.Func {
	seen := map[*types.Func]bool{}
	var out []*types.Func
	add := func(fn *types.Func) {
		if fn != nil && !seen[fn] {
			seen[fn] = true
			out = append(out, fn)
		}
	}
	for _, fn := range readers {
		add(fn)
	}
	var names []string
	for n := range r.cfg.needs {
		names = append(names, n)
	}
	sort.Strings(names)
	for _, n := range names {
		_, fn := r.lookupAny(n)
		add(fn)
	}
	for _, ex := range execs {
		add(ex.fn)
	}
	return out
}

func (r *c43Run) ruleErrors(readers []*types.Func, execs []c43Exec) {
	c, cfg := r.c, r.cfg
	srcs := map[string]bool{}
	for _, s := range cfg.sources {
		srcs[s] = true
	}
	done := map[*types.Func]bool{}
	for _, root := range r.allRoots(readers, execs) {
		pk := c.P.PkgOf(root)
		if pk == nil || c.P.Decl(root) == nil {
			continue
		}
		for _, fn := range c43Closure(c.P, pk, []*types.Func{root}, r.iter, "Next") {
			if done[fn] {
				continue
			}
			done[fn] = true
			r.errorsIn(pk, c.P.Decl(fn), srcs)
		}
	}
}

func c43IsErrorType(t types.Type) bool {
	n, ok := types.Unalias(t).(*types.Named)
	return ok && n.Obj().Pkg() == nil && n.Obj().Name() == "error"
}

func (r *c43Run) errorsIn(pk *packages.Package, fd *ast.FuncDecl, srcs map[string]bool) {
	c := r.c
	info := pk.TypesInfo
	fname := DeclName(fd)
	// walk with the stack of enclosing function bodies and the parent statement
	type frame struct{ body *ast.BlockStmt }
	var visit func(body *ast.BlockStmt)
	visit = func(body *ast.BlockStmt) {
		var stack []ast.Node
		ast.Inspect(body, func(n ast.Node) bool {
			if n == nil {
				stack = stack[:len(stack)-1]
				return false
			}
			if fl, ok := n.(*ast.FuncLit); ok {
				visit(fl.Body)
				return false
			}
			stack = append(stack, n)
			call, ok := n.(*ast.CallExpr)
			if !ok {
				return true
			}
			k := c43CallKey(info, call)
			if !srcs[k] {
				return true
			}
			sig, _ := info.TypeOf(call.Fun).Underlying().(*types.Signature)
			if sig == nil || sig.Results().Len() == 0 || !c43IsErrorType(sig.Results().At(sig.Results().Len()-1).Type()) {
				return true
			}
			errIdx := sig.Results().Len() - 1
			key := fname + "/" + c43ShortKey(k)
			if why, ok := r.cfg.x1Exc[key]; ok {
				c.Exc("C43-X1", key, call.Pos(), why)
				return true
			}
			if len(stack) < 2 {
				c.Undecided("C43-X1", key, call.Pos(), "call has no enclosing statement")
				return true
			}
			parent := stack[len(stack)-2]
			var errVar *types.Var
			var stmt ast.Node
			switch p := parent.(type) {
			case *ast.ReturnStmt:
				c.Ok("C43-X1", key, call.Pos(), "returned directly")
				return true
			case *ast.AssignStmt:
				if len(p.Rhs) == 1 && ast.Unparen(p.Rhs[0]) == call && len(p.Lhs) == errIdx+1 {
					if id, ok := p.Lhs[errIdx].(*ast.Ident); ok && id.Name != "_" {
						if v, ok := info.Defs[id].(*types.Var); ok {
							errVar = v
						} else if v, ok := info.Uses[id].(*types.Var); ok {
							errVar = v
						}
					}
					stmt = p
				}
			case *ast.ValueSpec:
				if len(p.Values) == 1 && ast.Unparen(p.Values[0]) == call && len(p.Names) == errIdx+1 && p.Names[errIdx].Name != "_" {
					errVar, _ = info.Defs[p.Names[errIdx]].(*types.Var)
					stmt = p
				}
			}
			if errVar == nil {
				c.Bad("C43-X1", key, call.Pos(), fmt.Sprintf("%s: the error of %s is discarded: a failing catalog call yields a silently shorter listing", fname, c43ShortKey(k)))
				return true
			}
			if c43ErrReachesReturn(c.P, info, body, stmt, errVar) {
				c.Ok("C43-X1", key, call.Pos(), "")
			} else {
				c.Bad("C43-X1", key, call.Pos(), fmt.Sprintf("%s: the error of %s is bound to %s but no return statement reachable from the call (before %s is reassigned) propagates it: a failing catalog call yields a silently shorter or incomplete listing", fname, c43ShortKey(k), errVar.Name(), errVar.Name()))
			}
			return true
		})
	}
	if fd.Body != nil {
		visit(fd.Body)
	}
}

// c43ErrReachesReturn: on go/cfg of body, is there a path from stmt to a return statement that mentions errVar,
// without passing a statement that reassigns errVar?
func c43ErrReachesReturn(p *Prog, info *types.Info, body *ast.BlockStmt, stmt ast.Node, errVar *types.Var) bool {
	g := p.CFG(info, body)
	mentions := func(n ast.Node) bool {
		found := false
		ast.Inspect(n, func(m ast.Node) bool {
			if _, ok := m.(*ast.FuncLit); ok {
				return false
			}
			if id, ok := m.(*ast.Ident); ok && info.Uses[id] == errVar {
				found = true
			}
			return !found
		})
		return found
	}
	redefines := func(n ast.Node) bool {
		as, ok := n.(*ast.AssignStmt)
		if !ok {
			return false
		}
		for _, lh := range as.Lhs {
			if id, ok := ast.Unparen(lh).(*ast.Ident); ok && (info.Uses[id] == errVar || info.Defs[id] == errVar) {
				return true
			}
		}
		return false
	}
	contains := func(outer, inner ast.Node) bool {
		return outer.Pos() <= inner.Pos() && inner.End() <= outer.End()
	}
	type at struct{ b, i int }
	var start *at
	for bi, b := range g.Blocks {
		for ni, n := range b.Nodes {
			if n == stmt || contains(n, stmt) && start == nil {
				if n == stmt || start == nil {
					start = &at{bi, ni}
				}
			}
		}
	}
	if start == nil {
		return false
	}
	seen := map[int]bool{}
	var walk func(bi, from int) bool
	walk = func(bi, from int) bool {
		b := g.Blocks[bi]
		for i := from; i < len(b.Nodes); i++ {
			n := b.Nodes[i]
			if rs, ok := n.(*ast.ReturnStmt); ok {
				if mentions(rs) {
					return true
				}
				return false
			}
			if redefines(n) {
				// the right-hand side may still use the old value (wrap), but the binding is gone afterwards
				return false
			}
		}
		for _, s := range b.Succs {
			if seen[int(s.Index)] {
				continue
			}
			seen[int(s.Index)] = true
			if walk(int(s.Index), 0) {
				return true
			}
		}
		return false
	}
	return walk(start.b, start.i+1)
}

// ---- S1: no carry-over between listed objects ----------------------------------------------------------------

func (r *c43Run) ruleCarry(readers []*types.Func, execs []c43Exec) {
	c := r.c
	done := map[*types.Func]bool{}
	for _, root := range r.allRoots(readers, execs) {
		pk := c.P.PkgOf(root)
		if pk == nil || c.P.Decl(root) == nil {
			continue
		}
		for _, fn := range c43Closure(c.P, pk, []*types.Func{root}, r.iter, "Next") {
			if done[fn] {
				continue
			}
			done[fn] = true
			r.carryIn(pk, c.P.Decl(fn))
		}
	}
}

func (r *c43Run) carryIn(pk *packages.Package, fd *ast.FuncDecl) {
	c := r.c
	info := pk.TypesInfo
	fi := r.lay.fnInfo(pk, fd)
	fname := DeclName(fd)
	type verdict struct {
		pos token.Pos
		bad []string
	}
	res := map[*types.Var]*verdict{}
	var order []*types.Var
	for _, site := range r.lay.sites(r.row, r.r2i, pk, fd) {
		shs, op := r.lay.eval(r.row, fi, site.e, 0)
		if op != nil {
			continue
		}
		// enclosing iteration bodies of the site, outermost first
		bodies := c43IterBodies(fd.Body, site.e)
		if len(bodies) == 0 {
			continue
		}
		for _, s := range shs {
			for _, el := range s.elems {
				if el.info != info || !(fd.Body.Pos() <= el.e.Pos() && el.e.End() <= fd.Body.End()) {
					continue
				}
				ast.Inspect(el.e, func(n ast.Node) bool {
					id, ok := n.(*ast.Ident)
					if !ok {
						return true
					}
					v, _ := info.Uses[id].(*types.Var)
					if v == nil || v.IsField() || v.Parent() == v.Pkg().Scope() {
						return true
					}
					for _, b := range bodies {
						if b.Pos() <= v.Pos() && v.Pos() < b.End() {
							continue // declared inside this iteration
						}
						assignedInside := false
						for _, d := range fi.defs[v] {
							if b.Pos() <= d.pos && d.pos < b.End() {
								assignedInside = true
							}
						}
						if !assignedInside {
							continue
						}
						vd := res[v]
						if vd == nil {
							vd = &verdict{pos: id.Pos()}
							res[v] = vd
							order = append(order, v)
						}
						// the use point: the element itself when it lies in the body, else the site expression
						var target ast.Node = el.e
						if !(b.Pos() <= target.Pos() && target.End() <= b.End()) {
							target = site.e
						}
						if !c43DefinitelyAssigned(info, b, target, v) {
							vd.bad = c43AppendUnique(vd.bad, fmt.Sprintf("row built at %s reads %s, which is declared outside the %s at %s and assigned inside it only on some paths",
								c.P.Rel(s.pos), v.Name(), c43BodyKind(fd.Body, b), c.P.Rel(b.Pos())))
						}
					}
					return true
				})
			}
		}
	}
	for _, v := range order {
		vd := res[v]
		key := fname + "/" + v.Name()
		if why, ok := r.cfg.s1Exc[key]; ok && len(vd.bad) > 0 {
			c.Exc("C43-S1", key, vd.pos, why)
			continue
		}
		c.Check(len(vd.bad) == 0, "C43-S1", key, vd.pos, "", strings.Join(vd.bad, "; ")+": for an object that takes the other path the row shows the value computed for the previously listed object")
	}
}

func c43AppendUnique(list []string, s string) []string {
	for _, x := range list {
		if x == s {
			return list
		}
	}
	return append(list, s)
}

// c43IterBodies returns the bodies of the loops and function literals that enclose target, outermost first.
func c43IterBodies(root *ast.BlockStmt, target ast.Node) []*ast.BlockStmt {
	var out []*ast.BlockStmt
	var stack []ast.Node
	found := false
	ast.Inspect(root, func(n ast.Node) bool {
		if found {
			return false
		}
		if n == nil {
			stack = stack[:len(stack)-1]
			return false
		}
		stack = append(stack, n)
		if n == target {
			found = true
			for _, s := range stack {
				switch x := s.(type) {
				case *ast.ForStmt:
					out = append(out, x.Body)
				case *ast.RangeStmt:
					out = append(out, x.Body)
				case *ast.FuncLit:
					out = append(out, x.Body)
				}
			}
			return false
		}
		return true
	})
	return out
}

func c43BodyKind(root *ast.BlockStmt, body *ast.BlockStmt) string {
	kind := "loop"
	ast.Inspect(root, func(n ast.Node) bool {
		if fl, ok := n.(*ast.FuncLit); ok && fl.Body == body {
			kind = "callback"
		}
		return true
	})
	return kind
}

// c43DefinitelyAssigned: is v assigned on every path from the entry of body to the evaluation of target?
// A syntactic definite-assignment analysis: sequences, if/else, switch with default, nested loops (first
// iteration), function literals passed in a call (run with the state at the call). Paths that leave the
// iteration (return/continue/break/panic) do not reach the target.
func c43DefinitelyAssigned(info *types.Info, body *ast.BlockStmt, target ast.Node, v *types.Var) bool {
	result, seen := false, false
	within := func(n ast.Node) bool { return n != nil && n.Pos() <= target.Pos() && target.End() <= n.End() }
	assigns := func(lhs []ast.Expr) bool {
		for _, lh := range lhs {
			if id, ok := ast.Unparen(lh).(*ast.Ident); ok && (info.Uses[id] == v || info.Defs[id] == v) {
				return true
			}
		}
		return false
	}
	var block func(list []ast.Stmt, in bool) (bool, bool)
	var stmt func(s ast.Stmt, in bool) (bool, bool)
	// function literals inside an expression run with the state `in`
	lits := func(n ast.Node, in bool) {
		if n == nil {
			return
		}
		ast.Inspect(n, func(m ast.Node) bool {
			if fl, ok := m.(*ast.FuncLit); ok {
				block(fl.Body.List, in)
				return false
			}
			return true
		})
	}
	mark := func(n ast.Node, in bool) {
		if !seen && within(n) {
			// the target is in this simple statement (outside any function literal handled separately)
			inLit := false
			ast.Inspect(n, func(m ast.Node) bool {
				if fl, ok := m.(*ast.FuncLit); ok && within(fl) {
					inLit = true
				}
				return !inLit
			})
			if !inLit {
				seen, result = true, in
			}
		}
	}
	block = func(list []ast.Stmt, in bool) (bool, bool) {
		for _, s := range list {
			out, term := stmt(s, in)
			if term {
				return out, true
			}
			in = out
		}
		return in, false
	}
	stmt = func(s ast.Stmt, in bool) (bool, bool) {
		switch x := s.(type) {
		case nil:
			return in, false
		case *ast.BlockStmt:
			return block(x.List, in)
		case *ast.LabeledStmt:
			return stmt(x.Stmt, in)
		case *ast.ReturnStmt:
			mark(x, in)
			lits(x, in)
			return in, true
		case *ast.BranchStmt:
			return in, x.Tok != token.FALLTHROUGH
		case *ast.IfStmt:
			in, _ = stmt(x.Init, in)
			mark(x.Cond, in)
			lits(x.Cond, in)
			to, tt := block(x.Body.List, in)
			eo, et := in, false
			if x.Else != nil {
				eo, et = stmt(x.Else, in)
			}
			switch {
			case tt && et:
				return in, true
			case tt:
				return eo, false
			case et:
				return to, false
			}
			return to && eo, false
		case *ast.ForStmt:
			in, _ = stmt(x.Init, in)
			mark(x.Cond, in)
			block(x.Body.List, in)
			return in, false
		case *ast.RangeStmt:
			mark(x.X, in)
			lits(x.X, in)
			block(x.Body.List, in)
			return in, false
		case *ast.SwitchStmt, *ast.TypeSwitchStmt:
			var clauses []ast.Stmt
			if sw, ok := x.(*ast.SwitchStmt); ok {
				in, _ = stmt(sw.Init, in)
				if sw.Tag != nil {
					mark(sw.Tag, in)
				}
				clauses = sw.Body.List
			} else {
				ts := x.(*ast.TypeSwitchStmt)
				in, _ = stmt(ts.Init, in)
				clauses = ts.Body.List
			}
			all, hasDefault, allTerm := true, false, true
			for _, cc := range clauses {
				cl := cc.(*ast.CaseClause)
				if cl.List == nil {
					hasDefault = true
				}
				o, t := block(cl.Body, in)
				if !t {
					allTerm = false
					if !o {
						all = false
					}
				}
			}
			if hasDefault && allTerm && len(clauses) > 0 {
				return in, true
			}
			if hasDefault && all {
				return true, false
			}
			return in, false
		case *ast.SelectStmt:
			for _, cc := range x.Body.List {
				block(cc.(*ast.CommClause).Body, in)
			}
			return in, false
		case *ast.AssignStmt:
			mark(x, in)
			for _, rh := range x.Rhs {
				lits(rh, in)
			}
			if assigns(x.Lhs) {
				return true, false
			}
			return in, false
		case *ast.DeclStmt:
			mark(x, in)
			lits(x, in)
			if gd, ok := x.Decl.(*ast.GenDecl); ok {
				for _, sp := range gd.Specs {
					if vs, ok := sp.(*ast.ValueSpec); ok {
						for _, n := range vs.Names {
							if info.Defs[n] == v {
								return true, false
							}
						}
					}
				}
			}
			return in, false
		case *ast.ExprStmt:
			mark(x, in)
			lits(x, in)
			if call, ok := x.X.(*ast.CallExpr); ok {
				if id, ok := call.Fun.(*ast.Ident); ok && id.Name == "panic" {
					return in, true
				}
			}
			return in, false
		default:
			mark(s, in)
			lits(s, in)
			return in, false
		}
	}
	block(body.List, false)
	if !seen {
		return true // target not found on any analysed path: nothing to report
	}
	return result
}
