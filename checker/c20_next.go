package main

import (
	"fmt"
	"go/constant"
	"go/token"
	"go/types"
	"sort"
	"strings"

	"golang.org/x/tools/go/ssa"
)

// C20-N / C20-U — the counter means "next value to hand out".
//
// N (path clause). A *row cell* is an element loaded from a value of the row type (sql.Row), or a
// parameter that an in-package caller binds to such an element. Whenever a function learns a row
// cell c of the AUTO_INCREMENT column — it compares c with the counter, or stores (the Uint64
// conversion of) c into the counter — then on every path to a normal return the counter must be
// strictly greater than c. This is decided by an abstract interpretation of rel = sign(c - counter)
// over the SSA control-flow graph:
//
//	Compare(c, counter)         rel := {<,=,>}    (refined on the branches that test the result,
//	                                               as long as the counter was not written since)
//	counter = conv(c)           rel := {=}
//	counter = conv(c) + k, k>0  rel := {<}
//	helper(&counter)            '=' -> '<',  '>' -> {=,>},  '<' stays        (the +1 helper of rule H)
//	counter = 0/1 (reset)       nothing pending any more (resets are rule W/R's business)
//	any other store             rel := {<,=,>} if something was pending
//
// and at every return that may be a success (error operand nil, or not known to be non-nil)
// rel must be {<}. Cells learnt earlier on the same path (loops) are folded into a "some earlier
// cell may equal the counter" flag that an increment, or a store of a cell known to be larger,
// clears. The analysis is interprocedural over static in-package calls (callee effect computed
// per abstract input state), so moving the compare/store or the increment into a helper does not
// change the verdict; an unexported function with in-package callers may leave the obligation to
// its callers.
//
// U (existence clause). A function that hands a row to the edit accumulator (interface method
// tableEditAccumulator.Insert: the row will be stored in the table) must look at the counter:
// it — or an in-package callee that receives the row or a cell of it — contains a
// Compare(cell of that row, counter). Otherwise the table can contain a value above the counter
// that the counter never learns, and a later generated value equals it.

const (
	c20nNeg  uint8 = 1 // cell < counter
	c20nZero uint8 = 2 // cell == counter
	c20nPos  uint8 = 4 // cell > counter
	c20nAll  uint8 = 7
)

type c20nState struct {
	cmp  *ssa.Call // the compare whose result later branches refer to (nil: none)
	C, R uint8     // C: sign set of that compare's result on this path; R: current relation cell ? counter
	u    bool      // counter unwritten since cmp (C and R still coincide)
	P    uint8     // earlier cells: 0 all below the counter, 1 some may equal it, 2 some may exceed it
}

func (s c20nState) clean() bool { return s.R&(c20nZero|c20nPos) == 0 && s.P == 0 }

var c20nCleanState = c20nState{R: c20nNeg}

type c20nTrail struct {
	prev *c20nTrail
	pos  token.Pos
	what string
}

// c20nExit is an abstract state at a normal return. When the function returns the result of its
// latest compare as result number ret (ret >= 0), C/u/flip describe that compare so that the caller's
// branches on the returned value keep refining the relation.
type c20nExit struct {
	R, P uint8
	C    uint8
	u    bool
	ret  int8
	flip bool
}

func c20nPlainExit(R, P uint8) c20nExit { return c20nExit{R: R, P: P, ret: -1} }

type c20nKey struct {
	f    *ssa.Function
	R, P uint8
}

type c20nResult struct {
	exits  map[c20nExit]bool
	dirty  *c20nTrail // one path to a dirty normal return (nil if none)
	dirtyP token.Pos
	births int                    // birth sites: compares / cell stores in this function, and calls that hand over a pending obligation
	direct int                    // ... of which in this function itself
	from   map[*ssa.Function]bool // callees that handed over a pending obligation
	done   bool
}

type c20n struct {
	c        *Ctx
	p        c20Params
	pkg      *types.Package
	tn       *types.TypeName
	fieldIdx int
	rowT     types.Type
	funcs    []*ssa.Function
	inPkg    map[*ssa.Function]bool
	short    func(*ssa.Function) string
	helpers  map[*ssa.Function]int
	callers  map[*ssa.Function][]ssa.CallInstruction
	relevant map[*ssa.Function]bool
	memo     map[c20nKey]*c20nResult
	cellMemo map[*ssa.Parameter]int // 1 in progress, 2 yes, 3 no
}

// U exceptions: none today.
var c20UExceptions = map[string]string{}

func (a *c20n) isCounterAddr(v ssa.Value) bool {
	fa, ok := v.(*ssa.FieldAddr)
	if !ok || fa.Field != a.fieldIdx {
		return false
	}
	t := fa.X.Type()
	if pt, ok := t.Underlying().(*types.Pointer); ok {
		t = pt.Elem()
	}
	return types.Identical(t, a.tn.Type())
}

func (a *c20n) isCounterLoad(v ssa.Value) bool {
	u, ok := v.(*ssa.UnOp)
	return ok && u.Op == token.MUL && a.isCounterAddr(u.X)
}

func c20nStrip(v ssa.Value) ssa.Value {
	for {
		switch x := v.(type) {
		case *ssa.MakeInterface:
			v = x.X
		case *ssa.ChangeInterface:
			v = x.X
		default:
			return v
		}
	}
}

func c20nConstInt(v ssa.Value) (int64, bool) {
	k, ok := v.(*ssa.Const)
	if !ok || k.Value == nil || k.Value.Kind() != constant.Int {
		return 0, false
	}
	i, exact := constant.Int64Val(k.Value)
	if !exact {
		if u, ex := constant.Uint64Val(k.Value); ex && u > 0 {
			return 1 << 62, true // "large positive"
		}
		return 0, false
	}
	return i, true
}

func (a *c20n) isRowType(t types.Type) bool {
	if a.rowT == nil {
		return false
	}
	if pt, ok := t.Underlying().(*types.Pointer); ok {
		t = pt.Elem()
	}
	return types.Identical(t, a.rowT)
}

// rowOfCell: v is `row[i]` for a value `row` of the row type; returns row.
func (a *c20n) rowOfCell(v ssa.Value) ssa.Value {
	v = c20nStrip(v)
	switch x := v.(type) {
	case *ssa.UnOp:
		if x.Op == token.MUL {
			if ia, ok := x.X.(*ssa.IndexAddr); ok && a.isRowType(ia.X.Type()) {
				return ia.X
			}
		}
	case *ssa.Index:
		if a.isRowType(x.X.Type()) {
			return x.X
		}
	}
	return nil
}

// isCell: v is a row cell — an element of a row value, or a parameter bound to one by an in-package caller.
func (a *c20n) isCell(v ssa.Value) bool {
	v = c20nStrip(v)
	if a.rowOfCell(v) != nil {
		return true
	}
	if p, ok := v.(*ssa.Parameter); ok {
		return a.paramIsCell(p)
	}
	return false
}

func (a *c20n) paramIsCell(p *ssa.Parameter) bool {
	switch a.cellMemo[p] {
	case 1, 3:
		return false
	case 2:
		return true
	}
	a.cellMemo[p] = 1
	f := p.Parent()
	idx := -1
	for i, q := range f.Params {
		if q == p {
			idx = i
		}
	}
	res := false
	if idx >= 0 {
		for _, cs := range a.callers[f] {
			args := cs.Common().Args
			if idx < len(args) && a.isCell(args[idx]) {
				res = true
				break
			}
		}
	}
	if res {
		a.cellMemo[p] = 2
	} else {
		a.cellMemo[p] = 3
	}
	return res
}

// cellOf peels the conversions between a row cell and the value stored into the counter:
// TypeAssert, Extract0(Convert(ctx, x)), interface/number conversions and `+ k`.
func (a *c20n) cellOf(v ssa.Value) (cell ssa.Value, plus int64) {
	for depth := 0; depth < 10; depth++ {
		if a.isCell(v) {
			return c20nStrip(v), plus
		}
		switch x := v.(type) {
		case *ssa.TypeAssert:
			v = x.X
		case *ssa.MakeInterface:
			v = x.X
		case *ssa.ChangeInterface:
			v = x.X
		case *ssa.Convert:
			v = x.X
		case *ssa.ChangeType:
			v = x.X
		case *ssa.Extract:
			call, ok := x.Tuple.(*ssa.Call)
			if !ok || x.Index != 0 || c20nCallName(call) != "Convert" {
				return nil, 0
			}
			args := c20nCallArgs(call)
			if len(args) < 2 {
				return nil, 0
			}
			v = args[len(args)-1]
		case *ssa.BinOp:
			if x.Op != token.ADD {
				return nil, 0
			}
			if k, ok := c20nConstInt(x.Y); ok && k >= 0 {
				plus += k
				v = x.X
			} else if k, ok := c20nConstInt(x.X); ok && k >= 0 {
				plus += k
				v = x.Y
			} else {
				return nil, 0
			}
		default:
			return nil, 0
		}
	}
	return nil, 0
}

func c20nCallName(call *ssa.Call) string {
	com := call.Common()
	if com.IsInvoke() {
		return com.Method.Name()
	}
	if sc := com.StaticCallee(); sc != nil {
		return sc.Name()
	}
	return ""
}

func c20nCallArgs(call *ssa.Call) []ssa.Value {
	com := call.Common()
	if com.IsInvoke() {
		return com.Args
	}
	if com.Signature().Recv() != nil && len(com.Args) > 0 {
		return com.Args[1:]
	}
	return com.Args
}

// compare: call is Compare(ctx, cell, <counter load>) (flip=false) or Compare(ctx, <counter load>, cell) (flip=true).
func (a *c20n) compare(call *ssa.Call) (cell ssa.Value, flip bool) {
	if c20nCallName(call) != "Compare" {
		return nil, false
	}
	args := c20nCallArgs(call)
	if len(args) < 3 {
		return nil, false
	}
	x, y := c20nStrip(args[len(args)-2]), c20nStrip(args[len(args)-1])
	if a.isCounterLoad(y) && a.isCell(x) {
		return x, false
	}
	if a.isCounterLoad(x) && a.isCell(y) {
		return y, true
	}
	return nil, false
}

func (a *c20n) helperCall(ci ssa.CallInstruction) bool {
	com := ci.Common()
	callee := com.StaticCallee()
	if callee == nil {
		return false
	}
	pi, ok := a.helpers[callee]
	return ok && pi < len(com.Args) && a.isCounterAddr(com.Args[pi])
}

func c20nSame(x, y ssa.Value, depth int) bool {
	if x == y {
		return true
	}
	if depth > 6 || x == nil || y == nil {
		return false
	}
	switch p := x.(type) {
	case *ssa.UnOp:
		q, ok := y.(*ssa.UnOp)
		return ok && p.Op == q.Op && c20nSame(p.X, q.X, depth+1)
	case *ssa.IndexAddr:
		q, ok := y.(*ssa.IndexAddr)
		return ok && c20nSame(p.X, q.X, depth+1) && c20nSame(p.Index, q.Index, depth+1)
	case *ssa.Index:
		q, ok := y.(*ssa.Index)
		return ok && c20nSame(p.X, q.X, depth+1) && c20nSame(p.Index, q.Index, depth+1)
	case *ssa.FieldAddr:
		q, ok := y.(*ssa.FieldAddr)
		return ok && p.Field == q.Field && c20nSame(p.X, q.X, depth+1)
	case *ssa.MakeInterface:
		q, ok := y.(*ssa.MakeInterface)
		return ok && c20nSame(p.X, q.X, depth+1)
	case *ssa.Const:
		q, ok := y.(*ssa.Const)
		return ok && p.Value != nil && q.Value != nil && constant.Compare(p.Value, token.EQL, q.Value)
	}
	return false
}

// signsOf: the sign classes of an integer c for which `c op k` has the given truth value.
func c20nSignsOf(op token.Token, k int64, truth bool) uint8 {
	eval := func(c int64) bool {
		switch op {
		case token.GTR:
			return c > k
		case token.GEQ:
			return c >= k
		case token.LSS:
			return c < k
		case token.LEQ:
			return c <= k
		case token.EQL:
			return c == k
		case token.NEQ:
			return c != k
		}
		return false
	}
	var out uint8
	samples := []int64{-1 << 40, -3, -2, -1, 0, 1, 2, 3, 1 << 40, k - 1, k, k + 1}
	for _, c := range samples {
		if eval(c) != truth {
			continue
		}
		switch {
		case c < 0:
			out |= c20nNeg
		case c == 0:
			out |= c20nZero
		default:
			out |= c20nPos
		}
	}
	return out
}

func c20nMirror(s uint8) uint8 {
	out := s & c20nZero
	if s&c20nNeg != 0 {
		out |= c20nPos
	}
	if s&c20nPos != 0 {
		out |= c20nNeg
	}
	return out
}

var c20nFlip = map[token.Token]token.Token{token.GTR: token.LSS, token.LSS: token.GTR, token.GEQ: token.LEQ, token.LEQ: token.GEQ, token.EQL: token.EQL, token.NEQ: token.NEQ}

// refine narrows the state along one successor of an If.
func (a *c20n) refine(st c20nState, cond ssa.Value, truth bool, flipOf map[*ssa.Call]bool, retIdx map[*ssa.Call]int) (c20nState, bool, string) {
	if st.cmp == nil {
		return st, true, ""
	}
	bo, ok := cond.(*ssa.BinOp)
	if !ok {
		return st, true, ""
	}
	want := retIdx[st.cmp] // 0 for a real compare; the result number for a summarised callee
	isCmp := func(v ssa.Value) bool {
		if v == ssa.Value(st.cmp) {
			return want == 0 && st.cmp.Common().Signature().Results().Len() == 1
		}
		ex, ok := v.(*ssa.Extract)
		return ok && ex.Index == want && ex.Tuple == ssa.Value(st.cmp)
	}
	op := bo.Op
	var k int64
	switch {
	case isCmp(bo.X):
		var ok bool
		if k, ok = c20nConstInt(bo.Y); !ok {
			return st, true, ""
		}
	case isCmp(bo.Y):
		var ok bool
		if k, ok = c20nConstInt(bo.X); !ok {
			return st, true, ""
		}
		if op, ok = c20nFlip[op]; !ok {
			return st, true, ""
		}
	default:
		return st, true, ""
	}
	if _, known := c20nFlip[op]; !known {
		return st, true, ""
	}
	allowed := c20nSignsOf(op, k, truth)
	if flipOf[st.cmp] {
		allowed = c20nMirror(allowed)
	}
	st.C &= allowed
	if st.C == 0 {
		return st, false, ""
	}
	if st.u {
		st.R = st.C
	}
	neg := ""
	if !truth {
		neg = "not "
	}
	return st, true, fmt.Sprintf("branch: compare result %s%s %d", neg, op, k)
}

func c20nSigns(s uint8) string {
	var p []string
	if s&c20nNeg != 0 {
		p = append(p, "<")
	}
	if s&c20nZero != 0 {
		p = append(p, "=")
	}
	if s&c20nPos != 0 {
		p = append(p, ">")
	}
	return "{" + strings.Join(p, ",") + "}"
}

func c20nInc(st c20nState) c20nState {
	var r uint8
	if st.R&c20nNeg != 0 || st.R&c20nZero != 0 {
		r |= c20nNeg
	}
	if st.R&c20nPos != 0 {
		r |= c20nZero | c20nPos
	}
	st.R = r
	st.u = false
	if st.P == 1 {
		st.P = 0
	}
	return st
}

// errKnownNonNil: the returned error value v is known non-nil in block b (b is dominated by the
// non-nil edge of a test `v != nil` / `v == nil`).
func c20nErrKnownNonNil(v ssa.Value, b *ssa.BasicBlock) bool {
	if k, ok := v.(*ssa.Const); ok {
		return !k.IsNil()
	}
	for _, pb := range b.Parent().Blocks {
		if len(pb.Instrs) == 0 {
			continue
		}
		ifi, ok := pb.Instrs[len(pb.Instrs)-1].(*ssa.If)
		if !ok {
			continue
		}
		bo, ok := ifi.Cond.(*ssa.BinOp)
		if !ok || (bo.Op != token.NEQ && bo.Op != token.EQL) {
			continue
		}
		isNil := func(x ssa.Value) bool { k, ok := x.(*ssa.Const); return ok && k.IsNil() }
		if !(bo.X == v && isNil(bo.Y) || bo.Y == v && isNil(bo.X)) {
			continue
		}
		want := 0
		if bo.Op == token.EQL {
			want = 1
		}
		t := pb.Succs[want]
		if len(t.Preds) == 1 && t.Dominates(b) {
			return true
		}
	}
	return false
}

func (a *c20n) resetConst(v ssa.Value, depth int) bool {
	if depth > 4 {
		return false
	}
	if k, ok := v.(*ssa.Const); ok && k.Value != nil && k.Value.Kind() == constant.Int {
		u, exact := constant.Uint64Val(k.Value)
		return exact && u <= 1
	}
	if cv, ok := v.(*ssa.Convert); ok {
		return a.resetConst(cv.X, depth+1)
	}
	if ph, ok := v.(*ssa.Phi); ok {
		for _, e := range ph.Edges {
			if !a.resetConst(e, depth+1) {
				return false
			}
		}
		return len(ph.Edges) > 0
	}
	return false
}

// computeRelevant: functions that (transitively over static in-package calls) learn a cell or write the counter.
func (a *c20n) computeRelevant() {
	a.relevant = map[*ssa.Function]bool{}
	for _, f := range a.funcs {
		for _, b := range f.Blocks {
			for _, in := range b.Instrs {
				switch x := in.(type) {
				case *ssa.Store:
					if a.isCounterAddr(x.Addr) {
						a.relevant[f] = true
					}
				case *ssa.Call:
					if cell, _ := a.compare(x); cell != nil || a.helperCall(x) {
						a.relevant[f] = true
					}
				}
			}
		}
	}
	for changed := true; changed; {
		changed = false
		for callee, css := range a.callers {
			if !a.relevant[callee] {
				continue
			}
			for _, cs := range css {
				if p := cs.Parent(); p != nil && !a.relevant[p] {
					a.relevant[p] = true
					changed = true
				}
			}
		}
	}
}

// analyze computes the abstract exit states of f when entered with (R,P).
func (a *c20n) analyze(f *ssa.Function, in c20nExit) *c20nResult {
	key := c20nKey{f, in.R, in.P}
	if r := a.memo[key]; r != nil {
		if !r.done {
			return nil // recursion: the caller treats the call as having no effect
		}
		return r
	}
	res := &c20nResult{exits: map[c20nExit]bool{}, from: map[*ssa.Function]bool{}}
	a.memo[key] = res
	flipOf := map[*ssa.Call]bool{}
	retIdx := map[*ssa.Call]int{}
	cellOfCmp := map[*ssa.Call]ssa.Value{}
	type vkey struct {
		b  *ssa.BasicBlock
		i  int
		st c20nState
	}
	visited := map[vkey]bool{}
	errResult := false
	if n := f.Signature.Results().Len(); n > 0 && IsErrorType(f.Signature.Results().At(n-1).Type()) {
		errResult = true
	}
	born := map[ssa.Instruction]bool{}
	var walk func(b *ssa.BasicBlock, i int, st c20nState, tr *c20nTrail)
	walk = func(b *ssa.BasicBlock, i int, st c20nState, tr *c20nTrail) {
		k := vkey{b, i, st}
		if visited[k] {
			return
		}
		visited[k] = true
		ev := func(pos token.Pos, what string) { tr = &c20nTrail{tr, pos, what} }
		for ; i < len(b.Instrs); i++ {
			switch x := b.Instrs[i].(type) {
			case *ssa.Call:
				if cell, flip := a.compare(x); cell != nil {
					born[x] = true
					flipOf[x], cellOfCmp[x] = flip, cell
					if st.R&c20nPos != 0 {
						st.P = 2
					} else if st.R&c20nZero != 0 && st.P < 1 {
						st.P = 1
					}
					st.cmp, st.C, st.R, st.u = x, c20nAll, c20nAll, true
					ev(x.Pos(), "compares a row cell with the counter")
					continue
				}
				if a.helperCall(x) {
					st = c20nInc(st)
					ev(x.Pos(), "increments the counter ("+a.short(x.Common().StaticCallee())+"): cell ? counter = "+c20nSigns(st.R))
					continue
				}
				callee := x.Common().StaticCallee()
				if callee != nil && a.inPkg[callee] && a.relevant[callee] && len(callee.Blocks) > 0 {
					sub := a.analyze(callee, c20nPlainExit(st.R, st.P))
					if sub == nil {
						continue
					}
					if len(sub.exits) == 1 && sub.exits[c20nPlainExit(st.R, st.P)] {
						continue // no effect
					}
					var outs []c20nExit
					for e := range sub.exits {
						outs = append(outs, e)
					}
					sort.Slice(outs, func(p, q int) bool {
						return fmt.Sprint(outs[p]) < fmt.Sprint(outs[q])
					})
					for _, e := range outs {
						st2 := st
						if e.R != st.R || e.P != st.P || e.ret >= 0 {
							st2 = c20nState{R: e.R, P: e.P}
						}
						if e.ret >= 0 {
							st2.cmp, st2.C, st2.u = x, e.C, e.u
							flipOf[x], retIdx[x] = e.flip, int(e.ret)
						}
						if !st2.clean() {
							born[x] = true // the callee hands a pending obligation to this function
							res.from[callee] = true
						}
						walk(b, i+1, st2, &c20nTrail{tr, x.Pos(), fmt.Sprintf("calls %s: afterwards cell ? counter = %s", a.short(callee), c20nSigns(e.R))})
					}
					return
				}
			case *ssa.Store:
				if !a.isCounterAddr(x.Addr) {
					continue
				}
				if cell, plus := a.cellOf(x.Val); cell != nil {
					born[x] = true
					larger := st.u && st.cmp != nil && st.C == c20nPos && c20nSame(cell, cellOfCmp[st.cmp], 0)
					if st.P == 1 && larger {
						st.P = 0
					}
					if plus >= 1 {
						st.R = c20nNeg
					} else {
						st.R = c20nZero
					}
					st.u = false
					ev(x.Pos(), "stores the row cell into the counter: cell ? counter = "+c20nSigns(st.R))
					continue
				}
				if a.resetConst(x.Val, 0) {
					st = c20nCleanState
					continue
				}
				if !st.clean() {
					st.R, st.u = c20nAll, false
					ev(x.Pos(), "overwrites the counter with an unrelated value")
				}
			case *ssa.Return:
				normal := true
				if errResult && len(x.Results) > 0 {
					if c20nErrKnownNonNil(x.Results[len(x.Results)-1], b) {
						normal = false
					}
				}
				if !normal {
					return
				}
				ex := c20nPlainExit(st.R, st.P)
				if st.cmp != nil {
					for ri, rv := range x.Results {
						single := rv == ssa.Value(st.cmp) && retIdx[st.cmp] == 0 && st.cmp.Common().Signature().Results().Len() == 1
						if e2, ok := rv.(*ssa.Extract); single || ok && e2.Tuple == ssa.Value(st.cmp) && e2.Index == retIdx[st.cmp] {
							ex.ret, ex.C, ex.u, ex.flip = int8(ri), st.C, st.u, flipOf[st.cmp]
						}
					}
				}
				res.exits[ex] = true
				if !st.clean() && res.dirty == nil {
					what := "returns with cell ? counter = " + c20nSigns(st.R)
					if st.P != 0 {
						what += " (and an earlier cell may equal or exceed the counter)"
					}
					res.dirty = &c20nTrail{tr, x.Pos(), what}
					res.dirtyP = x.Pos()
				}
				return
			case *ssa.Panic:
				return
			}
		}
		if len(b.Instrs) == 0 {
			return
		}
		if ifi, ok := b.Instrs[len(b.Instrs)-1].(*ssa.If); ok {
			for si, succ := range b.Succs {
				st2, feasible, what := a.refine(st, ifi.Cond, si == 0, flipOf, retIdx)
				if !feasible {
					continue
				}
				tr2 := tr
				if what != "" {
					tr2 = &c20nTrail{tr, ifi.Cond.Pos(), what}
				}
				walk(succ, 0, st2, tr2)
			}
			return
		}
		for _, succ := range b.Succs {
			walk(succ, 0, st, tr)
		}
	}
	walk(f.Blocks[0], 0, c20nState{R: in.R, P: in.P}, nil)
	res.births = len(born)
	for in := range born {
		if _, isCall := in.(*ssa.Call); !isCall || cellOfCmp[in.(*ssa.Call)] != nil {
			res.direct++
		}
	}
	res.done = true
	return res
}

func (a *c20n) describe(tr *c20nTrail) []string {
	var out []string
	for t := tr; t != nil; t = t.prev {
		out = append(out, a.c.P.Rel(t.pos)+": "+t.what)
	}
	for i, j := 0, len(out)-1; i < j; i, j = i+1, j-1 {
		out[i], out[j] = out[j], out[i]
	}
	return out
}

// runC20Next decides rules N and U. helpers is rule W's map of increment helpers.
func runC20Next(c *Ctx, p c20Params, pk, sqlPk *types.Package, tn *types.TypeName, fieldIdx int, funcs []*ssa.Function,
	pkgOf func(*ssa.Function) *types.Package, short func(*ssa.Function) string, helpers map[*ssa.Function]int) {

	c.Rule("C20-N", "after a function compares a row cell with the counter or stores it into the counter, the counter is strictly past that cell on every path to a normal return (store + increment, increment on equal, nothing on smaller)", p.floors["C20-N"])
	c.Rule("C20-U", "every function that hands a row to the edit accumulator (the row will be stored) compares that row's cell with the counter, itself or in a callee that receives the row", p.floors["C20-U"])

	a := &c20n{c: c, p: p, pkg: pk, tn: tn, fieldIdx: fieldIdx, funcs: funcs, short: short, helpers: helpers,
		inPkg: map[*ssa.Function]bool{}, callers: map[*ssa.Function][]ssa.CallInstruction{}, memo: map[c20nKey]*c20nResult{}, cellMemo: map[*ssa.Parameter]int{}}
	if rtn, ok := sqlPk.Scope().Lookup(p.rowType).(*types.TypeName); ok {
		a.rowT = rtn.Type()
	}
	if a.rowT == nil {
		c.Undecided("C20-N", "row type", tn.Pos(), "row type "+p.sqlRel+"."+p.rowType+" not found")
		return
	}
	for _, f := range funcs {
		a.inPkg[f] = true
	}
	for _, f := range funcs {
		for _, b := range f.Blocks {
			for _, in := range b.Instrs {
				if ci, ok := in.(ssa.CallInstruction); ok {
					if callee := ci.Common().StaticCallee(); callee != nil && a.inPkg[callee] {
						a.callers[callee] = append(a.callers[callee], ci)
					}
				}
			}
		}
	}
	a.computeRelevant()

	// ---- N
	// Blame: a function with a dirty normal exit is reported unless it may leave the obligation to its
	// callers (unexported, called statically in the package) and they discharge it. If some callers do and
	// some do not, the callers that do not are reported; if none does, the function itself is.
	top := map[*ssa.Function]*c20nResult{}
	for _, f := range funcs {
		if a.relevant[f] {
			if res := a.analyze(f, c20nPlainExit(c20nNeg, 0)); res != nil && res.births > 0 {
				top[f] = res
			}
		}
	}
	dirty := func(f *ssa.Function) bool { return top[f] != nil && top[f].dirty != nil }
	deferrable := func(f *ssa.Function) bool {
		return f.Parent() == nil && !token.IsExported(f.Name()) && len(a.callers[f]) > 0
	}
	okMemo := map[*ssa.Function]int{}
	var okFn func(f *ssa.Function) bool
	okFn = func(f *ssa.Function) bool {
		if !dirty(f) {
			return true
		}
		switch okMemo[f] {
		case 1, 3:
			return false
		case 2:
			return true
		}
		okMemo[f] = 1
		r := deferrable(f)
		if r {
			for _, cs := range a.callers[f] {
				if p := cs.Parent(); p == nil || !okFn(p) {
					r = false
					break
				}
			}
		}
		if r {
			okMemo[f] = 2
		} else {
			okMemo[f] = 3
		}
		return r
	}
	noCallerOk := func(f *ssa.Function) bool {
		for _, cs := range a.callers[f] {
			if p := cs.Parent(); p != nil && okFn(p) {
				return false
			}
		}
		return true
	}
	n := 0
	for _, f := range funcs {
		res := top[f]
		if res == nil {
			continue
		}
		key := short(f) + "/counter-past-stored-cell"
		if f.Parent() != nil {
			key = short(f) + "$" + f.Name() + "/counter-past-stored-cell"
		}
		n++
		switch {
		case res.dirty == nil:
			c.Ok("C20-N", key, f.Pos(), "")
			continue
		case okFn(f):
			c.Ok("C20-N", key, f.Pos(), "returns with a pending obligation that every in-package caller discharges")
			continue
		}
		blamed := !deferrable(f) || noCallerOk(f)
		own := res.direct > 0
		for g := range res.from {
			if dirty(g) && !(deferrable(g) && noCallerOk(g)) {
				own = true // inherited from a helper whose other callers discharge it: this caller is the odd one out
			}
			if dirty(g) && !deferrable(g) {
				own = true
			}
		}
		if !blamed || !own {
			c.Note("C20-N", key+"/reported-elsewhere", f.Pos(), "pending obligation reported at the helper that creates it / at the callers that do not discharge it")
			n--
			continue
		}
		c.Bad("C20-N", key, res.dirtyP, fmt.Sprintf("%s learns a value stored in the AUTO_INCREMENT column (a row cell) but can return normally with the counter not strictly past it: the counter means \"next value to hand out\", so the next generated value repeats a stored one", short(f)), a.describe(res.dirty)...)
	}
	if n == 0 && !c.fixtureMode {
		c.Undecided("C20-N", "sites", tn.Pos(), "no function compares a row cell with the counter or stores one into it")
	}

	// ---- U
	var accI *types.Interface
	var accNamed *types.Named
	if atn, ok := pk.Scope().Lookup(p.accIface).(*types.TypeName); ok {
		accI, _ = atn.Type().Underlying().(*types.Interface)
		accNamed, _ = atn.Type().(*types.Named)
	}
	if accI == nil {
		c.Undecided("C20-U", "accumulator", tn.Pos(), "interface "+p.accIface+" not found in "+p.rel)
		return
	}
	var addM *types.Func
	for i := 0; i < accI.NumMethods(); i++ {
		if accI.Method(i).Name() == p.accAdd {
			addM = accI.Method(i)
		}
	}
	if addM == nil {
		c.Undecided("C20-U", "accumulator method", tn.Pos(), "method "+p.accIface+"."+p.accAdd+" not found")
		return
	}
	// learns(g, j): g compares a cell that is parameter j, or a cell of the row that is parameter j, with the counter
	type lk struct {
		f *ssa.Function
		j int
	}
	lmemo := map[lk]int{}
	var learnsVal func(f *ssa.Function, row ssa.Value, depth int) bool
	var learnsParam func(g *ssa.Function, j int, depth int) bool
	learnsVal = func(f *ssa.Function, row ssa.Value, depth int) bool {
		for _, b := range f.Blocks {
			for _, in := range b.Instrs {
				call, ok := in.(*ssa.Call)
				if !ok {
					continue
				}
				if cell, _ := a.compare(call); cell != nil {
					if cell == row || c20nSame(a.rowOfCell(cell), row, 0) && a.rowOfCell(cell) != nil {
						return true
					}
					continue
				}
				callee := call.Common().StaticCallee()
				if callee == nil || !a.inPkg[callee] || depth > 3 {
					continue
				}
				for j, arg := range call.Common().Args {
					sarg := c20nStrip(arg)
					if sarg == row || c20nSame(sarg, row, 0) || (a.rowOfCell(sarg) != nil && c20nSame(a.rowOfCell(sarg), row, 0)) {
						if learnsParam(callee, j, depth+1) {
							return true
						}
					}
				}
			}
		}
		return false
	}
	learnsParam = func(g *ssa.Function, j int, depth int) bool {
		k := lk{g, j}
		switch lmemo[k] {
		case 1, 3:
			return false
		case 2:
			return true
		}
		lmemo[k] = 1
		r := j < len(g.Params) && learnsVal(g, g.Params[j], depth)
		if r {
			lmemo[k] = 2
		} else {
			lmemo[k] = 3
		}
		return r
	}
	nU := 0
	for _, f := range funcs {
		// the accumulator implementations themselves are the store, not its clients
		if f.Signature.Recv() != nil {
			if nt := dmlNamedOf(f.Signature.Recv().Type()); nt != nil && dmlImplements(nt, accI) {
				continue
			}
		}
		seen := false
		for _, b := range f.Blocks {
			for _, in := range b.Instrs {
				call, ok := in.(*ssa.Call)
				if !ok || seen {
					continue
				}
				com := call.Common()
				isAdd := false
				if com.IsInvoke() {
					isAdd = com.Method == addM || (com.Method.Name() == p.accAdd && accNamed != nil && types.Identical(com.Value.Type(), accNamed))
				} else if sc := com.StaticCallee(); sc != nil && sc.Name() == p.accAdd && sc.Signature.Recv() != nil {
					if nt := dmlNamedOf(sc.Signature.Recv().Type()); nt != nil && dmlImplements(nt, accI) {
						isAdd = true
					}
				}
				if !isAdd {
					continue
				}
				args := c20nCallArgs(call)
				if len(args) == 0 {
					continue
				}
				row := args[len(args)-1]
				if !a.isRowType(row.Type()) {
					continue
				}
				seen = true
				nU++
				key := short(f) + "/stores row via " + p.accIface + "." + p.accAdd
				switch {
				case learnsVal(f, row, 0):
					c.Ok("C20-U", key, call.Pos(), "")
				case c20UExceptions[key] != "" && !c.fixtureMode:
					c.Exc("C20-U", key, call.Pos(), c20UExceptions[key])
				default:
					c.Bad("C20-U", key, call.Pos(), fmt.Sprintf("%s hands a row to %s.%s (it will be stored in the table) but never compares that row's AUTO_INCREMENT cell with the counter, neither itself nor in a callee that receives the row: a stored value above the counter stays unknown to it and a later generated value repeats it", short(f), p.accIface, p.accAdd))
				}
			}
		}
	}
	if nU == 0 && !c.fixtureMode {
		c.Undecided("C20-U", "sites", tn.Pos(), "no call of "+p.accIface+"."+p.accAdd+" found")
	}
}
