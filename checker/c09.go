package main

import (
	"fmt"
	"go/constant"
	"go/types"
	"sort"
	"strings"

	"golang.org/x/tools/go/ssa"
)

// C09 — "declared NOT NULL" expressions never return the literal NULL.

type c09Config struct {
	Rels       []string
	IfaceRel   string // "sql"
	Iface      string // "Expression"
	NullableM  string // "IsNullable"
	EvalM      string // "Eval"
	AggIface   string // "Aggregation" ("" = none): NOT NULL aggregations are followed into their buffers
	NewBufferM string // "NewBuffer"
	Floor      int
	FloorConst int
	FloorAgg   int
	FloorField int
	FloorProp  int
}

func init() {
	register(&Property{
		ID:       "C09",
		Patterns: []string{"./sql/expression/...", "./sql/plan", "./sql/rowexec"},
		Explanation: "NOT NULL clause of 'result values conform to the result schema'. The nullability of a result column is what the expression's IsNullable reports. " +
			"Decided: for every concrete type implementing sql.Expression whose IsNullable is the constant false (every return of its SSA is the constant false), the Eval that " +
			"the type's method set resolves to has no return of the literal pair (nil, nil) - directly, through a phi of literal nils, or through a statically resolved module helper " +
			"whose own returns are followed (3 levels). Such a return makes a column that the engine announces as NOT NULL carry NULL. " +
			"(E3) for every implementation with a COMPUTED IsNullable: each receiver-field configuration G (conjunction of field == nil / len(field) == 0 / bool-field tests, read from the SSA " +
			"branch conditions; the zero-iteration exit of `for range recv.field` is len(field) == 0) under which Eval reaches a return of the literal (nil, nil) crossing field tests only - the node " +
			"then yields NULL for every row whatever the data, e.g. a CASE without ELSE, a wrapper without inner expression - is folded into IsNullable: with G fixed, every return IsNullable can reach " +
			"must be the constant true; a reachable `false`, or the nullability of a child (false for a NOT NULL child), is a violation. A configuration under which IsNullable itself dereferences " +
			"the nil field (method call through it) is one the type does not support: not applicable (defensive nil tests in Eval). " +
			"(E4) NULL in, NULL out: for every child field X of such a type whose evaluated value is tested for nil in Eval with the nil edge leading to a return of the literal (nil, nil) - the path " +
			"from the entry crosses only receiver-field tests, `err == nil` edges and the non-nil edges of other children's values - IsNullable folded under the assumption X.IsNullable() == true " +
			"(and the path's field configuration) must return true on every path: a nullable argument makes the result nullable. IsNullable implementations that reach children through a collection " +
			"(for _, ch := range e.Children()) are not related to one child: not decided. " +
			"(V1) value in the announced type, number types: the Go kind of a number type's values is READ from NumberTypeImpl_.Zero (base-type constant -> kind of the returned T(0)); ValueType (reflect.TypeOf(T(0)) through its package variables) " +
			"and every statically numeric return of Convert's base-type arms give the same kind; every integer/float arm of types.ApproximateTypeFromValue (the type recorded for user variables, SELECT INTO, LOAD DATA @v, SET literals) returns " +
			"the number type - resolved through the package variable's constructor chain to its base-type constant, never by name - whose value kind is the arm's Go kind (int/uint sized for the target, constant conditions such as strconv.IntSize == 32 folded), " +
			"and every value kind of the table has an arm; every call expression.NewLiteral(v, T) in the loaded module whose v is a non-constant of a static Go numeric kind and whose T is one of those number types pairs the same kinds, a constant v lies in the value range of T's kind.",
		NotCovered: "values outside the reported type other than the number-type tables of V1 (bool -> TINYINT(1), strings, decimals, times; literals built with run-time types or interface-typed values; the Go kind of constant literals, e.g. NewLiteral(0, Uint64) is an int), NULLs that flow out of child expressions or interface calls (run-time values), nullability of unions and outer joins; for computed IsNullable only the structurally NULL configurations of E3 are decided: NULLs that depend on evaluated values (NULL in -> NULL out, invalid input -> NULL) are not related to IsNullable, " +
			"returns of (nil, nil) behind any data-dependent branch or inside helpers of Eval are not read, and a configuration that constructors rule out (arity checks) is not recognised as unreachable",
		Technique: "sibling agreement over all implementations of an interface: constant folding of IsNullable + SSA return-shape analysis of Eval with helper summaries; table agreement (switch arms read with go/types, go/constant) for value kinds",
		Run: func(c *Ctx) {
			rels := []string{}
			for _, pk := range c.P.Module {
				rels = append(rels, strings.TrimPrefix(strings.TrimPrefix(pk.PkgPath, modPath), "/"))
			}
			runC09(c, c09Config{Rels: rels, IfaceRel: "sql", Iface: "Expression", NullableM: "IsNullable", EvalM: "Eval", AggIface: "Aggregation", NewBufferM: "NewBuffer", Floor: 44, FloorConst: 330, FloorAgg: 5, FloorField: 3, FloorProp: 75})
			runC09ValueKinds(c, c09VKRepo)
		},
		Fixture: func(c *Ctx, fx *Prog) {
			expectFixture(c, fx, "c09: direct nil,nil; nil through phi; nil through helper",
				[]string{"C09-E1:testdata/c09/expr.Direct", "C09-E1:testdata/c09/expr.ViaPhi", "C09-E1:testdata/c09/expr.ViaHelper", "C09-E1:testdata/c09/expr.Promoted",
					"C09-E2:testdata/c09/expr.NullSum", "C09-E2:testdata/c09/expr.RawMax",
					"C09-E3:testdata/c09/expr.CaseNoElse", "C09-E3:testdata/c09/expr.OptArg", "C09-E3:testdata/c09/expr.Flagged",
					"C09-E4:testdata/c09/expr.FormatLike/Right", "C09-E4:testdata/c09/expr.FormatLike/Left", "C09-E4:testdata/c09/expr.BothNeeded/Right"},
				func(fc *Ctx) {
					runC09(fc, c09Config{Rels: []string{"testdata/c09/expr"}, IfaceRel: "testdata/c09/expr", Iface: "Expression", NullableM: "IsNullable", EvalM: "Eval", AggIface: "Aggregation", NewBufferM: "NewBuffer"})
				})
			expectFixture(c, fx, "c09 value kinds: ValueType, Convert arm, Approx arm + missing arm, literal kind, constant literal out of range",
				[]string{"C09-V1:Num.ValueType/U8", "C09-V1:Num.Convert/I32", "C09-V1:Approx/case uint32", "C09-V1:Approx/arm for uint8",
					"C09-V1:build/NewLiteral(uint32, Int32)", "C09-V1:build/NewLiteral(const 300, Uint8)"},
				func(fc *Ctx) {
					runC09ValueKinds(fc, c09VKConfig{TypesRel: "testdata/c09/vk", NumType: "Num", BaseField: "baseType", ZeroM: "Zero", ValueTypeM: "ValueType", ConvertM: "Convert", ApproxFn: "Approx", LitRel: "testdata/c09/vk", LitFn: "NewLiteral"})
				})
		},
		FixturePkgs: []string{"./testdata/c09/expr", "./testdata/c09/vk"},
	})
}

// c09Exceptions: type -> reason (one symbol each).
var c09Exceptions = map[string]string{}

func runC09(c *Ctx, cfg c09Config) {
	c.Rule("C09-E1", "for every sql.Expression implementation whose IsNullable is the constant false: no return of Eval yields the literal (nil, nil), directly, via phi, or via a statically resolved module helper", cfg.Floor)
	c.Rule("C09-E2", "for every sql.Aggregation whose IsNullable is the constant false: the Eval of each concrete buffer its NewBuffer constructs has no literal (nil, nil) return and does not return a raw interface-typed buffer field that the buffer's constructor leaves nil (the value for an empty group)", cfg.FloorAgg)
	c.Rule("C09-E0", "IsNullable of every sql.Expression implementation is classified: constant false / constant true / computed (info; only constant-false types carry the E1 obligation)", cfg.FloorConst)
	c.Rule("C09-E3", "for every sql.Expression implementation with a computed IsNullable: under each receiver-field configuration (field == nil, len(field) == 0, bool field) for which Eval reaches a return of the literal (nil, nil) through field tests only, IsNullable folded under the same configuration returns true on every path", cfg.FloorField)
	c.Rule("C09-E4", "NULL in, NULL out is mirrored: for every implementation with a computed IsNullable and every child field X such that Eval returns the literal (nil, nil) because the evaluated value of X is nil (the path crosses only receiver-field tests, `err == nil` edges and `value != nil` edges of other children), IsNullable folded under `X.IsNullable() == true` returns true on every path", cfg.FloorProp)
	iface := ngLookupIface(c.P, cfg.IfaceRel, cfg.Iface)
	if iface == nil {
		c.Undecided("C09-E1", "anchors", 0, "interface "+cfg.IfaceRel+"."+cfg.Iface+" not found")
		return
	}
	type impl struct {
		tn       *types.TypeName
		nullable *types.Func
		eval     *types.Func
		newBuf   *types.Func
		it       types.Type
		pkg      *types.Package
	}
	var aggIface *types.Interface
	if cfg.AggIface != "" {
		aggIface = ngLookupIface(c.P, cfg.IfaceRel, cfg.AggIface)
		if aggIface == nil {
			c.Undecided("C09-E2", "anchors", 0, "interface "+cfg.IfaceRel+"."+cfg.AggIface+" not found")
		}
	}
	var impls []impl
	for _, rel := range cfg.Rels {
		pk := c.P.Pkg(rel)
		if pk == nil {
			continue
		}
		sc := pk.Types.Scope()
		for _, name := range sc.Names() {
			tn, ok := sc.Lookup(name).(*types.TypeName)
			if !ok || tn.IsAlias() {
				continue
			}
			T := tn.Type()
			if _, isIface := T.Underlying().(*types.Interface); isIface {
				continue
			}
			if nt, ok := T.(*types.Named); ok && nt.TypeParams().Len() > 0 {
				continue
			}
			var it types.Type
			if types.Implements(T, iface) {
				it = T
			} else if types.Implements(types.NewPointer(T), iface) {
				it = types.NewPointer(T)
			} else {
				continue
			}
			no, _, _ := types.LookupFieldOrMethod(it, true, pk.Types, cfg.NullableM)
			eo, _, _ := types.LookupFieldOrMethod(it, true, pk.Types, cfg.EvalM)
			nf, _ := no.(*types.Func)
			ef, _ := eo.(*types.Func)
			if nf == nil || ef == nil {
				continue
			}
			im := impl{tn, nf.Origin(), ef.Origin(), nil, it, pk.Types}
			if aggIface != nil && types.Implements(it, aggIface) {
				if bo, _, _ := types.LookupFieldOrMethod(it, true, pk.Types, cfg.NewBufferM); bo != nil {
					if bf, ok := bo.(*types.Func); ok {
						im.newBuf = bf.Origin()
					}
				}
			}
			impls = append(impls, im)
		}
	}
	sort.Slice(impls, func(i, j int) bool { return c09TypeKey(impls[i].tn) < c09TypeKey(impls[j].tn) })
	an := &c09Analyzer{c: c, memo: map[*ssa.Function][]string{}}
	counts := map[string]int{}
	for _, im := range impls {
		key := c09TypeKey(im.tn)
		nsf := c.P.SSAFunc(im.nullable)
		if nsf == nil || len(nsf.Blocks) == 0 {
			// IsNullable promoted from an embedded interface (no body): computed at run time
			counts["computed"]++
			c.Ok("C09-E0", key, im.tn.Pos(), "IsNullable has no body here (promoted from an embedded interface value): computed")
			continue
		}
		class := c09ConstBool(nsf)
		counts[class]++
		c.Ok("C09-E0", key, im.tn.Pos(), "IsNullable: "+class)
		if class == "computed" {
			c09CheckFieldNull(c, key, im.it, im.pkg, im.nullable, im.eval, cfg)
			c09CheckNullProp(c, key, im.it, im.pkg, im.nullable, im.eval, cfg)
		}
		if class != "constant false" {
			continue
		}
		if im.newBuf != nil {
			c09AggBuffers(c, an, key, im.newBuf, cfg.EvalM)
		}
		esf := c.P.SSAFunc(im.eval)
		if esf == nil || len(esf.Blocks) == 0 {
			c.Note("C09-E1", key, im.tn.Pos(), "Eval has no body here (promoted from an embedded interface value): not decided")
			continue
		}
		hits := an.nilNilReturns(esf, 0)
		if len(hits) == 0 {
			c.Ok("C09-E1", key, im.eval.Pos(), "IsNullable=false, Eval "+ngFuncKey(im.eval)+" has no (nil, nil) return")
			continue
		}
		if why, ok := c09Exceptions[key]; ok && !c.fixtureMode {
			c.Exc("C09-E1", key, im.eval.Pos(), why)
			continue
		}
		c.Bad("C09-E1", key, im.eval.Pos(), fmt.Sprintf("%s declares IsNullable() == false (%s) but its Eval (%s) can return the literal NULL: a result column the engine announces as NOT NULL carries NULL",
			key, c.P.Rel(im.nullable.Pos()), ngFuncKey(im.eval)), hits...)
	}
	c.Notef("IsNullable classes over %d sql.Expression implementations: %v", len(impls), counts)
	dumpObsIfAsked(c)
}

func c09TypeKey(tn *types.TypeName) string {
	p := ""
	if tn.Pkg() != nil {
		p = strings.TrimPrefix(strings.TrimPrefix(strings.TrimPrefix(tn.Pkg().Path(), modPath), "/"), "vchk/")
	}
	return p + "." + tn.Name()
}

// c09ConstBool classifies a niladic-result bool function by its returns.
func c09ConstBool(sf *ssa.Function) string {
	seenT, seenF, other := false, false, false
	for _, b := range sf.Blocks {
		if len(b.Instrs) == 0 {
			continue
		}
		if ret, ok := b.Instrs[len(b.Instrs)-1].(*ssa.Return); ok && len(ret.Results) == 1 {
			if k, ok := ret.Results[0].(*ssa.Const); ok && k.Value != nil && k.Value.Kind() == constant.Bool {
				if constant.BoolVal(k.Value) {
					seenT = true
				} else {
					seenF = true
				}
			} else {
				other = true
			}
		}
	}
	switch {
	case other || (seenT && seenF):
		return "computed"
	case seenF:
		return "constant false"
	case seenT:
		return "constant true"
	}
	return "computed"
}

type c09Analyzer struct {
	c    *Ctx
	memo map[*ssa.Function][]string
}

// nilNilReturns lists the returns of sf (value, error) that can yield the literal (nil, nil).
func (a *c09Analyzer) nilNilReturns(sf *ssa.Function, depth int) []string {
	if r, ok := a.memo[sf]; ok {
		return r
	}
	a.memo[sf] = nil
	var hits []string
	for _, b := range sf.Blocks {
		if len(b.Instrs) == 0 {
			continue
		}
		ret, ok := b.Instrs[len(b.Instrs)-1].(*ssa.Return)
		if !ok || len(ret.Results) != 2 {
			continue
		}
		v, e := c09RetVal(ret, 0), c09RetVal(ret, 1)
		pos := a.c.P.Rel(ret.Pos())
		switch {
		case ngIsNilConst(v) && ngIsNilConst(e):
			hits = append(hits, pos+": return nil, nil")
		case c09PhiPair(b, v, e):
			hits = append(hits, pos+": return of a value/error pair that is (nil, nil) on one incoming path")
		default:
			// return helper(...): both results from the same static module call
			ev, ok1 := v.(*ssa.Extract)
			ee, ok2 := e.(*ssa.Extract)
			if ok1 && ok2 && ev.Tuple == ee.Tuple && ev.Index == 0 && ee.Index == 1 && depth < 3 {
				if call, ok := ev.Tuple.(*ssa.Call); ok {
					if f := call.Call.StaticCallee(); f != nil && len(f.Blocks) > 0 && f.Pkg != nil && a.inModule(f) && f.Signature.Results().Len() == 2 {
						if sub := a.nilNilReturns(f, depth+1); len(sub) > 0 {
							hits = append(hits, pos+": returns the results of "+f.Name()+", which can return (nil, nil): "+sub[0])
						}
					}
				}
			}
		}
	}
	a.memo[sf] = hits
	return hits
}

func (a *c09Analyzer) inModule(f *ssa.Function) bool {
	path := f.Pkg.Pkg.Path()
	if strings.HasPrefix(path, "vchk/") {
		return true
	}
	pk := a.c.P.ByPath[path]
	return pk != nil && pk.Module != nil && pk.Module.Main
}

// c09PhiPair: v and/or e are phis of the returning block (or constants) and some incoming
// edge carries nil for both.
func c09PhiPair(b *ssa.BasicBlock, v, e ssa.Value) bool {
	pv, vIsPhi := v.(*ssa.Phi)
	pe, eIsPhi := e.(*ssa.Phi)
	if !vIsPhi && !eIsPhi {
		return false
	}
	if vIsPhi && pv.Block() != b || eIsPhi && pe.Block() != b {
		return false // phis of other blocks cannot be paired edge by edge: not decided
	}
	for i := range b.Preds {
		var xv, xe ssa.Value = v, e
		if vIsPhi {
			xv = pv.Edges[i]
		}
		if eIsPhi {
			xe = pe.Edges[i]
		}
		if ngIsNilConst(xv) && ngIsNilConst(xe) {
			return true
		}
	}
	return false
}

// ---- E2: NOT NULL aggregations -> buffers ------------------------------------------------

// c09AggExceptions: aggregation type -> reason.
var c09AggExceptions = map[string]string{}

type c09Buf struct {
	typ   types.Type // concrete (pointer) type of the buffer
	alloc *ssa.Alloc // its allocation site, when the constructor is a plain composite literal
}

// c09ConcreteResults follows the first result of f's returns to concrete buffer values.
func c09ConcreteResults(a *c09Analyzer, f *ssa.Function, depth int, out *[]c09Buf, undecided *[]string) {
	for _, b := range f.Blocks {
		if len(b.Instrs) == 0 {
			continue
		}
		ret, ok := b.Instrs[len(b.Instrs)-1].(*ssa.Return)
		if !ok || len(ret.Results) == 0 {
			continue
		}
		c09ConcreteValue(a, ret.Results[0], depth, out, undecided, map[ssa.Value]bool{})
	}
}

func c09ConcreteValue(a *c09Analyzer, v ssa.Value, depth int, out *[]c09Buf, undecided *[]string, seen map[ssa.Value]bool) {
	if seen[v] {
		return
	}
	seen[v] = true
	switch x := v.(type) {
	case *ssa.Const:
		return // nil on the error path
	case *ssa.MakeInterface:
		c09ConcreteValue(a, x.X, depth, out, undecided, seen)
	case *ssa.ChangeInterface:
		c09ConcreteValue(a, x.X, depth, out, undecided, seen)
	case *ssa.Phi:
		for _, e := range x.Edges {
			c09ConcreteValue(a, e, depth, out, undecided, seen)
		}
	case *ssa.Alloc:
		*out = append(*out, c09Buf{typ: x.Type(), alloc: x})
	case *ssa.Extract:
		if x.Index == 0 {
			c09ConcreteValue(a, x.Tuple, depth, out, undecided, seen)
			return
		}
		*undecided = append(*undecided, "tuple component")
	case *ssa.Call:
		f := x.Call.StaticCallee()
		if f != nil && len(f.Blocks) > 0 && f.Pkg != nil && a.inModule(f) && depth < 4 {
			c09ConcreteResults(a, f, depth+1, out, undecided)
			return
		}
		if _, isIface := x.Type().Underlying().(*types.Interface); !isIface {
			if tup, isTuple := x.Type().(*types.Tuple); !isTuple || tup.Len() == 0 {
				*out = append(*out, c09Buf{typ: x.Type()})
				return
			}
		}
		*undecided = append(*undecided, "result of "+ngCallName(&x.Call))
	default:
		if _, isIface := v.Type().Underlying().(*types.Interface); !isIface {
			*out = append(*out, c09Buf{typ: v.Type()})
			return
		}
		*undecided = append(*undecided, fmt.Sprintf("%T", v))
	}
}

func c09AggBuffers(c *Ctx, an *c09Analyzer, key string, newBuf *types.Func, evalM string) {
	nsf := c.P.SSAFunc(newBuf)
	if nsf == nil || len(nsf.Blocks) == 0 {
		c.Undecided("C09-E2", key, newBuf.Pos(), "NewBuffer has no SSA body")
		return
	}
	var bufs []c09Buf
	var und []string
	c09ConcreteResults(an, nsf, 0, &bufs, &und)
	if len(bufs) == 0 {
		c.Undecided("C09-E2", key, newBuf.Pos(), fmt.Sprintf("the concrete buffer type constructed by NewBuffer could not be resolved (%v)", und))
		return
	}
	var hits []string
	var names []string
	done := map[string]bool{}
	for _, bf := range bufs {
		tname := types.TypeString(bf.typ, func(p *types.Package) string { return "" })
		if done[tname] {
			continue
		}
		done[tname] = true
		names = append(names, tname)
		eo, _, _ := types.LookupFieldOrMethod(bf.typ, true, newBuf.Pkg(), evalM)
		ef, _ := eo.(*types.Func)
		if ef == nil {
			hits = append(hits, "UNDECIDED: buffer type "+tname+" has no "+evalM)
			continue
		}
		esf := c.P.SSAFunc(ef.Origin())
		if esf == nil || len(esf.Blocks) == 0 {
			hits = append(hits, "UNDECIDED: no SSA body for "+tname+"."+evalM)
			continue
		}
		for _, h := range an.nilNilReturns(esf, 0) {
			hits = append(hits, tname+"."+evalM+": "+h)
		}
		hits = append(hits, c09RawNilField(c, esf, bf, tname+"."+evalM)...)
	}
	if len(hits) == 0 {
		c.Ok("C09-E2", key, newBuf.Pos(), fmt.Sprintf("buffers %v never evaluate to the literal NULL", names))
		return
	}
	if why, ok := c09AggExceptions[key]; ok && !c.fixtureMode {
		c.Exc("C09-E2", key, newBuf.Pos(), why)
		return
	}
	c.Bad("C09-E2", key, newBuf.Pos(), fmt.Sprintf("aggregation %s declares IsNullable() == false but its buffer %v evaluates to NULL (empty group / no non-NULL input): the result column is announced NOT NULL and carries NULL", key, names), hits...)
}

// c09RawNilField: Eval returns (recv.f, nil) where f is an interface-typed field that the
// buffer's allocation site leaves at its zero value (no store, or a store of nil).
func c09RawNilField(c *Ctx, esf *ssa.Function, bf c09Buf, name string) []string {
	if bf.alloc == nil || len(esf.Params) == 0 {
		return nil
	}
	var hits []string
	for _, b := range esf.Blocks {
		if len(b.Instrs) == 0 {
			continue
		}
		ret, ok := b.Instrs[len(b.Instrs)-1].(*ssa.Return)
		if !ok || len(ret.Results) != 2 || !ngIsNilConst(ret.Results[1]) {
			continue
		}
		ld, ok := ret.Results[0].(*ssa.UnOp)
		if !ok || ld.Op.String() != "*" {
			continue
		}
		fa, ok := ld.X.(*ssa.FieldAddr)
		if !ok || fa.X != esf.Params[0] {
			continue
		}
		if _, isIface := ld.Type().Underlying().(*types.Interface); !isIface {
			continue
		}
		// is the field initialised non-nil at the allocation site?
		initialised := false
		if refs := bf.alloc.Referrers(); refs != nil {
			for _, r := range *refs {
				if afa, ok := r.(*ssa.FieldAddr); ok && afa.Field == fa.Field {
					if ar := afa.Referrers(); ar != nil {
						for _, st := range *ar {
							if s, ok := st.(*ssa.Store); ok && s.Addr == afa && !ngIsNilConst(s.Val) {
								initialised = true
							}
						}
					}
				}
			}
		}
		if !initialised {
			st := fa.X.Type().Underlying().(*types.Pointer).Elem().Underlying().(*types.Struct)
			hits = append(hits, fmt.Sprintf("%s: %s returns the raw field %s (interface-typed), which its constructor at %s leaves nil until a non-NULL row is seen", c.P.Rel(ret.Pos()), name, st.Field(fa.Field).Name(), c.P.Rel(bf.alloc.Pos())))
		}
	}
	return hits
}
