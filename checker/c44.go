package main

import (
	"fmt"
	"go/ast"
	"go/constant"
	"go/token"
	"go/types"
	"sort"
	"strings"

	"golang.org/x/tools/go/packages"
)

func init() {
	register(&Property{
		ID:        "C44",
		Patterns:  []string{"./sql/variables", "./sql/rowexec"},
		Technique: "scope-preservation of SET executors (receiver access-path agreement of all SystemVariableScope.SetValue calls + absence of fixed-scope stores, read from the SetValue implementations, in the executor and its same-package callees); constant-table extraction from the system-variable registry literals (go/types + go/constant): key/name/type-name agreement, default folded against the type constructor's domain, ValueFunction result kind; key-normalisation discipline of the folded-name variable maps: reaching-definition analysis of every map key over go/ssa (phis, helper parameters through all static call sites, closures); finite folding of the setter's leading guards over (flag, scope type)",
		Explanation: "The system-variable registry is the pair of map literals systemVars / mariadbSystemVars (sql/variables). Lookups fold the requested name to lower case and index the " +
			"maps by key, while values are stored under GetName(); every type is built by a types.NewSystem*Type(name, domain...) constructor whose Convert validates SET values and renders " +
			"SELECT @@var. Decided for every entry: (N1) map key == Name, the key is lower-case and is not declared in both maps (otherwise the variable is unreachable or its value slot is missing); " +
			"(N2) the name given to the type constructor is the variable's name (the type reports validation errors under that name and compares types by it); " +
			"(T1) the constructor's domain is well formed (lower<=upper, enum/set members non-empty and distinct after case folding); " +
			"(D1) the declared Default lies in the domain its own type accepts (numeric default within the bounds, or -1 where allowed; bool default 0/1; enum default a member; set default made of members; " +
			"string default a string), so SELECT @@var on a fresh server and SET @@var = DEFAULT produce a value of the variable's type; " +
			"(D2) a ValueFunction returns a Go value of the kind its declared type accepts (integer for int/uint types, 0/1-typed for bool types, string for string/enum/set types). " +
			"(K1) key-normalisation discipline: a map that holds variable definitions or values (elements SystemVariable, SystemVarValue, TypedValue, StatusVarValue, StoredProcParam) and that is accessed somewhere with a " +
			"strings.ToLower result as key is a folded-name map (today: globalSystemVariables.sysVarVals, the registries systemVars/mariadbSystemVars, BaseSession.systemVars and storedProcParams, UserVars.userVars); every read, comma-ok read, " +
			"store and delete of such a map in the loaded packages uses a key that is, on all reaching definitions, a strings.ToLower result, a lower-case constant, a key ranged out of a folded-name map, a parameter of an unexported " +
			"function all of whose static call sites pass such a key, or GetName() of an entry ranged out of a registry literal that N1 proved folded and that is never stored into at run time; otherwise the value is stored or looked up " +
			"under a spelling no other access uses (SET GLOBAL Max_Connections lost, SELECT @@Autocommit unknown). " +
			"(S1) scope preservation of SET: every function of the loaded packages that executes SET through a scope object — i.e. calls SystemVariableScope.SetValue (today rowexec.setSystemVar: the primary write and the eight derived " +
			"character_set_*/collation_* writes) — performs all its scope writes on one and the same receiver path (the Scope field of the variable being set, local aliases resolved, not reassigned in the function), and neither its body nor " +
			"a same-package helper it calls writes a variable through a fixed-scope store; the fixed-scope stores are read from the implementations of SetValue (the module methods that receive its name parameter: " +
			"Session.SetSessionVariable, SystemVariableRegistry.SetGlobal, PersistableSession.PersistGlobal/RemovePersistedGlobal, and concrete methods implementing them), allowed only under an if/switch testing that scope path. " +
			"(S2) a variable is set only at a scope it has: the leading error-returning guards of MysqlSystemVariable.SetValue, folded over the global flag and the scope type (helper methods with a single return are followed), are taken for certain on a GLOBAL set of a session-only variable and on a session-scope set of a global-only variable.",
		NotCovered: "SET validation of arbitrary run-time values (the Convert functions themselves), session/global visibility beyond the key discipline, folded-name maps that do not hold variables (listed in a note: collations, character sets, " +
			"external procedures, index-builder ranges, database provider), maps reached other than by loading a field or package variable, status variables (never folded: MySQL status names are used verbatim), which scope object the planner attaches to a statement (planbuilder) and what a guarded fixed-scope store tests (S1 accepts any test mentioning the scope path), helpers in other packages and interface calls reached from an executor, scope semantics (MysqlSystemVariable.SetValue only " +
			"distinguishes global-only and session-only, every other scope constant behaves like BOTH), user variables, status variables (their Default/Type pairs are counters by convention), " +
			"entries whose Type is a general SQL type (listed as info)",
		Run: func(c *Ctx) {
			runC44(c, "sql/variables", "sql", "sql/types", "MysqlSystemVariable", 349, 1, 20)
			runC44Scope(c, c44sCfg{sqlRel: "sql", scopeIface: "SystemVariableScope", setMethod: "SetValue", floor: 9})
			runC44SetterGuards(c, "sql", "MysqlSystemVariable.SetValue", "SystemVariableScope_Session", "SystemVariableScope_Global", 2)
		},
		Fixture: func(c *Ctx, fx *Prog) {
			expectFixture(c, fx, "c44: wrong key, wrong type name, default out of bounds, non-member enum default, bad bounds, value function kind must be reported",
				[]string{
					"C44-N1:vars/Bad_Key", "C44-N1:vars/dup (also in extra)",
					"C44-N2:vars/renamed",
					"C44-D1:vars/too_big", "C44-D1:vars/mode",
					"C44-T1:vars/inverted",
					"C44-D1:vars/inverted",
					"C44-D2:vars/clock", "C44-N2:vars/clock",
				},
				func(fc *Ctx) {
					runC44(fc, "testdata/c44/variables", "testdata/c44/sql", "testdata/c44/types", "MysqlSystemVariable", 0, 0, -1)
				})
			expectFixture(c, fx, "c44 K1: store/delete/read under the caller's spelling, mixed-case constant, helper with one unfolded caller, one unfolded reaching definition, Name() of a registry that is extended at run time must be reported",
				[]string{
					"C44-K1:Session.Set/Session.vars[store]",
					"C44-K1:Session.init/Session.vars[store]",
					"C44-K1:Session.Unset/Session.vars[delete]",
					"C44-K1:Session.ResetSQLMode/Session.vars[store]",
					"C44-K1:Session.Has/Session.vars[read,ok]",
					"C44-K1:Globals.InitOpen/Globals.vals[store]",
				},
				func(fc *Ctx) {
					regs := map[types.Object]bool{}
					if vp := fc.P.Pkg("testdata/c44k/variables"); vp != nil {
						for _, n := range []string{"fixed", "open"} {
							if o := vp.Types.Scope().Lookup(n); o != nil {
								regs[o] = true
							}
						}
					}
					runC44Keys(fc, c44kCfg{registries: regs, nameMethod: "GetName", sqlRel: "testdata/c44k/sql", valueTypes: c44VariableTypes})
				})
		},
		FixturePkgs: []string{"./testdata/c44/variables", "./testdata/c44k/variables"},
	})
}

// c44VariableTypes: the element types (package sql) of the maps that hold variable definitions and values.
var c44VariableTypes = []string{"SystemVariable", "SystemVarValue", "TypedValue", "StatusVarValue", "StoredProcParam"}

type c44Kind int

const (
	c44Other c44Kind = iota
	c44Bool
	c44Int
	c44Uint
	c44Double
	c44Enum
	c44Set
	c44String
)

var c44KindName = map[c44Kind]string{c44Other: "general SQL type", c44Bool: "bool", c44Int: "int", c44Uint: "uint", c44Double: "double", c44Enum: "enum", c44Set: "set", c44String: "string"}

// c44Ctors: constructor name -> kind and signature shape (number of fixed params, variadic). The shape is verified
// against go/types so that a changed constructor makes the check undecided instead of silently misreading arguments.
var c44Ctors = map[string]struct {
	kind     c44Kind
	fixed    int
	variadic bool
}{
	"NewSystemBoolType":   {c44Bool, 1, false},
	"NewSystemIntType":    {c44Int, 4, false},
	"NewSystemUintType":   {c44Uint, 3, false},
	"NewSystemDoubleType": {c44Double, 3, false},
	"NewSystemEnumType":   {c44Enum, 1, true},
	"NewSystemSetType":    {c44Set, 2, true},
	"NewSystemStringType": {c44String, 1, false},
}

type c44Entry struct {
	mapName, key string
	pos          token.Pos
	fields       map[string]ast.Expr
}

func runC44(c *Ctx, varsRel, sqlRel, typesRel, structName string, floorEntries, floorVF, floorKeys int) {
	fl := func(n int) int {
		if c.fixtureMode {
			return 0
		}
		return n
	}
	c.Rule("C44-N1", "per registry entry: map key == Name field, key == lower(key), key declared in one registry map only (lookups fold to lower case and index by key; values are stored under GetName())", fl(floorEntries))
	c.Rule("C44-N2", "per entry built with a types.NewSystem*Type constructor: the constructor's name argument == Name", fl(floorEntries-2))
	c.Rule("C44-T1", "per entry: constructor domain well formed: lower<=upper for int/uint/double; enum/set have >=1 member, members non-empty and distinct after lower-casing", fl(floorEntries-2))
	c.Rule("C44-D1", "per entry: Default lies in the domain of its own type constructor (numeric within bounds or -1 if allowed; bool 0/1; enum member; set of members; string)", fl(floorEntries-2))
	c.Rule("C44-D2", "per entry with a ValueFunction literal: every returned value has a Go kind the declared type accepts (integer for int/uint, int8/bool for bool, float for double, string for string/enum/set)", fl(floorVF))
	vp, sp, tp := c.P.Pkg(varsRel), c.P.Pkg(sqlRel), c.P.Pkg(typesRel)
	if vp == nil || sp == nil || tp == nil {
		c.Undecided("C44-N1", "packages", 0, "anchor packages not loaded")
		return
	}
	stn, _ := sp.Types.Scope().Lookup(structName).(*types.TypeName)
	if stn == nil {
		c.Undecided("C44-N1", structName, 0, "struct type not found in "+sqlRel)
		return
	}
	// constructor shapes
	for name, sh := range c44Ctors {
		fn, _ := tp.Types.Scope().Lookup(name).(*types.Func)
		if fn == nil {
			if !c.fixtureMode {
				c.Undecided("C44-N2", "ctor/"+name, 0, "type constructor not found in "+typesRel)
			}
			continue
		}
		sig := fn.Type().(*types.Signature)
		n := sig.Params().Len()
		if sig.Variadic() {
			n--
		}
		if n != sh.fixed || sig.Variadic() != sh.variadic {
			c.Undecided("C44-N2", "ctor/"+name, fn.Pos(), fmt.Sprintf("constructor signature changed (%s): argument positions are no longer known", sig))
		}
	}
	info := vp.TypesInfo
	var entries []*c44Entry
	perMap := map[string]int{}
	regObjs := map[types.Object]bool{}
	for _, file := range vp.Syntax {
		for _, d := range file.Decls {
			gd, ok := d.(*ast.GenDecl)
			if !ok || gd.Tok != token.VAR {
				continue
			}
			for _, s := range gd.Specs {
				vs := s.(*ast.ValueSpec)
				for i, v := range vs.Values {
					lit, ok := ast.Unparen(v).(*ast.CompositeLit)
					if !ok || i >= len(vs.Names) {
						continue
					}
					mt, ok := info.Types[lit].Type.Underlying().(*types.Map)
					if !ok {
						continue
					}
					// a registry map: at least one element is &S{...}
					isReg := false
					for _, el := range lit.Elts {
						if kv, ok := el.(*ast.KeyValueExpr); ok && c44StructLit(info, kv.Value, stn) != nil {
							isReg = true
							break
						}
					}
					if !isReg {
						continue
					}
					_ = mt
					mname := vs.Names[i].Name
					if o := info.Defs[vs.Names[i]]; o != nil {
						regObjs[o] = true
					}
					for _, el := range lit.Elts {
						kv := el.(*ast.KeyValueExpr)
						key := "?"
						if tv, ok := info.Types[kv.Key]; ok && tv.Value != nil && tv.Value.Kind() == constant.String {
							key = constant.StringVal(tv.Value)
						} else {
							c.Undecided("C44-N1", mname+"/non-constant-key", kv.Key.Pos(), "registry key is not a constant string")
							continue
						}
						sl := c44StructLit(info, kv.Value, stn)
						if sl == nil {
							c.Undecided("C44-N1", mname+"/"+key, kv.Value.Pos(), "registry value is not a &"+structName+"{...} literal: entry not readable")
							continue
						}
						e := &c44Entry{mapName: mname, key: key, pos: kv.Pos(), fields: map[string]ast.Expr{}}
						okFields := true
						for _, f := range sl.Elts {
							fkv, ok := f.(*ast.KeyValueExpr)
							if !ok {
								okFields = false
								break
							}
							if id, ok := fkv.Key.(*ast.Ident); ok {
								e.fields[id.Name] = fkv.Value
							}
						}
						if !okFields {
							c.Undecided("C44-N1", mname+"/"+key, sl.Pos(), "positional struct literal: entry not readable")
							continue
						}
						entries = append(entries, e)
						perMap[mname]++
					}
				}
			}
		}
	}
	if len(entries) == 0 {
		c.Undecided("C44-N1", "registry", 0, "no registry map literal (map of &"+structName+"{...}) found in "+varsRel)
		return
	}
	c.Notef("registry maps: %v", perMap)
	seenIn := map[string][]string{}
	for _, e := range entries {
		seenIn[e.key] = append(seenIn[e.key], e.mapName)
	}
	kinds := map[c44Kind]int{}
	strOf := func(x ast.Expr) (string, bool) {
		if x == nil {
			return "", false
		}
		if tv, ok := info.Types[x]; ok && tv.Value != nil && tv.Value.Kind() == constant.String {
			return constant.StringVal(tv.Value), true
		}
		return "", false
	}
	for _, e := range entries {
		id := e.mapName + "/" + e.key
		// ---- N1
		name, nameOK := strOf(e.fields["Name"])
		var bad []string
		if !nameOK {
			bad = append(bad, "Name is missing or not a constant string")
		} else if name != e.key {
			bad = append(bad, fmt.Sprintf("map key %q != Name %q: lookups index the map by the (lower-cased) requested name while the value slot is stored under GetName()", e.key, name))
		}
		if strings.ToLower(e.key) != e.key {
			bad = append(bad, fmt.Sprintf("key %q is not lower-case: getSystemVar lower-cases the requested name, the variable can never be found", e.key))
		}
		c.Check(len(bad) == 0, "C44-N1", id, e.pos, "", strings.Join(bad, "; "))
		if len(seenIn[e.key]) > 1 && seenIn[e.key][0] == e.mapName {
			c.Bad("C44-N1", id+" (also in "+seenIn[e.key][1]+")", e.pos, fmt.Sprintf("%q is declared in %v: the lookup prefers one map while initialisation stores the other's default", e.key, seenIn[e.key]))
		}

		// ---- type constructor
		kind, args, ctorName := c44ReadType(info, tp, e.fields["Type"])
		kinds[kind]++
		if kind == c44Other {
			c.Note("C44-N2", "general-type/"+id, e.pos, "Type is not a NewSystem*Type constructor call ("+types.ExprString(e.fields["Type"])+"): name/domain clauses not applicable")
			continue
		}
		// N2
		if tname, ok := strOf(args[0]); !ok {
			c.Undecided("C44-N2", id, e.pos, "constructor name argument is not a constant string")
		} else {
			c.Check(nameOK && tname == name, "C44-N2", id, e.pos, "",
				fmt.Sprintf("%s is declared with %s(%q, ...): the type validates and reports errors under the name of another variable and its domain is the other variable's", name, ctorName, tname))
		}
		// T1 + D1
		dom, t1 := c44Domain(info, kind, args)
		c.Check(t1 == "", "C44-T1", id, e.pos, "", t1)
		def := e.fields["Default"]
		if def == nil {
			c.Bad("C44-D1", id, e.pos, "entry has no Default: the initial value is nil, which no system type accepts")
		} else if dom == nil {
			c.Undecided("C44-D1", id, e.pos, "type domain not readable (non-constant constructor arguments)")
		} else {
			why := c44DefaultInDomain(c.P, info, kind, dom, def)
			c.Check(why == "", "C44-D1", id, def.Pos(), "", fmt.Sprintf("Default %s of %s (%s type): %s", types.ExprString(def), name, c44KindName[kind], why))
		}
		// D2
		if vf := e.fields["ValueFunction"]; vf != nil {
			lit, ok := ast.Unparen(vf).(*ast.FuncLit)
			if !ok {
				c.Undecided("C44-D2", id, vf.Pos(), "ValueFunction is not a function literal: returned values not readable")
			} else {
				var bad []string
				n := 0
				ast.Inspect(lit.Body, func(m ast.Node) bool {
					if _, nested := m.(*ast.FuncLit); nested {
						return false
					}
					ret, ok := m.(*ast.ReturnStmt)
					if !ok || len(ret.Results) == 0 {
						return true
					}
					if isNilIdent(info, ret.Results[0]) {
						return true // error path
					}
					n++
					t := info.Types[ret.Results[0]].Type
					if !c44GoKindOK(kind, t) {
						bad = append(bad, fmt.Sprintf("returns %s of Go type %s", types.ExprString(ret.Results[0]), t))
					}
					return true
				})
				if n == 0 {
					c.Undecided("C44-D2", id, vf.Pos(), "no value-returning return statement found")
				} else {
					c.Check(len(bad) == 0, "C44-D2", id, vf.Pos(), "", fmt.Sprintf("ValueFunction of %s %s, but the declared type is a %s system type whose Convert/SQL rejects such values (SELECT @@%s fails or shows a value outside its type)", name, strings.Join(bad, "; "), c44KindName[kind], name))
				}
			}
		}
	}
	var ks []string
	for k, n := range kinds {
		ks = append(ks, fmt.Sprintf("%s=%d", c44KindName[k], n))
	}
	sort.Strings(ks)
	c.Notef("entries by type kind: %v", ks)
	// ---- K1: key normalisation of the folded-name maps. Name() of a registry entry counts as folded only if N1 holds for every entry.
	for _, o := range c.Obs {
		if o.Rule == "C44-N1" && o.Status == Violation {
			regObjs = map[types.Object]bool{}
		}
	}
	if floorKeys >= 0 {
		runC44Keys(c, c44kCfg{registries: regObjs, nameMethod: "GetName", sqlRel: sqlRel, valueTypes: c44VariableTypes, floor: fl(floorKeys)})
	}
}

func c44StructLit(info *types.Info, v ast.Expr, stn *types.TypeName) *ast.CompositeLit {
	v = ast.Unparen(v)
	if u, ok := v.(*ast.UnaryExpr); ok && u.Op == token.AND {
		v = ast.Unparen(u.X)
	}
	lit, ok := v.(*ast.CompositeLit)
	if !ok {
		return nil
	}
	t := info.Types[lit].Type
	if p, ok := t.(*types.Pointer); ok { // elided &T in map literal
		t = p.Elem()
	}
	nt, ok := types.Unalias(t).(*types.Named)
	if !ok || nt.Obj() != stn {
		return nil
	}
	return lit
}

// c44ReadType classifies the Type expression and returns the constructor arguments (variadic arguments flattened;
// a spread of a package-level []string variable is read from its initialiser).
func c44ReadType(info *types.Info, tp *packages.Package, x ast.Expr) (c44Kind, []ast.Expr, string) {
	call, ok := ast.Unparen(x).(*ast.CallExpr)
	if !ok {
		return c44Other, nil, ""
	}
	fn := Callee(info, call)
	if fn == nil || fn.Pkg() != tp.Types {
		return c44Other, nil, ""
	}
	sh, ok := c44Ctors[fn.Name()]
	if !ok || len(call.Args) < sh.fixed {
		return c44Other, nil, ""
	}
	return sh.kind, call.Args, fn.Name()
}

type c44Dom struct {
	lo, hi  constant.Value
	negOne  bool
	members map[string]bool // lower-cased
}

func c44Domain(info *types.Info, kind c44Kind, args []ast.Expr) (*c44Dom, string) {
	val := func(x ast.Expr) constant.Value {
		if tv, ok := info.Types[x]; ok {
			return tv.Value
		}
		return nil
	}
	d := &c44Dom{}
	switch kind {
	case c44Bool, c44String:
		return d, ""
	case c44Int, c44Uint, c44Double:
		d.lo, d.hi = val(args[1]), val(args[2])
		if d.lo == nil || d.hi == nil {
			return nil, ""
		}
		if kind == c44Int {
			if v := val(args[3]); v != nil && v.Kind() == constant.Bool {
				d.negOne = constant.BoolVal(v)
			} else {
				return nil, ""
			}
		}
		if constant.Compare(d.lo, token.GTR, d.hi) {
			return d, fmt.Sprintf("lower bound %s > upper bound %s: the type accepts no value", d.lo.ExactString(), d.hi.ExactString())
		}
		return d, ""
	case c44Enum, c44Set:
		first := 1
		if kind == c44Set {
			first = 2
		}
		d.members = map[string]bool{}
		var bad []string
		for _, a := range args[first:] {
			v := val(a)
			if v == nil || v.Kind() != constant.String {
				return nil, ""
			}
			m := constant.StringVal(v)
			if m == "" {
				bad = append(bad, "empty member")
			}
			if d.members[strings.ToLower(m)] {
				bad = append(bad, fmt.Sprintf("member %q repeated (after case folding): the index table of the type is inconsistent", m))
			}
			d.members[strings.ToLower(m)] = true
		}
		if len(d.members) == 0 {
			bad = append(bad, "no members: the type accepts no value")
		}
		return d, strings.Join(bad, "; ")
	}
	return nil, ""
}

func c44DefaultInDomain(p *Prog, info *types.Info, kind c44Kind, d *c44Dom, def ast.Expr) string {
	tv := info.Types[def]
	v := tv.Value
	if v == nil && (kind == c44Enum || kind == c44Set) {
		if s, ok := c44FoldStringVar(p, info, def, 0); ok {
			v = constant.MakeString(s)
		}
	}
	isNum := func(k constant.Kind) bool { return k == constant.Int || k == constant.Float }
	switch kind {
	case c44String:
		if b, ok := tv.Type.Underlying().(*types.Basic); ok && b.Info()&types.IsString != 0 {
			return ""
		}
		return fmt.Sprintf("Go type %s is not a string: the string type's Convert rejects it", tv.Type)
	case c44Bool:
		if v == nil {
			return "not a constant: membership in {0,1} not decided (UNDECIDED, never a pass)"
		}
		if v.Kind() == constant.Bool {
			return ""
		}
		if isNum(v.Kind()) && (constant.Compare(v, token.EQL, constant.MakeInt64(0)) || constant.Compare(v, token.EQL, constant.MakeInt64(1))) {
			return ""
		}
		return "value " + v.ExactString() + " is not 0 or 1"
	case c44Int, c44Uint, c44Double:
		if v == nil {
			return "not a constant: bounds not decided (UNDECIDED, never a pass)"
		}
		if !isNum(v.Kind()) {
			return "not a numeric constant"
		}
		if kind != c44Double && v.Kind() == constant.Float && !constant.Compare(constant.ToInt(v), token.EQL, v) {
			return "fractional value for an integer type"
		}
		if constant.Compare(v, token.GEQ, d.lo) && constant.Compare(v, token.LEQ, d.hi) {
			return ""
		}
		if d.negOne && constant.Compare(v, token.EQL, constant.MakeInt64(-1)) {
			return ""
		}
		return fmt.Sprintf("value %s is outside [%s, %s]: SET @@var = DEFAULT is rejected by the variable's own type and SELECT @@var cannot render it", v.ExactString(), d.lo.ExactString(), d.hi.ExactString())
	case c44Enum:
		if v == nil {
			return "not a constant: membership not decided (UNDECIDED, never a pass)"
		}
		if v.Kind() == constant.String {
			if d.members[strings.ToLower(constant.StringVal(v))] {
				return ""
			}
			return fmt.Sprintf("%q is not a member of the enum", constant.StringVal(v))
		}
		if v.Kind() == constant.Int {
			if n, ok := constant.Int64Val(v); ok && n >= 0 && int(n) < len(d.members) {
				return ""
			}
			return "index " + v.ExactString() + " is outside the member list"
		}
		return "neither a member string nor an index"
	case c44Set:
		if v == nil {
			return "not a constant: membership not decided (UNDECIDED, never a pass)"
		}
		if v.Kind() == constant.Int {
			return ""
		}
		if v.Kind() != constant.String {
			return "neither a member list nor a bit field"
		}
		s := constant.StringVal(v)
		if s == "" {
			return ""
		}
		for _, m := range strings.Split(s, ",") {
			if !d.members[strings.ToLower(strings.TrimSpace(m))] {
				return fmt.Sprintf("%q is not a member of the set", m)
			}
		}
		return ""
	}
	return ""
}

func c44GoKindOK(kind c44Kind, t types.Type) bool {
	b, ok := t.Underlying().(*types.Basic)
	if !ok {
		return false
	}
	switch kind {
	case c44Bool:
		return b.Kind() == types.Bool || b.Kind() == types.Int8 || b.Kind() == types.UntypedBool
	case c44Int, c44Uint:
		return b.Info()&types.IsInteger != 0
	case c44Double:
		return b.Info()&(types.IsFloat|types.IsInteger) != 0
	case c44Enum, c44Set, c44String:
		return b.Info()&types.IsString != 0
	}
	return false
}

// c44FoldStringVar folds an expression that is a constant string, a reference to a package-level string variable of a
// loaded module package that is initialised once (never assigned anywhere in the loaded module packages) with a
// foldable expression, or strings.Join([]string{foldable...}, constant). go/constant only; nothing is executed.
func c44FoldStringVar(p *Prog, info *types.Info, x ast.Expr, depth int) (string, bool) {
	if depth > 4 {
		return "", false
	}
	x = ast.Unparen(x)
	if tv, ok := info.Types[x]; ok && tv.Value != nil && tv.Value.Kind() == constant.String {
		return constant.StringVal(tv.Value), true
	}
	var obj types.Object
	switch e := x.(type) {
	case *ast.Ident:
		obj = info.Uses[e]
	case *ast.SelectorExpr:
		obj = info.Uses[e.Sel]
	case *ast.CallExpr:
		fn := Callee(info, e)
		if fn == nil || fn.Pkg() == nil || fn.Pkg().Path() != "strings" || fn.Name() != "Join" || len(e.Args) != 2 {
			return "", false
		}
		lit, ok := ast.Unparen(e.Args[0]).(*ast.CompositeLit)
		if !ok {
			return "", false
		}
		sep, ok := c44FoldStringVar(p, info, e.Args[1], depth+1)
		if !ok {
			return "", false
		}
		var parts []string
		for _, el := range lit.Elts {
			s, ok := c44FoldStringVar(p, info, el, depth+1)
			if !ok {
				return "", false
			}
			parts = append(parts, s)
		}
		return strings.Join(parts, sep), true
	}
	v, ok := obj.(*types.Var)
	if !ok || v.Pkg() == nil || v.Parent() != v.Pkg().Scope() {
		return "", false
	}
	pk := p.ByPath[v.Pkg().Path()]
	if pk == nil || pk.TypesInfo == nil {
		return "", false
	}
	// never assigned outside its declaration
	for _, mp := range p.Module {
		for _, f := range mp.Syntax {
			assigned := false
			ast.Inspect(f, func(n ast.Node) bool {
				if as, ok := n.(*ast.AssignStmt); ok {
					for _, l := range as.Lhs {
						var o types.Object
						switch le := ast.Unparen(l).(type) {
						case *ast.Ident:
							o = mp.TypesInfo.Uses[le]
						case *ast.SelectorExpr:
							o = mp.TypesInfo.Uses[le.Sel]
						}
						if o == obj {
							assigned = true
						}
					}
				}
				return !assigned
			})
			if assigned {
				return "", false
			}
		}
	}
	for _, f := range pk.Syntax {
		for _, d := range f.Decls {
			gd, ok := d.(*ast.GenDecl)
			if !ok || gd.Tok != token.VAR {
				continue
			}
			for _, sp := range gd.Specs {
				vs := sp.(*ast.ValueSpec)
				for i, n := range vs.Names {
					if pk.TypesInfo.Defs[n] == obj && len(vs.Values) == len(vs.Names) {
						return c44FoldStringVar(p, pk.TypesInfo, vs.Values[i], depth+1)
					}
				}
			}
		}
	}
	return "", false
}
