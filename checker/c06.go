package main

import (
	"fmt"
	"go/ast"
	"go/constant"
	"go/types"
	"sort"
	"strings"

	"golang.org/x/tools/go/packages"
)

// C06 — equivalent formulations: the finite three-valued tables behind
//   x IN (list)          ==  x = e1 OR x = e2 ...
//   hash-IN (rewritten)  ==  IN
//   x BETWEEN lo AND hi  ==  x >= lo AND x <= hi
//   NOT(...) push-down   ==  the expression it replaces
// are read from the source with the finite-domain folder (E9) and compared entry by entry.

func init() {
	register(&Property{
		ID:       "C06",
		Patterns: []string{"./sql", "./sql/expression", "./sql/hash", "./sql/types", "./sql/plan", "./sql/analyzer", "./sql/planbuilder"},
		Explanation: "Some of the equivalences in the property are finite three-valued tables visible in the code; those are read from the source by folding over abstract outcomes and compared entry by entry: " +
			"(CMP) Equals/GreaterThanOrEqual/LessThanOrEqual/GreaterThan/LessThan.Eval map the outcomes of Compare (<, =, >, NULL operand, and for tuple equality 'unequal with a NULL element') to the SQL truth value, comparison.Compare reports a NULL operand as (0, ErrNilOperand), and NullSafeEquals (Eval composed with Compare) is TRUE for two NULLs and FALSE for one; " +
			"(IN) InTuple.Eval, folded over {left NULL, left value} x lists of one and two elements of kinds {equal, less, greater, NULL-typed, NULL-valued, tuple-with-NULL equal elsewhere, tuple-with-NULL unequal elsewhere}, equals the Kleene OR of the folded Equals table applied to each element, and NewNotInTuple is Not(InTuple(left, right)); " +
			"(HIN) HashInTuple.Eval, the form applyHashIn rewrites IN into, folded over {left NULL, value} x {conversion in range, underflow, overflow} x {probe hit, miss} x {list had NULL, not}, yields what IN yields (hit TRUE; no match NULL iff the list had a NULL; NULL left NULL); " +
			"(HF) newInMap, which computes that list-had-NULL flag when the rewrite happens, sets it iff the list holds a NULL-typed or NULL-valued element (lists of 0, 1 and 2 elements, and a NULL-typed left operand), and NewHashInTuple stores newInMap's flag, element set and comparison type and keeps the operands in position; " +
			"(HG) the rewrite in applyHashIn happens only for an InTuple whose left operand passes hasSingleOutput and whose right operand passes isStatic and isConsistentType, with the operands passed on in the same positions; " +
			"(BTW) Between.Eval, folded over the 16 pairs of outcomes of comparing the value with the lower and the upper bound, equals the Kleene AND of the folded tables of value >= lower and value <= upper; " +
			"(SQ) InSubquery.Eval, folded over {left NULL, value} x {no rows, rows without / with NULL, match, match and NULL, no match with NULL, no match}, has the table of the disjunction of equalities over the subquery's rows (FALSE over no rows even for a NULL left operand), NewNotInSubquery is Not(InSubquery(left, right)), and ExistsSubquery.Eval passes the row test through two-valued; " +
			"(SB) the BETWEEN arm of simplifyExpression, folded for six sameness scenarios of its operands (no columns, three different columns, lower=upper, value=lower, value=upper, all the same column), returns an expression whose table equals that of val >= lower AND val <= upper on every pair of compare outcomes consistent with the scenario; " +
			"(SC) the And / Or arms of simplifyExpression, folded (together with getDefiniteBoolValues) for the 25 pairs of operand kinds {literal TRUE, FALSE, NULL, boolean predicate, non-boolean expression}, return an expression with the same three-valued table on every truth assignment and never replace the connective by a non-boolean operand; " +
			"(PB) Builder.buildComparison maps each operator constant (=, <, <=, >, >=, <=>, !=, IN and NOT IN over a tuple and over a subquery) and Builder.buildScalar's RangeCond arm maps BETWEEN / NOT BETWEEN to the expression of that name with the operands in position (value, lower, upper); " +
			"(PN) every arm of pushNotFiltersHelper (NOT NOT, De Morgan, negated comparisons, NOT BETWEEN => < OR >) returns an expression with the same three-valued table as its input.",
		NotCovered: "equality of results of arbitrary equivalent statements; IN/EXISTS subqueries against their semi-/anti-join formulations (the rewrite in unnestInSubqueries / unnestExistsSubqueries carries no nullability guard to name: NOT IN becomes an anti join on an Equals filter and the NULL behaviour is the join executor's, C01's subject; only the expression side's table is read here), tuple-valued IN (subquery), hash collisions in the subquery cache; join conditions in ON versus WHERE; CTE / derived-table inlining; constant folding versus column evaluation; " +
			"the value of Compare itself (type coercion, collations) and whether hashing and comparison identify the same values (newInMap/HashOfSimple versus Compare: C07/C29); the element set newInMap hashes (only its has-NULL flag is read); lists longer than two elements; the literal widening in typeExpandComparisonLiteral and the bind-variable typing deferred in buildScalar (taken as position-preserving); the evaluation of the elements themselves",
		Technique: "finite-domain abstract interpretation (AST folding over abstract compare outcomes and truth values) + composition of the folded tables",
		Run:       func(c *Ctx) { runC06(c, c06Real) },
		Fixture: func(c *Ctx, fx *Prog) {
			expectFixture(c, fx, "c06: IN forgetting a NULL-valued element, hash-IN ignoring the NULL flag, BETWEEN with swapped bounds, Compare treating one NULL operand as a value, newInMap not flagging a NULL literal, NULL IN (no rows) answering NULL, planbuilder exchanging the BETWEEN bounds / building <= as < / NOT IN (subquery) as IN, x BETWEEN x AND y simplified to x >= y, p AND TRUE simplified to TRUE, FALSE OR n to a non-boolean n, rewrite without the isStatic guard, NOT(>) pushed down to < must be reported", c06FixtureWant, func(fc *Ctx) { runC06(fc, c06Fix) })
		},
		FixturePkgs: []string{"./testdata/c06/expr", "./testdata/c06/an", "./testdata/c06/pb"},
	})
}

// c06Anchors names the packages that play each role (the fixture uses one package for the first four).
type c06Anchors struct {
	ex, ty, hs, sq, an, pl, pb string
	floors                     map[string]int
	outOfRangeDead             bool // named exception for HashInTuple.Eval's out-of-range arm (real tree only)
}

var c06Real = c06Anchors{ex: "sql/expression", ty: "sql/types", hs: "sql/hash", sq: "sql", an: "sql/analyzer", pl: "sql/plan", pb: "sql/planbuilder",
	floors: map[string]int{"C06-CMP": 28, "C06-IN": 113, "C06-HIN": 14, "C06-HF": 17, "C06-HG": 9, "C06-BTW": 16, "C06-PN": 8, "C06-SQ": 11, "C06-PB": 13, "C06-SB": 6, "C06-SC": 50}, outOfRangeDead: true}
var c06Fix = c06Anchors{ex: "testdata/c06/expr", ty: "testdata/c06/expr", hs: "testdata/c06/expr", sq: "testdata/c06/expr", an: "testdata/c06/an", pl: "testdata/c06/expr", pb: "testdata/c06/pb",
	floors: map[string]int{}}

// c06FixtureWant: the planted defects of testdata/c06 (each entry verified by hand against the planted change).
var c06FixtureWant = []string{
	"C06-BTW:Between.Eval(val?lower:<,val?upper:=)",
	"C06-BTW:Between.Eval(val?lower:<,val?upper:>)",
	"C06-BTW:Between.Eval(val?lower:<,val?upper:NULL)",
	"C06-BTW:Between.Eval(val?lower:=,val?upper:<)",
	"C06-BTW:Between.Eval(val?lower:=,val?upper:>)",
	"C06-BTW:Between.Eval(val?lower:>,val?upper:<)",
	"C06-BTW:Between.Eval(val?lower:>,val?upper:=)",
	"C06-BTW:Between.Eval(val?lower:>,val?upper:NULL)",
	"C06-BTW:Between.Eval(val?lower:NULL,val?upper:<)",
	"C06-BTW:Between.Eval(val?lower:NULL,val?upper:>)",
	"C06-CMP:comparison.Compare(left=NULL,right=value)",
	"C06-CMP:comparison.Compare(left=value,right=NULL)",
	"C06-CMP:NullSafeEquals(left=NULL,right=value)",
	"C06-HF:newInMap(list=[NULL-typed,NULL-typed])",
	"C06-HF:newInMap(list=[NULL-typed,value])",
	"C06-HF:newInMap(list=[NULL-typed])",
	"C06-HF:newInMap(list=[value,NULL-typed])",
	"C06-HG:applyHashIn(single=true,static=false,consistent=true)",
	"C06-HIN:HashInTuple.Eval(left=value,convert=InRange,probe=miss,listHasNull=true)",
	"C06-IN:InTuple.Eval(left=value,list=[NULL-valued,NULL-valued])",
	"C06-IN:InTuple.Eval(left=value,list=[NULL-valued,greater])",
	"C06-IN:InTuple.Eval(left=value,list=[NULL-valued,less])",
	"C06-IN:InTuple.Eval(left=value,list=[NULL-valued,tuple-NULL-unequal])",
	"C06-IN:InTuple.Eval(left=value,list=[NULL-valued])",
	"C06-IN:InTuple.Eval(left=value,list=[greater,NULL-valued])",
	"C06-IN:InTuple.Eval(left=value,list=[less,NULL-valued])",
	"C06-IN:InTuple.Eval(left=value,list=[tuple-NULL-unequal,NULL-valued])",
	"C06-PB:buildComparison/LessEqualStr",
	"C06-PB:buildComparison/NotInStr/subquery",
	"C06-PB:buildScalar/RangeCond/BetweenStr",
	"C06-PN:pushNotFiltersHelper/NOT(GreaterThan)",
	"C06-SB:simplifyExpression/Between/value-and-lower-the-same-column",
	"C06-SC:simplifyExpression/And(NULL,TRUE)",
	"C06-SC:simplifyExpression/And(non-boolean,TRUE)",
	"C06-SC:simplifyExpression/And(predicate,TRUE)",
	"C06-SC:simplifyExpression/Or(FALSE,non-boolean)",
	"C06-SQ:InSubquery.Eval(left=NULL,rows=no-rows)",
}

// ---- abstract compare outcomes -----------------------------------------------------------

// c06Out is an abstract outcome of comparison.Compare: the sign and whether ErrNilOperand was reported.
type c06Out struct {
	sg      int
	nilOper bool
}

var (
	c06Lt   = c06Out{-1, false}
	c06Eq   = c06Out{0, false}
	c06Gt   = c06Out{1, false}
	c06Null = c06Out{0, true}  // an operand is NULL (or a tuple with a NULL element and equal elsewhere)
	c06PLt  = c06Out{-1, true} // tuple with a NULL element, unequal elsewhere
	c06PGt  = c06Out{1, true}
)

func (o c06Out) String() string {
	switch o {
	case c06Lt:
		return "<"
	case c06Eq:
		return "="
	case c06Gt:
		return ">"
	case c06Null:
		return "NULL"
	case c06PLt:
		return "<+NULL-element"
	}
	return ">+NULL-element"
}

func (o c06Out) mirror() c06Out { return c06Out{-o.sg, o.nilOper} }

const c06ErrVal = -2 // the fold returned a non-nil error

func c06TruthName(v int) string {
	if v == c06ErrVal {
		return "an error"
	}
	return c05Name(v)
}

func c06KAnd(a, b int) int {
	if a == 0 || b == 0 {
		return 0
	}
	if a == -1 || b == -1 {
		return -1
	}
	return 1
}
func c06KOr(a, b int) int {
	if a == 1 || b == 1 {
		return 1
	}
	if a == -1 || b == -1 {
		return -1
	}
	return 0
}
func c06KNot(a int) int {
	if a == -1 {
		return -1
	}
	return 1 - a
}

// c06World carries the resolved anchors and the distinguished symbols of the abstraction.
type c06World struct {
	c                          *Ctx
	ex, ty, hs, sq, an, pl, pb *packages.Package
	nilSym                     *MSym
	errNil                     *MSym // the error value ErrNilOperand.New() produces
	errOther                   *MSym // any other non-nil error
	errKind                    *MSym // the package-level ErrNilOperand
	typeNull                   *MSym // the package-level types.Null
	globals                    map[types.Object]MV
	cmpTab                     map[string]map[c06Out]int // folded Eval tables of the comparison types
}

func (w *c06World) distinguished(s *MSym) bool {
	return s == w.errNil || s == w.errOther || s == w.errKind || s == w.typeNull
}

// mini builds a folder whose package-level variables and distinguished symbols are known.
func (w *c06World) mini(pk *packages.Package) *Mini {
	m := &Mini{P: w.c.P, Info: pk.TypesInfo}
	m.Sel = func(m *Mini, sel *ast.SelectorExpr, base MV) (MV, bool) {
		if base == nil {
			if v, ok := w.globals[m.Info.Uses[sel.Sel]]; ok {
				return v, true
			}
		}
		return nil, false
	}
	m.Equal = func(m *Mini, a, b MV) (bool, bool) {
		sa, ok1 := a.(*MSym)
		sb, ok2 := b.(*MSym)
		if !ok1 || !ok2 || sa.Nil || sb.Nil {
			return false, false
		}
		if sa == sb {
			return true, true
		}
		// a distinguished singleton differs from every other symbol of the abstraction
		if w.distinguished(sa) || w.distinguished(sb) {
			return false, true
		}
		return false, false
	}
	return m
}

// bind prepares receiver/parameter bindings plus the package-level variables (for code that names them unqualified).
func (w *c06World) bind(pk *packages.Package, fd *ast.FuncDecl, recv MV, params map[string]MV) map[types.Object]MV {
	bind := map[types.Object]MV{}
	for o, v := range w.globals {
		bind[o] = v
	}
	if fd.Recv != nil && len(fd.Recv.List[0].Names) > 0 {
		bind[pk.TypesInfo.Defs[fd.Recv.List[0].Names[0]]] = recv
	}
	c06BindParams(pk, fd.Type, params, bind)
	return bind
}

func c06BindParams(pk *packages.Package, ft *ast.FuncType, params map[string]MV, bind map[types.Object]MV) {
	for _, fl := range ft.Params.List {
		for _, n := range fl.Names {
			if o := pk.TypesInfo.Defs[n]; o != nil {
				if v, ok := params[n.Name]; ok {
					bind[o] = v
				} else {
					bind[o] = &MSym{Name: n.Name}
				}
			}
		}
	}
}

// errCall gives meaning to ErrX.New(...) and ErrNilOperand.Is(err).
func (w *c06World) errCall(fn *types.Func, recv MV, args []MV) ([]MV, bool) {
	sig := fn.Type().(*types.Signature)
	if sig.Recv() == nil {
		return nil, false
	}
	if fn.Name() == "New" && sig.Results().Len() == 1 && c06IsError(sig.Results().At(0).Type()) {
		if recv == MV(w.errKind) {
			return []MV{w.errNil}, true
		}
		return []MV{w.errOther}, true
	}
	if fn.Name() == "Is" && recv == MV(w.errKind) && len(args) == 1 && sig.Results().Len() == 1 {
		return []MV{constant.MakeBool(args[0] == MV(w.errNil))}, true
	}
	return nil, false
}

// c06IsError: the error interface or a type implementing it (errors.Kind.New returns *errors.Error).
func c06IsError(t types.Type) bool {
	if IsErrorType(t) {
		return true
	}
	ei, _ := types.Universe.Lookup("error").Type().Underlying().(*types.Interface)
	return ei != nil && types.Implements(t, ei)
}

func c06Var(pk *packages.Package, name string) types.Object {
	if pk == nil {
		return nil
	}
	v, _ := pk.Types.Scope().Lookup(name).(*types.Var)
	if v == nil {
		return nil
	}
	return v
}

func c06PtrTo(pk *packages.Package, name string) types.Type {
	tn, _ := pk.Types.Scope().Lookup(name).(*types.TypeName)
	if tn == nil {
		return nil
	}
	return types.NewPointer(tn.Type())
}

func runC06(c *Ctx, a c06Anchors) {
	fl := func(r string) int { return a.floors[r] }
	c.Rule("C06-CMP", "comparison Eval tables over Compare's outcomes (<, =, >, NULL operand; for Equals also unequal-with-NULL-element) and comparison.Compare's report of a NULL operand", fl("C06-CMP"))
	c.Rule("C06-IN", "InTuple.Eval over {left NULL/value} x lists of 1 and 2 abstract elements == Kleene OR of the folded Equals table per element; NewNotInTuple == Not(InTuple(left,right))", fl("C06-IN"))
	c.Rule("C06-HIN", "HashInTuple.Eval over {left NULL/value} x conversion range x {hit, miss} x {list had NULL} yields what IN yields", fl("C06-HIN"))
	c.Rule("C06-HF", "newInMap sets the has-NULL flag iff the list holds a NULL (lists of 0, 1, 2 abstract elements; NULL-typed left operand); NewHashInTuple stores newInMap's results and keeps the operands in position", fl("C06-HF"))
	c.Rule("C06-HG", "applyHashIn rewrites only an InTuple that passes hasSingleOutput(left), isStatic(right), isConsistentType(right), operands kept in position", fl("C06-HG"))
	c.Rule("C06-BTW", "Between.Eval over the 16 pairs of compare outcomes == Kleene AND of the folded tables of val >= lower and val <= upper", fl("C06-BTW"))
	c.Rule("C06-SQ", "InSubquery.Eval over {left NULL/value} x {no rows, match, match and NULL, no match with NULL, no match} == disjunction of equalities over the rows; NewNotInSubquery == Not(InSubquery(left,right)); ExistsSubquery.Eval passes the row test through", fl("C06-SQ"))
	c.Rule("C06-PB", "planbuilder: each comparison operator / BETWEEN / IN / NOT IN builds the expression of that name with the operands in position", fl("C06-PB"))
	c.Rule("C06-SB", "simplifyExpression's BETWEEN arm (general form and the same-column shortcuts) returns an expression with the table of val >= lower AND val <= upper on every consistent point", fl("C06-SB"))
	c.Rule("C06-SC", "simplifyExpression's And / Or arms over operand kinds {TRUE, FALSE, NULL literal, boolean predicate, non-boolean expression}^2 return an expression with the same three-valued table and never a non-boolean operand", fl("C06-SC"))
	c.Rule("C06-PN", "each arm of pushNotFiltersHelper returns an expression with the same three-valued table as its input", fl("C06-PN"))

	w := &c06World{c: c, ex: c.P.Pkg(a.ex), ty: c.P.Pkg(a.ty), hs: c.P.Pkg(a.hs), sq: c.P.Pkg(a.sq), an: c.P.Pkg(a.an), pl: c.P.Pkg(a.pl), pb: c.P.Pkg(a.pb)}
	if w.ex == nil || w.ty == nil || w.hs == nil || w.sq == nil || w.an == nil || w.pl == nil {
		c.Undecided("C06-IN", "packages", 0, "anchor packages not loaded")
		return
	}
	w.nilSym = &MSym{Name: "nil", Nil: true}
	w.errNil = &MSym{Name: "ErrNilOperand.New()"}
	w.errOther = &MSym{Name: "other error"}
	w.errKind = &MSym{Name: "ErrNilOperand"}
	w.typeNull = &MSym{Name: "types.Null"}
	w.globals = map[types.Object]MV{}
	if o := c06Var(w.ex, "ErrNilOperand"); o != nil {
		w.globals[o] = w.errKind
	} else {
		c.Undecided("C06-CMP", "ErrNilOperand", 0, "package-level ErrNilOperand not found")
		return
	}
	if o := c06Var(w.ty, "Null"); o != nil {
		w.globals[o] = w.typeNull
	} else {
		c.Undecided("C06-IN", "types.Null", 0, "package-level Null type not found")
		return
	}

	c06Cmp(w)
	c06NullSafe(w)
	c06In(w)
	c06HashIn(w, a)
	c06HashFlag(w)
	c06HashGuard(w)
	c06Between(w)
	c06PushNot(w)
	c06Subquery(w)
	c06Build(w)
	c06SimplifyBetween(w)
	c06SimplifyConnectives(w)
}

// ---- CMP ---------------------------------------------------------------------------------

var c06CmpTypes = []string{"Equals", "GreaterThanOrEqual", "LessThanOrEqual", "GreaterThan", "LessThan"}

func c06CmpWant(tn string, o c06Out) (int, bool) {
	if o.nilOper {
		if tn == "Equals" && o.sg != 0 {
			return 0, true // a tuple with a NULL element that differs elsewhere is unequal
		}
		if o.sg != 0 {
			return 0, false // ordering of tuples with NULL elements: not claimed
		}
		return -1, true
	}
	b := false
	switch tn {
	case "Equals":
		b = o.sg == 0
	case "GreaterThanOrEqual":
		b = o.sg >= 0
	case "LessThanOrEqual":
		b = o.sg <= 0
	case "GreaterThan":
		b = o.sg > 0
	case "LessThan":
		b = o.sg < 0
	}
	if b {
		return 1, true
	}
	return 0, true
}

// c06FoldCmpEval folds T.Eval with Compare answering the abstract outcome o.
func (w *c06World) foldCmpEval(fd *ast.FuncDecl, o c06Out) (int, error) {
	m := w.mini(w.ex)
	self := &MSym{Name: "self"}
	m.Call = func(m *Mini, call *ast.CallExpr, fn *types.Func, recv MV, args []MV) ([]MV, bool) {
		if fn == nil {
			return nil, false
		}
		if r, ok := w.errCall(fn, recv, args); ok {
			return r, true
		}
		sig := fn.Type().(*types.Signature)
		if recv == MV(self) && sig.Results().Len() == 2 && IsErrorType(sig.Results().At(1).Type()) {
			if b, ok := sig.Results().At(0).Type().Underlying().(*types.Basic); ok && b.Info()&types.IsInteger != 0 {
				var e MV = w.nilSym
				if o.nilOper {
					e = w.errNil
				}
				return []MV{constant.MakeInt64(int64(o.sg)), e}, true
			}
		}
		return nil, false
	}
	res, panicked, err := m.RunFunc(fd, w.bind(w.ex, fd, self, nil))
	if err != nil {
		return 0, err
	}
	return w.truthResult(res, panicked)
}

func (w *c06World) truthResult(res []MV, panicked bool) (int, error) {
	if panicked || len(res) != 2 {
		return 0, fmt.Errorf("unexpected result shape")
	}
	if e, ok := res[1].(*MSym); !ok || !e.Nil {
		return c06ErrVal, nil
	}
	v, ok := c05Decode(res[0])
	if !ok {
		return 0, fmt.Errorf("result is not a truth value")
	}
	return v, nil
}

func c06Cmp(w *c06World) {
	c := w.c
	w.cmpTab = map[string]map[c06Out]int{}
	for _, tn := range c06CmpTypes {
		fd := c.P.Decl(LookupFunc(w.ex, tn+".Eval"))
		if fd == nil {
			c.Undecided("C06-CMP", tn+".Eval", 0, "not found")
			continue
		}
		tab := map[c06Out]int{}
		complete := true
		for _, o := range []c06Out{c06Lt, c06Eq, c06Gt, c06Null, c06PLt, c06PGt} {
			key := fmt.Sprintf("%s.Eval(%s)", tn, o)
			got, err := w.foldCmpEval(fd, o)
			if err != nil {
				c.Undecided("C06-CMP", key, fd.Pos(), err.Error())
				complete = false
				continue
			}
			tab[o] = got
			want, claimed := c06CmpWant(tn, o)
			if !claimed {
				c.Note("C06-CMP", key, fd.Pos(), "yields "+c06TruthName(got)+" (ordering of tuples with NULL elements is not claimed)")
				continue
			}
			c.Check(got == want, "C06-CMP", key, fd.Pos(), c06TruthName(got), fmt.Sprintf("%s yields %s when Compare reports %s; SQL requires %s", tn+".Eval", c06TruthName(got), o, c05Name(want)))
		}
		if complete {
			w.cmpTab[tn] = tab
		}
	}
	// comparison.Compare: a NULL operand is reported as (0, ErrNilOperand)
	cmpFn := LookupFunc(w.ex, "comparison.Compare")
	fd := c.P.Decl(cmpFn)
	evalLR := LookupFunc(w.ex, "comparison.evalLeftAndRight")
	if fd == nil || evalLR == nil {
		c.Undecided("C06-CMP", "comparison.Compare", 0, "comparison.Compare / evalLeftAndRight not found")
		return
	}
	for _, combo := range [][2]bool{{true, false}, {false, true}, {true, true}} {
		nm := func(b bool) string {
			if b {
				return "NULL"
			}
			return "value"
		}
		key := fmt.Sprintf("comparison.Compare(left=%s,right=%s)", nm(combo[0]), nm(combo[1]))
		m := w.mini(w.ex)
		m.Call = func(m *Mini, call *ast.CallExpr, fn *types.Func, recv MV, args []MV) ([]MV, bool) {
			if fn == nil {
				return nil, false
			}
			if r, ok := w.errCall(fn, recv, args); ok {
				return r, true
			}
			if fn == evalLR {
				val := func(null bool, n string) MV {
					if null {
						return w.nilSym
					}
					return &MSym{Name: n}
				}
				return []MV{val(combo[0], "l"), val(combo[1], "r"), w.nilSym}, true
			}
			return nil, false
		}
		res, panicked, err := m.RunFunc(fd, w.bind(w.ex, fd, &MSym{Name: "self"}, nil))
		if err != nil || panicked || len(res) != 2 {
			c.Undecided("C06-CMP", key, fd.Pos(), fmt.Sprint("not foldable: ", err))
			continue
		}
		sg, isInt := MInt(res[0])
		c.Check(isInt && sg == 0 && res[1] == MV(w.errNil), "C06-CMP", key, fd.Pos(), "(0, ErrNilOperand)",
			"comparison.Compare does not report a NULL operand as (0, ErrNilOperand): every comparison's NULL rule and IN's NULL rule rest on it")
	}
}

// c06NullSafe: x <=> y over NULL operands is two-valued: TRUE iff both are NULL (Eval composed with Compare).
func c06NullSafe(w *c06World) {
	c := w.c
	cfd := c.P.Decl(LookupFunc(w.ex, "NullSafeEquals.Compare"))
	efd := c.P.Decl(LookupFunc(w.ex, "NullSafeEquals.Eval"))
	evalLR := LookupFunc(w.ex, "comparison.evalLeftAndRight")
	if cfd == nil || efd == nil || evalLR == nil {
		c.Undecided("C06-CMP", "NullSafeEquals", 0, "NullSafeEquals.Compare / Eval / evalLeftAndRight not found")
		return
	}
	nm := func(b bool) string {
		if b {
			return "NULL"
		}
		return "value"
	}
	for _, combo := range [][2]bool{{true, true}, {true, false}, {false, true}} {
		key := fmt.Sprintf("NullSafeEquals(left=%s,right=%s)", nm(combo[0]), nm(combo[1]))
		m := w.mini(w.ex)
		m.Call = func(m *Mini, call *ast.CallExpr, fn *types.Func, recv MV, args []MV) ([]MV, bool) {
			if fn != nil && fn == evalLR {
				val := func(null bool, n string) MV {
					if null {
						return w.nilSym
					}
					return &MSym{Name: n}
				}
				return []MV{val(combo[0], "l"), val(combo[1], "r"), w.nilSym}, true
			}
			return nil, false
		}
		res, panicked, err := m.RunFunc(cfd, w.bind(w.ex, cfd, &MSym{Name: "self"}, nil))
		if err != nil || panicked || len(res) != 2 {
			c.Undecided("C06-CMP", key, cfd.Pos(), fmt.Sprint("Compare not foldable: ", err))
			continue
		}
		sg, isInt := MInt(res[0])
		if e, ok := res[1].(*MSym); !isInt || !ok || !e.Nil {
			c.Bad("C06-CMP", key, cfd.Pos(), "NullSafeEquals.Compare reports an error or no sign for a NULL operand: <=> never fails on NULL")
			continue
		}
		self := &MSym{Name: "self"}
		m2 := w.mini(w.ex)
		m2.Call = func(m *Mini, call *ast.CallExpr, fn *types.Func, recv MV, args []MV) ([]MV, bool) {
			if fn != nil && recv == MV(self) && fn.Type().(*types.Signature).Results().Len() == 2 {
				return []MV{constant.MakeInt64(sg), w.nilSym}, true
			}
			return nil, false
		}
		res, panicked, err = m2.RunFunc(efd, w.bind(w.ex, efd, self, nil))
		if err != nil {
			c.Undecided("C06-CMP", key, efd.Pos(), err.Error())
			continue
		}
		got, err := w.truthResult(res, panicked)
		if err != nil {
			c.Undecided("C06-CMP", key, efd.Pos(), err.Error())
			continue
		}
		want := 0
		if combo[0] && combo[1] {
			want = 1
		}
		c.Check(got == want, "C06-CMP", key, efd.Pos(), c06TruthName(got), fmt.Sprintf("%s yields %s; <=> is TRUE iff both operands are NULL, never NULL", key, c06TruthName(got)))
	}
}

// ---- IN ----------------------------------------------------------------------------------

type c06Elem struct {
	name     string
	nullType bool   // el.Type() is types.Null
	nullVal  bool   // el.Eval() is nil
	out      c06Out // outcome of comparing the left value with it (when both are values)
}

var c06Elems = []c06Elem{
	{name: "equal", out: c06Eq},
	{name: "less", out: c06Lt},
	{name: "greater", out: c06Gt},
	{name: "NULL-typed", nullType: true, nullVal: true, out: c06Null},
	{name: "NULL-valued", nullVal: true, out: c06Null},
	{name: "tuple-NULL-equal", out: c06Null},
	{name: "tuple-NULL-unequal", out: c06PGt},
}

func c06In(w *c06World) {
	c := w.c
	evalFn := LookupFunc(w.ex, "InTuple.Eval")
	fd := c.P.Decl(evalFn)
	leftFn, rightFn := LookupFunc(w.ex, "InTuple.Left"), LookupFunc(w.ex, "InTuple.Right")
	numCols := LookupFunc(w.ty, "NumColumns")
	newCmp, newLit := LookupFunc(w.ex, "newComparison"), LookupFunc(w.ex, "NewLiteral")
	tupleT, _ := w.ex.Types.Scope().Lookup("Tuple").(*types.TypeName)
	if fd == nil || leftFn == nil || rightFn == nil || tupleT == nil {
		c.Undecided("C06-IN", "InTuple.Eval", 0, "InTuple.Eval / Left / Right / Tuple not found")
		return
	}
	eq, haveEq := w.cmpTab["Equals"]
	if !haveEq {
		c.Undecided("C06-IN", "InTuple.Eval", fd.Pos(), "the Equals table could not be read, so the defining disjunction cannot be composed")
		return
	}
	var lists [][]c06Elem
	for _, e := range c06Elems {
		lists = append(lists, []c06Elem{e})
	}
	for _, e1 := range c06Elems {
		for _, e2 := range c06Elems {
			lists = append(lists, []c06Elem{e1, e2})
		}
	}
	for _, leftNull := range []bool{true, false} {
		for _, list := range lists {
			var names []string
			for _, e := range list {
				names = append(names, e.name)
			}
			lname := "value"
			if leftNull {
				lname = "NULL"
			}
			key := fmt.Sprintf("InTuple.Eval(left=%s,list=[%s])", lname, strings.Join(names, ","))
			// expected: Kleene OR of (left = e_i) read off the folded Equals table
			want := 0
			for _, e := range list {
				o := e.out
				if leftNull {
					o = c06Null
				}
				want = c06KOr(want, eq[o])
			}
			leftSym, tupleSym := &MSym{Name: "left"}, &MSym{Name: "tuple", Dyn: tupleT.Type()}
			elemSyms := make([]*MSym, len(list))
			for i := range list {
				elemSyms[i] = &MSym{Name: fmt.Sprintf("el%d", i)}
			}
			cmpOf := map[*MSym]c06Elem{}
			self := &MSym{Name: "self"}
			m := w.mini(w.ex)
			m.Unroll = func(m *Mini, rs *ast.RangeStmt, eval func(ast.Expr) MV) (int, func(int) (MV, MV), bool) {
				if eval(rs.X) != MV(tupleSym) {
					return 0, nil, false
				}
				return len(list), func(i int) (MV, MV) { return constant.MakeInt64(int64(i)), elemSyms[i] }, true
			}
			elemOf := func(v MV) (c06Elem, bool) {
				for i, s := range elemSyms {
					if v == MV(s) {
						return list[i], true
					}
				}
				return c06Elem{}, false
			}
			valOf := map[MV]c06Elem{} // evaluated element values
			m.Call = func(m *Mini, call *ast.CallExpr, fn *types.Func, recv MV, args []MV) ([]MV, bool) {
				if fn == nil {
					return nil, false
				}
				if r, ok := w.errCall(fn, recv, args); ok {
					return r, true
				}
				sig := fn.Type().(*types.Signature)
				switch {
				case fn == leftFn:
					return []MV{leftSym}, true
				case fn == rightFn:
					return []MV{tupleSym}, true
				case fn == numCols && numCols != nil:
					return []MV{constant.MakeInt64(1)}, true
				case fn == newLit && newLit != nil:
					lit := &MSym{Name: "literal"}
					if len(args) > 0 {
						if e, ok := valOf[args[0]]; ok {
							valOf[lit] = e
						}
					}
					return []MV{lit}, true
				case fn == newCmp && newCmp != nil:
					cs := &MSym{Name: "comparison"}
					if len(args) == 2 {
						if e, ok := valOf[args[1]]; ok {
							cmpOf[cs] = e
						} else if e, ok := valOf[args[0]]; ok { // operands the other way round: mirrored outcome
							e.out = e.out.mirror()
							cmpOf[cs] = e
						}
					}
					return []MV{cs}, true
				}
				if cs, ok := recv.(*MSym); ok {
					if e, isCmp := cmpOf[cs]; isCmp && sig.Results().Len() == 2 { // cmpExpr.Compare(ctx, nil)
						var er MV = w.nilSym
						if e.out.nilOper {
							er = w.errNil
						}
						return []MV{constant.MakeInt64(int64(e.out.sg)), er}, true
					}
				}
				if recv == MV(leftSym) && sig.Results().Len() == 2 { // left.Eval
					if leftNull {
						return []MV{w.nilSym, w.nilSym}, true
					}
					return []MV{&MSym{Name: "leftVal"}, w.nilSym}, true
				}
				if recv == MV(leftSym) && sig.Results().Len() == 1 { // left.Type
					return []MV{&MSym{Name: "leftType"}}, true
				}
				if e, ok := elemOf(recv); ok {
					if sig.Results().Len() == 2 { // el.Eval
						if e.nullVal {
							return []MV{w.nilSym, w.nilSym}, true
						}
						v := &MSym{Name: "val:" + e.name}
						valOf[v] = e
						return []MV{v, w.nilSym}, true
					}
					if sig.Results().Len() == 1 { // el.Type
						if e.nullType {
							return []MV{w.typeNull}, true
						}
						return []MV{&MSym{Name: "type:" + e.name}}, true
					}
				}
				return nil, false
			}
			res, panicked, err := m.RunFunc(fd, w.bind(w.ex, fd, self, nil))
			if err != nil {
				c.Undecided("C06-IN", key, fd.Pos(), err.Error())
				continue
			}
			got, err := w.truthResult(res, panicked)
			if err != nil {
				c.Undecided("C06-IN", key, fd.Pos(), err.Error())
				continue
			}
			c.Check(got == want, "C06-IN", key, fd.Pos(), c06TruthName(got),
				fmt.Sprintf("InTuple.Eval yields %s for left=%s, list=[%s]; the disjunction of equalities (folded Equals table, Kleene OR) yields %s", c06TruthName(got), lname, strings.Join(names, ","), c05Name(want)))
		}
	}
	// NOT IN is Not(In(left, right))
	notIn := LookupFunc(w.ex, "NewNotInTuple")
	nfd := c.P.Decl(notIn)
	newNot, newIn := LookupFunc(w.ex, "NewNot"), LookupFunc(w.ex, "NewInTuple")
	if nfd == nil || newNot == nil || newIn == nil {
		c.Undecided("C06-IN", "NewNotInTuple", 0, "NewNotInTuple / NewNot / NewInTuple not found")
		return
	}
	l, r := &MSym{Name: "l"}, &MSym{Name: "r"}
	m := w.mini(w.ex)
	m.Call = func(m *Mini, call *ast.CallExpr, fn *types.Func, recv MV, args []MV) ([]MV, bool) {
		switch {
		case fn != nil && fn == newNot && len(args) == 1:
			return []MV{&MSym{Name: "Not", Fields: map[string]MV{"Child": args[0]}}}, true
		case fn != nil && fn == newIn && len(args) == 2:
			return []MV{&MSym{Name: "In", Fields: map[string]MV{"L": args[0], "R": args[1]}}}, true
		}
		return nil, false
	}
	bind := map[types.Object]MV{}
	i := 0
	for _, f := range nfd.Type.Params.List {
		for _, n := range f.Names {
			bind[w.ex.TypesInfo.Defs[n]] = []MV{l, r}[i%2]
			i++
		}
	}
	res, panicked, err := m.RunFunc(nfd, bind)
	ok := err == nil && !panicked && len(res) == 1
	if ok {
		n, _ := res[0].(*MSym)
		in, _ := func() (*MSym, bool) {
			if n == nil || n.Name != "Not" {
				return nil, false
			}
			s, ok := n.Fields["Child"].(*MSym)
			return s, ok
		}()
		ok = in != nil && in.Name == "In" && in.Fields["L"] == MV(l) && in.Fields["R"] == MV(r)
	}
	c.Check(ok, "C06-IN", "NewNotInTuple", nfd.Pos(), "Not(InTuple(left,right))", "NewNotInTuple does not build Not(InTuple(left, right)) with the operands in position: NOT IN would not be the negation of IN")
}

// ---- HIN ---------------------------------------------------------------------------------

func c06HashIn(w *c06World, a c06Anchors) {
	c := w.c
	fd := c.P.Decl(LookupFunc(w.ex, "HashInTuple.Eval"))
	leftFn := LookupFunc(w.ex, "InTuple.Left")
	hashFn := LookupFunc(w.hs, "HashOfSimple")
	rng, _ := EnumConsts(w.sq, "ConvertInRange")
	if fd == nil || leftFn == nil || hashFn == nil || len(rng) < 2 {
		c.Undecided("C06-HIN", "HashInTuple.Eval", 0, "HashInTuple.Eval / InTuple.Left / HashOfSimple / ConvertInRange not found")
		return
	}
	foldOne := func(leftNull bool, rv constant.Value, hit, hasNull bool) (int, error) {
		inSym, leftSym, mapSym, keySym := &MSym{Name: "in"}, &MSym{Name: "left"}, &MSym{Name: "cmp"}, &MSym{Name: "key"}
		self := &MSym{Name: "self", Fields: map[string]MV{"in": inSym, "cmp": mapSym, "cmpType": &MSym{Name: "cmpType"}, "hasNull": constant.MakeBool(hasNull)}}
		m := w.mini(w.ex)
		m.Call = func(m *Mini, call *ast.CallExpr, fn *types.Func, recv MV, args []MV) ([]MV, bool) {
			if fn == nil {
				return nil, false
			}
			if r, ok := w.errCall(fn, recv, args); ok {
				return r, true
			}
			sig := fn.Type().(*types.Signature)
			switch {
			case fn == leftFn && recv == MV(inSym):
				return []MV{leftSym}, true
			case fn == hashFn:
				return []MV{keySym, rv, w.nilSym}, true
			case recv == MV(leftSym) && sig.Results().Len() == 2:
				if leftNull {
					return []MV{w.nilSym, w.nilSym}, true
				}
				return []MV{&MSym{Name: "leftVal"}, w.nilSym}, true
			}
			return nil, false
		}
		m.Lookup = func(m *Mini, x *ast.IndexExpr, base, idx MV) (MV, bool, bool) {
			if base == MV(mapSym) && idx == MV(keySym) {
				return &MSym{Name: "struct{}"}, hit, true
			}
			return nil, false, false
		}
		res, panicked, err := m.RunFunc(fd, w.bind(w.ex, fd, self, nil))
		if err != nil {
			return 0, err
		}
		return w.truthResult(res, panicked)
	}
	var inR constant.Value
	var outR []EnumConst
	for _, rv := range rng {
		if rv.Obj.Name() == "InRange" {
			inR = rv.Val
		} else {
			outR = append(outR, rv)
		}
	}
	if inR == nil || len(outR) == 0 {
		c.Undecided("C06-HIN", "ConvertInRange", fd.Pos(), "the enum has no InRange constant or no out-of-range constant")
		return
	}
	for _, leftNull := range []bool{true, false} {
		for _, inRange := range []bool{true, false} {
			for _, hit := range []bool{true, false} {
				for _, hasNull := range []bool{true, false} {
					lname, pname, rname := "value", "miss", "out-of-range"
					if leftNull {
						lname = "NULL"
					}
					if hit {
						pname = "hit"
					}
					if inRange {
						rname = "InRange"
					}
					key := fmt.Sprintf("HashInTuple.Eval(left=%s,convert=%s,probe=%s,listHasNull=%v)", lname, rname, pname, hasNull)
					if hit && !inRange && !leftNull {
						// a value outside the comparison type's range equals no in-range element: this point does not exist
						c.Note("C06-HIN", key, fd.Pos(), "not a point of the domain (an out-of-range value is not in the element set)")
						continue
					}
					// what IN yields for the same situation
					want := 0
					switch {
					case leftNull:
						want = -1
					case hit:
						want = 1
					case hasNull:
						want = -1
					}
					var got int
					var err error
					if inRange {
						got, err = foldOne(leftNull, inR, hit, hasNull)
					} else {
						// every out-of-range constant must behave alike; a disagreement is reported as such
						for i, rv := range outR {
							var g int
							if g, err = foldOne(leftNull, rv.Val, hit, hasNull); err != nil {
								break
							}
							if i > 0 && g != got && g != want {
								got = g
							} else if i == 0 || got == want {
								got = g
							}
						}
					}
					if err != nil {
						c.Undecided("C06-HIN", key, fd.Pos(), err.Error())
						continue
					}
					if !leftNull && !inRange && !hit && hasNull && got == 0 && a.outOfRangeDead {
						c.Exc("C06-HIN", key, fd.Pos(), "the out-of-range arm answers FALSE without consulting hasNull (IN would answer NULL), but it is dead for a left value of the operand's declared type: newInMap derives cmpType from that type (signed/signed -> Int64, unsigned/unsigned -> Uint64, identical -> itself; mixed -> Float64 and decimals never report out-of-range), so the conversion in HashOfSimple stays in range; no failing statement found")
						continue
					}
					c.Check(got == want, "C06-HIN", key, fd.Pos(), c06TruthName(got),
						fmt.Sprintf("HashInTuple.Eval yields %s where InTuple.Eval (the expression it replaces) yields %s: left=%s, conversion %s, probe %s, list had NULL=%v", c06TruthName(got), c05Name(want), lname, rname, pname, hasNull))
				}
			}
		}
	}
}

// ---- HG ----------------------------------------------------------------------------------

func c06HashGuard(w *c06World) {
	c := w.c
	newHash := LookupFunc(w.ex, "NewHashInTuple")
	gSingle, gStatic, gCons := LookupFunc(w.an, "hasSingleOutput"), LookupFunc(w.an, "isStatic"), LookupFunc(w.an, "isConsistentType")
	leftFn, rightFn := LookupFunc(w.ex, "InTuple.Left"), LookupFunc(w.ex, "InTuple.Right")
	inT, eqT := c06PtrTo(w.ex, "InTuple"), c06PtrTo(w.ex, "Equals")
	if newHash == nil || gSingle == nil || gStatic == nil || gCons == nil || leftFn == nil || rightFn == nil || inT == nil || eqT == nil {
		c.Undecided("C06-HG", "applyHashIn", 0, "NewHashInTuple / hasSingleOutput / isStatic / isConsistentType / InTuple not found")
		return
	}
	// the function literals that call NewHashInTuple
	type site struct {
		lit  *ast.FuncLit
		encl string
	}
	var sites []site
	for _, file := range w.an.Syntax {
		for _, d := range file.Decls {
			fdecl, ok := d.(*ast.FuncDecl)
			if !ok || fdecl.Body == nil {
				continue
			}
			var stack []*ast.FuncLit
			var visit func(n ast.Node)
			visit = func(n ast.Node) {
				ast.Inspect(n, func(x ast.Node) bool {
					switch x := x.(type) {
					case *ast.FuncLit:
						stack = append(stack, x)
						visit(x.Body)
						stack = stack[:len(stack)-1]
						return false
					case *ast.CallExpr:
						if Callee(w.an.TypesInfo, x) == newHash {
							if len(stack) == 0 {
								c.Undecided("C06-HG", fdecl.Name.Name+"/NewHashInTuple", x.Pos(), "rewrite site outside an expression-transform closure: shape not readable")
							} else {
								sites = append(sites, site{stack[len(stack)-1], fdecl.Name.Name})
							}
						}
					}
					return true
				})
			}
			visit(fdecl.Body)
		}
	}
	if len(sites) == 0 {
		c.Undecided("C06-HG", "applyHashIn", 0, "no call of NewHashInTuple found in the analyzer package")
		return
	}
	for _, st := range sites {
		if len(st.lit.Type.Params.List) == 0 {
			c.Undecided("C06-HG", st.encl, st.lit.Pos(), "closure without parameters")
			continue
		}
		run := func(dyn types.Type, single, static, cons bool) (rewritten bool, argsOK bool, err error) {
			leftSym, rightSym := &MSym{Name: "left"}, &MSym{Name: "right"}
			exprSym := &MSym{Name: "expr", Dyn: dyn, Fields: map[string]MV{}}
			hashSym := &MSym{Name: "hashIn"}
			argsOK = true
			m := w.mini(w.an)
			m.Call = func(m *Mini, call *ast.CallExpr, fn *types.Func, recv MV, args []MV) ([]MV, bool) {
				if fn == nil {
					return nil, false
				}
				chk := func(i int, want MV) {
					if i >= len(args) || args[i] != want {
						argsOK = false
					}
				}
				switch fn {
				case leftFn:
					return []MV{leftSym}, recv == MV(exprSym)
				case rightFn:
					return []MV{rightSym}, recv == MV(exprSym)
				case gSingle:
					chk(1, leftSym)
					return []MV{constant.MakeBool(single)}, true
				case gStatic:
					chk(1, rightSym)
					return []MV{constant.MakeBool(static)}, true
				case gCons:
					chk(1, rightSym)
					return []MV{constant.MakeBool(cons)}, true
				case newHash:
					chk(1, leftSym)
					chk(2, rightSym)
					return []MV{hashSym, w.nilSym}, true
				}
				return nil, false
			}
			bind := map[types.Object]MV{}
			n := 0
			for _, f := range st.lit.Type.Params.List {
				for _, id := range f.Names {
					var v MV = &MSym{Name: id.Name}
					if _, isIface := w.an.TypesInfo.Defs[id].Type().Underlying().(*types.Interface); isIface && n > 0 || (isIface && len(st.lit.Type.Params.List) == 1) {
						v = exprSym
					}
					bind[w.an.TypesInfo.Defs[id]] = v
					n++
				}
			}
			res, returned, panicked, _, err := m.RunBlock(st.lit.Body.List, bind)
			if err != nil {
				return false, false, err
			}
			if !returned || panicked || len(res) == 0 {
				return false, false, fmt.Errorf("closure does not return")
			}
			return res[0] == MV(hashSym), argsOK, nil
		}
		for _, single := range []bool{true, false} {
			for _, static := range []bool{true, false} {
				for _, cons := range []bool{true, false} {
					key := fmt.Sprintf("%s(single=%v,static=%v,consistent=%v)", st.encl, single, static, cons)
					rw, argsOK, err := run(inT, single, static, cons)
					if err != nil {
						c.Undecided("C06-HG", key, st.lit.Pos(), err.Error())
						continue
					}
					all := single && static && cons
					switch {
					case rw && !all:
						c.Bad("C06-HG", key, st.lit.Pos(), fmt.Sprintf("IN is rewritten to hash-IN although a guard fails (hasSingleOutput(left)=%v, isStatic(right)=%v, isConsistentType(right)=%v): HashInTuple evaluates the list once without a row and hashes under one comparison type", single, static, cons))
					case !argsOK:
						c.Bad("C06-HG", key, st.lit.Pos(), "a guard or NewHashInTuple receives the wrong operand (expected hasSingleOutput(e.Left()), isStatic(e.Right()), isConsistentType(e.Right()), NewHashInTuple(ctx, e.Left(), e.Right()))")
					default:
						c.Ok("C06-HG", key, st.lit.Pos(), fmt.Sprintf("rewritten=%v", rw))
					}
				}
			}
		}
		key := st.encl + "(not an InTuple)"
		rw, _, err := run(eqT, true, true, true)
		if err != nil {
			c.Undecided("C06-HG", key, st.lit.Pos(), err.Error())
		} else {
			c.Check(!rw, "C06-HG", key, st.lit.Pos(), "left alone", "an expression that is not an InTuple is rewritten to hash-IN")
		}
	}
}

// ---- terms (BTW, PN) ---------------------------------------------------------------------

// a term is an *MSym with Name = constructor type name, Dyn = *T and Fields = its operands.
type c06Terms struct {
	w     *c06World
	ctors map[*types.Func]string // constructor -> type name
}

var c06BinCtors = map[string]string{"NewAnd": "And", "NewOr": "Or", "NewEquals": "Equals", "NewGreaterThan": "GreaterThan", "NewLessThan": "LessThan",
	"NewGreaterThanOrEqual": "GreaterThanOrEqual", "NewLessThanOrEqual": "LessThanOrEqual"}

func (w *c06World) terms() *c06Terms {
	t := &c06Terms{w: w, ctors: map[*types.Func]string{}}
	for fnName, tn := range c06BinCtors {
		if fn := LookupFunc(w.ex, fnName); fn != nil {
			t.ctors[fn] = tn
		}
	}
	if fn := LookupFunc(w.ex, "NewNot"); fn != nil {
		t.ctors[fn] = "Not"
	}
	if fn := LookupFunc(w.ex, "NewBetween"); fn != nil {
		t.ctors[fn] = "Between"
	}
	return t
}

func (t *c06Terms) mk(tn string, ops ...MV) *MSym {
	s := &MSym{Name: tn, Dyn: c06PtrTo(t.w.ex, tn), Fields: map[string]MV{}}
	switch tn {
	case "Not":
		s.Fields["Child"] = ops[0]
	case "Between":
		s.Fields["Val"], s.Fields["Lower"], s.Fields["Upper"] = ops[0], ops[1], ops[2]
	default:
		s.Fields["LeftChild"], s.Fields["RightChild"] = ops[0], ops[1]
	}
	return s
}

// call builds terms for the expression constructors and answers Left()/Right() on binary terms.
func (t *c06Terms) call(fn *types.Func, recv MV, args []MV) ([]MV, bool) {
	if fn == nil {
		return nil, false
	}
	if tn, ok := t.ctors[fn]; ok {
		want := map[string]int{"Not": 1, "Between": 3}[tn]
		if want == 0 {
			want = 2
		}
		if len(args) != want {
			return nil, false
		}
		return []MV{t.mk(tn, args...)}, true
	}
	if s, ok := recv.(*MSym); ok && s.Fields != nil && len(args) == 0 {
		if _, bin := s.Fields["LeftChild"]; bin {
			switch fn.Name() {
			case "Left":
				return []MV{s.Fields["LeftChild"]}, true
			case "Right":
				return []MV{s.Fields["RightChild"]}, true
			}
		}
	}
	return nil, false
}

// c06Asg assigns truth values to predicate leaves and compare outcomes to ordered pairs of operand leaves.
type c06Asg struct {
	truth map[*MSym]int
	cmp   map[[2]*MSym]c06Out
}

func (t *c06Terms) eval(v MV, a c06Asg) (int, error) {
	s, ok := v.(*MSym)
	if !ok {
		return 0, fmt.Errorf("not a term")
	}
	if tv, ok := a.truth[s]; ok {
		return tv, nil
	}
	sub := func(f string) (int, error) { return t.eval(s.Fields[f], a) }
	switch s.Name {
	case "Not":
		x, err := sub("Child")
		return c06KNot(x), err
	case "And", "Or":
		x, err := sub("LeftChild")
		if err != nil {
			return 0, err
		}
		y, err := sub("RightChild")
		if s.Name == "And" {
			return c06KAnd(x, y), err
		}
		return c06KOr(x, y), err
	case "Between": // its definition
		return t.eval(t.mk("And", t.mk("GreaterThanOrEqual", s.Fields["Val"], s.Fields["Lower"]), t.mk("LessThanOrEqual", s.Fields["Val"], s.Fields["Upper"])), a)
	case "Equals", "GreaterThan", "LessThan", "GreaterThanOrEqual", "LessThanOrEqual":
		tab, ok := t.w.cmpTab[s.Name]
		if !ok {
			return 0, fmt.Errorf("the %s table could not be read", s.Name)
		}
		l, _ := s.Fields["LeftChild"].(*MSym)
		r, _ := s.Fields["RightChild"].(*MSym)
		if o, ok := a.cmp[[2]*MSym{l, r}]; ok {
			return tab[o], nil
		}
		if o, ok := a.cmp[[2]*MSym{r, l}]; ok {
			return tab[o.mirror()], nil
		}
		return 0, fmt.Errorf("comparison of operands outside the abstraction (%s ? %s)", c06SymName(l), c06SymName(r))
	}
	return 0, fmt.Errorf("expression %s is outside the abstraction", s.Name)
}

func c06SymName(s *MSym) string {
	if s == nil {
		return "?"
	}
	return s.Name
}

// ---- BTW ---------------------------------------------------------------------------------

func c06Between(w *c06World) {
	c := w.c
	fd := c.P.Decl(LookupFunc(w.ex, "Between.Eval"))
	if fd == nil {
		c.Undecided("C06-BTW", "Between.Eval", 0, "not found")
		return
	}
	gte, ok1 := w.cmpTab["GreaterThanOrEqual"]
	lte, ok2 := w.cmpTab["LessThanOrEqual"]
	if !ok1 || !ok2 {
		c.Undecided("C06-BTW", "Between.Eval", fd.Pos(), "the >= / <= tables could not be read, so the defining conjunction cannot be composed")
		return
	}
	t := w.terms()
	outs := []c06Out{c06Lt, c06Eq, c06Gt, c06Null}
	for _, ol := range outs {
		for _, ou := range outs {
			key := fmt.Sprintf("Between.Eval(val?lower:%s,val?upper:%s)", ol, ou)
			val, lo, hi := &MSym{Name: "val"}, &MSym{Name: "lower"}, &MSym{Name: "upper"}
			asg := c06Asg{cmp: map[[2]*MSym]c06Out{{val, lo}: ol, {val, hi}: ou}}
			self := t.mk("Between", val, lo, hi)
			m := w.mini(w.ex)
			var evalErr error
			m.Call = func(m *Mini, call *ast.CallExpr, fn *types.Func, recv MV, args []MV) ([]MV, bool) {
				if fn == nil {
					return nil, false
				}
				if r, ok := t.call(fn, recv, args); ok {
					return r, true
				}
				sig := fn.Type().(*types.Signature)
				if s, ok := recv.(*MSym); ok && s.Dyn != nil && s != self && fn.Name() == "Eval" && sig.Results().Len() == 2 {
					v, err := t.eval(s, asg)
					if err != nil {
						evalErr = err
						return nil, false
					}
					return []MV{c05Val(v), w.nilSym}, true
				}
				return nil, false
			}
			res, panicked, err := m.RunFunc(fd, w.bind(w.ex, fd, self, nil))
			if err == nil && evalErr != nil {
				err = evalErr
			}
			if err != nil {
				if evalErr != nil {
					err = evalErr
				}
				c.Undecided("C06-BTW", key, fd.Pos(), err.Error())
				continue
			}
			got, err := w.truthResult(res, panicked)
			if err != nil {
				c.Undecided("C06-BTW", key, fd.Pos(), err.Error())
				continue
			}
			want := c06KAnd(gte[ol], lte[ou])
			c.Check(got == want, "C06-BTW", key, fd.Pos(), c06TruthName(got),
				fmt.Sprintf("Between.Eval yields %s when the value compares %s to the lower and %s to the upper bound; (val >= lower AND val <= upper) yields %s", c06TruthName(got), ol, ou, c05Name(want)))
		}
	}
}

// ---- PN ----------------------------------------------------------------------------------

func c06PushNot(w *c06World) {
	c := w.c
	self := LookupFunc(w.an, "pushNotFiltersHelper")
	fd := c.P.Decl(self)
	if fd == nil {
		c.Undecided("C06-PN", "pushNotFiltersHelper", 0, "not found")
		return
	}
	isBool := LookupFunc(w.ty, "IsBoolean")
	t := w.terms()
	truths := []int{1, 0, -1}
	outs := []c06Out{c06Lt, c06Eq, c06Gt, c06Null}
	type input struct {
		name string
		mk   func(p, q, x, y, z *MSym) *MSym
		kind string // "pred1", "pred2", "cmp", "between"
	}
	inputs := []input{
		{"NOT(NOT)", func(p, q, x, y, z *MSym) *MSym { return t.mk("Not", t.mk("Not", p)) }, "pred1"},
		{"NOT(And)", func(p, q, x, y, z *MSym) *MSym { return t.mk("Not", t.mk("And", p, q)) }, "pred2"},
		{"NOT(Or)", func(p, q, x, y, z *MSym) *MSym { return t.mk("Not", t.mk("Or", p, q)) }, "pred2"},
		{"NOT(GreaterThan)", func(p, q, x, y, z *MSym) *MSym { return t.mk("Not", t.mk("GreaterThan", x, y)) }, "cmp"},
		{"NOT(GreaterThanOrEqual)", func(p, q, x, y, z *MSym) *MSym { return t.mk("Not", t.mk("GreaterThanOrEqual", x, y)) }, "cmp"},
		{"NOT(LessThan)", func(p, q, x, y, z *MSym) *MSym { return t.mk("Not", t.mk("LessThan", x, y)) }, "cmp"},
		{"NOT(LessThanOrEqual)", func(p, q, x, y, z *MSym) *MSym { return t.mk("Not", t.mk("LessThanOrEqual", x, y)) }, "cmp"},
		{"NOT(Between)", func(p, q, x, y, z *MSym) *MSym { return t.mk("Not", t.mk("Between", x, y, z)) }, "between"},
	}
	for _, in := range inputs {
		key := "pushNotFiltersHelper/" + in.name
		p, q := &MSym{Name: "p"}, &MSym{Name: "q"}
		x, y, z := &MSym{Name: "x"}, &MSym{Name: "y"}, &MSym{Name: "z"}
		e := in.mk(p, q, x, y, z)
		m := w.mini(w.an)
		m.Call = func(m *Mini, call *ast.CallExpr, fn *types.Func, recv MV, args []MV) ([]MV, bool) {
			if fn == nil {
				return nil, false
			}
			if fn == self && len(args) == 2 {
				return []MV{args[1], w.nilSym}, true // the recursive call is the same claim one level down
			}
			if r, ok := t.call(fn, recv, args); ok {
				return r, true
			}
			if fn == isBool && isBool != nil {
				return []MV{constant.MakeBool(true)}, true // predicate leaves are boolean-typed
			}
			if recv == MV(p) || recv == MV(q) {
				if fn.Type().(*types.Signature).Results().Len() == 1 { // p.Type(ctx)
					return []MV{&MSym{Name: "boolean"}}, true
				}
			}
			return nil, false
		}
		params := map[string]MV{}
		names := []string{}
		for _, f := range fd.Type.Params.List {
			for _, n := range f.Names {
				names = append(names, n.Name)
			}
		}
		if len(names) != 2 {
			c.Undecided("C06-PN", key, fd.Pos(), "unexpected parameter list")
			continue
		}
		params[names[1]] = e
		res, panicked, err := m.RunFunc(fd, w.bind(w.an, fd, nil, params))
		if err != nil || panicked || len(res) != 2 {
			c.Undecided("C06-PN", key, fd.Pos(), fmt.Sprint("arm not foldable: ", err))
			continue
		}
		out, _ := res[0].(*MSym)
		if out == nil || out == e {
			c.Note("C06-PN", key, fd.Pos(), "no rewrite arm for this shape")
			continue
		}
		// compare the tables of input and output
		var asgs []c06Asg
		switch in.kind {
		case "pred1":
			for _, a := range truths {
				asgs = append(asgs, c06Asg{truth: map[*MSym]int{p: a}})
			}
		case "pred2":
			for _, a := range truths {
				for _, b := range truths {
					asgs = append(asgs, c06Asg{truth: map[*MSym]int{p: a, q: b}})
				}
			}
		case "cmp":
			for _, o := range outs {
				asgs = append(asgs, c06Asg{cmp: map[[2]*MSym]c06Out{{x, y}: o}})
			}
		case "between":
			for _, o1 := range outs {
				for _, o2 := range outs {
					asgs = append(asgs, c06Asg{cmp: map[[2]*MSym]c06Out{{x, y}: o1, {x, z}: o2}})
				}
			}
		}
		var diffs []string
		var evalErr error
		for _, a := range asgs {
			vi, err := t.eval(e, a)
			if err != nil {
				evalErr = err
				break
			}
			vo, err := t.eval(out, a)
			if err != nil {
				evalErr = err
				break
			}
			if vi != vo {
				diffs = append(diffs, fmt.Sprintf("%s: input %s, rewritten %s", c06AsgName(a, p, q, x, y, z), c05Name(vi), c05Name(vo)))
			}
		}
		if evalErr != nil {
			c.Undecided("C06-PN", key, fd.Pos(), evalErr.Error())
			continue
		}
		sort.Strings(diffs)
		c.Check(len(diffs) == 0, "C06-PN", key, fd.Pos(), fmt.Sprintf("same table on %d points", len(asgs)),
			fmt.Sprintf("the rewrite of %s changes the three-valued result: %s", in.name, strings.Join(diffs, "; ")))
	}
}

func c06AsgName(a c06Asg, p, q, x, y, z *MSym) string {
	var parts []string
	if v, ok := a.truth[p]; ok {
		parts = append(parts, "p="+c05Name(v))
	}
	if v, ok := a.truth[q]; ok {
		parts = append(parts, "q="+c05Name(v))
	}
	if o, ok := a.cmp[[2]*MSym{x, y}]; ok {
		parts = append(parts, "x?y:"+o.String())
	}
	if o, ok := a.cmp[[2]*MSym{x, z}]; ok {
		parts = append(parts, "x?z:"+o.String())
	}
	return strings.Join(parts, ",")
}
