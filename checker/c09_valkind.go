package main

import (
	"fmt"
	"go/ast"
	"go/constant"
	"go/token"
	"go/types"
	"os"
	"sort"
	"strings"

	"golang.org/x/tools/go/packages"
)

// C09-V1 — value-kind tables agree (value ∈ announced type, number types).
//
// The Go kind of the values of an SQL number type is what the type itself establishes:
// NumberTypeImpl_.Zero() returns T(0) per base type, ValueType() names reflect.TypeOf(T(0)),
// Convert's arms return T(num). That table (base-type constant -> Go basic kind) is READ
// from the code. Every other table that pairs a Go value kind with an SQL number type must
// be the same relation:
//   - ApproximateTypeFromValue (type recorded for user variables, SELECT INTO, LOAD DATA @v,
//     SET literals): the arm `case K:` returns the number type whose value kind is K;
//   - every call NewLiteral(v, T) whose value has a static Go numeric kind and whose type is
//     one of the package-level number types (planbuilder.convertInt: how literals are typed).
//
// Nothing is matched by name: the number-type variables are resolved through their
// initialisers (constructor call chain down to the composite literal's baseType field).

type c09VKConfig struct {
	TypesRel   string // "sql/types"
	NumType    string // "NumberTypeImpl_"
	BaseField  string // "baseType"
	ZeroM      string // "Zero"
	ValueTypeM string // "ValueType"
	ConvertM   string // "Convert"
	ApproxFn   string // "ApproximateTypeFromValue"
	LitRel     string // "sql/expression"
	LitFn      string // "NewLiteral"
	Floor      int
}

type c09VK struct {
	c       *Ctx
	cfg     c09VKConfig
	pk      *packages.Package
	numTN   *types.TypeName
	kindOf  map[string]types.BasicKind // base-type constant (exact value) -> Go kind of its values
	nameOf  map[string]string          // base-type constant (exact value) -> constant name
	varBase map[*types.Var]string      // package-level number-type variable -> base constant
	baseIdx map[*types.Func]int        // constructor -> index of the parameter that becomes baseType (-1: none)
}

func c09KindName(k types.BasicKind) string { return types.Typ[k].Name() }

// c09NumKind: the Go numeric kind of a static type (typed integer/float basic), sized for the target.
func (v *c09VK) numKind(t types.Type) (types.BasicKind, bool) {
	if t == nil {
		return 0, false
	}
	b, ok := t.Underlying().(*types.Basic)
	if !ok || b.Info()&(types.IsInteger|types.IsFloat) == 0 || b.Info()&types.IsUntyped != 0 {
		return 0, false
	}
	if _, named := t.(*types.Named); named {
		return 0, false // a named numeric type (time.Duration, enum types) is not a plain Go kind
	}
	k := b.Kind()
	switch k {
	case types.Int, types.Uint, types.Uintptr:
		sz := int64(8)
		if v.pk.TypesSizes != nil {
			sz = v.pk.TypesSizes.Sizeof(t)
		}
		signed := k == types.Int
		switch {
		case sz == 4 && signed:
			return types.Int32, true
		case sz == 4:
			return types.Uint32, true
		case signed:
			return types.Int64, true
		default:
			return types.Uint64, true
		}
	}
	return k, true
}

func runC09ValueKinds(c *Ctx, cfg c09VKConfig) {
	c.Rule("C09-V1", "value-kind tables agree: the Go kind of a number type's values is read from NumberTypeImpl_.Zero (per base type); ValueType and the result arms of Convert give the same kind; "+
		"every integer/float arm of ApproximateTypeFromValue returns the number type whose value kind is the arm's Go kind (signedness, width, int/float), every value kind of the table has an arm; "+
		"every NewLiteral(v, T) with a statically numeric v and a package-level number type T pairs the same kinds", cfg.Floor)
	v := &c09VK{c: c, cfg: cfg, kindOf: map[string]types.BasicKind{}, nameOf: map[string]string{}, varBase: map[*types.Var]string{}, baseIdx: map[*types.Func]int{}}
	v.pk = c.P.Pkg(cfg.TypesRel)
	if v.pk == nil {
		c.Undecided("C09-V1", "anchors", 0, "package "+cfg.TypesRel+" not loaded")
		return
	}
	v.numTN, _ = v.pk.Types.Scope().Lookup(cfg.NumType).(*types.TypeName)
	if v.numTN == nil {
		c.Undecided("C09-V1", "anchors", 0, "type "+cfg.NumType+" not found")
		return
	}
	if !v.readZero() {
		return
	}
	v.checkValueType()
	v.checkConvert()
	v.readNumberVars()
	v.checkApprox()
	v.checkLiterals()
	if os.Getenv("VCHK_DUMP") != "" && !c.fixtureMode {
		for _, o := range c.Obs {
			if o.Rule == "C09-V1" {
				fmt.Printf("OBS %s %s %s %s\n", o.Rule, o.Status, o.Key, o.Pos)
			}
		}
	}
}

// baseSwitch finds `switch recv.<baseType> {` in a method of the number type.
func (v *c09VK) baseSwitch(method string) (*ast.FuncDecl, *ast.SwitchStmt) {
	fn := LookupFunc(v.pk, v.cfg.NumType+"."+method)
	fd := v.c.P.Decl(fn)
	if fd == nil || fd.Body == nil {
		v.c.Undecided("C09-V1", v.cfg.NumType+"."+method, 0, "method not found")
		return nil, nil
	}
	info := v.pk.TypesInfo
	var sw *ast.SwitchStmt
	ast.Inspect(fd.Body, func(n ast.Node) bool {
		if s, ok := n.(*ast.SwitchStmt); ok && sw == nil && s.Tag != nil {
			if sel, ok := ast.Unparen(s.Tag).(*ast.SelectorExpr); ok {
				if fv, ok := info.Uses[sel.Sel].(*types.Var); ok && fv.IsField() && fv.Name() == v.cfg.BaseField {
					sw = s
				}
			}
		}
		return sw == nil
	})
	if sw == nil {
		v.c.Undecided("C09-V1", v.cfg.NumType+"."+method, fd.Pos(), "no switch on the receiver's "+v.cfg.BaseField+" field: the per-base-type table cannot be read")
	}
	return fd, sw
}

// armConsts: the constant case labels of a clause (exact value -> name); ok=false if a label is not constant.
func (v *c09VK) armConsts(cc *ast.CaseClause) ([]string, bool) {
	var out []string
	for _, e := range cc.List {
		tv := v.pk.TypesInfo.Types[e]
		if tv.Value == nil {
			return nil, false
		}
		key := tv.Value.ExactString()
		out = append(out, key)
		if _, ok := v.nameOf[key]; !ok {
			name := key
			switch x := ast.Unparen(e).(type) {
			case *ast.SelectorExpr:
				name = x.Sel.Name
			case *ast.Ident:
				name = x.Name
			}
			v.nameOf[key] = name
		}
	}
	return out, true
}

// liveReturns collects the return statements of a statement list, following only the live
// branch of an if whose condition is a compile-time constant (strconv.IntSize == 32).
func (v *c09VK) liveReturns(info *types.Info, list []ast.Stmt, out *[]*ast.ReturnStmt) (terminated bool) {
	for _, s := range list {
		switch x := s.(type) {
		case *ast.ReturnStmt:
			*out = append(*out, x)
			return true
		case *ast.IfStmt:
			if tv := info.Types[x.Cond]; tv.Value != nil && x.Init == nil {
				if tv.Value.ExactString() == "true" {
					if v.liveReturns(info, x.Body.List, out) {
						return true
					}
				} else if x.Else != nil {
					if v.liveReturns(info, []ast.Stmt{x.Else}, out) {
						return true
					}
				}
				continue
			}
			t1 := v.liveReturns(info, x.Body.List, out)
			t2 := false
			if x.Else != nil {
				t2 = v.liveReturns(info, []ast.Stmt{x.Else}, out)
			}
			if t1 && t2 {
				return true
			}
		case *ast.BlockStmt:
			if v.liveReturns(info, x.List, out) {
				return true
			}
		default:
			ast.Inspect(s, func(n ast.Node) bool {
				switch r := n.(type) {
				case *ast.FuncLit:
					return false
				case *ast.ReturnStmt:
					*out = append(*out, r)
				}
				return true
			})
		}
	}
	return false
}

func (v *c09VK) readZero() bool {
	fd, sw := v.baseSwitch(v.cfg.ZeroM)
	if sw == nil {
		return false
	}
	info := v.pk.TypesInfo
	for _, st := range sw.Body.List {
		cc := st.(*ast.CaseClause)
		if cc.List == nil {
			continue
		}
		keys, ok := v.armConsts(cc)
		if !ok {
			v.c.Undecided("C09-V1", v.cfg.NumType+"."+v.cfg.ZeroM, cc.Pos(), "non-constant case label")
			return false
		}
		var rets []*ast.ReturnStmt
		v.liveReturns(info, cc.Body, &rets)
		kind, have := types.Invalid, false
		for _, r := range rets {
			if len(r.Results) != 1 {
				continue
			}
			k, ok := v.numKind(info.Types[r.Results[0]].Type)
			if !ok || (have && k != kind) {
				v.c.Undecided("C09-V1", v.cfg.NumType+"."+v.cfg.ZeroM+"/"+v.nameOf[keys[0]], r.Pos(), "the zero value of this base type is not one Go numeric kind: the value-kind table cannot be read")
				return false
			}
			kind, have = k, true
		}
		if !have {
			continue
		}
		for _, k := range keys {
			v.kindOf[k] = kind
		}
	}
	if len(v.kindOf) == 0 {
		v.c.Undecided("C09-V1", v.cfg.NumType+"."+v.cfg.ZeroM, fd.Pos(), "no base-type arm with a numeric zero value")
		return false
	}
	return true
}

func (v *c09VK) sortedBases() []string {
	var ks []string
	for k := range v.kindOf {
		ks = append(ks, k)
	}
	sort.Slice(ks, func(i, j int) bool { return v.nameOf[ks[i]] < v.nameOf[ks[j]] })
	return ks
}

// checkValueType: ValueType()'s arm for base X names reflect.TypeOf(e) with kind(e) == kindOf[X].
func (v *c09VK) checkValueType() {
	fd, sw := v.baseSwitch(v.cfg.ValueTypeM)
	if sw == nil {
		return
	}
	info := v.pk.TypesInfo
	seen := map[string]bool{}
	for _, st := range sw.Body.List {
		cc := st.(*ast.CaseClause)
		keys, ok := v.armConsts(cc)
		if !ok || cc.List == nil {
			continue
		}
		var rets []*ast.ReturnStmt
		v.liveReturns(info, cc.Body, &rets)
		for _, key := range keys {
			want, known := v.kindOf[key]
			if !known {
				continue
			}
			seen[key] = true
			ck := v.cfg.NumType + "." + v.cfg.ValueTypeM + "/" + v.nameOf[key]
			for _, r := range rets {
				if len(r.Results) != 1 {
					continue
				}
				k, ok := v.reflectKind(r.Results[0], 0)
				if !ok {
					v.c.Undecided("C09-V1", ck, r.Pos(), "the returned reflect.Type is not resolvable to reflect.TypeOf(<numeric expression>)")
					continue
				}
				v.c.Check(k == want, "C09-V1", ck, r.Pos(), "ValueType agrees with Zero: "+c09KindName(want),
					fmt.Sprintf("%s: %s.%s announces Go kind %s for base type %s, but %s returns %s(0) for it: the announced value type and the values disagree", v.c.P.Rel(r.Pos()), v.cfg.NumType, v.cfg.ValueTypeM, c09KindName(k), v.nameOf[key], v.cfg.ZeroM, c09KindName(want)))
			}
		}
	}
	for _, key := range v.sortedBases() {
		if !seen[key] {
			v.c.Bad("C09-V1", v.cfg.NumType+"."+v.cfg.ValueTypeM+"/"+v.nameOf[key], fd.Pos(), "base type "+v.nameOf[key]+" has a zero value in "+v.cfg.ZeroM+" but no arm in "+v.cfg.ValueTypeM)
		}
	}
}

// reflectKind resolves e to reflect.TypeOf(x) (directly or through a package-level variable) and returns kind(x).
func (v *c09VK) reflectKind(e ast.Expr, depth int) (types.BasicKind, bool) {
	info := v.pk.TypesInfo
	switch x := ast.Unparen(e).(type) {
	case *ast.CallExpr:
		fn := Callee(info, x)
		if fn != nil && fn.Pkg() != nil && fn.Pkg().Path() == "reflect" && fn.Name() == "TypeOf" && len(x.Args) == 1 {
			return v.numKind(info.Types[x.Args[0]].Type)
		}
	case *ast.Ident:
		if pv, ok := info.Uses[x].(*types.Var); ok && pv.Parent() == v.pk.Types.Scope() && depth < 2 {
			if init := v.pkgVarInit(pv); init != nil {
				return v.reflectKind(init, depth+1)
			}
		}
	}
	return 0, false
}

// pkgVarInit: the initialiser expression of a package-level variable (1:1 specs only); nil if
// the variable is assigned anywhere else in the package (then the initialiser is not its value).
func (v *c09VK) pkgVarInit(pv *types.Var) ast.Expr {
	info := v.pk.TypesInfo
	var init ast.Expr
	for _, f := range v.pk.Syntax {
		for _, d := range f.Decls {
			gd, ok := d.(*ast.GenDecl)
			if !ok || gd.Tok != token.VAR {
				continue
			}
			for _, sp := range gd.Specs {
				vs := sp.(*ast.ValueSpec)
				if len(vs.Values) != len(vs.Names) {
					continue
				}
				for i, nm := range vs.Names {
					if info.Defs[nm] == pv {
						init = vs.Values[i]
					}
				}
			}
		}
	}
	if init == nil {
		return nil
	}
	reassigned := false
	for _, f := range v.pk.Syntax {
		ast.Inspect(f, func(n ast.Node) bool {
			switch s := n.(type) {
			case *ast.AssignStmt:
				for _, l := range s.Lhs {
					if id, ok := ast.Unparen(l).(*ast.Ident); ok && info.Uses[id] == pv {
						reassigned = true
					}
				}
			case *ast.UnaryExpr:
				if id, ok := ast.Unparen(s.X).(*ast.Ident); ok && s.Op == token.AND && info.Uses[id] == pv {
					reassigned = true
				}
			}
			return !reassigned
		})
	}
	if reassigned {
		return nil
	}
	return init
}

// checkConvert: in Convert's arm for base X every returned value with a static numeric kind has kindOf[X].
func (v *c09VK) checkConvert() {
	_, sw := v.baseSwitch(v.cfg.ConvertM)
	if sw == nil {
		return
	}
	info := v.pk.TypesInfo
	for _, st := range sw.Body.List {
		cc := st.(*ast.CaseClause)
		keys, ok := v.armConsts(cc)
		if !ok || cc.List == nil {
			continue
		}
		var rets []*ast.ReturnStmt
		v.liveReturns(info, cc.Body, &rets)
		for _, key := range keys {
			want, known := v.kindOf[key]
			if !known {
				continue
			}
			ck := v.cfg.NumType + "." + v.cfg.ConvertM + "/" + v.nameOf[key]
			var bad []string
			n := 0
			for _, r := range rets {
				if len(r.Results) == 0 {
					continue
				}
				t := info.Types[r.Results[0]].Type
				if tup, ok := t.(*types.Tuple); ok && tup.Len() > 0 {
					t = tup.At(0).Type()
				}
				k, ok := v.numKind(t)
				if !ok {
					continue // nil / interface-typed result: a run-time value, not decided
				}
				n++
				if k != want {
					bad = append(bad, fmt.Sprintf("%s: returns a %s", v.c.P.Rel(r.Pos()), c09KindName(k)))
				}
			}
			if n == 0 {
				v.c.Note("C09-V1", ck, cc.Pos(), "no return with a statically numeric value in this arm: not decided")
				continue
			}
			if len(bad) > 0 {
				v.c.Bad("C09-V1", ck, cc.Pos(), fmt.Sprintf("%s: the %s arm of %s.%s returns values of another Go kind than %s(0), the kind %s establishes for this type", v.c.P.Rel(cc.Pos()), v.nameOf[key], v.cfg.NumType, v.cfg.ConvertM, c09KindName(want), v.cfg.ZeroM), bad...)
			} else {
				v.c.Ok("C09-V1", ck, cc.Pos(), fmt.Sprintf("%d statically numeric returns, all %s", n, c09KindName(want)))
			}
		}
	}
}

// baseParam: index of the parameter of constructor fn that becomes the baseType field of the
// number type it returns (through a composite literal or a further constructor), or -1.
func (v *c09VK) baseParam(fn *types.Func, depth int) int {
	if fn == nil {
		return -1
	}
	if i, ok := v.baseIdx[fn]; ok {
		return i
	}
	v.baseIdx[fn] = -1
	fd := v.c.P.Decl(fn)
	if fd == nil || fd.Body == nil || depth > 4 || fn.Pkg() != v.pk.Types {
		return -1
	}
	info := v.pk.TypesInfo
	sig := fn.Type().(*types.Signature)
	paramIdx := func(e ast.Expr) int {
		id, ok := ast.Unparen(e).(*ast.Ident)
		if !ok {
			return -1
		}
		for i := 0; i < sig.Params().Len(); i++ {
			if info.Uses[id] == sig.Params().At(i) {
				// the parameter must not be reassigned in the body
				return i
			}
		}
		return -1
	}
	found := map[int]bool{}
	ast.Inspect(fd.Body, func(n ast.Node) bool {
		switch x := n.(type) {
		case *ast.FuncLit:
			return false
		case *ast.CompositeLit:
			if t := info.Types[x].Type; t != nil && types.Identical(t, v.numTN.Type()) {
				for i, el := range x.Elts {
					if kv, ok := el.(*ast.KeyValueExpr); ok {
						if id, ok := kv.Key.(*ast.Ident); ok && id.Name == v.cfg.BaseField {
							found[paramIdx(kv.Value)] = true
						}
					} else if st, ok := t.Underlying().(*types.Struct); ok && i < st.NumFields() && st.Field(i).Name() == v.cfg.BaseField {
						found[paramIdx(el)] = true
					}
				}
			}
		case *ast.CallExpr:
			if g := Callee(info, x); g != nil && g != fn {
				if gi := v.baseParam(g, depth+1); gi >= 0 && gi < len(x.Args) {
					found[paramIdx(x.Args[gi])] = true
				}
			}
		}
		return true
	})
	// reassignment of a parameter makes the pass-through unreadable
	ast.Inspect(fd.Body, func(n ast.Node) bool {
		if as, ok := n.(*ast.AssignStmt); ok {
			for _, l := range as.Lhs {
				if i := paramIdx(l); i >= 0 {
					delete(found, i)
					found[-1] = true
				}
			}
		}
		return true
	})
	if len(found) == 1 {
		for i := range found {
			v.baseIdx[fn] = i
		}
	}
	return v.baseIdx[fn]
}

// numberTypeOf resolves an expression to the base constant of the number type it denotes:
// a package-level variable of TypesRel initialised by a constructor call with a constant base
// type, or such a constructor call itself.
func (v *c09VK) numberTypeOf(info *types.Info, e ast.Expr) (base string, what string, ok bool) {
	switch x := ast.Unparen(e).(type) {
	case *ast.Ident:
		if pv, isVar := info.Uses[x].(*types.Var); isVar {
			if b, ok := v.varBase[pv]; ok {
				return b, pv.Name(), true
			}
		}
	case *ast.SelectorExpr:
		if pv, isVar := info.Uses[x.Sel].(*types.Var); isVar {
			if b, ok := v.varBase[pv]; ok {
				return b, pv.Name(), true
			}
		}
	case *ast.CallExpr:
		if b, ok := v.ctorBase(info, x); ok {
			return b, "constructor call", true
		}
	}
	return "", "", false
}

func (v *c09VK) ctorBase(info *types.Info, call *ast.CallExpr) (string, bool) {
	fn := Callee(info, call)
	if fn == nil || fn.Pkg() != v.pk.Types {
		return "", false
	}
	i := v.baseParam(fn, 0)
	if i < 0 || i >= len(call.Args) {
		return "", false
	}
	tv := info.Types[call.Args[i]]
	if tv.Value == nil {
		return "", false
	}
	key := tv.Value.ExactString()
	if _, ok := v.kindOf[key]; !ok {
		return "", false
	}
	return key, true
}

func (v *c09VK) readNumberVars() {
	sc := v.pk.Types.Scope()
	for _, name := range sc.Names() {
		pv, ok := sc.Lookup(name).(*types.Var)
		if !ok {
			continue
		}
		init := v.pkgVarInit(pv)
		call, ok := init.(*ast.CallExpr)
		if !ok {
			continue
		}
		if b, ok := v.ctorBase(v.pk.TypesInfo, call); ok {
			v.varBase[pv] = b
		}
	}
	if len(v.varBase) == 0 {
		v.c.Undecided("C09-V1", "number-type variables", 0, "no package-level variable of "+v.cfg.TypesRel+" resolves to a number type with a constant base type")
	}
}

func (v *c09VK) checkApprox() {
	fn := LookupFunc(v.pk, v.cfg.ApproxFn)
	fd := v.c.P.Decl(fn)
	if fd == nil || fd.Body == nil {
		v.c.Undecided("C09-V1", v.cfg.ApproxFn, 0, "function not found")
		return
	}
	info := v.pk.TypesInfo
	sig := fn.Type().(*types.Signature)
	var ts *ast.TypeSwitchStmt
	for _, st := range fd.Body.List {
		if s, ok := st.(*ast.TypeSwitchStmt); ok {
			var x ast.Expr
			switch a := s.Assign.(type) {
			case *ast.AssignStmt:
				x = a.Rhs[0]
			case *ast.ExprStmt:
				x = a.X
			}
			if ta, ok := ast.Unparen(x).(*ast.TypeAssertExpr); ok {
				if id, ok := ast.Unparen(ta.X).(*ast.Ident); ok && sig.Params().Len() > 0 && info.Uses[id] == sig.Params().At(0) {
					ts = s
				}
			}
		}
	}
	if ts == nil {
		v.c.Undecided("C09-V1", v.cfg.ApproxFn, fd.Pos(), "no top-level type switch on the value parameter: the value-kind -> type table cannot be read")
		return
	}
	armed := map[types.BasicKind]bool{}
	for _, st := range ts.Body.List {
		cc := st.(*ast.CaseClause)
		for _, te := range cc.List {
			T := info.Types[te].Type
			k, ok := v.numKind(T)
			if !ok {
				continue
			}
			armed[k] = true
			ck := v.cfg.ApproxFn + "/case " + types.TypeString(T, nil)
			var rets []*ast.ReturnStmt
			v.liveReturns(info, cc.Body, &rets)
			if len(rets) == 0 {
				v.c.Undecided("C09-V1", ck, cc.Pos(), "the arm has no return: the type it yields cannot be read")
				continue
			}
			var bad []string
			for _, r := range rets {
				if len(r.Results) != 1 {
					continue
				}
				base, what, ok := v.numberTypeOf(info, r.Results[0])
				if !ok {
					bad = append(bad, fmt.Sprintf("%s: the returned type is not resolvable to a number type with a constant base type", v.c.P.Rel(r.Pos())))
					continue
				}
				if got := v.kindOf[base]; got != k {
					bad = append(bad, fmt.Sprintf("%s: returns %s (base type %s, values are Go %s)", v.c.P.Rel(r.Pos()), what, v.nameOf[base], c09KindName(got)))
				}
			}
			if len(bad) > 0 {
				v.c.Bad("C09-V1", ck, cc.Pos(), fmt.Sprintf("%s: %s types a Go %s value (kind %s) with an SQL number type whose own values are of another kind: the recorded type (user variable, SELECT INTO, literal) announces a column type the stored value is not a value of",
					v.c.P.Rel(cc.Pos()), v.cfg.ApproxFn, types.TypeString(T, nil), c09KindName(k)), bad...)
			} else {
				v.c.Ok("C09-V1", ck, cc.Pos(), "returns the number type whose value kind is "+c09KindName(k))
			}
		}
	}
	// coverage: every value kind of the table has an arm (else the default arm types a number as text)
	kinds := map[types.BasicKind]bool{}
	for _, k := range v.kindOf {
		kinds[k] = true
	}
	var ks []types.BasicKind
	for k := range kinds {
		ks = append(ks, k)
	}
	sort.Slice(ks, func(i, j int) bool { return ks[i] < ks[j] })
	for _, k := range ks {
		v.c.Check(armed[k], "C09-V1", v.cfg.ApproxFn+"/arm for "+c09KindName(k), ts.Pos(), "value kind has an arm",
			fmt.Sprintf("%s: %s has no arm for Go kind %s although number types yield values of that kind (%s): such a value is typed by the default arm", v.c.P.Rel(ts.Pos()), v.cfg.ApproxFn, c09KindName(k), v.cfg.NumType+"."+v.cfg.ZeroM))
	}
}

// checkLiterals: NewLiteral(v, T) over the loaded module packages.
func (v *c09VK) checkLiterals() {
	lpk := v.c.P.Pkg(v.cfg.LitRel)
	lit := LookupFunc(lpk, v.cfg.LitFn)
	if lit == nil {
		v.c.Undecided("C09-V1", v.cfg.LitFn, 0, "constructor "+v.cfg.LitRel+"."+v.cfg.LitFn+" not found")
		return
	}
	n, okN, nConst := 0, 0, 0
	v.c.P.EachModuleFuncDecl(func(pk *packages.Package, fd *ast.FuncDecl) {
		if fd.Body == nil || strings.HasSuffix(v.c.P.Fset.Position(fd.Pos()).Filename, "_test.go") {
			return
		}
		info := pk.TypesInfo
		perKey := map[string]int{}
		ast.Inspect(fd.Body, func(nd ast.Node) bool {
			call, ok := nd.(*ast.CallExpr)
			if !ok || len(call.Args) != 2 || Callee(info, call) != lit {
				return true
			}
			k, ok := v.numKind(info.Types[call.Args[0]].Type)
			if !ok {
				return true
			}
			base, what, ok := v.numberTypeOf(info, call.Args[1])
			if !ok {
				return true // not a number type of the table (decimal, string, computed type): another relation
			}
			got := v.kindOf[base]
			if cv := info.Types[call.Args[0]].Value; cv != nil {
				// a compile-time constant: its Go kind is the default kind of the constant expression
				// (NewLiteral(0, Uint64) is an int); what is decided is that the value is one of the type's values.
				ck := fmt.Sprintf("%s/%s(const %s, %s)", DeclName(fd), v.cfg.LitFn, cv.ExactString(), what)
				nConst++
				if c09ConstFits(cv, got) {
					if perKey[ck]++; perKey[ck] == 1 {
						v.c.Ok("C09-V1", ck, call.Pos(), "constant literal value lies in the value range of its type")
					}
				} else {
					v.c.Bad("C09-V1", ck, call.Pos(), fmt.Sprintf("%s: %s builds a literal with the constant value %s and the announced type %s (values are Go %s): the value is outside the type", v.c.P.Rel(call.Pos()), DeclName(fd), cv.ExactString(), what, c09KindName(got)))
				}
				return true
			}
			n++
			ck := fmt.Sprintf("%s/%s(%s, %s)", DeclName(fd), v.cfg.LitFn, c09KindName(k), what)
			perKey[ck]++
			if got == k {
				okN++
				if perKey[ck] == 1 {
					v.c.Ok("C09-V1", ck, call.Pos(), "literal value kind and type agree")
				}
				return true
			}
			v.c.Bad("C09-V1", ck, call.Pos(), fmt.Sprintf("%s: %s builds a literal whose value is a Go %s and whose announced type is %s (base type %s, values are Go %s): Literal.Eval returns the value unchanged, so the column carries a value that is not of the announced type",
				v.c.P.Rel(call.Pos()), DeclName(fd), c09KindName(k), what, v.nameOf[base], c09KindName(got)))
			return true
		})
	})
	v.c.Notef("C09-V1: %d NewLiteral(non-constant numeric value, number type) pairs read, %d agree; %d constant literals range-checked", n, okN, nConst)
}

var c09VKRepo = c09VKConfig{TypesRel: "sql/types", NumType: "NumberTypeImpl_", BaseField: "baseType", ZeroM: "Zero", ValueTypeM: "ValueType", ConvertM: "Convert",
	ApproxFn: "ApproximateTypeFromValue", LitRel: "sql/expression", LitFn: "NewLiteral", Floor: 70}

// c09ConstFits: the constant is representable in the Go kind k (integers: range and integrality; floats: any number).
func c09ConstFits(cv constant.Value, k types.BasicKind) bool {
	b := types.Typ[k]
	if b.Info()&types.IsFloat != 0 {
		return cv.Kind() == constant.Int || cv.Kind() == constant.Float
	}
	iv := constant.ToInt(cv)
	if iv.Kind() != constant.Int {
		return false
	}
	bits := map[types.BasicKind]uint{types.Int8: 8, types.Int16: 16, types.Int32: 32, types.Int64: 64, types.Uint8: 8, types.Uint16: 16, types.Uint32: 32, types.Uint64: 64}[k]
	if bits == 0 {
		return false
	}
	one := constant.MakeInt64(1)
	var lo, hi constant.Value
	if b.Info()&types.IsUnsigned != 0 {
		lo = constant.MakeInt64(0)
		hi = constant.BinaryOp(constant.Shift(one, token.SHL, bits), token.SUB, one)
	} else {
		hi = constant.BinaryOp(constant.Shift(one, token.SHL, bits-1), token.SUB, one)
		lo = constant.UnaryOp(token.SUB, constant.Shift(one, token.SHL, bits-1), 0)
	}
	return constant.Compare(lo, token.LEQ, iv) && constant.Compare(iv, token.LEQ, hi)
}
