package main

import (
	"fmt"
	"go/constant"
	"go/token"
	"go/types"
	"sort"
	"strings"
	"time"

	"golang.org/x/tools/go/ssa"
)

// C36-R — read paths never mutate stored table rows (ownership of the partition slices).
//
// memory.TableData.partitions (map[string][]sql.Row) is the stored table; the TableData a
// statement reads is the one every later statement of every session reads (a read-only statement
// publishes it unchanged). A read path may therefore alias the stored row slices, but must never
// mutate one in place. Decided with an SSA dataflow ("stored-rows taint"):
//   sources   loads of the field TableData.partitions in the read closure (the methods by which the
//             types of package memory implement sql.Table / sql.IndexedTable / sql.RowIter /
//             sql.PartitionIter, closed under static calls and closures);
//   labels    P = the stored map, S = a stored row slice (map lookup / range value of P, re-slices
//             of S), A = "append may write in place" (dropped by s[:n:n]), H = a container holding
//             stored slices;
//   flow      phi, conversions, interfaces, re-slicing, locals, struct fields (field-based),
//             globals, closures, arguments -> parameters and returns -> results of every module
//             function with a body (so the slice is followed into sql, sql/sorters, sql/iters …);
//   sanitizer make+copy / append to another slice: the destination of copy and the result of
//             append(fresh, stored...) are different arrays and carry no label;
//   sinks     element store s[i] = v, copy(s, …), append(s, …) with A, sort.Slice / SliceStable /
//             slices.Sort* / slices.Reverse on S, stores into / delete from / clear of P.
// sort.Sort / sort.Stable need no entry: the Swap method of the sorter is a module function whose
// element store is a sink once the sorter's slice field carries S.

type c36rParams struct {
	memRel, sqlRel string
	entryIfaces    []string // interfaces of sqlRel whose methods (as implemented by types of memRel) are the read entry points
	tableDataType  string
	partitions     string
	floor          int
}

var c36rRepo = c36rParams{memRel: "memory", sqlRel: "sql", entryIfaces: []string{"Table", "IndexedTable", "StatisticsTable", "RowIter", "PartitionIter"},
	tableDataType: "TableData", partitions: "partitions", floor: 3}

const (
	c36rP = 1 << iota // the stored partitions map
	c36rS             // a stored row slice (same backing array)
	c36rA             // append on it may write in place
	c36rH             // a container (map / slice) holding stored row slices
)

type c36rOrigin struct {
	src  *c36rSource
	via  *c36rOrigin
	step string
}

type c36rSource struct {
	fn  *ssa.Function
	pos token.Pos
}

type c36rFact struct {
	lab int
	o   *c36rOrigin
}

// stdlib functions that mutate the slice they are given (argument index 0)
var c36rMutators = map[string]bool{
	"sort.Slice": true, "sort.SliceStable": true, "sort.Ints": true, "sort.Strings": true, "sort.Float64s": true,
	"slices.Sort": true, "slices.SortFunc": true, "slices.SortStableFunc": true, "slices.Reverse": true,
	"slices.Insert": true, "slices.Delete": true, "slices.DeleteFunc": true, "slices.Compact": true, "slices.CompactFunc": true, "slices.Replace": true,
}

type c36rAnalysis struct {
	c       *Ctx
	p       c36rParams
	prog    *ssa.Program
	module  map[*types.Package]bool
	memPkg  *types.Package
	partVar *types.Var
	funcs   []*ssa.Function
	val     map[ssa.Value]*c36rFact
	cell    map[any]*c36rFact
	ret     map[*ssa.Function][]*c36rFact
	fvBind  map[*ssa.FreeVar][]ssa.Value
	readFn  map[*ssa.Function]bool
	changed bool
	escapes map[string]token.Pos
}

func (a *c36rAnalysis) pkgOf(f *ssa.Function) *types.Package {
	for g := f; g != nil; g = g.Parent() {
		if g.Pkg != nil {
			return g.Pkg.Pkg
		}
		if o := g.Origin(); o != nil && o.Pkg != nil {
			return o.Pkg.Pkg
		}
	}
	return nil
}

func (a *c36rAnalysis) fname(f *ssa.Function) string {
	root := f
	for root.Parent() != nil {
		root = root.Parent()
	}
	if o := root.Origin(); o != nil {
		root = o
	}
	if obj, ok := root.Object().(*types.Func); ok {
		rel := ""
		if obj.Pkg() != nil {
			rel = dmlRelOfPkg(obj.Pkg().Path())
			if i := strings.LastIndex(rel, "/"); i >= 0 && !strings.HasPrefix(rel, "testdata/") {
				rel = rel[i+1:]
			}
			rel += "."
		}
		return rel + c21ShortName(obj)
	}
	return root.Name()
}

func (a *c36rAnalysis) get(v ssa.Value) *c36rFact {
	if v == nil {
		return nil
	}
	return a.val[v]
}

func (a *c36rAnalysis) mark(v ssa.Value, lab int, from *c36rFact, step string) {
	if v == nil || lab == 0 || from == nil {
		return
	}
	f := a.val[v]
	if f == nil {
		o := from.o
		if step != "" {
			o = &c36rOrigin{src: from.o.src, via: from.o, step: step}
		}
		a.val[v] = &c36rFact{lab: lab, o: o}
		a.changed = true
		return
	}
	if f.lab|lab != f.lab {
		f.lab |= lab
		a.changed = true
	}
}

func (a *c36rAnalysis) markCell(k any, lab int, from *c36rFact, step string) {
	if k == nil || lab == 0 || from == nil {
		return
	}
	f := a.cell[k]
	if f == nil {
		o := from.o
		if step != "" {
			o = &c36rOrigin{src: from.o.src, via: from.o, step: step}
		}
		a.cell[k] = &c36rFact{lab: lab, o: o}
		a.changed = true
		return
	}
	if f.lab|lab != f.lab {
		f.lab |= lab
		a.changed = true
	}
}

// cellsOf resolves an address value to abstract heap cells (field-based).
func (a *c36rAnalysis) cellsOf(addr ssa.Value, depth int) []any {
	if depth > 6 {
		return nil
	}
	switch x := addr.(type) {
	case *ssa.Alloc:
		return []any{x}
	case *ssa.Global:
		return []any{x}
	case *ssa.FieldAddr:
		if fv := c36rFieldVar(x.X.Type(), x.Field); fv != nil {
			return []any{fv}
		}
	case *ssa.FreeVar:
		var out []any
		for _, b := range a.fvBind[x] {
			out = append(out, a.cellsOf(b, depth+1)...)
		}
		return out
	case *ssa.Phi:
		var out []any
		for _, e := range x.Edges {
			out = append(out, a.cellsOf(e, depth+1)...)
		}
		return out
	case *ssa.ChangeType:
		return a.cellsOf(x.X, depth+1)
	}
	return nil
}

func c36rFieldVar(t types.Type, i int) *types.Var {
	if p, ok := t.Underlying().(*types.Pointer); ok {
		t = p.Elem()
	}
	st, ok := t.Underlying().(*types.Struct)
	if !ok || i >= st.NumFields() {
		return nil
	}
	// instantiated generic structs: use the origin's field so that all instances share the cell
	if n := dmlNamedOf(t); n != nil && n.Origin() != n {
		if ost, ok := n.Origin().Underlying().(*types.Struct); ok && i < ost.NumFields() {
			return ost.Field(i)
		}
	}
	return st.Field(i)
}

func c36rSameLen(hi, max ssa.Value) bool {
	if hi == nil || max == nil {
		return false
	}
	if hi == max {
		return true
	}
	if c1, ok := hi.(*ssa.Const); ok {
		if c2, ok := max.(*ssa.Const); ok && c1.Value != nil && c2.Value != nil {
			return constant.Compare(c1.Value, token.EQL, c2.Value)
		}
	}
	l1, ok1 := hi.(*ssa.Call)
	l2, ok2 := max.(*ssa.Call)
	if ok1 && ok2 {
		b1, ok1 := l1.Call.Value.(*ssa.Builtin)
		b2, ok2 := l2.Call.Value.(*ssa.Builtin)
		return ok1 && ok2 && b1.Name() == "len" && b2.Name() == "len" && len(l1.Call.Args) == 1 && len(l2.Call.Args) == 1 && l1.Call.Args[0] == l2.Call.Args[0]
	}
	return false
}

func (a *c36rAnalysis) isRowSlices(t types.Type) bool { // []sql.Row-like: slice of slices
	sl, ok := t.Underlying().(*types.Slice)
	if !ok {
		return false
	}
	_, ok = sl.Elem().Underlying().(*types.Slice)
	return ok
}

func runC36R(c *Ctx, p c36rParams) {
	c.Rule("C36-R", "stored-rows taint: no slice obtained from TableData.partitions on a read path (sql.Table / IndexedTable / RowIter / PartitionIter methods of package memory and what they call) reaches an in-place mutation (element store, copy into, append in place, sort) in any module function; make+copy is the sanitizer", p.floor)
	t0 := time.Now()
	mem, sqlPk := c.P.Pkg(p.memRel), c.P.Pkg(p.sqlRel)
	if mem == nil || sqlPk == nil {
		c.Undecided("C36-R", "packages", 0, "packages "+p.memRel+" / "+p.sqlRel+" not loaded")
		return
	}
	a := &c36rAnalysis{c: c, p: p, prog: c.P.SSA(), module: map[*types.Package]bool{}, memPkg: mem.Types, val: map[ssa.Value]*c36rFact{}, cell: map[any]*c36rFact{},
		ret: map[*ssa.Function][]*c36rFact{}, fvBind: map[*ssa.FreeVar][]ssa.Value{}, readFn: map[*ssa.Function]bool{}, escapes: map[string]token.Pos{}}
	for _, pk := range c.P.Module {
		a.module[pk.Types] = true
	}
	if tn, ok := mem.Types.Scope().Lookup(p.tableDataType).(*types.TypeName); ok {
		if o, _, _ := types.LookupFieldOrMethod(tn.Type(), true, mem.Types, p.partitions); o != nil {
			a.partVar, _ = o.(*types.Var)
		}
	}
	if a.partVar == nil {
		c.Undecided("C36-R", p.tableDataType+"."+p.partitions, 0, "field not found")
		return
	}
	tSSA := time.Since(t0).Seconds()
	a.funcs = dmlSSAFuncs(c.P, a.prog, a.module, a.pkgOf)
	tFuncs := time.Since(t0).Seconds()

	// ---- read entry points and their closure ---------------------------------------------------
	var entries []*ssa.Function
	nEntryTypes := 0
	for _, in := range p.entryIfaces {
		iface := dmlLookupIface(c.P, p.sqlRel, in)
		if iface == nil {
			c.Undecided("C36-R", "interface "+in, 0, "interface not found in "+p.sqlRel)
			return
		}
		for _, nt := range dmlNamedTypes(mem) {
			if _, isIface := nt.Underlying().(*types.Interface); isIface || !dmlImplements(nt, iface) {
				continue
			}
			nEntryTypes++
			ms := a.prog.MethodSets.MethodSet(types.NewPointer(nt))
			for i := 0; i < iface.NumMethods(); i++ {
				if sel := ms.Lookup(iface.Method(i).Pkg(), iface.Method(i).Name()); sel != nil {
					if fn := a.prog.MethodValue(sel); fn != nil {
						entries = append(entries, fn)
					}
				}
			}
		}
	}
	if len(entries) == 0 {
		c.Undecided("C36-R", "entry-points", 0, "no type of "+p.memRel+" implements the read interfaces")
		return
	}
	work := append([]*ssa.Function{}, entries...)
	for len(work) > 0 {
		f := work[len(work)-1]
		work = work[:len(work)-1]
		if f == nil || a.readFn[f] || len(f.Blocks) == 0 || !a.module[a.pkgOf(f)] {
			continue
		}
		a.readFn[f] = true
		work = append(work, f.AnonFuncs...)
		for _, b := range f.Blocks {
			for _, in := range b.Instrs {
				if ci, ok := in.(ssa.CallInstruction); ok {
					if cal := ci.Common().StaticCallee(); cal != nil {
						work = append(work, cal)
					}
				}
			}
		}
	}

	// ---- sources ---------------------------------------------------------------------------------
	srcByFn := map[*ssa.Function]*c36rSource{}
	var srcFns []*ssa.Function
	for _, f := range a.funcs {
		if !a.readFn[f] {
			continue
		}
		for _, b := range f.Blocks {
			for _, in := range b.Instrs {
				var v ssa.Value
				switch x := in.(type) {
				case *ssa.FieldAddr:
					if c36rFieldVar(x.X.Type(), x.Field) == a.partVar {
						v = x
					}
				case *ssa.Field:
					if c36rFieldVar(x.X.Type(), x.Field) == a.partVar {
						v = x
					}
				}
				if v == nil {
					continue
				}
				root := f
				for root.Parent() != nil {
					root = root.Parent()
				}
				s := srcByFn[root]
				if s == nil {
					s = &c36rSource{fn: root, pos: in.Pos()}
					srcByFn[root] = s
					srcFns = append(srcFns, root)
				}
				fact := &c36rFact{lab: c36rP, o: &c36rOrigin{src: s, step: c.P.Rel(in.Pos()) + ": " + a.fname(f) + " reads " + p.tableDataType + "." + p.partitions}}
				if _, isAddr := v.(*ssa.FieldAddr); isAddr {
					// the loads of this address yield P
					for _, ref := range *v.Referrers() {
						if u, ok := ref.(*ssa.UnOp); ok && u.Op == token.MUL {
							a.mark(u, c36rP, fact, "")
						}
					}
				} else {
					a.mark(v, c36rP, fact, "")
				}
			}
		}
	}
	if len(srcFns) == 0 {
		c.Undecided("C36-R", "sources", 0, "no read-path function loads "+p.tableDataType+"."+p.partitions)
		return
	}

	// ---- fixpoint --------------------------------------------------------------------------------
	a.changed = true
	for rounds := 0; a.changed && rounds < 60; rounds++ {
		a.changed = false
		for _, f := range a.funcs {
			a.transfer(f)
		}
	}

	// ---- sinks -----------------------------------------------------------------------------------
	type hit struct {
		what string
		pos  token.Pos
		o    *c36rOrigin
	}
	hits := map[*c36rSource][]hit{}
	add := func(f *ssa.Function, pos token.Pos, fact *c36rFact, what string) {
		if fact == nil {
			return
		}
		hits[fact.o.src] = append(hits[fact.o.src], hit{what: what + " in " + a.fname(f) + " (" + c.P.Rel(pos) + ")", pos: pos, o: fact.o})
	}
	for _, f := range a.funcs {
		for _, b := range f.Blocks {
			for _, in := range b.Instrs {
				switch x := in.(type) {
				case *ssa.Store:
					if ia, ok := x.Addr.(*ssa.IndexAddr); ok {
						if fa := a.get(ia.X); fa != nil && fa.lab&c36rS != 0 {
							add(f, x.Pos(), fa, "element store into a stored row slice")
						}
					}
				case *ssa.MapUpdate:
					if fa := a.get(x.Map); fa != nil && fa.lab&c36rP != 0 {
						add(f, x.Pos(), fa, "store into the stored partitions map")
					}
				case ssa.CallInstruction:
					com := x.Common()
					if bi, ok := com.Value.(*ssa.Builtin); ok {
						switch bi.Name() {
						case "append":
							if fa := a.get(com.Args[0]); fa != nil && fa.lab&c36rS != 0 && fa.lab&c36rA != 0 {
								add(f, x.Pos(), fa, "append to a stored row slice (writes into its spare capacity)")
							}
						case "copy":
							if fa := a.get(com.Args[0]); fa != nil && fa.lab&c36rS != 0 {
								add(f, x.Pos(), fa, "copy into a stored row slice")
							}
						case "delete", "clear":
							if fa := a.get(com.Args[0]); fa != nil && fa.lab&(c36rP|c36rS) != 0 {
								add(f, x.Pos(), fa, bi.Name()+" on stored table data")
							}
						}
						continue
					}
					if cal := com.StaticCallee(); cal != nil && !a.module[a.pkgOf(cal)] {
						name := ""
						if obj, ok := cal.Object().(*types.Func); ok && obj.Pkg() != nil {
							name = obj.Pkg().Path() + "." + obj.Name()
						} else if o := cal.Origin(); o != nil {
							if obj, ok := o.Object().(*types.Func); ok && obj.Pkg() != nil {
								name = obj.Pkg().Path() + "." + obj.Name()
							}
						}
						if c36rMutators[name] && len(com.Args) > 0 {
							if fa := a.get(com.Args[0]); fa != nil && fa.lab&c36rS != 0 {
								add(f, x.Pos(), fa, name+" on a stored row slice")
							}
						}
					}
				}
			}
		}
	}

	// ---- report: one instance per read-path function that loads the stored map -------------------
	sort.Slice(srcFns, func(i, j int) bool { return a.fname(srcFns[i]) < a.fname(srcFns[j]) })
	for _, fn := range srcFns {
		s := srcByFn[fn]
		key := a.fname(fn) + "/stored-rows"
		hs := hits[s]
		if len(hs) == 0 {
			c.Ok("C36-R", key, s.pos, "the stored rows it hands out reach no in-place mutation")
			continue
		}
		seen := map[string]bool{}
		var whats []string
		for _, h := range hs {
			if !seen[h.what] {
				seen[h.what] = true
				whats = append(whats, h.what)
			}
		}
		sort.Strings(whats)
		var path []string
		for o := hs[0].o; o != nil; o = o.via {
			if o.step != "" {
				path = append([]string{o.step}, path...)
			}
		}
		for _, h := range hs {
			if h.what == whats[0] {
				path = nil
				for o := h.o; o != nil; o = o.via {
					if o.step != "" {
						path = append([]string{o.step}, path...)
					}
				}
				break
			}
		}
		path = append(path, "sink: "+whats[0])
		c.Bad("C36-R", key, s.pos, fmt.Sprintf("%s is on a read path and hands out a slice of %s.%s that is mutated in place: %s. The TableData a read-only statement uses is the one other sessions read next, so the statement reorders / overwrites stored rows (secondary-index entries address rows by position); copy the slice first (make + copy)", a.fname(fn), p.tableDataType, p.partitions, strings.Join(whats, "; ")), path...)
	}
	// stored slices that leave the analysed code (information)
	var esc []string
	for k := range a.escapes {
		esc = append(esc, k)
	}
	sort.Strings(esc)
	if len(esc) > 0 {
		c.Notef("C36-R: stored row slices passed to functions without an analysed body (not decided beyond the listed stdlib mutators): %s", strings.Join(esc, ", "))
	}
	c.Notef("C36-R: analysis took %.1fs (SSA %.1fs, function enumeration %.1fs, %d functions)", time.Since(t0).Seconds(), tSSA, tFuncs-tSSA, len(a.funcs))
	c.Notef("C36-R: %d read entry methods (%d type×interface pairs), %d functions in the read closure, %d of them load %s.%s", len(entries), nEntryTypes, len(a.readFn), len(srcFns), p.tableDataType, p.partitions)
}

func (a *c36rAnalysis) transfer(f *ssa.Function) {
	carry := c36rP | c36rS | c36rA | c36rH
	for _, b := range f.Blocks {
		for _, in := range b.Instrs {
			switch x := in.(type) {
			case *ssa.Phi:
				for _, e := range x.Edges {
					if fa := a.get(e); fa != nil {
						a.mark(x, fa.lab&carry, fa, "")
					}
				}
			case *ssa.ChangeType:
				if fa := a.get(x.X); fa != nil {
					a.mark(x, fa.lab&carry, fa, "")
				}
			case *ssa.Convert:
				if fa := a.get(x.X); fa != nil {
					a.mark(x, fa.lab&carry, fa, "")
				}
			case *ssa.MakeInterface:
				if fa := a.get(x.X); fa != nil {
					a.mark(x, fa.lab&carry, fa, "")
				}
			case *ssa.ChangeInterface:
				if fa := a.get(x.X); fa != nil {
					a.mark(x, fa.lab&carry, fa, "")
				}
			case *ssa.TypeAssert:
				if fa := a.get(x.X); fa != nil {
					a.mark(x, fa.lab&carry, fa, "")
				}
			case *ssa.Slice:
				if fa := a.get(x.X); fa != nil && fa.lab&(c36rS|c36rH) != 0 {
					lab := fa.lab & (c36rS | c36rA | c36rH)
					if x.Max != nil && c36rSameLen(x.High, x.Max) {
						lab &^= c36rA
					}
					a.mark(x, lab, fa, "")
				} else if al, ok := x.X.(*ssa.Alloc); ok { // slicing a local array (variadic operands)
					if fa := a.cell[al]; fa != nil && fa.lab&c36rH != 0 {
						a.mark(x, c36rH, fa, "")
					}
				}
			case *ssa.Lookup:
				if fa := a.get(x.X); fa != nil && fa.lab&(c36rP|c36rH) != 0 && a.isRowSlices(c36rLookupElem(x)) {
					a.mark(x, c36rS|c36rA, fa, "") // for CommaOk the tuple carries it to Extract #0
				}
			case *ssa.Range:
				if fa := a.get(x.X); fa != nil && fa.lab&(c36rP|c36rH) != 0 {
					a.mark(x, fa.lab&(c36rP|c36rH), fa, "")
				}
			case *ssa.Next:
				if fa := a.get(x.Iter); fa != nil {
					a.mark(x, fa.lab&(c36rP|c36rH), fa, "")
				}
			case *ssa.Extract:
				fa := a.get(x.Tuple)
				if fa == nil {
					break
				}
				switch t := x.Tuple.(type) {
				case *ssa.Next:
					if x.Index == 2 && a.isRowSlices(x.Type()) {
						a.mark(x, c36rS|c36rA, fa, "")
					}
				case *ssa.Lookup:
					if x.Index == 0 {
						a.mark(x, fa.lab&carry, fa, "")
					}
				case *ssa.TypeAssert:
					if x.Index == 0 {
						a.mark(x, fa.lab&carry, fa, "")
					}
				case *ssa.Call:
					if cal := t.Call.StaticCallee(); cal != nil {
						if rs := a.ret[cal]; x.Index < len(rs) && rs[x.Index] != nil {
							a.mark(x, rs[x.Index].lab&carry, rs[x.Index], "")
						}
					}
				}
			case *ssa.UnOp:
				if x.Op != token.MUL {
					break
				}
				for _, k := range a.cellsOf(x.X, 0) {
					if fa := a.cell[k]; fa != nil {
						a.mark(x, fa.lab&carry, fa, "")
					}
				}
				if ia, ok := x.X.(*ssa.IndexAddr); ok { // element of a container holding stored slices
					if fa := a.get(ia.X); fa != nil && fa.lab&c36rH != 0 && a.isRowSlices(x.Type()) {
						a.mark(x, c36rS|c36rA, fa, "")
					}
				}
			case *ssa.Field:
				if fv := c36rFieldVar(x.X.Type(), x.Field); fv != nil {
					if fa := a.cell[fv]; fa != nil {
						a.mark(x, fa.lab&carry, fa, "")
					}
				}
			case *ssa.Index:
				if fa := a.get(x.X); fa != nil && fa.lab&c36rH != 0 && a.isRowSlices(x.Type()) {
					a.mark(x, c36rS|c36rA, fa, "")
				}
			case *ssa.Store:
				fa := a.get(x.Val)
				if fa == nil {
					break
				}
				for _, k := range a.cellsOf(x.Addr, 0) {
					step := ""
					if fv, ok := k.(*types.Var); ok && fv.IsField() {
						step = a.c.P.Rel(x.Pos()) + ": " + a.fname(f) + " stores it in field " + fv.Name()
					}
					a.markCell(k, fa.lab&carry, fa, step)
				}
				if ia, ok := x.Addr.(*ssa.IndexAddr); ok && fa.lab&c36rS != 0 {
					a.holds(ia.X, fa)
				}
			case *ssa.MapUpdate:
				if fa := a.get(x.Value); fa != nil && fa.lab&c36rS != 0 {
					a.holds(x.Map, fa)
				}
			case *ssa.MakeClosure:
				if fn, ok := x.Fn.(*ssa.Function); ok {
					for i, bnd := range x.Bindings {
						if i >= len(fn.FreeVars) {
							break
						}
						fv := fn.FreeVars[i]
						known := false
						for _, b := range a.fvBind[fv] {
							known = known || b == bnd
						}
						if !known {
							a.fvBind[fv] = append(a.fvBind[fv], bnd)
							a.changed = true
						}
						if fa := a.get(bnd); fa != nil {
							a.mark(fv, fa.lab&carry, fa, "")
						}
					}
				}
			case *ssa.Return:
				rs := a.ret[f]
				if rs == nil {
					rs = make([]*c36rFact, len(x.Results))
					a.ret[f] = rs
				}
				for i, r := range x.Results {
					if fa := a.get(r); fa != nil && i < len(rs) {
						if rs[i] == nil {
							rs[i] = &c36rFact{lab: fa.lab & carry, o: &c36rOrigin{src: fa.o.src, via: fa.o, step: "returned by " + a.fname(f)}}
							a.changed = true
						} else if rs[i].lab|(fa.lab&carry) != rs[i].lab {
							rs[i].lab |= fa.lab & carry
							a.changed = true
						}
					}
				}
			}
			if ci, ok := in.(ssa.CallInstruction); ok {
				a.call(f, ci)
			}
		}
	}
}

func c36rLookupElem(x *ssa.Lookup) types.Type {
	if m, ok := x.X.Type().Underlying().(*types.Map); ok {
		return m.Elem()
	}
	return types.Typ[types.Invalid]
}

// holds: container now holds a stored slice; the label is pushed to the cell the container was loaded from.
func (a *c36rAnalysis) holds(container ssa.Value, fa *c36rFact) {
	a.mark(container, c36rH, fa, "")
	if al, ok := container.(*ssa.Alloc); ok {
		a.markCell(al, c36rH, fa, "")
	}
	if u, ok := container.(*ssa.UnOp); ok && u.Op == token.MUL {
		for _, k := range a.cellsOf(u.X, 0) {
			a.markCell(k, c36rH, fa, "")
		}
	}
}

func (a *c36rAnalysis) call(f *ssa.Function, ci ssa.CallInstruction) {
	carry := c36rP | c36rS | c36rA | c36rH
	com := ci.Common()
	val, _ := ci.(ssa.Value)
	if bi, ok := com.Value.(*ssa.Builtin); ok {
		if bi.Name() == "append" && val != nil && len(com.Args) > 0 {
			// the result aliases the first argument only (and only if it has spare capacity)
			if fa := a.get(com.Args[0]); fa != nil {
				lab := fa.lab & (c36rH | c36rS | c36rA)
				if fa.lab&c36rS != 0 && fa.lab&c36rA == 0 {
					lab &^= c36rS // len == cap: append reallocates
				}
				a.mark(val, lab, fa, "")
			}
			// appending stored slices as *elements* (the variadic operand is a holder) makes the result a holder
			if len(com.Args) > 1 {
				if fa := a.get(com.Args[1]); fa != nil && fa.lab&c36rH != 0 {
					a.mark(val, c36rH, fa, "")
				}
			}
		}
		return
	}
	var callee *ssa.Function
	if cal := com.StaticCallee(); cal != nil {
		callee = cal
	} else if mc, ok := com.Value.(*ssa.MakeClosure); ok {
		callee, _ = mc.Fn.(*ssa.Function)
	}
	if callee == nil {
		if com.IsInvoke() {
			for _, arg := range com.Args {
				if fa := a.get(arg); fa != nil && fa.lab&(c36rS|c36rP) != 0 && a.readFn[f] {
					a.escapes["interface call "+com.Method.Name()+" in "+a.fname(f)] = ci.Pos()
				}
			}
		}
		return
	}
	if len(callee.Blocks) == 0 || !a.module[a.pkgOf(callee)] {
		for _, arg := range com.Args {
			if fa := a.get(arg); fa != nil && fa.lab&(c36rS|c36rP) != 0 {
				name := callee.String()
				if !c36rMutators[strings.TrimPrefix(name, "(")] && !strings.HasPrefix(name, "fmt.") {
					a.escapes[name+" in "+a.fname(f)] = ci.Pos()
				}
			}
		}
		return
	}
	for i, arg := range com.Args {
		if fa := a.get(arg); fa != nil && i < len(callee.Params) {
			a.mark(callee.Params[i], fa.lab&carry, fa, a.c.P.Rel(ci.Pos())+": "+a.fname(f)+" passes it to "+a.fname(callee))
		}
	}
	if val != nil {
		if rs := a.ret[callee]; len(rs) == 1 && rs[0] != nil {
			a.mark(val, rs[0].lab&carry, rs[0], "")
		} else if len(rs) > 1 {
			for _, r := range rs {
				if r != nil {
					a.mark(val, 0|c36rTupleMark, r, "")
				}
			}
		}
	}
}

// c36rTupleMark: a call returning several results gets a neutral fact so that Extract can consult
// the callee's per-result facts (no label of its own).
const c36rTupleMark = 1 << 10
