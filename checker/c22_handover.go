package main

// c22_handover.go — C22-L1 (lost field store on a stale plan node), C22-L3 (dropped copy of a With*
// style method) and C22-L2 (every field of plan.ShowCreateTable that the executor reads has a live
// provider). The object-identity engine is in c22_lost.go.

import (
	"fmt"
	"go/ast"
	"go/token"
	"go/types"
	"sort"
	"strings"
	"time"

	"golang.org/x/tools/go/ssa"
)

type c22LostExc struct {
	reason string
	// holds re-validates the reason on the analysed tree; an exception whose reason no longer holds lapses.
	holds func(c *Ctx, e *c22Engine) (bool, string)
}

type c22LostNames struct {
	nodeRel  string   // package that declares the plan node structs
	scanRels []string // packages whose functions build plan nodes (L1, L3)
	execRel  string   // package of the executor (L2 readers)
	nodeType string   // the SHOW CREATE TABLE node (L2)
	l1Exc    map[string]c22LostExc
	l3Exc    map[string]c22LostExc
	floors   [3]int // L1, L2, L3
}

func c22RealLostNames(c *Ctx) c22LostNames {
	scan := []string{"sql/planbuilder"}
	if c.P.Pkg("sql/analyzer") != nil {
		scan = append(scan, "sql/analyzer")
	}
	return c22LostNames{
		nodeRel: "sql/plan", scanRels: scan, execRel: "sql/rowexec", nodeType: "ShowCreateTable",
		l3Exc: map[string]c22LostExc{
			"renameAliasesInExp$lit/Subquery.WithQuery": {
				reason: "not a SHOW CREATE TABLE path and not observable: the dropped copy of the nested plan.Subquery differs from the original only in the table qualifiers of GetFields after the EXISTS-unnesting alias rename; " +
					"those references are bound by column id (fix_exec_indexes getIdxId), and five probe queries (conflicting alias with a nested IN-subquery, same column names on both sides, plain and inside a trigger body) returned the right rows (design_notes/C22.md)",
			},
			"Builder.buildAlterTableClause/PrimaryKeySchemaTarget.WithPrimaryKeySchema": {
				reason: "dead branch: the only type implementing sql.PrimaryKeySchemaTarget is *plan.ShowCreateTable, and the scopes buildAlterTableClause iterates hold ALTER nodes only " +
					"(no buildAlter* helper constructs a ShowCreateTable), so the type assertion never succeeds and no key schema is lost",
				holds: func(c *Ctx, e *c22Engine) (bool, string) {
					spk := c.P.Pkg("sql")
					if spk == nil {
						return false, "package sql not loaded"
					}
					tn, _ := spk.Types.Scope().Lookup("PrimaryKeySchemaTarget").(*types.TypeName)
					if tn == nil {
						return false, "sql.PrimaryKeySchemaTarget not found"
					}
					it, _ := tn.Type().Underlying().(*types.Interface)
					if it == nil {
						return false, "sql.PrimaryKeySchemaTarget is not an interface"
					}
					var impl []string
					for _, nt := range e.named {
						if types.Implements(nt, it) || types.Implements(types.NewPointer(nt), it) {
							impl = append(impl, nt.Obj().Pkg().Name()+"."+nt.Obj().Name())
						}
					}
					sort.Strings(impl)
					if len(impl) == 1 && impl[0] == "plan.ShowCreateTable" {
						// and buildAlterTable must not be able to produce that node
						pk, fd := c.P.FuncDecl("sql/planbuilder", "Builder.buildAlterTableClause")
						if fd == nil {
							return false, "Builder.buildAlterTableClause not found"
						}
						if who := c22ConstructsNode(c, pk.TypesInfo, fd, "ShowCreateTable", 3); who != "" {
							return false, "buildAlterTableClause can reach a constructor of plan.ShowCreateTable through " + who
						}
						return true, ""
					}
					return false, "implementations of sql.PrimaryKeySchemaTarget are now " + strings.Join(impl, ", ")
				},
			},
		},
		floors: [3]int{230, 6, 95},
	}
}

// c22ConstructsNode: does fd (following same-package static callees to the given depth) call a function
// of the node package whose result type is *<typeName>, or build a literal of it? Returns the witness.
func c22ConstructsNode(c *Ctx, info *types.Info, fd *ast.FuncDecl, typeName string, depth int) string {
	seen := map[*types.Func]bool{}
	var visit func(fd *ast.FuncDecl, info *types.Info, d int) string
	isNode := func(t types.Type) bool {
		nt, ok := types.Unalias(c22Deref(t)).(*types.Named)
		return ok && nt.Obj().Name() == typeName && nt.Obj().Pkg() != nil && strings.HasSuffix(nt.Obj().Pkg().Path(), "/plan")
	}
	visit = func(fd *ast.FuncDecl, info *types.Info, d int) string {
		w := ""
		ast.Inspect(fd.Body, func(n ast.Node) bool {
			if w != "" {
				return false
			}
			switch x := n.(type) {
			case *ast.CompositeLit:
				if tv, ok := info.Types[x]; ok && isNode(tv.Type) {
					w = DeclName(fd) + " (literal)"
				}
			case *ast.CallExpr:
				fn := Callee(info, x)
				if fn == nil {
					return true
				}
				if sig, ok := fn.Type().(*types.Signature); ok && sig.Results().Len() > 0 && isNode(sig.Results().At(0).Type()) && sig.Recv() == nil {
					w = DeclName(fd) + " -> " + fn.Name()
					return false
				}
				if d > 0 && !seen[fn] && fn.Pkg() != nil && fn.Pkg() == info.Defs[fd.Name].Pkg() {
					seen[fn] = true
					if cd := c.P.Decl(fn); cd != nil && cd.Body != nil {
						if r := visit(cd, info, d-1); r != "" {
							w = r
						}
					}
				}
			}
			return true
		})
		return w
	}
	return visit(fd, info, depth)
}

func runC22Lost(c *Ctx, nm c22LostNames) {
	c.Rule("C22-L1", "a field store on a plan node that the builder created itself is observable: after the store the object is read, passed on, returned or already shared; "+
		"a store made after the node was handed to a copying call (With*-style, decided from the callee bodies) and never followed by another use of the original is a lost update", nm.floors[0])
	c.Rule("C22-L2", "every field of plan."+nm.nodeType+" that the executor package reads (directly or through the node's accessor methods) has a live provider in the engine: "+
		"a constructor literal, a field store that is not lost (L1), or a method of the node that stores it and is called with its result used (L3)", nm.floors[1])
	c.Rule("C22-L3", "the copy returned by a With*-style method (returns a fresh copy of its receiver with updated fields, does not modify the receiver) is used by the caller; "+
		"a dropped result means the update never reaches any plan", nm.floors[2])

	npk := c.P.Pkg(nm.nodeRel)
	if npk == nil {
		c.Undecided("C22-L1", "packages", 0, "node package not loaded: "+nm.nodeRel)
		return
	}
	for _, r := range nm.scanRels {
		if c.P.Pkg(r) == nil {
			c.Undecided("C22-L1", "packages", 0, "builder package not loaded: "+r)
			return
		}
	}
	t0 := time.Now()
	e := c22NewEngine(c.P, nm.nodeRel)
	tSSA := time.Since(t0)
	isNodeStruct := func(t types.Type) *types.Named {
		nt, _ := c22NamedStruct(c22Deref(t))
		if nt != nil && nt.Obj().Pkg() == npk.Types {
			return nt
		}
		return nil
	}

	// ---------------- L1 + L3 over the builder packages ----------------
	type agg struct {
		pos     token.Pos
		bad     bool
		msg     string
		trail   []string
		n       int
		witness string
	}
	l1 := map[string]*agg{}
	l3 := map[string]*agg{}
	var l1Keys, l3Keys []string
	notOwned := 0
	copierCache := map[string]int{} // iface.method -> 1 all implementations are pure copiers, 2 not
	e.eachFunc(nm.scanRels, false, func(fn *ssa.Function) {
		for _, b := range fn.Blocks {
			for _, in := range b.Instrs {
				switch x := in.(type) {
				case *ssa.Store:
					base, path, ok := c22StoreBase(x)
					if !ok {
						continue
					}
					nt := isNodeStruct(base.Type())
					if nt == nil {
						continue
					}
					if _, isPtr := types.Unalias(base.Type()).Underlying().(*types.Pointer); !isPtr {
						continue
					}
					v := e.storeVerdict(x, base)
					if !v.owned {
						notOwned++
						continue
					}
					key := c22FnName(fn) + "/" + nt.Obj().Name() + "." + path
					a := l1[key]
					if a == nil {
						a = &agg{pos: e.pos(x)}
						l1[key] = a
						l1Keys = append(l1Keys, key)
					}
					a.n++
					if v.lost && !a.bad {
						a.bad, a.pos, a.trail = true, e.pos(x), v.trail
						if v.copier != nil {
							a.msg = fmt.Sprintf("%s: the store to %s.%s is a lost update: the node was already handed to %s at %s, which works on a copy of it (decided from the callee body), "+
								"and the original is never read, passed on, stored or returned after the store, so the value never reaches the plan that is executed",
								c22FnName(fn), nt.Obj().Name(), path, c22FnName(v.copier), c.P.Rel(e.pos(v.copiedAt)))
						} else {
							a.msg = fmt.Sprintf("%s: the store to %s.%s is never observed: the node was created in this function, is not shared before the store, and is never read, passed on, stored or returned afterwards",
								c22FnName(fn), nt.Obj().Name(), path)
						}
					} else if !v.lost && a.witness == "" {
						a.witness = v.liveBy
					}
				case *ssa.Call:
					cc := x.Common()
					if cc.Signature().Results().Len() == 0 {
						continue
					}
					calleeName := ""
					ck := ""
					if cc.IsInvoke() {
						calleeName = c22TypeShort(cc.Value.Type()) + "." + cc.Method.Name()
						if c22ConcreteOf(cc.Value) == nil {
							ck = types.TypeString(cc.Value.Type(), nil) + "." + cc.Method.Name()
							if copierCache[ck] == 2 {
								continue
							}
						}
					} else if f := cc.StaticCallee(); f != nil {
						calleeName = c22FnName(f)
					} else {
						continue
					}
					ts := e.targets(cc, nil, true)
					if len(ts) == 0 {
						if ck != "" {
							copierCache[ck] = 2
						}
						continue
					}
					all := true
					var upd []string
					var copyType *types.Named
					for _, t := range ts {
						rs := e.resSum(t.fn, 0, t.ctypes, c22MaxDepth-1)
						if rs == nil || !rs.fresh || rs.leaks || rs.copyOf < 0 || len(rs.updates) == 0 || rs.copyOf >= len(t.fn.Params) {
							all = false
							break
						}
						pt := t.fn.Params[rs.copyOf].Type()
						if c22IsInterface(pt) {
							if ct := t.ctypes[rs.copyOf]; ct != nil {
								pt = ct // a helper that takes the node through an interface (modifySchemaTarget), entered with the caller's type
							}
						}
						nt := isNodeStruct(pt)
						if nt == nil {
							all = false
							break
						}
						if _, isPtr := types.Unalias(pt).Underlying().(*types.Pointer); isPtr {
							ps := e.paramSum(t.fn, rs.copyOf, t.ctypes, c22MaxDepth-1)
							if ps == nil || ps.retained || len(ps.mutated) > 0 || len(ps.returned) > 0 {
								all = false
								break
							}
						}
						copyType = nt
						upd = append(upd, rs.updates...)
					}
					if ck != "" {
						if all {
							copierCache[ck] = 1
						} else {
							copierCache[ck] = 2
						}
					}
					if !all {
						continue
					}
					key := c22FnName(fn) + "/" + calleeName
					a := l3[key]
					if a == nil {
						a = &agg{pos: e.pos(x)}
						l3[key] = a
						l3Keys = append(l3Keys, key)
					}
					a.n++
					used, how := e.resultUsed(x, 0, c22ConcreteOf(cc.Value))
					if !used && !a.bad {
						sort.Strings(upd)
						a.bad, a.pos = true, e.pos(x)
						a.msg = fmt.Sprintf("%s: the result of %s is dropped. The callee does not modify the node it is given: it returns a fresh copy (of a plan.%s) with %s updated; "+
							"dropping the copy loses the update", c22FnName(fn), calleeName, copyType.Obj().Name(), strings.Join(c22Uniq(upd), ", "))
					} else if used && a.witness == "" {
						a.witness = how
					}
				}
			}
		}
	})
	sort.Strings(l1Keys)
	sort.Strings(l3Keys)
	emit := func(rule string, keys []string, m map[string]*agg, exc map[string]c22LostExc, okWhat string) {
		for _, k := range keys {
			a := m[k]
			if !a.bad {
				c.Ok(rule, k, a.pos, fmt.Sprintf("%s (%d site(s)); e.g. %s", okWhat, a.n, a.witness))
				continue
			}
			if ex, ok := exc[k]; ok && !c.fixtureMode {
				if ex.holds != nil {
					if holds, why := ex.holds(c, e); !holds {
						c.Bad(rule, k, a.pos, a.msg+" [the named exception lapsed: "+why+"]", a.trail...)
						continue
					}
				}
				c.Exc(rule, k, a.pos, ex.reason)
				continue
			}
			c.Bad(rule, k, a.pos, a.msg, a.trail...)
		}
		for k := range exc {
			if _, ok := m[k]; !ok && !c.fixtureMode {
				c.Note(rule, "stale-exception/"+k, 0, "the excepted construct no longer exists; remove the exception")
			}
		}
	}
	emit("C22-L1", l1Keys, l1, nm.l1Exc, "the store is observable")
	emit("C22-L3", l3Keys, l3, nm.l3Exc, "the returned copy is used")
	c.Notef("C22-L1: %d field stores on plan-node objects that the storing function does not own (parameter, loaded from memory, merged) are outside the rule", notOwned)

	tL13 := time.Since(t0) - tSSA
	// ---------------- L2: executor reads versus live providers ----------------
	runC22Handover(c, nm, e, npk.Types)
	c.Notef("C22-L timing: SSA build %.1fs, L1+L3 scan %.1fs, L2 %.1fs", tSSA.Seconds(), tL13.Seconds(), (time.Since(t0) - tSSA - tL13).Seconds())
}

func c22Uniq(ss []string) []string {
	sort.Strings(ss)
	var out []string
	for i, s := range ss {
		if i == 0 || s != ss[i-1] {
			out = append(out, s)
		}
	}
	return out
}

func c22TypeShort(t types.Type) string {
	if nt, ok := types.Unalias(c22Deref(t)).(*types.Named); ok {
		return nt.Obj().Name()
	}
	return types.TypeString(t, func(*types.Package) string { return "" })
}

func runC22Handover(c *Ctx, nm c22LostNames, e *c22Engine, npkg *types.Package) {
	tn, _ := npkg.Scope().Lookup(nm.nodeType).(*types.TypeName)
	if tn == nil {
		c.Undecided("C22-L2", nm.nodeType, 0, "node type not found in "+nm.nodeRel)
		return
	}
	T, _ := tn.Type().(*types.Named)
	st, _ := T.Underlying().(*types.Struct)
	if st == nil {
		c.Undecided("C22-L2", nm.nodeType, tn.Pos(), "node type is not a struct")
		return
	}
	ptrT := types.NewPointer(T)
	isT := func(t types.Type) bool {
		nt, ok := types.Unalias(c22Deref(t)).(*types.Named)
		return ok && nt.Origin() == T
	}
	fieldIdx := map[string]int{}
	for i := 0; i < st.NumFields(); i++ {
		fieldIdx[st.Field(i).Name()] = i
	}

	// fields a method of T reads from its receiver (selector uses outside assignment targets; methods it
	// calls on the receiver are followed two levels)
	var methodReads func(m *types.Func, depth int, out map[string]token.Pos)
	methodReads = func(m *types.Func, depth int, out map[string]token.Pos) {
		fd := c.P.Decl(m)
		pk := c.P.PkgOf(m)
		if fd == nil || fd.Body == nil || pk == nil {
			return
		}
		c22SelReads(pk.TypesInfo, fd.Body, isT, func(field string, pos token.Pos, callee *types.Func) {
			if callee != nil {
				if depth > 0 {
					methodReads(callee, depth-1, out)
				}
				return
			}
			if _, ok := out[field]; !ok {
				out[field] = pos
			}
		})
	}

	// 1. what the executor reads
	xpk := c.P.Pkg(nm.execRel)
	if xpk == nil {
		c.Undecided("C22-L2", "executor", 0, "executor package not loaded: "+nm.execRel)
		return
	}
	reads := map[string]token.Pos{}
	via := map[string]string{}
	for _, f := range xpk.Syntax {
		for _, d := range f.Decls {
			fd, ok := d.(*ast.FuncDecl)
			if !ok || fd.Body == nil {
				continue
			}
			c22SelReads(xpk.TypesInfo, fd.Body, isT, func(field string, pos token.Pos, callee *types.Func) {
				if callee != nil {
					sub := map[string]token.Pos{}
					methodReads(callee, 2, sub)
					for f2 := range sub {
						if _, ok := reads[f2]; !ok {
							reads[f2] = pos
							via[f2] = DeclName(fd) + " via " + callee.Name() + "()"
						}
					}
					return
				}
				if _, ok := reads[field]; !ok {
					reads[field] = pos
					via[field] = DeclName(fd)
				}
			})
		}
	}
	if len(reads) == 0 {
		c.Undecided("C22-L2", nm.nodeType, tn.Pos(), "the executor package reads no field of the node: anchor lost")
		return
	}

	// 2. providers
	type prov struct {
		what string
		live bool
		why  string
	}
	provs := map[string][]prov{}
	// 2a. constructor literals
	for _, pk := range c.P.Module {
		for _, f := range pk.Syntax {
			for _, d := range f.Decls {
				fd, ok := d.(*ast.FuncDecl)
				if !ok || fd.Body == nil {
					continue
				}
				ast.Inspect(fd.Body, func(n ast.Node) bool {
					cl, ok := n.(*ast.CompositeLit)
					if !ok {
						return true
					}
					tv, ok := pk.TypesInfo.Types[cl]
					if !ok || !isT(tv.Type) {
						return true
					}
					if _, isPtr := tv.Type.Underlying().(*types.Pointer); isPtr {
						return true
					}
					for i, el := range cl.Elts {
						name := ""
						if kv, ok := el.(*ast.KeyValueExpr); ok {
							if id, ok := kv.Key.(*ast.Ident); ok {
								name = id.Name
							}
						} else if i < st.NumFields() {
							name = st.Field(i).Name()
						}
						if name != "" {
							provs[name] = append(provs[name], prov{what: "literal in " + DeclName(fd) + " at " + c.P.Rel(el.Pos()), live: true})
						}
					}
					return true
				})
			}
		}
	}
	// 2b. stores, method-internal stores, call sites of the node's methods
	type mInfo struct {
		fn      *ssa.Function
		inPlace map[string]bool // fields stored through the receiver pointer
		onCopy  map[string]bool // fields stored on a copy of the receiver
		liveAny string          // some reference/call exists
		liveUse string          // a call whose result is used exists (or a non-call reference)
		deadAt  []string
	}
	methods := map[string]*mInfo{} // by method name
	recvOf := func(fn *ssa.Function) *ssa.Function {
		for fn != nil && fn.Parent() != nil {
			fn = fn.Parent()
		}
		return fn
	}
	isMethodOfT := func(fn *ssa.Function) bool {
		fn = recvOf(fn)
		if fn == nil || fn.Signature.Recv() == nil {
			return false
		}
		return isT(fn.Signature.Recv().Type())
	}
	e.eachFunc(nil, true, func(fn *ssa.Function) {
		inMethod := isMethodOfT(fn)
		for _, b := range fn.Blocks {
			for _, in := range b.Instrs {
				switch x := in.(type) {
				case *ssa.Store:
					base, path, ok := c22StoreBase(x)
					if !ok || !isT(base.Type()) {
						continue
					}
					field := strings.SplitN(path, ".", 2)[0]
					if inMethod && fn.Parent() == nil {
						mi := methods[fn.Name()]
						if mi == nil {
							mi = &mInfo{fn: fn, inPlace: map[string]bool{}, onCopy: map[string]bool{}}
							methods[fn.Name()] = mi
						}
						og := e.origin(base, nil, c22MaxDepth, nil)
						switch {
						case og.kind == 2 && og.copyOf == 0:
							mi.inPlace[field] = true
						case og.kind == 1 && og.copyOf == 0:
							mi.onCopy[field] = true
						default:
							// a store on some other object of the node type inside a method: treated like a plain store
							provs[field] = append(provs[field], prov{what: "store in " + c22FnName(fn) + " at " + c.P.Rel(e.pos(x)), live: true})
						}
						continue
					}
					v := e.storeVerdict(x, base)
					p := prov{what: "store in " + c22FnName(fn) + " at " + c.P.Rel(e.pos(x)), live: !(v.owned && v.lost)}
					if !p.live {
						p.why = "lost update (C22-L1)"
					}
					provs[field] = append(provs[field], p)
				}
			}
		}
	})
	// call sites / references of the methods that store fields
	if len(methods) > 0 {
		e.eachFunc(nil, true, func(fn *ssa.Function) {
			for _, b := range fn.Blocks {
				for _, in := range b.Instrs {
					var cc *ssa.CallCommon
					if ci, ok := in.(ssa.CallInstruction); ok {
						cc = ci.Common()
					}
					// non-call references (method values, bound methods)
					for _, op := range in.Operands(nil) {
						if op == nil || *op == nil {
							continue
						}
						var f *ssa.Function
						switch y := (*op).(type) {
						case *ssa.Function:
							f = y
						case *ssa.MakeClosure:
							f, _ = y.Fn.(*ssa.Function)
						}
						if f == nil {
							continue
						}
						if cc != nil && !cc.IsInvoke() && cc.Value == *op {
							continue
						}
						if obj, ok := f.Object().(*types.Func); ok && obj != nil {
							if sig := obj.Type().(*types.Signature); sig.Recv() != nil && isT(sig.Recv().Type()) {
								if mi := methods[obj.Name()]; mi != nil && mi.liveUse == "" {
									mi.liveUse = "method value taken in " + c22FnName(fn)
									mi.liveAny = mi.liveUse
								}
							}
						}
					}
					if cc == nil {
						continue
					}
					var mi *mInfo
					if cc.IsInvoke() {
						mi = methods[cc.Method.Name()]
						if mi == nil {
							continue
						}
						if ct := c22ConcreteOf(cc.Value); ct != nil {
							if !isT(ct) {
								continue
							}
						} else {
							it, _ := cc.Value.Type().Underlying().(*types.Interface)
							if it == nil || !(types.Implements(ptrT, it) || types.Implements(T, it)) {
								continue
							}
						}
					} else {
						f := cc.StaticCallee()
						if f == nil {
							continue
						}
						obj, _ := f.Object().(*types.Func)
						if obj == nil {
							continue
						}
						sig := obj.Type().(*types.Signature)
						if sig.Recv() == nil || !isT(sig.Recv().Type()) {
							continue
						}
						mi = methods[obj.Name()]
						if mi == nil {
							continue
						}
					}
					at := c22FnName(fn) + " at " + c.P.Rel(e.pos(in))
					if mi.liveAny == "" {
						mi.liveAny = "called in " + at
					}
					call, isCall := in.(*ssa.Call)
					if !isCall {
						if mi.liveUse == "" {
							mi.liveUse = "go/defer in " + at
						}
						continue
					}
					if used, _ := e.resultUsed(call, 0, ptrT); used {
						if mi.liveUse == "" {
							mi.liveUse = "called with its result used in " + at
						}
					} else {
						mi.deadAt = append(mi.deadAt, at)
					}
				}
			}
		})
	}
	var mnames []string
	for n := range methods {
		mnames = append(mnames, n)
	}
	sort.Strings(mnames)
	for _, n := range mnames {
		mi := methods[n]
		for f := range mi.inPlace {
			p := prov{what: "method " + n + " (stores the receiver's field in place)", live: mi.liveAny != "", why: mi.liveAny}
			if !p.live {
				p.why = "never called"
			}
			provs[f] = append(provs[f], p)
		}
		for f := range mi.onCopy {
			p := prov{what: "method " + n + " (stores the field on a copy of the receiver)", live: mi.liveUse != "", why: mi.liveUse}
			if !p.live {
				if len(mi.deadAt) > 0 {
					p.why = "only called with the copy dropped (C22-L3): " + strings.Join(mi.deadAt, "; ")
				} else {
					p.why = "never called"
				}
			}
			provs[f] = append(provs[f], p)
		}
	}

	// 3. verdict per field read by the executor
	var fields []string
	for f := range reads {
		fields = append(fields, f)
	}
	sort.Strings(fields)
	for _, f := range fields {
		key := nm.nodeType + "." + f
		var live, dead []string
		for _, p := range provs[f] {
			if p.live {
				live = append(live, p.what)
			} else {
				dead = append(dead, p.what+" — "+p.why)
			}
		}
		sort.Strings(live)
		sort.Strings(dead)
		if len(live) > 0 {
			c.Ok("C22-L2", key, reads[f], fmt.Sprintf("read by %s; provided by: %s", via[f], strings.Join(c22Head(live, 4), "; ")))
			continue
		}
		msg := fmt.Sprintf("%s.%s is read by the executor (%s at %s) but nothing in the engine hands a value over: ", nm.nodeType, f, via[f], c.P.Rel(reads[f]))
		if len(dead) == 0 {
			msg += "the field has no writer at all (no constructor literal, store or With-method)"
		} else {
			msg += "its only writers are ineffective"
		}
		msg += "; SHOW CREATE TABLE then prints from the zero value of the field"
		c.Bad("C22-L2", key, reads[f], msg, dead...)
	}
}

func c22Head(ss []string, n int) []string {
	if len(ss) > n {
		return append(append([]string{}, ss[:n]...), fmt.Sprintf("… (%d more)", len(ss)-n))
	}
	return ss
}

// c22SelReads reports, for every selector expression in body whose receiver is the node type and that is
// not an assignment target: the node's own field that is read (for promoted members: the embedded field),
// or the method of the node that is called (callee != nil).
func c22SelReads(info *types.Info, body ast.Node, isT func(types.Type) bool, f func(field string, pos token.Pos, callee *types.Func)) {
	lhs := map[ast.Expr]bool{}
	ast.Inspect(body, func(n ast.Node) bool {
		switch x := n.(type) {
		case *ast.AssignStmt:
			for _, l := range x.Lhs {
				lhs[ast.Unparen(l)] = true
			}
		case *ast.SelectorExpr:
			sel := info.Selections[x]
			if sel == nil || !isT(sel.Recv()) {
				return true
			}
			nt, _ := types.Unalias(c22Deref(sel.Recv())).(*types.Named)
			st, _ := nt.Underlying().(*types.Struct)
			if st == nil {
				return true
			}
			idx := sel.Index()
			switch sel.Kind() {
			case types.FieldVal:
				if lhs[x] && len(idx) == 1 {
					return true
				}
				f(st.Field(idx[0]).Name(), x.Sel.Pos(), nil)
			case types.MethodVal:
				if len(idx) > 1 {
					f(st.Field(idx[0]).Name(), x.Sel.Pos(), nil) // promoted method: reads the embedded field
				} else if m, ok := sel.Obj().(*types.Func); ok {
					f("", x.Sel.Pos(), m)
				}
			}
		}
		return true
	})
}
