package main

import (
	"fmt"
	"go/ast"
	"go/constant"
	"go/types"
	"strings"

	"golang.org/x/tools/go/packages"
)

// C20-T1 — who may turn a statement into a TRUNCATE.
//
// TRUNCATE resets the AUTO_INCREMENT counter (rowexec's executor of the plan.Truncate node and the
// backend's Truncate method both do); DELETE must not. So
//
//	(a) the backend reset entry sql.TruncateableTable.Truncate may be called only by the executor of a
//	    *plan.Truncate node (a function with such a parameter) or by a delegating Truncate method;
//	(b) a *plan.Truncate node may be constructed (outside package plan) only by the builder of the
//	    TRUNCATE statement — a function all of whose callers sit in the `case` of the statement
//	    dispatch whose label is the constant "truncate" — or by a *guarded rewrite*;
//	(c) a rewrite is guarded if some range/if statement G of the function that reads
//	    sql.Column.AutoIncrement (directly or in a callee) lies on every CFG path from the entry to
//	    the construction, and G — folded with eng_mini over schemas of 1..3 columns x {column i is
//	    AUTO_INCREMENT or not} — leaves the function (returns) whenever ANY column is AUTO_INCREMENT.

const c20T1 = "C20-T1"

type c20tAnchors struct {
	c        *Ctx
	sqlPk    *packages.Package
	planPk   *packages.Package
	colField *types.Var       // sql.Column.AutoIncrement
	colT     *types.Named     // sql.Column
	schemaT  *types.Named     // sql.Schema
	truncI   *types.Interface // sql.TruncateableTable
	truncM   *types.Func      // its Truncate method
	nodeT    *types.Named     // plan.Truncate
	mention  map[*types.Func]bool
}

func c20Truncate(c *Ctx) {
	c.Rule(c20T1, "who may turn a statement into a TRUNCATE (which resets the AUTO_INCREMENT counter): TruncateableTable.Truncate is called only by the executor of a plan.Truncate node; a plan.Truncate node is constructed only by the TRUNCATE statement builder or by a rewrite whose column scan — folded over schemas of 1..3 columns x {AUTO_INCREMENT or not} — refuses whenever any column is AUTO_INCREMENT", 17)
	a := &c20tAnchors{c: c, sqlPk: c.P.Pkg("sql"), planPk: c.P.Pkg("sql/plan"), mention: map[*types.Func]bool{}}
	if a.sqlPk == nil || a.planPk == nil || c.P.Pkg("sql/analyzer") == nil || c.P.Pkg("sql/planbuilder") == nil || c.P.Pkg("sql/rowexec") == nil {
		c.Undecided(c20T1, "packages", 0, "sql, sql/plan, sql/analyzer, sql/planbuilder or sql/rowexec not loaded")
		return
	}
	a.colT = dmlNamedOf(c20tLookupType(a.sqlPk, "Column"))
	a.schemaT = dmlNamedOf(c20tLookupType(a.sqlPk, "Schema"))
	a.nodeT = dmlNamedOf(c20tLookupType(a.planPk, "Truncate"))
	a.truncI = dmlLookupIface(c.P, "sql", "TruncateableTable")
	if a.colT != nil {
		if st, ok := a.colT.Underlying().(*types.Struct); ok {
			for i := 0; i < st.NumFields(); i++ {
				if st.Field(i).Name() == "AutoIncrement" {
					a.colField = st.Field(i)
				}
			}
		}
	}
	if a.truncI != nil {
		for i := 0; i < a.truncI.NumMethods(); i++ {
			if m := a.truncI.Method(i); m.Name() == "Truncate" {
				a.truncM = m
			}
		}
	}
	if a.colField == nil || a.schemaT == nil || a.nodeT == nil || a.truncM == nil {
		c.Undecided(c20T1, "anchors", 0, "sql.Column.AutoIncrement, sql.Schema, plan.Truncate or sql.TruncateableTable.Truncate not found")
		return
	}
	nodePtr := types.NewPointer(a.nodeT)

	type site struct {
		pk   *packages.Package
		fd   *ast.FuncDecl
		call ast.Node
	}
	var ctorSites, resetCalls []site
	ctors := map[*types.Func]bool{} // package-level functions of package plan that return *plan.Truncate
	c.P.EachModuleFuncDecl(func(pk *packages.Package, fd *ast.FuncDecl) {
		if pk.Types != a.planPk.Types || fd.Recv != nil {
			return
		}
		if fn, ok := pk.TypesInfo.Defs[fd.Name].(*types.Func); ok {
			res := fn.Type().(*types.Signature).Results()
			if res.Len() == 1 && types.Identical(res.At(0).Type(), nodePtr) {
				ctors[fn] = true
			}
		}
	})
	if len(ctors) == 0 {
		c.Undecided(c20T1, "plan.Truncate/constructor", a.nodeT.Obj().Pos(), "no constructor function of *plan.Truncate in package plan")
		return
	}
	c.P.EachModuleFuncDecl(func(pk *packages.Package, fd *ast.FuncDecl) {
		if strings.HasSuffix(c.P.RelFile(fd.Pos()), "_test.go") {
			return
		}
		info := pk.TypesInfo
		ast.Inspect(fd.Body, func(n ast.Node) bool {
			switch x := n.(type) {
			case *ast.CallExpr:
				fn := Callee(info, x)
				if fn == nil {
					return true
				}
				if ctors[fn.Origin()] && pk.Types != a.planPk.Types {
					ctorSites = append(ctorSites, site{pk, fd, x})
				}
				if a.isResetMethod(fn) {
					resetCalls = append(resetCalls, site{pk, fd, x})
				}
			case *ast.CompositeLit:
				if tv, ok := info.Types[x]; ok && dmlNamedOf(tv.Type) == a.nodeT && pk.Types != a.planPk.Types {
					ctorSites = append(ctorSites, site{pk, fd, x})
				}
			}
			return true
		})
	})

	// (a) callers of the backend reset entry
	for _, s := range resetCalls {
		key := c20tPkShort(s.pk) + "." + DeclName(s.fd) + "/calls TruncateableTable.Truncate"
		info := s.pk.TypesInfo
		execOfNode, delegates := false, false
		for _, fl := range s.fd.Type.Params.List {
			if tv, ok := info.Types[fl.Type]; ok && types.Identical(tv.Type, nodePtr) {
				execOfNode = true
			}
		}
		if self, ok := info.Defs[s.fd.Name].(*types.Func); ok && a.isResetMethod(self) {
			delegates = true
		}
		switch {
		case execOfNode:
			c.Ok(c20T1, key, s.call.Pos(), "executor of the plan.Truncate node")
		case delegates:
			c.Ok(c20T1, key, s.call.Pos(), "a Truncate method delegating to the wrapped table")
		default:
			c.Bad(c20T1, key, s.call.Pos(), fmt.Sprintf("%s calls TruncateableTable.Truncate (which resets the AUTO_INCREMENT counter) but is not the executor of a plan.Truncate node: a statement other than TRUNCATE reaches the counter reset, generated ids are handed out again", DeclName(s.fd)))
		}
	}
	if len(resetCalls) == 0 {
		c.Undecided(c20T1, "TruncateableTable.Truncate/callers", a.truncM.Pos(), "no call of the backend reset entry found (the executor of plan.Truncate should contain one)")
	}

	// (b) constructors of the node
	if len(ctorSites) == 0 {
		c.Undecided(c20T1, "plan.Truncate/constructed", a.nodeT.Obj().Pos(), "no construction of a plan.Truncate node outside package plan")
	}
	for _, s := range ctorSites {
		fname := c20tPkShort(s.pk) + "." + DeclName(s.fd)
		key := fname + "/constructs plan.Truncate"
		if why, ok := a.isStatementEntry(s.pk, s.fd); ok {
			c.Ok(c20T1, key, s.call.Pos(), why)
			continue
		}
		a.checkGuardedRewrite(s.pk, s.fd, s.call, fname)
	}
}

func c20tLookupType(pk *packages.Package, name string) types.Type {
	if tn, ok := pk.Types.Scope().Lookup(name).(*types.TypeName); ok {
		return tn.Type()
	}
	return nil
}

func c20tPkShort(pk *packages.Package) string {
	r := pkRel(pk)
	if i := strings.LastIndex(r, "/"); i >= 0 {
		return r[i+1:]
	}
	return r
}

// isResetMethod: fn is sql.TruncateableTable.Truncate or the Truncate method of a type implementing the interface.
func (a *c20tAnchors) isResetMethod(fn *types.Func) bool {
	if fn == nil || fn.Name() != a.truncM.Name() {
		return false
	}
	if fn.Origin() == a.truncM {
		return true
	}
	sig, _ := fn.Type().(*types.Signature)
	if sig == nil || sig.Recv() == nil {
		return false
	}
	rt := sig.Recv().Type()
	if _, isIface := rt.Underlying().(*types.Interface); isIface {
		return types.Implements(rt, a.truncI)
	}
	return types.Implements(rt, a.truncI) || types.Implements(types.NewPointer(rt), a.truncI)
}

// isStatementEntry: every static call of the function (at least one) lies in a case clause whose
// label is a constant with the value "truncate" (the statement dispatch of the builder).
func (a *c20tAnchors) isStatementEntry(pk *packages.Package, fd *ast.FuncDecl) (string, bool) {
	self, _ := pk.TypesInfo.Defs[fd.Name].(*types.Func)
	if self == nil {
		return "", false
	}
	calls, inCase := 0, 0
	a.c.P.EachModuleFuncDecl(func(cp *packages.Package, cfd *ast.FuncDecl) {
		var stack []ast.Node
		ast.Inspect(cfd.Body, func(n ast.Node) bool {
			if n == nil {
				stack = stack[:len(stack)-1]
				return true
			}
			stack = append(stack, n)
			call, ok := n.(*ast.CallExpr)
			if !ok {
				return true
			}
			if fn := Callee(cp.TypesInfo, call); fn == nil || fn.Origin() != self {
				return true
			}
			calls++
			for i := len(stack) - 2; i >= 0; i-- {
				cc, ok := stack[i].(*ast.CaseClause)
				if !ok {
					continue
				}
				for _, lbl := range cc.List {
					if tv, ok := cp.TypesInfo.Types[lbl]; ok && tv.Value != nil && tv.Value.Kind() == constant.String && strings.EqualFold(constant.StringVal(tv.Value), "truncate") {
						inCase++
						return true
					}
				}
				break // only the innermost case clause counts
			}
			return true
		})
	})
	if calls > 0 && calls == inCase {
		return fmt.Sprintf("builder of the TRUNCATE statement (its %d caller(s) sit in the `case \"truncate\"` arm of the statement dispatch)", calls), true
	}
	return "", false
}

// mentionsAuto: n reads sql.Column.AutoIncrement, directly or in a module callee (depth 3).
func (a *c20tAnchors) mentionsAuto(info *types.Info, n ast.Node, depth int) bool {
	found := false
	ast.Inspect(n, func(x ast.Node) bool {
		if found {
			return false
		}
		switch x := x.(type) {
		case *ast.SelectorExpr:
			if s := info.Selections[x]; s != nil && s.Obj() == a.colField {
				found = true
			}
		case *ast.CallExpr:
			if depth <= 0 {
				return true
			}
			fn := Callee(info, x)
			if fn == nil {
				return true
			}
			fn = fn.Origin()
			if v, ok := a.mention[fn]; ok {
				found = found || v
				return true
			}
			a.mention[fn] = false
			if fd := a.c.P.Decl(fn); fd != nil && fd.Body != nil {
				if pk := a.c.P.PkgOf(fn); pk != nil && a.mentionsAuto(pk.TypesInfo, fd.Body, depth-1) {
					a.mention[fn] = true
					found = true
				}
			}
		}
		return true
	})
	return found
}

func (a *c20tAnchors) checkGuardedRewrite(pk *packages.Package, fd *ast.FuncDecl, site ast.Node, fname string) {
	c, info := a.c, pk.TypesInfo
	// candidate guards: outermost range/for/if/switch statements that read Column.AutoIncrement and do not contain the site
	var cands []ast.Stmt
	var visit func(n ast.Node)
	visit = func(n ast.Node) {
		ast.Inspect(n, func(x ast.Node) bool {
			if _, isLit := x.(*ast.FuncLit); isLit {
				return false
			}
			switch s := x.(type) {
			case *ast.RangeStmt, *ast.IfStmt, *ast.ForStmt, *ast.SwitchStmt:
				st := s.(ast.Stmt)
				if st.Pos() <= site.Pos() && site.End() <= st.End() {
					return true // contains the site: look inside
				}
				if a.mentionsAuto(info, st, 3) {
					cands = append(cands, st)
					return false
				}
			}
			return true
		})
	}
	visit(fd.Body)
	g := c.P.CFG(info, fd.Body)
	isSite := func(n ast.Node) bool { return n.Pos() <= site.Pos() && site.End() <= n.End() }
	var onAllPaths []ast.Stmt
	for _, s := range cands {
		inS := func(n ast.Node) bool { return s.Pos() <= n.Pos() && n.End() <= s.End() }
		if PathAvoiding(g, EntryPoint(g), inS, isSite, nil) == nil {
			onAllPaths = append(onAllPaths, s)
		}
	}
	if len(onAllPaths) == 0 {
		msg := "no statement that reads sql.Column.AutoIncrement lies on every path from the entry to this construction"
		if len(cands) > 0 {
			msg = fmt.Sprintf("the statement(s) reading sql.Column.AutoIncrement (%s) can be bypassed on a path from the entry to this construction", c.P.Rel(cands[0].Pos()))
		}
		c.Bad(c20T1, fname+"/constructs plan.Truncate", site.Pos(), fmt.Sprintf("%s rewrites a statement into a plan.Truncate node (TRUNCATE resets the AUTO_INCREMENT counter) and is not the TRUNCATE statement builder; %s: a DELETE of all rows of a table with an AUTO_INCREMENT column resets the counter and generated ids are reused", DeclName(fd), msg))
		return
	}
	c.Ok(c20T1, fname+"/constructs plan.Truncate", site.Pos(), fmt.Sprintf("guarded rewrite: the AUTO_INCREMENT scan at %s lies on every path to the construction", c.P.Rel(onAllPaths[0].Pos())))
	// fold the guards over the schema abstraction; the schema is refused if ANY guard on all paths leaves the function
	for k := 1; k <= 3; k++ {
		for mask := 0; mask < 1<<k; mask++ {
			var auto []bool
			lbl := ""
			for i := 0; i < k; i++ {
				au := (mask>>i)&1 == 1
				auto = append(auto, au)
				if au {
					lbl += "A"
				} else {
					lbl += "-"
				}
			}
			key := fname + "/auto-increment-guard/columns=" + lbl
			refused, passes := false, false
			var ferr error
			for _, s := range onAllPaths {
				out, err := a.foldGuard(pk, fd, s, auto)
				if err != nil {
					ferr = err
					continue
				}
				if out {
					refused = true
				} else {
					passes = true
				}
			}
			switch {
			case mask == 0 && ferr != nil && !passes && !refused:
				c.Undecided(c20T1, key, onAllPaths[0].Pos(), "guard not foldable: "+ferr.Error())
			case mask == 0:
				c.Ok(c20T1, key, onAllPaths[0].Pos(), fmt.Sprintf("no AUTO_INCREMENT column: refused=%v (either is safe)", refused))
			case refused:
				c.Ok(c20T1, key, onAllPaths[0].Pos(), "rewrite refused")
			case ferr != nil:
				c.Undecided(c20T1, key, onAllPaths[0].Pos(), "guard not foldable: "+ferr.Error())
			default:
				c.Bad(c20T1, key, onAllPaths[0].Pos(), fmt.Sprintf("for a table whose columns are [%s] (A = AUTO_INCREMENT) the column scan of %s does not refuse the rewrite: control reaches the construction of plan.Truncate, so an unfiltered DELETE resets the AUTO_INCREMENT counter and ids already handed out are generated again", lbl, DeclName(fd)))
			}
		}
	}
}

// foldGuard folds statement s for one abstract schema; true = s leaves the function (return / panic).
func (a *c20tAnchors) foldGuard(pk *packages.Package, fd *ast.FuncDecl, s ast.Stmt, auto []bool) (bool, error) {
	info := pk.TypesInfo
	schema := &MSym{Name: "schema"}
	var cols []*MSym
	for i, au := range auto {
		cols = append(cols, &MSym{Name: fmt.Sprintf("col#%d", i), Fields: map[string]MV{a.colField.Name(): constant.MakeBool(au)}})
	}
	isCol := func(v MV) bool {
		for _, cl := range cols {
			if v == MV(cl) {
				return true
			}
		}
		return false
	}
	m := &Mini{P: a.c.P, Info: info, Counters: true}
	m.Sel = func(m *Mini, sel *ast.SelectorExpr, base MV) (MV, bool) {
		if base == nil {
			return &MSym{Name: sel.Sel.Name}, true // package-level variable
		}
		if isCol(base) {
			if _, ok := base.(*MSym).Fields[sel.Sel.Name]; ok {
				return nil, false
			}
			return &MSym{Name: sel.Sel.Name}, true // other column attributes are outside the abstraction
		}
		return nil, false
	}
	m.IndexV = func(m *Mini, x *ast.IndexExpr, base, idx MV) (MV, bool) {
		if base != MV(schema) {
			return nil, false
		}
		i, ok := MInt(idx)
		if !ok {
			return nil, false
		}
		if i < 0 || int(i) >= len(cols) {
			m.fail(x, "index %d out of range of a schema of %d columns (run-time panic)", i, len(cols))
		}
		return cols[i], true
	}
	m.Unroll = func(m *Mini, rs *ast.RangeStmt, eval func(ast.Expr) MV) (int, func(int) (MV, MV), bool) {
		if eval(rs.X) != MV(schema) {
			return 0, nil, false
		}
		return len(cols), func(i int) (MV, MV) { return constant.MakeInt64(int64(i)), cols[i] }, true
	}
	m.Call = func(m *Mini, call *ast.CallExpr, fn *types.Func, recv MV, args []MV) ([]MV, bool) {
		if fn == nil {
			if IsBuiltinCall(m.Info, call, "len") && len(args) == 1 && args[0] == MV(schema) {
				return []MV{constant.MakeInt64(int64(len(cols)))}, true
			}
			return nil, false
		}
		sig := fn.Type().(*types.Signature)
		// any call that yields the table's schema (a value of type sql.Schema) yields the abstract schema,
		// unless it is a method on the schema itself (inlined)
		if sig.Results().Len() == 1 && dmlNamedOf(sig.Results().At(0).Type()) == a.schemaT && recv != MV(schema) {
			if _, isNamedSchema := sig.Results().At(0).Type().(*types.Named); isNamedSchema {
				return []MV{schema}, true
			}
		}
		return nil, false
	}
	// free variables of s are opaque
	bind := map[types.Object]MV{}
	ast.Inspect(s, func(n ast.Node) bool {
		if id, ok := n.(*ast.Ident); ok {
			if v, ok := info.Uses[id].(*types.Var); ok && !v.IsField() && (v.Pos() < s.Pos() || v.Pos() > s.End()) && v.Parent() != v.Pkg().Scope() {
				if dmlNamedOf(v.Type()) == a.schemaT {
					bind[v] = schema
				} else if _, has := bind[v]; !has {
					bind[v] = &MSym{Name: v.Name()}
				}
			}
		}
		return true
	})
	_, returned, panicked, _, err := m.RunBlock([]ast.Stmt{s}, bind)
	if err != nil {
		return false, err
	}
	return returned || panicked, nil
}
