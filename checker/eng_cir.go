package main

import (
	"fmt"
	"go/ast"
	"go/constant"
	"go/token"
	"go/types"

	"golang.org/x/tools/go/cfg"
	"golang.org/x/tools/go/packages"
)

// cirFlow resolves branches on a sql.ConvertInRange variable: for one of the enum's values it
// yields the CFG edges that remain feasible after the statement that defined the variable,
// without leaving the loop iteration that performed the conversion.
type cirFlow struct {
	info      *types.Info
	g         *cfg.CFG
	cirT      types.Type
	obj       types.Object // the ConvertInRange variable
	def       ast.Node     // the assignment that defines it
	defPt     CFGPoint
	caseOf    map[ast.Expr]bool
	Undecided bool // a condition on the variable could not be resolved
	// Extra resolves further branch conditions (e.g. a flag variable) for the current situation.
	Extra func(cond ast.Expr) (truth, decided bool)
}

// cirDefs lists the assignments in body whose right-hand side is one call and that bind a
// (non-blank) variable of type ConvertInRange; valueObj is the variable bound to the call's
// first result, if any.
type cirDef struct {
	assign   *ast.AssignStmt
	cirObj   types.Object
	valueObj types.Object
}

func findCIRDefs(info *types.Info, cirT types.Type, body *ast.BlockStmt) []cirDef {
	var out []cirDef
	ast.Inspect(body, func(n ast.Node) bool {
		as, ok := n.(*ast.AssignStmt)
		if !ok || len(as.Rhs) != 1 {
			return true
		}
		if _, isCall := ast.Unparen(as.Rhs[0]).(*ast.CallExpr); !isCall {
			return true
		}
		objOf := func(e ast.Expr) types.Object {
			id := identOf(e)
			if id == nil || id.Name == "_" {
				return nil
			}
			if o := info.Defs[id]; o != nil {
				return o
			}
			return info.Uses[id]
		}
		for i, l := range as.Lhs {
			o := objOf(l)
			if o != nil && types.Identical(o.Type(), cirT) && i > 0 {
				out = append(out, cirDef{as, o, objOf(as.Lhs[0])})
			}
		}
		return true
	})
	return out
}

func newCIRFlow(p *Prog, info *types.Info, cirT types.Type, body *ast.BlockStmt, d cirDef) (*cirFlow, error) {
	f := &cirFlow{info: info, cirT: cirT, obj: d.cirObj, def: d.assign, caseOf: map[ast.Expr]bool{}}
	f.g = p.CFG(info, body)
	pt, ok := FindNode(f.g, d.assign)
	if !ok {
		return nil, fmt.Errorf("conversion statement not in the CFG")
	}
	f.defPt = pt
	ast.Inspect(body, func(n ast.Node) bool {
		if sw, ok := n.(*ast.SwitchStmt); ok && sw.Tag != nil {
			if id := identOf(sw.Tag); id != nil && info.Uses[id] == f.obj {
				for _, cs := range sw.Body.List {
					for _, x := range cs.(*ast.CaseClause).List {
						f.caseOf[x] = true
					}
				}
			}
		}
		return true
	})
	return f, nil
}

func (f *cirFlow) constVal(x ast.Expr) constant.Value {
	if tv, ok := f.info.Types[x]; ok && tv.Value != nil && types.Identical(tv.Type, f.cirT) {
		return tv.Value
	}
	return nil
}

func (f *cirFlow) edgeOK(v constant.Value) func(b *cfg.Block, succ int) bool {
	return func(b *cfg.Block, succ int) bool {
		// never follow a back edge into the head of a loop that encloses the conversion
		if t := b.Succs[succ]; (t.Kind == cfg.KindRangeLoop || t.Kind == cfg.KindForLoop || t.Kind == cfg.KindForPost) && t.Stmt != nil &&
			t.Stmt.Pos() <= f.def.Pos() && f.def.End() <= t.Stmt.End() {
			return false
		}
		if len(b.Nodes) == 0 || len(b.Succs) != 2 {
			return true
		}
		last, ok := b.Nodes[len(b.Nodes)-1].(ast.Expr)
		if !ok {
			return true
		}
		truth, decided := f.evalCond(v, last)
		if !decided {
			return true
		}
		return (succ == 0) == truth
	}
}

// evalCond folds a branch condition for the situation "the variable holds v": leaves are
// comparisons of the variable with a constant of the enum, case labels of a switch on it, and
// whatever Extra resolves; !, && and || combine them in Kleene logic (go/cfg does not split
// short-circuit operators, so the whole condition is the last node of the block). A leaf that
// mentions the variable in any other form leaves the walk undecided.
func (f *cirFlow) evalCond(v constant.Value, e ast.Expr) (truth, decided bool) {
	e = ast.Unparen(e)
	if f.Extra != nil {
		if t, ok := f.Extra(e); ok {
			return t, true
		}
	}
	if f.caseOf[e] {
		if cv := f.constVal(e); cv != nil {
			return constant.Compare(v, token.EQL, cv), true
		}
	}
	switch x := e.(type) {
	case *ast.UnaryExpr:
		if x.Op == token.NOT {
			t, ok := f.evalCond(v, x.X)
			return !t, ok
		}
	case *ast.BinaryExpr:
		switch x.Op {
		case token.LAND, token.LOR:
			lt, lok := f.evalCond(v, x.X)
			rt, rok := f.evalCond(v, x.Y)
			short := x.Op == token.LOR // the value that decides alone
			if (lok && lt == short) || (rok && rt == short) {
				return short, true
			}
			if lok && rok {
				return !short, true
			}
			return false, false
		case token.EQL, token.NEQ:
			var other ast.Expr
			if id := identOf(x.X); id != nil && f.info.Uses[id] == f.obj {
				other = x.Y
			} else if id := identOf(x.Y); id != nil && f.info.Uses[id] == f.obj {
				other = x.X
			}
			if other != nil {
				if cv := f.constVal(other); cv != nil {
					return constant.Compare(v, x.Op, cv), true
				}
				f.Undecided = true
				return false, false
			}
		}
	}
	mentions := false
	ast.Inspect(e, func(n ast.Node) bool {
		if id, ok := n.(*ast.Ident); ok && f.info.Uses[id] == f.obj {
			mentions = true
		}
		return true
	})
	if mentions {
		f.Undecided = true
	}
	return false, false
}

// Reached returns the CFG nodes executed after the conversion when it reported v, up to the
// end of the function or of the current loop iteration (a redefinition of the variable also
// ends the walk).
func (f *cirFlow) Reached(v constant.Value) []ast.Node {
	redefines := func(n ast.Node) bool {
		if n == f.def {
			return true
		}
		if as, ok := n.(*ast.AssignStmt); ok {
			for _, l := range as.Lhs {
				if id := identOf(l); id != nil && (f.info.Uses[id] == f.obj || f.info.Defs[id] == f.obj) {
					return true
				}
			}
		}
		return false
	}
	return ReachableNodes(f.g, f.defPt, redefines, f.edgeOK(v))
}

// ruleClampedKey: a value converted to a column type together with a ConvertInRange verdict
// must not become an index key (keyed range constructor argument, or Key of a Below/Above
// cut) on a path where the verdict is Overflow or Underflow: the converted value is then the
// type's bound (or wrapped), and rows that hold that bound would match a literal/key that
// lies outside the type.
func ruleClampedKey(c *Ctx, rule string, rels []string) {
	sqlPk := c.P.Pkg("sql")
	if sqlPk == nil {
		c.Undecided(rule, "sql", 0, "package sql not loaded")
		return
	}
	cirTN, _ := sqlPk.Types.Scope().Lookup("ConvertInRange").(*types.TypeName)
	if cirTN == nil {
		c.Undecided(rule, "ConvertInRange", 0, "type not found")
		return
	}
	cirT := cirTN.Type()
	over, _ := sqlPk.Types.Scope().Lookup("Overflow").(*types.Const)
	under, _ := sqlPk.Types.Scope().Lookup("Underflow").(*types.Const)
	if over == nil || under == nil {
		c.Undecided(rule, "Overflow/Underflow", 0, "constants not found")
		return
	}
	isCut := func(t types.Type) bool {
		nt, ok := types.Unalias(t).(*types.Named)
		if !ok || nt.Obj().Pkg() != sqlPk.Types {
			return false
		}
		return nt.Obj().Name() == "Below" || nt.Obj().Name() == "Above"
	}
	c.P.EachFuncDecl(rels, func(pk *packages.Package, fd *ast.FuncDecl) {
		info := pk.TypesInfo
		for _, d := range findCIRDefs(info, cirT, fd.Body) {
			if d.valueObj == nil {
				continue
			}
			// does node n use the converted value as an index key?
			keyUse := func(n ast.Node) (pos token.Pos, what string) {
				ast.Inspect(n, func(m ast.Node) bool {
					if what != "" {
						return false
					}
					switch x := m.(type) {
					case *ast.FuncLit:
						return false
					case *ast.CallExpr:
						fn := Callee(info, x)
						if fn != nil && fn.Pkg() == sqlPk.Types && len(fn.Name()) > 15 && fn.Name()[len(fn.Name())-15:] == "RangeColumnExpr" && fn.Type().(*types.Signature).Params().Len() >= 2 {
							for _, a := range x.Args {
								if id := identOf(a); id != nil && info.Uses[id] == d.valueObj {
									pos, what = x.Pos(), fn.Name()
								}
							}
						}
					case *ast.CompositeLit:
						if tv, ok := info.Types[x]; ok && isCut(tv.Type) {
							for _, el := range x.Elts {
								v := el
								if kv, ok := el.(*ast.KeyValueExpr); ok {
									if k := identOf(kv.Key); k == nil || k.Name != "Key" {
										continue
									}
									v = kv.Value
								}
								if id := identOf(v); id != nil && info.Uses[id] == d.valueObj {
									pos, what = x.Pos(), types.ExprString(x.Type)+"{Key}"
								}
							}
						}
					}
					return true
				})
				return
			}
			hasUse := false
			ast.Inspect(fd.Body, func(n ast.Node) bool {
				if st, ok := n.(ast.Stmt); ok && !hasUse {
					if _, w := keyUse(st); w != "" {
						hasUse = true
					}
				}
				return !hasUse
			})
			if !hasUse {
				continue
			}
			flow, err := newCIRFlow(c.P, info, cirT, fd.Body, d)
			key := pkRel(pk) + "." + DeclName(fd) + "/" + d.valueObj.Name()
			if err != nil {
				c.Undecided(rule, key, d.assign.Pos(), err.Error())
				continue
			}
			bad := ""
			var badPos token.Pos
			for _, sit := range []struct {
				name string
				v    constant.Value
			}{{"Overflow", over.Val()}, {"Underflow", under.Val()}} {
				for _, n := range flow.Reached(sit.v) {
					if p, w := keyUse(n); w != "" {
						bad = fmt.Sprintf("when the conversion reports %s the converted (clamped or wrapped) value still becomes an index key via %s: rows holding the type's bound match a key that lies outside the type", sit.name, w)
						badPos = p
					}
				}
			}
			if flow.Undecided {
				c.Undecided(rule, key, d.assign.Pos(), "a branch condition on the ConvertInRange value could not be resolved")
				continue
			}
			if bad != "" {
				c.Bad(rule, key, badPos, bad)
			} else {
				c.Ok(rule, key, d.assign.Pos(), "key used only when the conversion is InRange")
			}
		}
	})
}
