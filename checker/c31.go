package main

import (
	"fmt"
	"go/ast"
	"go/constant"
	"go/token"
	"go/types"
	"sort"
	"strings"

	"golang.org/x/tools/go/cfg"
	"golang.org/x/tools/go/packages"
)

func init() {
	register(&Property{
		ID:        "C31",
		Patterns:  []string{"./sql/expression/function", "./sql/planbuilder/dateparse"},
		Technique: "constant-table extraction (map literal key sets over go/constant) + CFG nil-guard analysis of every use of a table value; path-sensitive pending-error walk over go/cfg",
		Explanation: "DATE_FORMAT is driven by function.dateFormatSpecifierToFunc (a nil entry delegates the specifier to the default table of the strftime library, letters outside the table are " +
			"copied literally) and STR_TO_DATE by dateparse.formatSpecifiers (a nil entry means 'not supported for parsing'). Decided: (K1) both tables have the same specifier key set (apart from '%'), " +
			"so no specifier is formatted as a field by one function and treated as unknown/literal by the other; (K2) every value read from the parser table is used only on paths where it " +
			"was tested non-nil, and the nil branch returns an error (an unsupported specifier is reported, never called or silently skipped); (K3) every nil entry of the formatter table is a key of " +
			"strftime's defaultSpecifications (otherwise DATE_FORMAT fails for that specifier), and the registration loop uses a table value only after a non-nil test. " +
			"(K4) an invalid date is flagged, not silently shifted: in the date/time conversion functions of sql/types (result time.Time, or methods of the datetime type) no return answers a nil error on a path where an error bound from a call is still pending - not established nil by a plain nil test, not handed on (the parser reports a non-existent date as a best-effort value plus ErrTruncatedIncorrect, and that report must reach the caller); layout probing in parseDatetime and the zero-date short-circuit of ConvertToTime are named exceptions.",
		NotCovered: "that formatter and parser are inverse on values for each specifier, that strftime's default implementation of a delegated specifier matches MySQL's, " +
			"interval arithmetic, DATEDIFF/TIMESTAMPDIFF, rejection of invalid dates",
		Run: func(c *Ctx) {
			runC31(c, "sql/expression/function", "dateFormatSpecifierToFunc", "sql/planbuilder/dateparse", "formatSpecifiers",
				"github.com/lestrrat-go/strftime", "defaultSpecifications", 31, 11)
			runC31Err(c, "sql/types", map[string]bool{"datetimeType": true}, 0)
		},
		Fixture: func(c *Ctx, fx *Prog) {
			expectFixture(c, fx, "c31: key only on one side, unguarded nil use, nil formatter entry without library default must be reported",
				[]string{"C31-K1:%q", "C31-K1:%z", "C31-K2:parse/lookup", "C31-K2:parseAll/lookup", "C31-K3:%Q", "C31-K3:register/range"},
				func(fc *Ctx) {
					runC31(fc, "testdata/c31/format", "specToFunc", "testdata/c31/parse", "specifiers", "vchk/testdata/c31/lib", "defaults", 0, 0)
				})
			expectFixture(c, fx, "c31 err: a conversion answers nil while the parser's truncation report is pending",
				[]string{"C31-K4:vchk/testdata/c31/tconv.Drops/err<-parse/return t, nil"},
				func(fc *Ctx) { runC31Err(fc, "testdata/c31/tconv", map[string]bool{}, 0) })
		},
		FixturePkgs: []string{"./testdata/c31/format", "./testdata/c31/parse", "./testdata/c31/lib", "./testdata/c31/tconv"},
	})
}

type e6KV struct {
	key   constant.Value
	val   ast.Expr
	isNil bool
	pos   token.Pos
}

// e6MapLit reads a package-level map variable initialised by a composite literal with constant keys.
func e6MapLit(pk *packages.Package, name string) (*types.Var, []e6KV, string) {
	v, _ := pk.Types.Scope().Lookup(name).(*types.Var)
	if v == nil {
		return nil, nil, "variable " + name + " not found"
	}
	for _, f := range pk.Syntax {
		for _, d := range f.Decls {
			gd, ok := d.(*ast.GenDecl)
			if !ok || gd.Tok != token.VAR {
				continue
			}
			for _, sp := range gd.Specs {
				vs := sp.(*ast.ValueSpec)
				for i, n := range vs.Names {
					if pk.TypesInfo.Defs[n] != v {
						continue
					}
					if len(vs.Values) != len(vs.Names) {
						return v, nil, "no initialiser"
					}
					lit, ok := ast.Unparen(vs.Values[i]).(*ast.CompositeLit)
					if !ok {
						return v, nil, "initialiser is not a composite literal"
					}
					var out []e6KV
					for _, el := range lit.Elts {
						kv, ok := el.(*ast.KeyValueExpr)
						if !ok {
							return v, nil, "element without key"
						}
						tv := pk.TypesInfo.Types[kv.Key]
						if tv.Value == nil {
							return v, nil, "non-constant key at " + fmt.Sprint(pk.Fset.Position(kv.Key.Pos()).Line)
						}
						out = append(out, e6KV{tv.Value, kv.Value, isNilIdent(pk.TypesInfo, kv.Value), kv.Pos()})
					}
					return v, out, ""
				}
			}
		}
	}
	return v, nil, "declaration not found"
}

// e6AssignedElsewhere reports a statement that stores into the table outside its declaration (m[k] = v, delete(m, k), m = ...).
func e6AssignedElsewhere(p *Prog, v *types.Var) token.Pos {
	var found token.Pos
	for _, pk := range p.Module {
		if pk.Types != v.Pkg() {
			continue
		}
		for _, f := range pk.Syntax {
			ast.Inspect(f, func(n ast.Node) bool {
				switch s := n.(type) {
				case *ast.AssignStmt:
					for _, l := range s.Lhs {
						x := ast.Unparen(l)
						if ix, ok := x.(*ast.IndexExpr); ok {
							x = ast.Unparen(ix.X)
						}
						if id, ok := x.(*ast.Ident); ok && pk.TypesInfo.Uses[id] == v {
							found = s.Pos()
						}
					}
				case *ast.CallExpr:
					if IsBuiltinCall(pk.TypesInfo, s, "delete") && len(s.Args) > 0 {
						if id, ok := ast.Unparen(s.Args[0]).(*ast.Ident); ok && pk.TypesInfo.Uses[id] == v {
							found = s.Pos()
						}
					}
				}
				return true
			})
		}
	}
	return found
}

func c31SpecName(v constant.Value) string {
	if n, ok := constant.Int64Val(v); ok && n >= 32 && n < 127 {
		return "%" + string(rune(n))
	}
	return "%" + v.ExactString()
}

func runC31(c *Ctx, fmtRel, fmtTable, parseRel, parseTable, libPath, libTable string, floorKeys, floorNil int) {
	c.Rule("C31-K1", "per specifier in the union of "+fmtTable+" and "+parseTable+" (minus '%'): it is a key of both tables", floorKeys)
	c.Rule("C31-K2", "per read of a "+parseTable+" value: every use of the value lies on a path where it was tested non-nil; the table is not modified after its declaration", 1)
	c.Rule("C31-K3", "per nil entry of "+fmtTable+": the specifier is a key of the library's "+libTable+"; per read of a "+fmtTable+" value: used only after a non-nil test", floorNil+1)
	if c.fixtureMode {
		c.Rule("C31-K2", "", 0)
		c.Rule("C31-K3", "", 0)
	}
	fp, pp := c.P.Pkg(fmtRel), c.P.Pkg(parseRel)
	lp := c.P.ByPath[libPath]
	if fp == nil || pp == nil || lp == nil {
		c.Undecided("C31-K1", "packages", 0, fmt.Sprintf("anchor packages not loaded: %s %v, %s %v, %s %v", fmtRel, fp != nil, parseRel, pp != nil, libPath, lp != nil))
		return
	}
	fv, fkv, e1 := e6MapLit(fp, fmtTable)
	pv, pkv, e2 := e6MapLit(pp, parseTable)
	_, lkv, e3 := e6MapLit(lp, libTable)
	for _, e := range []struct{ n, e string }{{fmtTable, e1}, {parseTable, e2}, {libTable, e3}} {
		if e.e != "" {
			c.Undecided("C31-K1", e.n, 0, "table not readable: "+e.e)
		}
	}
	if e1 != "" || e2 != "" || e3 != "" {
		return
	}
	toSet := func(kvs []e6KV) map[string]e6KV {
		m := map[string]e6KV{}
		for _, kv := range kvs {
			m[c31SpecName(kv.key)] = kv
		}
		return m
	}
	fs, ps, ls := toSet(fkv), toSet(pkv), toSet(lkv)
	union := map[string]bool{}
	for k := range fs {
		union[k] = true
	}
	for k := range ps {
		union[k] = true
	}
	delete(union, "%%")
	var keys []string
	for k := range union {
		keys = append(keys, k)
	}
	sort.Strings(keys)
	var parserUnsupported []string
	for _, k := range keys {
		f, inF := fs[k]
		p, inP := ps[k]
		switch {
		case inF && inP:
			c.Ok("C31-K1", k, f.pos, "")
			if p.isNil {
				parserUnsupported = append(parserUnsupported, k)
			}
		case inF:
			c.Bad("C31-K1", k, f.pos, fmt.Sprintf("specifier %s is a key of %s but not of %s: DATE_FORMAT renders it as a field, STR_TO_DATE rejects it as an unknown specifier", k, fmtTable, parseTable))
		default:
			c.Bad("C31-K1", k, p.pos, fmt.Sprintf("specifier %s is a key of %s but not of %s: STR_TO_DATE parses it as a field, DATE_FORMAT copies the letter literally", k, parseTable, fmtTable))
		}
	}
	c.Notef("specifiers the parser declares unsupported (nil, must be reported as errors - K2): %v", parserUnsupported)

	// K2: uses of parser-table values
	if pos := e6AssignedElsewhere(c.P, pv); pos.IsValid() {
		c.Bad("C31-K2", "table-modified", pos, parseTable+" is modified after its declaration: the key set read from the literal is not the run-time table")
	}
	c31GuardedReads(c, "C31-K2", pp, pv, true)

	// K3: nil formatter entries delegate to the library default
	var nilKeys []string
	for k, kv := range fs {
		if kv.isNil {
			nilKeys = append(nilKeys, k)
		}
	}
	sort.Strings(nilKeys)
	for _, k := range nilKeys {
		_, ok := ls[k]
		c.Check(ok, "C31-K3", k, fs[k].pos, "delegated to the library default",
			fmt.Sprintf("%s[%s] is nil (delegated to the strftime library) but %s.%s has no entry for it: DATE_FORMAT with %s fails with an unknown-specification error", fmtTable, k, libPath, libTable, k))
	}
	if pos := e6AssignedElsewhere(c.P, fv); pos.IsValid() {
		c.Bad("C31-K3", "table-modified", pos, fmtTable+" is modified after its declaration")
	}
	c31GuardedReads(c, "C31-K3", fp, fv, false)
}

// c31GuardedReads finds every place of package pk where a value of table tv is bound to a variable (v, ok := T[k]; v := T[k];
// for k, v := range T) or used directly, and decides on the CFG that the variable is used only on non-nil edges.
// With errOnNil, the branch on which the value is nil must not reach a successful return (a return whose error result is
// the literal nil, or the end of the function): the nil entry has to be reported.
func c31GuardedReads(c *Ctx, rule string, pk *packages.Package, tv *types.Var, errOnNil bool) {
	info := pk.TypesInfo
	isTable := func(x ast.Expr) bool {
		id, ok := ast.Unparen(x).(*ast.Ident)
		return ok && info.Uses[id] == tv
	}
	for _, file := range pk.Syntax {
		for _, d := range file.Decls {
			fd, ok := d.(*ast.FuncDecl)
			if !ok || fd.Body == nil {
				continue
			}
			type read struct {
				obj  types.Object
				kind string
				pos  token.Pos
			}
			var reads []read
			handled := map[ast.Node]bool{}
			// bodies: the function and every function literal inside it are separate CFGs
			var bodies []*ast.BlockStmt
			bodies = append(bodies, fd.Body)
			ast.Inspect(fd.Body, func(n ast.Node) bool {
				if fl, ok := n.(*ast.FuncLit); ok {
					bodies = append(bodies, fl.Body)
				}
				return true
			})
			ast.Inspect(fd.Body, func(n ast.Node) bool {
				switch s := n.(type) {
				case *ast.AssignStmt:
					if len(s.Rhs) == 1 {
						if ix, ok := ast.Unparen(s.Rhs[0]).(*ast.IndexExpr); ok && isTable(ix.X) {
							handled[ix] = true
							if id, ok := s.Lhs[0].(*ast.Ident); ok && id.Name != "_" {
								o := info.Defs[id]
								if o == nil {
									o = info.Uses[id]
								}
								reads = append(reads, read{o, "lookup", s.Pos()})
							}
						}
					}
				case *ast.RangeStmt:
					if isTable(s.X) {
						if id, ok := s.Value.(*ast.Ident); ok && id.Name != "_" {
							o := info.Defs[id]
							if o == nil {
								o = info.Uses[id]
							}
							reads = append(reads, read{o, "range", s.Pos()})
						}
					}
				case *ast.IndexExpr:
					if isTable(s.X) && !handled[s] {
						// direct use T[k](...) / passing T[k] on: no test possible
						c.Bad(rule, DeclName(fd)+"/direct", s.Pos(), "value of "+tv.Name()+" is used directly without a nil test")
					}
				}
				return true
			})
			for _, r := range reads {
				if r.obj == nil {
					continue
				}
				key := DeclName(fd) + "/" + r.kind
				var path []ast.Node
				for _, body := range bodies {
					if p := c31UnguardedUse(c.P, info, body, r.obj); p != nil {
						path = p
						break
					}
				}
				if path == nil && errOnNil {
					for _, body := range bodies {
						if p := c31NilBranchSucceeds(c.P, info, body, r.obj); p != nil {
							c.Bad(rule, key, r.pos, fmt.Sprintf("on the branch where %s (read from %s) is nil the function can still return successfully: an unsupported specifier is skipped silently instead of being reported as an error", r.obj.Name(), tv.Name()), c.P.DescribePath(p)...)
							path = p
							break
						}
					}
					if path != nil {
						continue
					}
				}
				if path == nil {
					c.Ok(rule, key, r.pos, "every use of "+r.obj.Name()+" follows a non-nil test")
				} else {
					c.Bad(rule, key, r.pos, fmt.Sprintf("value %s read from %s reaches a use without a preceding non-nil test: a nil entry (unsupported / delegated specifier) is called or passed on instead of being reported", r.obj.Name(), tv.Name()), c.P.DescribePath(path)...)
				}
			}
		}
	}
}

// c31UnguardedUse returns a CFG path from the entry of body to a node that uses obj, along which no edge establishes
// obj != nil. Comparisons of obj with nil and assignments to obj are not uses.
func c31UnguardedUse(p *Prog, info *types.Info, body *ast.BlockStmt, obj types.Object) []ast.Node {
	g := p.CFG(info, body)
	uses := func(n ast.Node) bool {
		found := false
		var walk func(n ast.Node)
		walk = func(n ast.Node) {
			ast.Inspect(n, func(m ast.Node) bool {
				if found {
					return false
				}
				switch x := m.(type) {
				case *ast.FuncLit:
					return false // separate body, analysed on its own CFG
				case *ast.BinaryExpr:
					if (x.Op == token.EQL || x.Op == token.NEQ) && (isNilIdent(info, x.X) || isNilIdent(info, x.Y)) {
						return false
					}
				case *ast.AssignStmt:
					for _, r := range x.Rhs {
						walk(r)
					}
					for _, l := range x.Lhs {
						if _, isId := ast.Unparen(l).(*ast.Ident); !isId {
							walk(l)
						}
					}
					return false
				case *ast.RangeStmt:
					walk(x.X)
					return false
				case *ast.Ident:
					if info.Uses[x] == obj {
						found = true
					}
				}
				return true
			})
		}
		walk(n)
		return found
	}
	edgeOK := func(b *cfg.Block, succ int) bool {
		o, nonNil, ok := ErrNilEdge(info, b, succ)
		if ok && o == obj && nonNil {
			return false
		}
		return true
	}
	return PathAvoiding(g, EntryPoint(g), nil, uses, edgeOK)
}

// c31NilBranchSucceeds returns a path from an edge on which obj is known to be nil to a successful exit of the function.
func c31NilBranchSucceeds(p *Prog, info *types.Info, body *ast.BlockStmt, obj types.Object) []ast.Node {
	g := p.CFG(info, body)
	success := func(n ast.Node) bool {
		ret, ok := n.(*ast.ReturnStmt)
		if !ok {
			return false
		}
		if len(ret.Results) == 0 {
			return true
		}
		last := ret.Results[len(ret.Results)-1]
		if tv, ok := info.Types[last]; ok && IsErrorType(tv.Type) {
			return false // returns an error value
		}
		if isNilIdent(info, last) {
			return true
		}
		if call, ok := ast.Unparen(last).(*ast.CallExpr); ok && len(ret.Results) == 1 {
			_ = call
			return false // return f(...): not decided as success
		}
		return true // no error result at all
	}
	for _, b := range g.Blocks {
		for si, succ := range b.Succs {
			o, nonNil, ok := ErrNilEdge(info, b, si)
			if !ok || o != obj || nonNil {
				continue
			}
			// search from the start of the nil successor
			if path := PathAvoiding(g, CFGPoint{succ, -1}, nil, success, nil); path != nil {
				return path
			}
			// falling off the end of the function is a success too
			if path := PathAvoiding(g, CFGPoint{succ, -1}, func(n ast.Node) bool { _, r := n.(*ast.ReturnStmt); return r }, nil, nil); path != nil && path[len(path)-1] == nil {
				return path
			}
		}
	}
	return nil
}

var _ = strings.Join
