package main

import (
	"fmt"
	"go/ast"
	"go/constant"
	"go/token"
	"go/types"
	"sort"
	"strings"

	"golang.org/x/tools/go/packages"
)

func init() {
	register(&Property{
		ID:        "C32",
		Patterns:  []string{"./internal/strings"},
		Thorough:  []string{"./internal/strings"},
		Technique: "constant-table folding (go/constant) + sibling agreement over switch arms + zone-domain bounds analysis on go/ssa",
		Explanation: "JSON_UNQUOTE(JSON_QUOTE(s)) = s, structural part, and crash freedom of the quoting kernels in internal/strings. Decided: (Q1) the writer's escape table " +
			"quoteEscape (read by folding its initialiser: the loop over the control range and the constant-index stores) maps every escaped byte to an escape that both readers " +
			"(Unquote, UnquoteBytes) map back to exactly that byte: two-byte escapes through the readers' switch arms, \\u00XX escapes through the arm that calls decodeEscapedUnicode with the " +
			"hex digits of that byte; (Q1s) every byte the readers treat specially when it is not escaped (the escape introducer, the surrounding quote) is escaped by the writer; (Q1r) the two reader " +
			"siblings have identical escape arms; (Q2) every index and slice expression in Unquote, UnquoteBytes, decodeEscapedUnicode and Quote is in range on every path (zone-domain abstract " +
			"interpretation with facts from dominating comparisons, loop headers, earlier successful accesses and callee return intervals). A violated Q1 entry is a string whose round trip " +
			"changes it; a violated Q2 expression is an input that panics out of JSON_UNQUOTE/JSON_QUOTE.",
		NotCovered: "JSON document round trip, canonical key order, JSON comparison, path functions (JSON_SET/EXTRACT/REMOVE/ARRAY_APPEND); Quote's handling of invalid UTF-8 (\\ufffd is lossy by design); " +
			"that decodeEscapedUnicode's hex/UTF-8 library calls compute the code point (library semantics are trusted)",
		Run: func(c *Ctx) {
			runC32(c, "internal/strings", "quoteEscape", []string{"Unquote", "UnquoteBytes"}, "decodeEscapedUnicode", []string{"Quote"}, 34, 10, 24)
		},
		Fixture: func(c *Ctx, fx *Prog) {
			expectFixture(c, fx, "c32: wrong table entry, unescaped introducer, sibling arm mismatch, off-by-one guard and trailing-backslash fall-through must be reported",
				[]string{
					"C32-Q1:quoteEscape[0x09]",
					"C32-Q1:quoteEscape[0x0a]",
					"C32-Q1s:special/0x5c",
					"C32-Q1r:arm/'n'",
					"C32-Q1r:arm/'t'",
					"C32-Q2:Unquote/s[i + 1:i + 5]",
					"C32-Q2:UnquoteBytes/b[i]",
					"C32-Q2:decodeEscapedUnicode/char[0:size]",
				},
				func(fc *Ctx) {
					runC32(fc, "testdata/c32/strs", "quoteEscape", []string{"Unquote", "UnquoteBytes"}, "decodeEscapedUnicode", nil, 0, 0, 0)
				})
		},
		FixturePkgs: []string{"./testdata/c32/strs"},
	})
}

type c32Reader struct {
	name       string
	fd         *ast.FuncDecl
	arms       map[byte]string // label -> "const:<byte>" | "decode" | "other"
	armPos     map[byte]token.Pos
	deflt      string // "self" (writes the escaped character itself) | "other" | ""
	introducer int    // byte compared against the input before the switch (-1 unknown)
	special    map[byte]bool
	pos        token.Pos
}

func runC32(c *Ctx, rel, tableVar string, readers []string, decodeFn string, extraKernels []string, floorQ1, floorQ1r, floorQ2 int) {
	c.Rule("C32-Q1", "every byte b with a non-empty entry in the writer's escape table: both readers map the entry back to b (two-byte escape: reader arm for its second character writes b; \\uXXXX escape: reader has a decode arm for 'u' and XXXX is the hex value of b)", floorQ1)
	c.Rule("C32-Q1s", "every byte a reader compares its input against outside the escape switch (escape introducer, surrounding quote) is escaped by the writer's table", 2)
	c.Rule("C32-Q1r", "the reader siblings have identical escape arms (label -> byte written / decode call / default writes the character itself)", floorQ1r)
	c.Rule("C32-Q2", "every index/slice expression of the quoting kernels is in range on every path (bounds engine)", floorQ2)
	if c.fixtureMode {
		c.Rule("C32-Q1s", "", 0)
	}
	pk := c.P.Pkg(rel)
	if pk == nil {
		c.Undecided("C32-Q1", "package", 0, "package "+rel+" not loaded")
		return
	}
	// ---- Q2 bounds
	var fns []*types.Func
	for _, n := range append(append(append([]string{}, readers...), decodeFn), extraKernels...) {
		fns = append(fns, LookupFunc(pk, n))
	}
	BoundsCheckFuncs(c, "C32-Q2", fns)

	// ---- writer table
	tbl, tpos, err := c32FoldTable(c, pk, tableVar)
	if err != nil {
		c.Undecided("C32-Q1", tableVar, tpos, "escape table initialiser not readable: "+err.Error())
		return
	}
	// ---- readers
	var rds []*c32Reader
	for _, rn := range readers {
		fn := LookupFunc(pk, rn)
		fd := c.P.Decl(fn)
		if fd == nil {
			c.Undecided("C32-Q1r", rn, 0, "reader function not found")
			return
		}
		r, err := c32ReadReader(c, pk, fd, LookupFunc(pk, decodeFn))
		if err != nil {
			c.Undecided("C32-Q1r", rn, fd.Pos(), "reader's escape switch not readable: "+err.Error())
			return
		}
		r.name = rn
		rds = append(rds, r)
	}
	// Q1: writer entries decode back
	var bs []int
	for b := range tbl {
		bs = append(bs, b)
	}
	sort.Ints(bs)
	for _, b := range bs {
		esc := tbl[b]
		key := fmt.Sprintf("%s[0x%02x]", tableVar, b)
		var bad []string
		for _, r := range rds {
			if r.introducer < 0 || len(esc) < 2 || esc[0] != byte(r.introducer) {
				bad = append(bad, fmt.Sprintf("%s: escape %q does not start with the reader's escape introducer", r.name, esc))
				continue
			}
			arm, has := r.arms[esc[1]]
			switch {
			case len(esc) == 2 && has && arm == fmt.Sprintf("const:%d", b):
			case len(esc) == 2 && !has && r.deflt == "self" && esc[1] == byte(b):
				// unknown escapes drop the introducer and keep the character
			case len(esc) == 6 && has && arm == "decode":
				v, ok := c32Hex4(esc[2:])
				if !ok || v != b {
					bad = append(bad, fmt.Sprintf("%s: escape %q does not spell the code point of byte 0x%02x in four hex digits", r.name, esc, b))
				}
			default:
				got := "no arm for " + fmt.Sprintf("%q", esc[1])
				if has {
					got = "arm " + fmt.Sprintf("%q", esc[1]) + " -> " + c32ArmStr(arm)
				}
				bad = append(bad, fmt.Sprintf("%s: byte 0x%02x is written as %q but the reader has %s", r.name, b, esc, got))
			}
		}
		if len(bad) == 0 {
			c.Ok("C32-Q1", key, tpos, fmt.Sprintf("%q", esc))
		} else {
			c.Bad("C32-Q1", key, tpos, fmt.Sprintf("byte 0x%02x does not survive Quote then Unquote: %s", b, strings.Join(bad, "; ")))
		}
	}
	// Q1s: special bytes are escaped
	special := map[byte][]string{}
	for _, r := range rds {
		for b := range r.special {
			special[b] = append(special[b], r.name)
		}
	}
	var sp []int
	for b := range special {
		sp = append(sp, int(b))
	}
	sort.Ints(sp)
	for _, b := range sp {
		key := fmt.Sprintf("special/0x%02x", b)
		sort.Strings(special[byte(b)])
		c.Check(tbl[b] != "", "C32-Q1s", key, tpos, fmt.Sprintf("%q escaped as %q", rune(b), tbl[b]),
			fmt.Sprintf("readers %v treat an unescaped %q specially but the writer's table does not escape it: a string containing it does not round-trip", special[byte(b)], rune(b)))
	}
	// Q1r: sibling agreement
	if len(rds) >= 2 {
		labels := map[byte]bool{}
		for _, r := range rds {
			for l := range r.arms {
				labels[l] = true
			}
		}
		var ls []int
		for l := range labels {
			ls = append(ls, int(l))
		}
		sort.Ints(ls)
		for _, l := range ls {
			key := fmt.Sprintf("arm/%q", rune(l))
			var desc []string
			same := true
			for i, r := range rds {
				a, has := r.arms[byte(l)]
				if !has {
					a = "(no arm)"
				}
				desc = append(desc, r.name+": "+c32ArmStr(a))
				if i > 0 {
					a0, has0 := rds[0].arms[byte(l)]
					if has != has0 || a != a0 {
						same = false
					}
				}
			}
			pos := rds[0].armPos[byte(l)]
			if !pos.IsValid() {
				pos = rds[1].armPos[byte(l)]
			}
			c.Check(same, "C32-Q1r", key, pos, strings.Join(desc, ", "), "the reader siblings disagree on escape "+fmt.Sprintf("%q", rune(l))+": "+strings.Join(desc, ", "))
		}
		same := true
		var desc []string
		for _, r := range rds {
			desc = append(desc, r.name+": "+r.deflt)
			if r.deflt != rds[0].deflt {
				same = false
			}
		}
		c.Check(same && rds[0].deflt != "", "C32-Q1r", "arm/default", rds[0].pos, strings.Join(desc, ", "), "the reader siblings disagree on unknown escapes (or have no default arm): "+strings.Join(desc, ", "))
		same = true
		desc = nil
		for _, r := range rds {
			desc = append(desc, fmt.Sprintf("%s: 0x%02x", r.name, r.introducer))
			if r.introducer != rds[0].introducer {
				same = false
			}
		}
		c.Check(same && rds[0].introducer >= 0, "C32-Q1r", "introducer", rds[0].pos, strings.Join(desc, ", "), "the reader siblings disagree on the escape introducer: "+strings.Join(desc, ", "))
	}
}

func c32ArmStr(a string) string {
	if strings.HasPrefix(a, "const:") {
		var v int
		fmt.Sscanf(a, "const:%d", &v)
		return fmt.Sprintf("writes 0x%02x", v)
	}
	return a
}

func c32Hex4(s string) (int, bool) {
	if len(s) != 4 {
		return 0, false
	}
	v := 0
	for i := 0; i < 4; i++ {
		ch := s[i]
		switch {
		case ch >= '0' && ch <= '9':
			v = v*16 + int(ch-'0')
		case ch >= 'a' && ch <= 'f':
			v = v*16 + int(ch-'a') + 10
		case ch >= 'A' && ch <= 'F':
			v = v*16 + int(ch-'A') + 10
		default:
			return 0, false
		}
	}
	return v, true
}

// c32FoldTable reads `var T = func() (t [N]string) { for c := K0; c < K1; c++ { t[c] = e }; t[K] = "…"; return t }()`
// as a finite table by folding constants; statements are applied in order.
func c32FoldTable(c *Ctx, pk *packages.Package, name string) (map[int]string, token.Pos, error) {
	info := pk.TypesInfo
	var lit *ast.FuncLit
	var pos token.Pos
	for _, f := range pk.Syntax {
		for _, d := range f.Decls {
			gd, ok := d.(*ast.GenDecl)
			if !ok || gd.Tok != token.VAR {
				continue
			}
			for _, sp := range gd.Specs {
				vs := sp.(*ast.ValueSpec)
				for i, n := range vs.Names {
					if n.Name == name && info.Defs[n] != nil && info.Defs[n].Parent() == pk.Types.Scope() && i < len(vs.Values) {
						pos = n.Pos()
						if call, ok := vs.Values[i].(*ast.CallExpr); ok && len(call.Args) == 0 {
							lit, _ = ast.Unparen(call.Fun).(*ast.FuncLit)
						}
					}
				}
			}
		}
	}
	if lit == nil {
		return nil, pos, fmt.Errorf("package-level var %s initialised by an immediately-called function literal not found", name)
	}
	if lit.Type.Results == nil || len(lit.Type.Results.List) != 1 || len(lit.Type.Results.List[0].Names) != 1 {
		return nil, pos, fmt.Errorf("initialiser has no single named result")
	}
	tObj := info.Defs[lit.Type.Results.List[0].Names[0]]
	tbl := map[int]string{}
	assign := func(s ast.Stmt, env map[types.Object]constant.Value) error {
		as, ok := s.(*ast.AssignStmt)
		if !ok || as.Tok != token.ASSIGN || len(as.Lhs) != 1 || len(as.Rhs) != 1 {
			return fmt.Errorf("unsupported statement at %s", c.P.Rel(s.Pos()))
		}
		ix, ok := as.Lhs[0].(*ast.IndexExpr)
		if !ok {
			return fmt.Errorf("unsupported assignment target at %s", c.P.Rel(s.Pos()))
		}
		if id, ok := ix.X.(*ast.Ident); !ok || info.Uses[id] != tObj {
			return fmt.Errorf("assignment to something other than the table at %s", c.P.Rel(s.Pos()))
		}
		k, err := c32Eval(c, info, ix.Index, env)
		if err != nil {
			return err
		}
		v, err := c32Eval(c, info, as.Rhs[0], env)
		if err != nil {
			return err
		}
		ki, ok := constant.Int64Val(constant.ToInt(k))
		if !ok || v.Kind() != constant.String || ki < 0 || ki > 255 {
			return fmt.Errorf("table store with a non-byte index or non-string value at %s", c.P.Rel(s.Pos()))
		}
		if sv := constant.StringVal(v); sv == "" {
			delete(tbl, int(ki))
		} else {
			tbl[int(ki)] = sv
		}
		return nil
	}
	for _, s := range lit.Body.List {
		switch s := s.(type) {
		case *ast.ForStmt:
			init, ok := s.Init.(*ast.AssignStmt)
			if !ok || init.Tok != token.DEFINE || len(init.Lhs) != 1 || len(init.Rhs) != 1 {
				return nil, pos, fmt.Errorf("unsupported loop init at %s", c.P.Rel(s.Pos()))
			}
			lv := info.Defs[init.Lhs[0].(*ast.Ident)]
			start, err := c32Eval(c, info, init.Rhs[0], nil)
			if err != nil {
				return nil, pos, err
			}
			post, ok := s.Post.(*ast.IncDecStmt)
			if !ok || post.Tok != token.INC {
				return nil, pos, fmt.Errorf("unsupported loop post statement at %s", c.P.Rel(s.Pos()))
			}
			if id, ok := post.X.(*ast.Ident); !ok || info.Uses[id] != lv {
				return nil, pos, fmt.Errorf("loop post statement does not increment the loop variable at %s", c.P.Rel(s.Pos()))
			}
			cur := start
			for n := 0; ; n++ {
				if n > 256 {
					return nil, pos, fmt.Errorf("loop at %s does not terminate within 256 iterations", c.P.Rel(s.Pos()))
				}
				env := map[types.Object]constant.Value{lv: cur}
				cond, err := c32Eval(c, info, s.Cond, env)
				if err != nil {
					return nil, pos, err
				}
				if cond.Kind() != constant.Bool {
					return nil, pos, fmt.Errorf("non-boolean loop condition")
				}
				if !constant.BoolVal(cond) {
					break
				}
				for _, bs := range s.Body.List {
					if err := assign(bs, env); err != nil {
						return nil, pos, err
					}
				}
				cur = constant.BinaryOp(cur, token.ADD, constant.MakeInt64(1))
			}
		case *ast.AssignStmt:
			if err := assign(s, nil); err != nil {
				return nil, pos, err
			}
		case *ast.ReturnStmt:
			return tbl, pos, nil
		default:
			return nil, pos, fmt.Errorf("unsupported statement %T at %s", s, c.P.Rel(s.Pos()))
		}
	}
	return tbl, pos, nil
}

// c32Eval folds an expression of the table initialiser: constants, the loop variable, integer
// operators, constant-string indexing and string([]byte{…}).
func c32Eval(c *Ctx, info *types.Info, x ast.Expr, env map[types.Object]constant.Value) (constant.Value, error) {
	if tv, ok := info.Types[x]; ok && tv.Value != nil {
		return tv.Value, nil
	}
	switch x := x.(type) {
	case *ast.ParenExpr:
		return c32Eval(c, info, x.X, env)
	case *ast.Ident:
		if v, ok := env[info.Uses[x]]; ok {
			return v, nil
		}
	case *ast.BinaryExpr:
		l, err := c32Eval(c, info, x.X, env)
		if err != nil {
			return nil, err
		}
		r, err := c32Eval(c, info, x.Y, env)
		if err != nil {
			return nil, err
		}
		switch x.Op {
		case token.SHL, token.SHR:
			n, ok := constant.Uint64Val(constant.ToInt(r))
			if !ok || n > 62 {
				return nil, fmt.Errorf("bad shift count at %s", c.P.Rel(x.Pos()))
			}
			return constant.Shift(constant.ToInt(l), x.Op, uint(n)), nil
		case token.EQL, token.NEQ, token.LSS, token.LEQ, token.GTR, token.GEQ:
			return constant.MakeBool(constant.Compare(l, x.Op, r)), nil
		case token.QUO:
			if l.Kind() == constant.Int && r.Kind() == constant.Int {
				if constant.Sign(r) == 0 {
					return nil, fmt.Errorf("division by zero at %s", c.P.Rel(x.Pos()))
				}
				return constant.BinaryOp(l, token.QUO_ASSIGN, r), nil
			}
		}
		if l.Kind() != r.Kind() {
			return nil, fmt.Errorf("mixed operand kinds at %s", c.P.Rel(x.Pos()))
		}
		return constant.BinaryOp(l, x.Op, r), nil
	case *ast.IndexExpr:
		s, err := c32Eval(c, info, x.X, env)
		if err != nil {
			return nil, err
		}
		i, err := c32Eval(c, info, x.Index, env)
		if err != nil {
			return nil, err
		}
		iv, ok := constant.Int64Val(constant.ToInt(i))
		if s.Kind() != constant.String || !ok || iv < 0 || iv >= int64(len(constant.StringVal(s))) {
			return nil, fmt.Errorf("index out of range or not a constant string at %s", c.P.Rel(x.Pos()))
		}
		return constant.MakeInt64(int64(constant.StringVal(s)[iv])), nil
	case *ast.CallExpr:
		// string([]byte{a, b, …})
		if tv, ok := info.Types[x.Fun]; ok && tv.IsType() && len(x.Args) == 1 {
			if b, ok := tv.Type.Underlying().(*types.Basic); ok && b.Info()&types.IsString != 0 {
				if cl, ok := ast.Unparen(x.Args[0]).(*ast.CompositeLit); ok && bndBytesOrString(info.Types[cl].Type) {
					var out []byte
					for _, el := range cl.Elts {
						if _, isKV := el.(*ast.KeyValueExpr); isKV {
							return nil, fmt.Errorf("keyed byte literal at %s", c.P.Rel(el.Pos()))
						}
						v, err := c32Eval(c, info, el, env)
						if err != nil {
							return nil, err
						}
						iv, ok := constant.Int64Val(constant.ToInt(v))
						if !ok || iv < 0 || iv > 255 {
							return nil, fmt.Errorf("non-byte element at %s", c.P.Rel(el.Pos()))
						}
						out = append(out, byte(iv))
					}
					return constant.MakeString(string(out)), nil
				}
			}
		}
	}
	return nil, fmt.Errorf("expression not foldable at %s: %s", c.P.Rel(x.Pos()), types.ExprString(x))
}

// c32ReadReader extracts the escape switch of a reader: the switch whose tag indexes the
// function's first parameter and whose labels are byte constants.
func c32ReadReader(c *Ctx, pk *packages.Package, fd *ast.FuncDecl, decode *types.Func) (*c32Reader, error) {
	info := pk.TypesInfo
	if fd.Type.Params == nil || len(fd.Type.Params.List) == 0 || len(fd.Type.Params.List[0].Names) == 0 {
		return nil, fmt.Errorf("no input parameter")
	}
	param := info.Defs[fd.Type.Params.List[0].Names[0]]
	onParam := func(x ast.Expr) bool {
		ix, ok := ast.Unparen(x).(*ast.IndexExpr)
		if !ok {
			return false
		}
		id, ok := ast.Unparen(ix.X).(*ast.Ident)
		return ok && info.Uses[id] == param
	}
	byteConst := func(x ast.Expr) (byte, bool) {
		tv, ok := info.Types[x]
		if !ok || tv.Value == nil {
			return 0, false
		}
		v, ok := constant.Int64Val(constant.ToInt(tv.Value))
		if !ok || v < 0 || v > 255 {
			return 0, false
		}
		return byte(v), true
	}
	var sw *ast.SwitchStmt
	var encl []ast.Node
	var stack []ast.Node
	ast.Inspect(fd.Body, func(n ast.Node) bool {
		if n == nil {
			stack = stack[:len(stack)-1]
			return true
		}
		stack = append(stack, n)
		if s, ok := n.(*ast.SwitchStmt); ok && sw == nil && s.Tag != nil && onParam(s.Tag) {
			sw = s
			encl = append([]ast.Node{}, stack...)
		}
		return true
	})
	if sw == nil {
		return nil, fmt.Errorf("no switch over an element of the input parameter")
	}
	r := &c32Reader{fd: fd, arms: map[byte]string{}, armPos: map[byte]token.Pos{}, introducer: -1, special: map[byte]bool{}, pos: sw.Pos()}
	tagStr := types.ExprString(sw.Tag)
	// what an arm writes: the single statement WriteByte(K) / param[...] = K
	written := func(body []ast.Stmt) string {
		if len(body) != 1 {
			if ContainsCall(info, &ast.BlockStmt{List: body}, func(fn *types.Func, _ *ast.CallExpr) bool { return decode != nil && fn == decode }) {
				return "decode"
			}
			return "other"
		}
		var val ast.Expr
		switch s := body[0].(type) {
		case *ast.ExprStmt:
			if call, ok := s.X.(*ast.CallExpr); ok && len(call.Args) == 1 {
				if fn := Callee(info, call); fn != nil && FullName(fn) == "bytes.Buffer.WriteByte" {
					val = call.Args[0]
				}
			}
		case *ast.AssignStmt:
			if s.Tok == token.ASSIGN && len(s.Lhs) == 1 && len(s.Rhs) == 1 && onParam(s.Lhs[0]) {
				val = s.Rhs[0]
			}
		}
		if val == nil {
			return "other"
		}
		if b, ok := byteConst(val); ok {
			return fmt.Sprintf("const:%d", b)
		}
		if types.ExprString(ast.Unparen(val)) == tagStr {
			return "self"
		}
		return "other"
	}
	for _, cs := range sw.Body.List {
		cc := cs.(*ast.CaseClause)
		w := written(cc.Body)
		if cc.List == nil {
			r.deflt = w
			continue
		}
		for _, l := range cc.List {
			b, ok := byteConst(l)
			if !ok {
				return nil, fmt.Errorf("non-constant case label at %s", c.P.Rel(l.Pos()))
			}
			r.arms[b] = w
			r.armPos[b] = cc.Pos()
		}
	}
	// the introducer: the innermost enclosing `if param[i] == K`
	for i := len(encl) - 1; i >= 0; i-- {
		ifs, ok := encl[i].(*ast.IfStmt)
		if !ok {
			continue
		}
		if be, ok := ast.Unparen(ifs.Cond).(*ast.BinaryExpr); ok && be.Op == token.EQL {
			if b, ok := byteConst(be.Y); ok && onParam(be.X) {
				r.introducer = int(b)
				break
			}
			if b, ok := byteConst(be.X); ok && onParam(be.Y) {
				r.introducer = int(b)
				break
			}
		}
	}
	// special bytes: byte constants compared with == / != anywhere outside the switch's case labels
	ast.Inspect(fd.Body, func(n ast.Node) bool {
		if n == sw.Body {
			return false
		}
		be, ok := n.(*ast.BinaryExpr)
		if !ok || (be.Op != token.EQL && be.Op != token.NEQ) {
			return true
		}
		for _, pair := range [][2]ast.Expr{{be.X, be.Y}, {be.Y, be.X}} {
			if b, ok := byteConst(pair[1]); ok {
				if tv, has := info.Types[pair[0]]; has && tv.Value == nil {
					if bt, isB := tv.Type.Underlying().(*types.Basic); isB && bt.Kind() == types.Uint8 {
						r.special[b] = true
					}
				}
			}
		}
		return true
	})
	return r, nil
}
