package main

import (
	"go/ast"
	"go/constant"
	"go/token"
	"go/types"
	"strings"
)

// C23 — further clauses around the executor node (registered under C23-T3 and C23-T5):
//
//	roles     NewTriggerExecutor(child, logic) stores its two parameters in two fields; Children() fixes their child
//	          index and the accessor methods their names. Every reader must use the same roles:
//	          buildTriggerExecutor builds the child iterator from the child accessor and takes the logic from the logic
//	          accessor; the selector of the placing transform returns false for (Parent is an executor, ChildNum = index
//	          of the logic) — otherwise the next trigger's executors are placed on the DML statements *inside* the
//	          previous trigger's body and fire for rows of other tables; the prepend selector returns false for the
//	          node that is the parent executor's logic — otherwise a nested executor's logic is prepended twice.
//	selection a trigger is appended to the applied set only under a conjunction that tests its table against the
//	          affected tables and its event against the detected event.
//	close     Close of an executor with a child closes the child on every path and returns that error (the child of an
//	          AFTER executor is the DML's table editor iterator: its Close completes or discards the statement).

type c23Roles struct {
	fieldOf  [2]*types.Var          // field that stores parameter 0 (child) / 1 (logic)
	accessor map[*types.Var]string  // field -> accessor method name
	index    map[*types.Var]int     // field -> index in Children()
	methods  map[string]*types.Func // accessor name -> method
}

func c23ReadRoles(e *c23Env) (*c23Roles, string) {
	info := e.planPk.TypesInfo
	ctor := LookupFunc(e.planPk, e.nm.newExecutor)
	fd := e.c.P.Decl(ctor)
	if fd == nil || fd.Type.Params.NumFields() < 2 {
		return nil, "constructor " + e.nm.newExecutor + " not found"
	}
	var params []types.Object
	for _, f := range fd.Type.Params.List {
		for _, n := range f.Names {
			params = append(params, info.Defs[n])
		}
	}
	r := &c23Roles{accessor: map[*types.Var]string{}, index: map[*types.Var]int{}, methods: map[string]*types.Func{}}
	ast.Inspect(fd.Body, func(n ast.Node) bool {
		kv, ok := n.(*ast.KeyValueExpr)
		if !ok {
			return true
		}
		key, ok := kv.Key.(*ast.Ident)
		if !ok {
			return true
		}
		fv, _ := info.Uses[key].(*types.Var)
		if fv == nil || !fv.IsField() {
			return true
		}
		for i := 0; i < 2; i++ {
			if c23Obj(info, kv.Value) == params[i] {
				r.fieldOf[i] = fv
			}
		}
		return true
	})
	if r.fieldOf[0] == nil || r.fieldOf[1] == nil || r.fieldOf[0] == r.fieldOf[1] {
		return nil, e.nm.newExecutor + " does not store its first two parameters in two distinct fields of a literal"
	}
	// accessors and Children() of the type that declares those fields
	for _, f := range e.planPk.Syntax {
		for _, d := range f.Decls {
			md, ok := d.(*ast.FuncDecl)
			if !ok || md.Body == nil || md.Recv == nil || len(md.Body.List) != 1 {
				continue
			}
			ret, ok := md.Body.List[0].(*ast.ReturnStmt)
			if !ok || len(ret.Results) != 1 {
				continue
			}
			// only methods of the struct that declares the two fields (not of types that embed it)
			declares := false
			if rt := c23Deref(info.TypeOf(md.Recv.List[0].Type)); rt != nil {
				if st, ok := rt.Underlying().(*types.Struct); ok {
					for i := 0; i < st.NumFields(); i++ {
						if st.Field(i) == r.fieldOf[0] {
							declares = true
						}
					}
				}
			}
			if !declares {
				continue
			}
			fieldOfSel := func(x ast.Expr) *types.Var {
				se, ok := ast.Unparen(x).(*ast.SelectorExpr)
				if !ok {
					return nil
				}
				v, _ := info.Uses[se.Sel].(*types.Var)
				if v == nil || (v != r.fieldOf[0] && v != r.fieldOf[1]) {
					return nil
				}
				return v
			}
			if v := fieldOfSel(ret.Results[0]); v != nil && md.Type.Params.NumFields() == 0 {
				r.accessor[v] = md.Name.Name
				if fn, ok := info.Defs[md.Name].(*types.Func); ok {
					r.methods[md.Name.Name] = fn
				}
				continue
			}
			if lit, ok := ast.Unparen(ret.Results[0]).(*ast.CompositeLit); ok && md.Name.Name == "Children" {
				for i, el := range lit.Elts {
					if v := fieldOfSel(el); v != nil {
						r.index[v] = i
					}
				}
			}
		}
	}
	if len(r.accessor) != 2 || len(r.index) != 2 {
		return nil, "accessor methods / Children() of the executor's two fields not readable"
	}
	return r, ""
}

type c23GuardNames struct{ parent, childNum, node, prependSel string }

func c23RunGuards(e *c23Env) {
	c := e.c
	gn := c23GuardNames{"Parent", "ChildNum", "Node", "prependRowForTriggerExecutionSelector"}
	roles, why := c23ReadRoles(e)
	if roles == nil {
		c.Undecided("C23-T3", e.nm.newExecutor+"/roles", 0, why)
		return
	}
	childAcc, logicAcc := roles.accessor[roles.fieldOf[0]], roles.accessor[roles.fieldOf[1]]
	logicIdx := roles.index[roles.fieldOf[1]]
	isAccessorCall := func(info *types.Info, x ast.Expr, on types.Object) string {
		call, ok := ast.Unparen(x).(*ast.CallExpr)
		if !ok || len(call.Args) != 0 {
			return ""
		}
		se, ok := ast.Unparen(call.Fun).(*ast.SelectorExpr)
		if !ok || (on != nil && c23Obj(info, se.X) != on) {
			return ""
		}
		fn := Callee(info, call)
		if fn == nil || roles.methods[fn.Name()] != fn.Origin() {
			return ""
		}
		return fn.Name()
	}

	// ---- (a) the build function -----------------------------------------------------------------------------------
	xinfo := e.execPk.TypesInfo
	execNode := e.nm.execNodes[0]
	found := false
	for _, f := range e.execPk.Syntax {
		for _, d := range f.Decls {
			fd, ok := d.(*ast.FuncDecl)
			if !ok || fd.Body == nil || fd.Recv == nil || !c23IsNamed(xinfo.TypeOf(fd.Recv.List[0].Type), e.execPk, e.nm.builder) {
				continue
			}
			var nObj types.Object
			for _, p := range fd.Type.Params.List {
				if c23IsNamed(xinfo.TypeOf(p.Type), e.planPk, execNode) && len(p.Names) == 1 {
					nObj = xinfo.Defs[p.Names[0]]
				}
			}
			if nObj == nil {
				continue
			}
			found = true
			key := fd.Name.Name + "/child-and-logic-roles"
			builtFrom, other := "", map[string]bool{}
			for _, call := range c23AllCalls(fd.Body) {
				if fn := Callee(xinfo, call); fn != nil && fn.Origin() == e.buildFn && len(call.Args) >= 2 {
					builtFrom = isAccessorCall(xinfo, call.Args[1], nObj)
				}
			}
			ast.Inspect(fd.Body, func(n ast.Node) bool {
				if x, ok := n.(ast.Expr); ok {
					if a := isAccessorCall(xinfo, x, nObj); a != "" && a != builtFrom {
						other[a] = true
					}
				}
				return true
			})
			good := builtFrom == childAcc && len(other) == 1 && other[logicAcc]
			c.Check(good, "C23-T3", key, fd.Pos(), "the child iterator is built from "+childAcc+"() and the logic taken from "+logicAcc+"(), as "+e.nm.newExecutor+" stores them",
				"the build function does not read the executor's children in the roles "+e.nm.newExecutor+" stores them in (child = "+childAcc+"(), logic = "+logicAcc+"()): built from "+builtFrom+"(), other "+c23SetString(other))
		}
	}
	if !found {
		c.Undecided("C23-T3", "build"+execNode+"/child-and-logic-roles", 0, "no build function for *plan."+execNode)
	}

	// ---- (b) selector of the placing transform ---------------------------------------------------------------------
	ainfo := e.anPk.TypesInfo
	newExec := LookupFunc(e.planPk, e.nm.newExecutor)
	_, oneFd := c.P.FuncDecl(e.nm.anRel, e.nm.applyOneFn)
	if oneFd != nil && newExec != nil {
		key := e.nm.applyOneFn + "/selector-skips-logic-child"
		var selBody *ast.BlockStmt
		var selParam types.Object
		funcOf := func(x ast.Expr) (*ast.FuncType, *ast.BlockStmt) {
			if lit, ok := ast.Unparen(x).(*ast.FuncLit); ok {
				return lit.Type, lit.Body
			}
			o := c23Obj(ainfo, x)
			if o == nil {
				return nil, nil
			}
			if fn, ok := o.(*types.Func); ok {
				if fd := c.P.Decl(fn); fd != nil {
					return fd.Type, fd.Body
				}
				return nil, nil
			}
			for _, a := range c23AssignmentsTo(ainfo, oneFd.Body, o) {
				if lit, ok := ast.Unparen(a.rhs).(*ast.FuncLit); ok && a.rhs != nil {
					return lit.Type, lit.Body
				}
			}
			return nil, nil
		}
		for _, call := range c23AllCalls(oneFd.Body) {
			placer := false
			for _, a := range call.Args {
				if lit, ok := ast.Unparen(a).(*ast.FuncLit); ok {
					for _, ic := range c23AllCalls(lit.Body) {
						if fn := Callee(ainfo, ic); fn != nil && fn == newExec {
							placer = true
						}
					}
				}
			}
			if !placer {
				continue
			}
			for _, a := range call.Args {
				ft, body := funcOf(a)
				if ft == nil || ft.Results == nil || len(ft.Results.List) != 1 {
					continue
				}
				if b, ok := ainfo.TypeOf(ft.Results.List[0].Type).Underlying().(*types.Basic); !ok || b.Kind() != types.Bool {
					continue
				}
				selBody = body
				for _, p := range ft.Params.List {
					if st, ok := c23StructOf(ainfo.TypeOf(p.Type)); ok && c23HasField(st, gn.parent) && len(p.Names) == 1 {
						selParam = ainfo.Defs[p.Names[0]]
					}
				}
			}
		}
		if selBody == nil || selParam == nil {
			c.Bad("C23-T3", key, oneFd.Pos(), "the transform that places the executors has no selector function (bool result, parameter with a "+gn.parent+" field): it descends into the logic of executors placed earlier, so this trigger's executors are also put on the DML statements inside other triggers' bodies")
		} else {
			good := false
			var stack []ast.Node
			ast.Inspect(selBody, func(n ast.Node) bool {
				if n == nil {
					stack = stack[:len(stack)-1]
					return true
				}
				stack = append(stack, n)
				ret, ok := n.(*ast.ReturnStmt)
				if !ok || len(ret.Results) != 1 {
					return true
				}
				if tv, ok := ainfo.Types[ret.Results[0]]; !ok || tv.Value == nil || tv.Value.Kind() != constant.Bool || constant.BoolVal(tv.Value) {
					return true
				}
				isExec, isIdx := false, false
				for _, anc := range stack {
					is, ok := anc.(*ast.IfStmt)
					if !ok || !(is.Body.Pos() <= ret.Pos() && ret.End() <= is.Body.End()) {
						continue
					}
					check := func(x ast.Node) {
						ast.Inspect(x, func(k ast.Node) bool {
							switch y := k.(type) {
							case *ast.TypeAssertExpr:
								if se, ok := ast.Unparen(y.X).(*ast.SelectorExpr); ok && se.Sel.Name == gn.parent && c23Obj(ainfo, se.X) == selParam && y.Type != nil && c23IsNamed(ainfo.TypeOf(y.Type), e.planPk, execNode) {
									isExec = true
								}
							case *ast.BinaryExpr:
								if y.Op == token.EQL {
									for i, side := range []ast.Expr{y.X, y.Y} {
										se, ok := ast.Unparen(side).(*ast.SelectorExpr)
										if !ok || se.Sel.Name != gn.childNum || c23Obj(ainfo, se.X) != selParam {
											continue
										}
										o := []ast.Expr{y.Y, y.X}[i]
										if tv, ok := ainfo.Types[o]; ok && tv.Value != nil && constant.Compare(tv.Value, token.EQL, constant.MakeInt64(int64(logicIdx))) {
											isIdx = true
										}
									}
								}
							}
							return true
						})
					}
					if is.Init != nil {
						check(is.Init)
					}
					check(is.Cond)
				}
				if isExec && isIdx {
					good = true
				}
				return true
			})
			c.Check(good, "C23-T3", key, selBody.Pos(), "the placing transform does not descend into the logic child (index "+string(rune('0'+logicIdx))+") of an existing executor",
				"the selector of the placing transform has no `return false` under (Parent is *plan."+execNode+" and ChildNum == "+string(rune('0'+logicIdx))+" = the logic child): executors of this trigger are also placed on DML statements inside earlier triggers' bodies and fire for rows of other tables")
		}
	}

	// ---- (c) the prepend selector ------------------------------------------------------------------------------------
	if _, fd := c.P.FuncDecl(e.nm.execRel, gn.prependSel); fd == nil {
		c.Undecided("C23-T3", gn.prependSel+"/skips-logic-child", 0, "function not found")
	} else {
		key := gn.prependSel + "/skips-logic-child"
		var param types.Object
		for _, p := range fd.Type.Params.List {
			if st, ok := c23StructOf(xinfo.TypeOf(p.Type)); ok && c23HasField(st, gn.parent) && len(p.Names) == 1 {
				param = xinfo.Defs[p.Names[0]]
			}
		}
		var ts *ast.TypeSwitchStmt
		ast.Inspect(fd.Body, func(n ast.Node) bool {
			if t, ok := n.(*ast.TypeSwitchStmt); ok && ts == nil {
				ts = t
			}
			return true
		})
		done := false
		if ts != nil && param != nil {
			for _, st := range ts.Body.List {
				cc := st.(*ast.CaseClause)
				for _, tx := range cc.List {
					if !c23IsNamed(xinfo.TypeOf(tx), e.planPk, execNode) {
						continue
					}
					done = true
					pObj := xinfo.Implicits[cc]
					good := false
					for _, s := range cc.Body {
						ret, ok := s.(*ast.ReturnStmt)
						if !ok || len(ret.Results) != 1 {
							continue
						}
						x := ast.Unparen(ret.Results[0])
						neg := false
						if u, ok := x.(*ast.UnaryExpr); ok && u.Op == token.NOT {
							neg, x = true, ast.Unparen(u.X)
						}
						be, ok := x.(*ast.BinaryExpr)
						if !ok || !((be.Op == token.EQL && neg) || (be.Op == token.NEQ && !neg)) {
							continue
						}
						isNode := func(y ast.Expr) bool {
							se, ok := ast.Unparen(y).(*ast.SelectorExpr)
							return ok && se.Sel.Name == gn.node && c23Obj(xinfo, se.X) == param
						}
						var acc string
						switch {
						case isNode(be.Y):
							acc = isAccessorCall(xinfo, be.X, pObj)
						case isNode(be.X):
							acc = isAccessorCall(xinfo, be.Y, pObj)
						}
						if acc == logicAcc {
							good = true
						}
					}
					c.Check(good, "C23-T3", key, cc.Pos(), "row sources inside a nested executor's logic are not prepended by the outer pass ("+logicAcc+"() is skipped)",
						"under a parent *plan."+execNode+" the prepend selector must be false exactly for the node that is the parent's logic ("+logicAcc+"()): otherwise a nested trigger's body is prepended twice (or its wrapped child is not prepended at all)")
				}
			}
		}
		if !done {
			c.Bad("C23-T3", key, fd.Pos(), "the prepend selector has no arm for a parent *plan."+execNode+": a nested executor's logic is prepended by the outer pass and again when it runs")
		}
	}

	// ---- selection of the triggers that are applied ------------------------------------------------------------------
	if _, applyFd := c.P.FuncDecl(e.nm.anRel, e.nm.applyFn); applyFd != nil {
		key := e.nm.applyFn + "/selects-by-table-and-event"
		wrapFn := LookupFunc(e.anPk, e.nm.orderWrapFn)
		// the selected set: argument of the ordering wrapper
		var selected types.Object
		for _, call := range c23AllCalls(applyFd.Body) {
			if fn := Callee(ainfo, call); fn != nil && fn == wrapFn && len(call.Args) == 1 {
				selected = c23Obj(ainfo, call.Args[0])
			}
		}
		// the detected event / table variables: assigned in the detection switch
		var evVar types.Object
		tn, _ := e.planPk.Types.Scope().Lookup(e.nm.eventType).(*types.TypeName)
		ast.Inspect(applyFd.Body, func(n ast.Node) bool {
			if as, ok := n.(*ast.AssignStmt); ok && len(as.Lhs) == 1 && len(as.Rhs) == 1 && len(e.eventConstsAssigned(ainfo, as.Rhs[0])) > 0 {
				if o := c23Obj(ainfo, as.Lhs[0]); o != nil && tn != nil {
					t := o.Type()
					if sl, ok := t.Underlying().(*types.Slice); ok {
						t = sl.Elem()
					}
					if types.Identical(t, tn.Type()) {
						evVar = o
					}
				}
			}
			return true
		})
		// the affected-tables variables: string slices appended to in a clause that also assigns the event
		tblVars := map[types.Object]bool{}
		ast.Inspect(applyFd.Body, func(n ast.Node) bool {
			cc, ok := n.(*ast.CaseClause)
			if !ok || evVar == nil {
				return true
			}
			assignsEv := false
			for _, s := range cc.Body {
				ast.Inspect(s, func(k ast.Node) bool {
					if as, ok := k.(*ast.AssignStmt); ok && len(as.Lhs) == 1 && c23Obj(ainfo, as.Lhs[0]) == evVar {
						assignsEv = true
					}
					return true
				})
			}
			if !assignsEv {
				return true
			}
			for _, s := range cc.Body {
				ast.Inspect(s, func(k ast.Node) bool {
					if as, ok := k.(*ast.AssignStmt); ok && len(as.Lhs) == 1 && len(as.Rhs) == 1 {
						if call, ok := ast.Unparen(as.Rhs[0]).(*ast.CallExpr); ok && IsBuiltinCall(ainfo, call, "append") {
							if o := c23Obj(ainfo, as.Lhs[0]); o != nil {
								if sl, ok := o.Type().Underlying().(*types.Slice); ok {
									if b, ok := sl.Elem().Underlying().(*types.Basic); ok && b.Kind() == types.String {
										tblVars[o] = true
									}
								}
							}
						}
					}
					return true
				})
			}
			return true
		})
		if selected == nil || evVar == nil || len(tblVars) == 0 {
			c.Undecided("C23-T3", key, applyFd.Pos(), "the selected trigger set (argument of "+e.nm.orderWrapFn+"), the detected event variable or the affected-tables variable not found")
		} else {
			n := 0
			var stack []ast.Node
			ast.Inspect(applyFd.Body, func(nd ast.Node) bool {
				if nd == nil {
					stack = stack[:len(stack)-1]
					return true
				}
				stack = append(stack, nd)
				as, ok := nd.(*ast.AssignStmt)
				if !ok || len(as.Lhs) != 1 || c23Obj(ainfo, as.Lhs[0]) != selected || len(as.Rhs) != 1 {
					return true
				}
				call, ok := ast.Unparen(as.Rhs[0]).(*ast.CallExpr)
				if !ok || !IsBuiltinCall(ainfo, call, "append") {
					return true
				}
				n++
				// conjuncts of all enclosing if conditions (then-branches only)
				var conj []ast.Expr
				var split func(x ast.Expr)
				split = func(x ast.Expr) {
					if be, ok := ast.Unparen(x).(*ast.BinaryExpr); ok && be.Op == token.LAND {
						split(be.X)
						split(be.Y)
						return
					}
					conj = append(conj, ast.Unparen(x))
				}
				for _, anc := range stack {
					if is, ok := anc.(*ast.IfStmt); ok && is.Body.Pos() <= as.Pos() && as.End() <= is.Body.End() {
						split(is.Cond)
					}
				}
				byEvent, byTable := false, false
				for _, cj := range conj {
					if _, isNot := cj.(*ast.UnaryExpr); isNot {
						continue
					}
					mentionsEv := c23Mentions(ainfo, cj, map[types.Object]bool{evVar: true})
					evField, tblVar := false, false
					ast.Inspect(cj, func(k ast.Node) bool {
						switch y := k.(type) {
						case *ast.SelectorExpr:
							if strings.EqualFold(y.Sel.Name, "TriggerEvent") {
								if v, ok := ainfo.Uses[y.Sel].(*types.Var); ok && v.IsField() {
									evField = true
								}
							}
						case *ast.Ident:
							if tblVars[ainfo.Uses[y]] {
								tblVar = true
							}
						}
						return true
					})
					if mentionsEv && evField {
						byEvent = true
					}
					if tblVar && !mentionsEv {
						byTable = true
					}
				}
				c.Check(byEvent && byTable, "C23-T3", key, as.Pos(), "a trigger is selected only if its table is among the affected tables and its event is the detected event",
					"a trigger is appended to the applied set without a conjunction that tests both its table (against the affected tables) and its event (against the detected event): triggers of other events/tables would fire")
				return true
			})
			if n == 0 {
				c.Undecided("C23-T3", key, applyFd.Pos(), "no append to the selected trigger set found")
			}
		}
	}

	// ---- Close of executors with a child --------------------------------------------------------------------------------
	for _, x := range c23Executors(e) {
		if !x.hasChild {
			continue
		}
		key := x.typeName + ".Close/closes-child"
		fn := LookupFunc(e.execPk, x.typeName+".Close")
		fd := c.P.Decl(fn)
		if fd == nil || fd.Body == nil {
			c.Undecided("C23-T5", key, x.next.Pos(), "Close not found")
			continue
		}
		recv := c23RecvObj(xinfo, fd)
		isChildClose := func(n ast.Node) bool {
			for _, call := range c23Calls(n) {
				if cf := Callee(xinfo, call); cf != nil && cf.Origin() == e.iterClose {
					if se, ok := ast.Unparen(call.Fun).(*ast.SelectorExpr); ok && c23FieldOfRecv(xinfo, se.X, recv) {
						return true
					}
				}
			}
			return false
		}
		g := c.P.CFG(xinfo, fd.Body)
		// every exit passes the child's Close (a return that contains it counts)
		p := PathAvoiding(g, EntryPoint(g), func(n ast.Node) bool { return isChildClose(n) }, nil, nil)
		// and its result is what is returned, or bound to a returned variable
		discarded := false
		ast.Inspect(fd.Body, func(n ast.Node) bool {
			switch s := n.(type) {
			case *ast.ExprStmt:
				if isChildClose(s) {
					discarded = true
				}
			case *ast.AssignStmt:
				if isChildClose(s) {
					if id, ok := s.Lhs[len(s.Lhs)-1].(*ast.Ident); ok && id.Name == "_" {
						discarded = true
					}
				}
			case *ast.DeferStmt:
				if isChildClose(s) {
					discarded = true
				}
			}
			return true
		})
		switch {
		case p != nil:
			c.Bad("C23-T5", key, fd.Pos(), "an exit of Close is reachable without closing the child (for an AFTER executor the child is the DML's table editor iterator: the statement is never completed or discarded)", c.P.DescribePath(p)...)
		case discarded:
			c.Bad("C23-T5", key, fd.Pos(), "the error of closing the child is discarded (StatementComplete errors of the triggering statement are lost)")
		default:
			c.Ok("C23-T5", key, fd.Pos(), "Close closes the child on every path and hands its error on")
		}
	}
}

func c23StructOf(t types.Type) (*types.Struct, bool) {
	if t == nil {
		return nil, false
	}
	t = types.Unalias(t)
	if p, ok := t.(*types.Pointer); ok {
		t = p.Elem()
	}
	st, ok := t.Underlying().(*types.Struct)
	return st, ok
}

func c23HasField(st *types.Struct, name string) bool {
	for i := 0; i < st.NumFields(); i++ {
		if st.Field(i).Name() == name {
			return true
		}
	}
	return false
}
