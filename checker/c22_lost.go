package main

// c22_lost.go — object-identity engine behind C22-L1/L2/L3 (go/ssa, interprocedural by summaries).
//
// Plan nodes are built by "copy on write": With* methods copy their receiver, update one field of
// the copy and return the copy's address. The planner mixes that style with plain field stores on a
// node it still owns. A field store on an object of which every later consumer only sees an earlier
// copy is a lost update; so is a With* call whose returned copy is dropped. Both are decided here:
//
//   * summaries of callees (bounded depth, memoised): does a pointer parameter escape the callee
//     (stored, captured, passed on to something that keeps it), may a result alias it, which fields
//     are stored through it in place; is result i a fresh allocation, is that allocation a copy of
//     *parameter j, and which fields of the copy are updated. Interface-dispatched callees are entered
//     with the concrete type the caller passes (MakeInterface operand), or, failing that, are
//     resolved to every implementation in the loaded module packages (all must agree).
//   * an alias closure of one object inside one function (conversions, type assertions, phis, results
//     of callees that may return their argument) and the list of its uses: read / field write /
//     escape / return, each tied to an instruction, with instruction-level reachability.
//
// Nothing is executed; unknown callees, goroutines, defers, closures and every instruction kind the
// engine does not model are escapes, i.e. they make a store observable (never a report).

import (
	"fmt"
	"go/token"
	"go/types"
	"sort"
	"strings"
	"sync"

	"golang.org/x/tools/go/packages"
	"golang.org/x/tools/go/ssa"
	"golang.org/x/tools/go/ssa/ssautil"
)

const c22MaxDepth = 5

type c22UseKind int

const (
	c22Read c22UseKind = iota
	c22Write
	c22Escape
	c22Return
)

type c22Use struct {
	kind   c22UseKind
	at     ssa.Instruction
	field  string        // c22Write: field name ("*" = whole struct)
	what   string        // short description
	copier *ssa.Function // c22Read through a call whose result is a copy of the object
	resIdx []int         // c22Return: result indexes
	via    ssa.Value     // the alias through which the object is used
}

type c22ParamSum struct {
	retained bool
	why      string
	returned []int    // result indexes that may alias the parameter
	mutated  []string // fields stored in place through the parameter
}

type c22ResSum struct {
	fresh   bool     // every non-nil returned value is an allocation made by the callee (or by its callees)
	copyOf  int      // index of the parameter whose pointee was copied into that allocation, -1 if none
	updates []string // fields of the copy that are stored before it is returned
	leaks   bool     // the allocation is also stored/passed on inside the callee (it is shared at birth)
}

type c22Engine struct {
	p       *Prog
	prog    *ssa.Program
	pSums   map[string]*c22ParamSum
	rSums   map[string]*c22ResSum
	busy    map[string]bool
	reach   map[*ssa.BasicBlock]map[*ssa.BasicBlock]bool
	implsOf map[string][]*ssa.Function
	named   []*types.Named
}

// c22BuildSSA builds SSA bodies only for the module packages that can see the node package (it and its
// transitive importers) plus the named helper packages, in parallel. Functions of other packages have no
// body here and are "not analysable" callees (escapes). Much cheaper than Prog.SSA(), which builds every
// loaded module package sequentially.
func c22BuildSSA(p *Prog, nodeRel string, extraRels ...string) *ssa.Program {
	prog, _ := ssautil.AllPackages(p.Roots, ssa.InstantiateGenerics)
	node := p.Pkg(nodeRel)
	sees := map[*packages.Package]int{} // 0 unknown, 1 yes, 2 no
	var visit func(pk *packages.Package) bool
	visit = func(pk *packages.Package) bool {
		if pk == node {
			return true
		}
		if v := sees[pk]; v != 0 {
			return v == 1
		}
		sees[pk] = 2
		for _, im := range pk.Imports {
			if im.Module != nil && im.Module.Main && visit(im) {
				sees[pk] = 1
				return true
			}
		}
		return false
	}
	extra := map[*packages.Package]bool{}
	for _, r := range extraRels {
		if pk := p.Pkg(r); pk != nil {
			extra[pk] = true
		}
	}
	var wg sync.WaitGroup
	for _, pk := range p.Module {
		if node != nil && !visit(pk) && !extra[pk] {
			continue
		}
		if sp := prog.Package(pk.Types); sp != nil {
			wg.Add(1)
			go func() { defer wg.Done(); sp.Build() }()
		}
	}
	wg.Wait()
	return prog
}

func c22NewEngine(p *Prog, nodeRel string) *c22Engine {
	e := &c22Engine{p: p, prog: c22BuildSSA(p, nodeRel, "sql", "sql/transform"), pSums: map[string]*c22ParamSum{}, rSums: map[string]*c22ResSum{}, busy: map[string]bool{},
		reach: map[*ssa.BasicBlock]map[*ssa.BasicBlock]bool{}, implsOf: map[string][]*ssa.Function{}}
	for _, pk := range p.Module {
		sc := pk.Types.Scope()
		for _, n := range sc.Names() {
			tn, ok := sc.Lookup(n).(*types.TypeName)
			if !ok || tn.IsAlias() {
				continue
			}
			nt, ok := tn.Type().(*types.Named)
			if !ok || nt.TypeParams().Len() > 0 {
				continue
			}
			if _, isI := nt.Underlying().(*types.Interface); isI {
				continue
			}
			e.named = append(e.named, nt)
		}
	}
	return e
}

// ---- small helpers ------------------------------------------------------------------------

func c22Deref(t types.Type) types.Type {
	if p, ok := types.Unalias(t).Underlying().(*types.Pointer); ok {
		return p.Elem()
	}
	return t
}

func c22NamedStruct(t types.Type) (*types.Named, *types.Struct) {
	nt, ok := types.Unalias(t).(*types.Named)
	if !ok {
		return nil, nil
	}
	st, ok := nt.Underlying().(*types.Struct)
	if !ok {
		return nil, nil
	}
	return nt, st
}

func c22IsInterface(t types.Type) bool {
	_, ok := t.Underlying().(*types.Interface)
	return ok
}

// c22FnName: pkg.Type.Method / pkg.Func (last path element of the package), "$lit" for closures.
func c22FnName(fn *ssa.Function) string {
	if fn == nil {
		return "?"
	}
	if fn.Parent() != nil {
		return c22FnName(fn.Parent()) + "$lit"
	}
	if obj, ok := fn.Object().(*types.Func); ok && obj != nil {
		return c22ObjName(obj)
	}
	return fn.Name()
}

func c22ObjName(obj *types.Func) string {
	sig := obj.Type().(*types.Signature)
	if r := sig.Recv(); r != nil {
		if nt, ok := types.Unalias(c22Deref(r.Type())).(*types.Named); ok {
			return nt.Obj().Name() + "." + obj.Name()
		}
	}
	return obj.Name()
}

func (e *c22Engine) pos(i ssa.Instruction) token.Pos {
	if i == nil {
		return token.NoPos
	}
	if p := i.Pos(); p.IsValid() {
		return p
	}
	// stores and calls sometimes carry no position: use the nearest positioned instruction of the block
	if b := i.Block(); b != nil {
		for _, j := range b.Instrs {
			if j.Pos().IsValid() {
				return j.Pos()
			}
		}
	}
	return token.NoPos
}

// reachable: can control flow from just after `from` arrive at `to`?
func (e *c22Engine) reachable(from, to ssa.Instruction) bool {
	fb, tb := from.Block(), to.Block()
	if fb == nil || tb == nil || fb.Parent() != tb.Parent() {
		return false
	}
	if fb == tb {
		fi, ti := -1, -1
		for i, in := range fb.Instrs {
			if in == from {
				fi = i
			}
			if in == to {
				ti = i
			}
		}
		if ti > fi {
			return true
		}
	}
	m, ok := e.reach[fb]
	if !ok {
		m = map[*ssa.BasicBlock]bool{}
		stack := append([]*ssa.BasicBlock{}, fb.Succs...)
		for len(stack) > 0 {
			b := stack[len(stack)-1]
			stack = stack[:len(stack)-1]
			if m[b] {
				continue
			}
			m[b] = true
			stack = append(stack, b.Succs...)
		}
		e.reach[fb] = m
	}
	return m[tb]
}

func c22FieldName(fa *ssa.FieldAddr) string {
	if _, st := c22NamedStruct(c22Deref(fa.X.Type())); st != nil && fa.Field < st.NumFields() {
		return st.Field(fa.Field).Name()
	}
	if st, ok := c22Deref(fa.X.Type()).Underlying().(*types.Struct); ok && fa.Field < st.NumFields() {
		return st.Field(fa.Field).Name()
	}
	return fmt.Sprintf("#%d", fa.Field)
}

// methodFor resolves an interface method on a concrete (pointer or named) type to its SSA function
// (the declared method, or the synthesised pointer wrapper of a value-receiver method).
func (e *c22Engine) methodFor(concrete types.Type, m *types.Func) *ssa.Function {
	if concrete == nil || m == nil || c22IsInterface(concrete) {
		return nil
	}
	sel := e.prog.MethodSets.MethodSet(concrete).Lookup(m.Pkg(), m.Name())
	if sel == nil {
		return nil
	}
	return e.prog.MethodValue(sel)
}

// implementations of an interface method in the loaded module packages (CHA over named types).
func (e *c22Engine) impls(iface types.Type, m *types.Func) []*ssa.Function {
	it, ok := iface.Underlying().(*types.Interface)
	if !ok {
		return nil
	}
	key := types.TypeString(iface, nil) + "." + m.Name()
	if r, ok := e.implsOf[key]; ok {
		return r
	}
	var out []*ssa.Function
	for _, nt := range e.named {
		var recv types.Type
		switch {
		case types.Implements(nt, it):
			recv = nt
		case types.Implements(types.NewPointer(nt), it):
			recv = types.NewPointer(nt)
		default:
			continue
		}
		if f := e.methodFor(recv, m); f != nil {
			out = append(out, f)
		}
	}
	e.implsOf[key] = out
	return out
}

// concreteOf: the concrete pointer type wrapped by an interface value, when it is syntactically known.
func c22ConcreteOf(v ssa.Value) types.Type {
	for i := 0; i < 8; i++ {
		switch x := v.(type) {
		case *ssa.MakeInterface:
			return x.X.Type()
		case *ssa.ChangeInterface:
			v = x.X
		case *ssa.ChangeType:
			v = x.X
		default:
			if !c22IsInterface(v.Type()) {
				return v.Type()
			}
			return nil
		}
	}
	return nil
}

// c22NilChk: ssa:wrapnilchk(x, …) returns x (inserted in synthesised pointer wrappers).
func c22NilChk(v ssa.Value) (ssa.Value, bool) {
	if call, ok := v.(*ssa.Call); ok {
		if b, ok := call.Common().Value.(*ssa.Builtin); ok && b.Name() == "ssa:wrapnilchk" && len(call.Common().Args) > 0 {
			return call.Common().Args[0], true
		}
	}
	return nil, false
}

// ---- resolution of a call ---------------------------------------------------------------------

type c22Callee struct {
	fn     *ssa.Function
	args   []ssa.Value // aligned with fn.Params
	ctypes map[int]types.Type
}

// targets resolves a call to its possible callees. ctx gives concrete types for interface-typed
// values of the *calling* function (parameters entered with a known dynamic type, the tracked object).
func (e *c22Engine) targets(cc *ssa.CallCommon, ctx func(ssa.Value) types.Type, cha bool) []c22Callee {
	mk := func(fn *ssa.Function, args []ssa.Value) c22Callee {
		t := c22Callee{fn: fn, args: args, ctypes: map[int]types.Type{}}
		for i, a := range args {
			if i >= len(fn.Params) {
				break
			}
			if !c22IsInterface(fn.Params[i].Type()) {
				continue
			}
			if ct := c22ConcreteOf(a); ct != nil {
				t.ctypes[i] = ct
			} else if ctx != nil {
				if ct := ctx(a); ct != nil {
					t.ctypes[i] = ct
				}
			}
		}
		return t
	}
	if cc.IsInvoke() {
		args := append([]ssa.Value{cc.Value}, cc.Args...)
		ct := c22ConcreteOf(cc.Value)
		if ct == nil && ctx != nil {
			ct = ctx(cc.Value)
		}
		if ct != nil {
			if fn := e.methodFor(ct, cc.Method); fn != nil && len(fn.Blocks) > 0 {
				return []c22Callee{mk(fn, args)}
			}
			return nil
		}
		if !cha {
			return nil
		}
		var out []c22Callee
		for _, fn := range e.impls(cc.Value.Type(), cc.Method) {
			if len(fn.Blocks) == 0 {
				return nil
			}
			out = append(out, mk(fn, args))
		}
		return out
	}
	fn := cc.StaticCallee()
	if fn == nil || len(fn.Blocks) == 0 {
		return nil
	}
	return []c22Callee{mk(fn, cc.Args)}
}

func c22CtKey(fn *ssa.Function, ctypes map[int]types.Type) string {
	var ks []string
	for i, t := range ctypes {
		ks = append(ks, fmt.Sprintf("%d=%s", i, types.TypeString(t, nil)))
	}
	sort.Strings(ks)
	return fmt.Sprintf("%p|%s", fn, strings.Join(ks, ","))
}

// ---- alias closure + uses -----------------------------------------------------------------------

type c22Obj struct {
	aliases map[ssa.Value]bool
	tuples  map[ssa.Value]map[int]bool // tuple value -> component indexes that alias the object
	uses    []c22Use
}

// track computes the alias closure of roots inside their function and classifies every use.
// concrete is the dynamic type of the object when it is held in interface values (may be nil).
// ctypes are the known dynamic types of interface parameters of the enclosing function.
func (e *c22Engine) track(roots []ssa.Value, rootTuples map[ssa.Value]int, concrete types.Type, fnCtx map[int]types.Type, depth int) *c22Obj {
	o := &c22Obj{aliases: map[ssa.Value]bool{}, tuples: map[ssa.Value]map[int]bool{}}
	var work []ssa.Value
	add := func(v ssa.Value) {
		if !o.aliases[v] {
			o.aliases[v] = true
			work = append(work, v)
		}
	}
	addTuple := func(v ssa.Value, idx int) {
		if o.tuples[v] == nil {
			o.tuples[v] = map[int]bool{}
		}
		if !o.tuples[v][idx] {
			o.tuples[v][idx] = true
			if refs := v.Referrers(); refs != nil {
				for _, r := range *refs {
					if ex, ok := r.(*ssa.Extract); ok && ex.Index == idx {
						add(ex)
					}
				}
			}
		}
	}
	for _, r := range roots {
		add(r)
	}
	for t, idx := range rootTuples {
		addTuple(t, idx)
	}
	ctx := func(v ssa.Value) types.Type {
		if o.aliases[v] {
			if concrete != nil {
				return concrete
			}
			return nil
		}
		if p, ok := v.(*ssa.Parameter); ok && fnCtx != nil {
			for i, q := range p.Parent().Params {
				if q == p {
					return fnCtx[i]
				}
			}
		}
		return nil
	}
	use := func(k c22UseKind, at ssa.Instruction, what string) {
		o.uses = append(o.uses, c22Use{kind: k, at: at, what: what})
	}
	for len(work) > 0 {
		a := work[len(work)-1]
		work = work[:len(work)-1]
		refs := a.Referrers()
		if refs == nil {
			continue
		}
		for _, r := range *refs {
			n0 := len(o.uses)
			switch x := r.(type) {
			case *ssa.DebugRef:
			case *ssa.MakeInterface:
				add(x)
			case *ssa.ChangeInterface:
				add(x)
			case *ssa.ChangeType:
				add(x)
			case *ssa.Phi:
				add(x)
			case *ssa.TypeAssert:
				if x.CommaOk {
					addTuple(x, 0)
				} else {
					add(x)
				}
			case *ssa.Extract:
				// handled by addTuple (component aliasing); other components are not the object
			case *ssa.BinOp:
				// comparisons (== nil) neither read the pointee nor keep the pointer
			case *ssa.FieldAddr:
				if x.X == a {
					e.fieldUses(o, x, c22FieldName(x))
				}
			case *ssa.UnOp:
				if x.Op == token.MUL {
					use(c22Read, x, "copied/read by value")
				} else {
					use(c22Escape, x, "unmodelled operator")
				}
			case *ssa.Store:
				if x.Val == a {
					use(c22Escape, x, "stored into memory")
				} else if x.Addr == a {
					o.uses = append(o.uses, c22Use{kind: c22Write, at: x, field: "*", what: "whole object overwritten"})
				}
			case *ssa.Return:
				var idx []int
				for i, rv := range x.Results {
					if rv == a {
						idx = append(idx, i)
					}
				}
				o.uses = append(o.uses, c22Use{kind: c22Return, at: x, resIdx: idx, what: "returned"})
			case *ssa.Go:
				use(c22Escape, x, "passed to a goroutine")
			case *ssa.Defer:
				use(c22Escape, x, "passed to a deferred call")
			case *ssa.Call:
				if inner, ok := c22NilChk(x); ok {
					if inner == a {
						add(x)
					}
					continue
				}
				e.callUses(o, x, a, ctx, depth, add, addTuple)
			default:
				use(c22Escape, r, fmt.Sprintf("used by %T", r))
			}
			for i := n0; i < len(o.uses); i++ {
				if o.uses[i].via == nil {
					o.uses[i].via = a
				}
			}
		}
	}
	return o
}

// gateOf: when the alias through which a use happens derives from a phi, the object is only present
// there on executions that entered the phi through one of its alias edges. Returns that phi (or nil).
func (o *c22Obj) gateOf(v ssa.Value) *ssa.Phi {
	for hops := 0; hops < 32 && v != nil; hops++ {
		switch x := v.(type) {
		case *ssa.Phi:
			return x
		case *ssa.MakeInterface:
			v = x.X
		case *ssa.ChangeInterface:
			v = x.X
		case *ssa.ChangeType:
			v = x.X
		case *ssa.TypeAssert:
			v = x.X
		case *ssa.Extract:
			ta, ok := x.Tuple.(*ssa.TypeAssert)
			if !ok {
				return nil
			}
			v = ta.X
		default:
			return nil
		}
	}
	return nil
}

// gateOpen: can the object be inside phi when an instruction after st uses the phi? Either the phi was
// evaluated before st (it may already hold the object), or st can still reach one of the alias edges and the
// edge's value can itself hold the object at that time (nested phis are followed; a phi that only feeds itself
// does not justify itself).
func (e *c22Engine) gateOpen(o *c22Obj, phi *ssa.Phi, st ssa.Instruction, seen map[*ssa.Phi]bool) bool {
	if e.reachable(phi, st) {
		return true
	}
	if seen[phi] {
		return false
	}
	seen[phi] = true
	for i, ed := range phi.Edges {
		if !o.aliases[ed] || i >= len(phi.Block().Preds) {
			continue
		}
		pred := phi.Block().Preds[i]
		if len(pred.Instrs) == 0 {
			return true
		}
		term := pred.Instrs[len(pred.Instrs)-1]
		if term != st && !e.reachable(st, term) {
			continue
		}
		g := o.gateOf(ed)
		if g == phi {
			continue // a phi that feeds itself does not justify itself
		}
		if g == nil || e.gateOpen(o, g, st, seen) {
			return true
		}
	}
	return false
}

// fieldUses classifies what happens to &obj.f.
func (e *c22Engine) fieldUses(o *c22Obj, fa *ssa.FieldAddr, field string) {
	refs := fa.Referrers()
	if refs == nil {
		return
	}
	for _, r := range *refs {
		switch x := r.(type) {
		case *ssa.DebugRef:
		case *ssa.Store:
			if x.Addr == fa {
				o.uses = append(o.uses, c22Use{kind: c22Write, at: x, field: field, what: "field store"})
			} else {
				o.uses = append(o.uses, c22Use{kind: c22Escape, at: x, what: "address of field " + field + " stored"})
			}
		case *ssa.UnOp:
			if x.Op == token.MUL {
				o.uses = append(o.uses, c22Use{kind: c22Read, at: x, what: "field " + field + " read"})
			} else {
				o.uses = append(o.uses, c22Use{kind: c22Escape, at: x, what: "unmodelled operator on field"})
			}
		case *ssa.FieldAddr:
			// field of an embedded (by value) struct: same object
			if x.X == fa {
				e.fieldUses(o, x, field+"."+c22FieldName(x))
			}
		default:
			o.uses = append(o.uses, c22Use{kind: c22Escape, at: r, what: fmt.Sprintf("address of field %s used by %T", field, r)})
		}
	}
}

func (e *c22Engine) callUses(o *c22Obj, call *ssa.Call, a ssa.Value, ctx func(ssa.Value) types.Type, depth int, add func(ssa.Value), addTuple func(ssa.Value, int)) {
	cc := call.Common()
	esc := func(why string) {
		o.uses = append(o.uses, c22Use{kind: c22Escape, at: call, what: why})
	}
	if cc.IsInvoke() && cc.Value != a {
		// the object is an argument of a dynamically dispatched call on something else
		bound := false
		for _, v := range cc.Args {
			if v == a {
				bound = true
			}
		}
		if bound {
			esc("argument of the interface call " + cc.Method.Name())
		}
		return
	}
	if !cc.IsInvoke() && cc.Value == a {
		esc("called as a function value")
		return
	}
	ts := e.targets(cc, ctx, false)
	if len(ts) != 1 || depth <= 0 {
		name := "?"
		if cc.IsInvoke() {
			name = cc.Method.Name()
		} else if f := cc.StaticCallee(); f != nil {
			name = c22FnName(f)
		} else if b, ok := cc.Value.(*ssa.Builtin); ok {
			name = b.Name()
		}
		esc("passed to " + name + " (callee not analysable)")
		return
	}
	t := ts[0]
	nres := t.fn.Signature.Results().Len()
	for j, av := range t.args {
		if av != a || j >= len(t.fn.Params) {
			continue
		}
		ps := e.paramSum(t.fn, j, t.ctypes, depth-1)
		if ps == nil {
			esc("passed to " + c22FnName(t.fn) + " (callee not analysable)")
			continue
		}
		if ps.retained {
			esc("passed to " + c22FnName(t.fn) + ", which keeps it: " + ps.why)
			continue
		}
		u := c22Use{kind: c22Read, at: call, what: "passed to " + c22FnName(t.fn)}
		for k := 0; k < nres; k++ {
			if rs := e.resSum(t.fn, k, t.ctypes, depth-1); rs != nil && rs.fresh && rs.copyOf == j {
				u.copier = t.fn
			}
		}
		o.uses = append(o.uses, u)
		for _, k := range ps.returned {
			if nres == 1 {
				add(call)
			} else {
				addTuple(call, k)
			}
		}
	}
}

// paramSum: what a callee does with pointer/interface parameter j.
func (e *c22Engine) paramSum(fn *ssa.Function, j int, ctypes map[int]types.Type, depth int) *c22ParamSum {
	if fn == nil || len(fn.Blocks) == 0 || j >= len(fn.Params) || depth < 0 {
		return nil
	}
	key := fmt.Sprintf("%s|p%d", c22CtKey(fn, ctypes), j)
	mkey := fmt.Sprintf("%s|d%d", key, depth)
	if s, ok := e.pSums[mkey]; ok {
		return s
	}
	if e.busy[key] {
		return nil // recursion: not analysable (conservative)
	}
	e.busy[key] = true
	defer delete(e.busy, key)
	p := fn.Params[j]
	var concrete types.Type
	if c22IsInterface(p.Type()) {
		concrete = ctypes[j]
	} else {
		concrete = p.Type()
	}
	o := e.track([]ssa.Value{p}, nil, concrete, ctypes, depth)
	s := &c22ParamSum{}
	seenR := map[int]bool{}
	seenM := map[string]bool{}
	for _, u := range o.uses {
		switch u.kind {
		case c22Escape:
			if !s.retained {
				s.retained = true
				s.why = u.what + " at " + e.p.Rel(e.pos(u.at))
			}
		case c22Return:
			for _, k := range u.resIdx {
				if !seenR[k] {
					seenR[k] = true
					s.returned = append(s.returned, k)
				}
			}
		case c22Write:
			if !seenM[u.field] {
				seenM[u.field] = true
				s.mutated = append(s.mutated, u.field)
			}
		}
	}
	sort.Ints(s.returned)
	sort.Strings(s.mutated)
	e.pSums[mkey] = s
	return s
}

type c22Origin struct {
	kind    int // 0 nil/neutral, 1 fresh, 2 parameter alias, 3 unknown
	copyOf  int
	updates []string
	root    ssa.Value // the allocation or call that created the object (kind 1)
	rootIdx int       // component index when root is a tuple-valued call, else -1
	leaks   bool      // kind 1: the creating function also stores the object / passes it to something that keeps it
}

// paramIndexOf: is v (after conversions, assertions and one dereference) parameter i of its function?
func c22ParamIndexOf(v ssa.Value) int {
	for i := 0; i < 10; i++ {
		switch x := v.(type) {
		case *ssa.Parameter:
			for k, q := range x.Parent().Params {
				if q == x {
					return k
				}
			}
			return -1
		case *ssa.MakeInterface:
			v = x.X
		case *ssa.ChangeInterface:
			v = x.X
		case *ssa.ChangeType:
			v = x.X
		case *ssa.TypeAssert:
			v = x.X
		case *ssa.Extract:
			if ta, ok := x.Tuple.(*ssa.TypeAssert); ok && x.Index == 0 {
				v = ta.X
			} else {
				return -1
			}
		case *ssa.UnOp:
			if x.Op != token.MUL {
				return -1
			}
			v = x.X
		case *ssa.Call:
			inner, ok := c22NilChk(x)
			if !ok {
				return -1
			}
			v = inner
		default:
			return -1
		}
	}
	return -1
}

// origin traces a value back to what created the object it points to.
func (e *c22Engine) origin(v ssa.Value, ctypes map[int]types.Type, depth int, seen map[ssa.Value]bool) c22Origin {
	unknown := c22Origin{kind: 3, copyOf: -1, rootIdx: -1}
	for hops := 0; hops < 32; hops++ {
		switch x := v.(type) {
		case *ssa.Const:
			if x.IsNil() {
				return c22Origin{kind: 0, copyOf: -1, rootIdx: -1}
			}
			return unknown
		case *ssa.MakeInterface:
			v = x.X
		case *ssa.ChangeInterface:
			v = x.X
		case *ssa.ChangeType:
			v = x.X
		case *ssa.TypeAssert:
			v = x.X
		case *ssa.Extract:
			switch t := x.Tuple.(type) {
			case *ssa.TypeAssert:
				if x.Index != 0 {
					return unknown
				}
				v = t.X
			case *ssa.Call:
				return e.callOrigin(t, x.Index, ctypes, depth)
			default:
				return unknown
			}
		case *ssa.Call:
			if inner, ok := c22NilChk(x); ok {
				v = inner
				continue
			}
			return e.callOrigin(x, 0, ctypes, depth)
		case *ssa.Parameter:
			return c22Origin{kind: 2, copyOf: c22ParamIndexOf(x), rootIdx: -1}
		case *ssa.Alloc:
			if _, isStruct := c22Deref(x.Type()).Underlying().(*types.Struct); !isStruct {
				return unknown
			}
			og := c22Origin{kind: 1, copyOf: -1, root: x, rootIdx: -1}
			if refs := x.Referrers(); refs != nil {
				for _, r := range *refs {
					switch y := r.(type) {
					case *ssa.Store:
						if y.Addr == x {
							if pi := c22ParamIndexOf(y.Val); pi >= 0 {
								og.copyOf = pi
							}
						}
					case *ssa.FieldAddr:
						if y.X == x && c22StoredInto(y) {
							og.updates = append(og.updates, c22FieldName(y))
						}
					}
				}
			}
			for _, u := range e.track([]ssa.Value{x}, nil, x.Type(), ctypes, depth).uses {
				if u.kind == c22Escape {
					og.leaks = true
				}
			}
			return og
		case *ssa.Phi:
			if seen == nil {
				seen = map[ssa.Value]bool{}
			}
			if seen[x] {
				return c22Origin{kind: 0, copyOf: -1, rootIdx: -1}
			}
			seen[x] = true
			res := c22Origin{kind: 0, copyOf: -1, rootIdx: -1}
			first := true
			for _, ed := range x.Edges {
				og := e.origin(ed, ctypes, depth, seen)
				if og.kind == 0 {
					continue
				}
				if og.kind != 1 {
					return unknown
				}
				if first {
					res = og
					res.root, res.rootIdx = nil, -1 // merged objects have no single root
					first = false
				} else {
					if res.copyOf != og.copyOf {
						res.copyOf = -1
					}
					res.updates = append(res.updates, og.updates...)
					res.leaks = res.leaks || og.leaks
				}
			}
			return res
		default:
			return unknown
		}
	}
	return unknown
}

func c22StoredInto(fa *ssa.FieldAddr) bool {
	refs := fa.Referrers()
	if refs == nil {
		return false
	}
	for _, r := range *refs {
		switch y := r.(type) {
		case *ssa.Store:
			if y.Addr == fa {
				return true
			}
		case *ssa.FieldAddr:
			if y.X == fa && c22StoredInto(y) {
				return true
			}
		}
	}
	return false
}

func (e *c22Engine) callOrigin(call *ssa.Call, idx int, ctypes map[int]types.Type, depth int) c22Origin {
	unknown := c22Origin{kind: 3, copyOf: -1, rootIdx: -1}
	if depth <= 0 {
		return unknown
	}
	ctx := func(v ssa.Value) types.Type {
		if pi := c22ParamIndexOf(v); pi >= 0 && ctypes != nil {
			if _, isP := v.(*ssa.Parameter); isP {
				return ctypes[pi]
			}
		}
		return nil
	}
	ts := e.targets(call.Common(), ctx, true)
	if len(ts) == 0 {
		return unknown
	}
	res := c22Origin{kind: 1, copyOf: -1, root: call, rootIdx: -1}
	if call.Common().Signature().Results().Len() > 1 {
		res.rootIdx = idx
	}
	for n, t := range ts {
		rs := e.resSum(t.fn, idx, t.ctypes, depth-1)
		if rs == nil || !rs.fresh {
			return unknown
		}
		co := -1
		if rs.copyOf >= 0 && rs.copyOf < len(t.args) {
			co = c22ParamIndexOf(t.args[rs.copyOf])
		}
		if n == 0 {
			res.copyOf = co
		} else if res.copyOf != co {
			res.copyOf = -1
		}
		res.updates = append(res.updates, rs.updates...)
		res.leaks = res.leaks || rs.leaks
	}
	return res
}

// resSum: is result idx of fn a fresh object, a copy of one of fn's parameters, with which updates.
func (e *c22Engine) resSum(fn *ssa.Function, idx int, ctypes map[int]types.Type, depth int) *c22ResSum {
	if fn == nil || len(fn.Blocks) == 0 || depth < 0 || idx >= fn.Signature.Results().Len() {
		return nil
	}
	key := fmt.Sprintf("%s|r%d", c22CtKey(fn, ctypes), idx)
	mkey := fmt.Sprintf("%s|d%d", key, depth)
	if s, ok := e.rSums[mkey]; ok {
		return s
	}
	if e.busy[key] {
		return nil
	}
	e.busy[key] = true
	defer delete(e.busy, key)
	s := &c22ResSum{copyOf: -1}
	any, first := false, true
	ok := true
	upd := map[string]bool{}
	for _, b := range fn.Blocks {
		if len(b.Instrs) == 0 {
			continue
		}
		ret, isRet := b.Instrs[len(b.Instrs)-1].(*ssa.Return)
		if !isRet || idx >= len(ret.Results) {
			continue
		}
		og := e.origin(ret.Results[idx], ctypes, depth, nil)
		switch og.kind {
		case 0:
		case 1:
			any = true
			if first {
				s.copyOf = og.copyOf
				first = false
			} else if s.copyOf != og.copyOf {
				s.copyOf = -1
			}
			for _, u := range og.updates {
				upd[u] = true
			}
			s.leaks = s.leaks || og.leaks
		default:
			ok = false
		}
	}
	s.fresh = ok && any
	if !s.fresh {
		s.copyOf = -1
	} else {
		for u := range upd {
			s.updates = append(s.updates, u)
		}
		sort.Strings(s.updates)
	}
	e.rSums[mkey] = s
	return s
}

// ---- the two local questions --------------------------------------------------------------------

type c22StoreVerdict struct {
	owned    bool   // the stored-into object is created in this function (or by a fresh-returning callee) and tracked
	lost     bool   // no later read/escape/return of the object and no earlier escape: the store is unobservable
	liveBy   string // first use that observes it
	copiedAt ssa.Instruction
	copier   *ssa.Function
	trail    []string
}

// storeBase returns the pointer value whose pointee's field (path) is stored by st, with the field path.
func c22StoreBase(st *ssa.Store) (ssa.Value, string, bool) {
	fa, ok := st.Addr.(*ssa.FieldAddr)
	if !ok {
		return nil, "", false
	}
	path := c22FieldName(fa)
	for {
		up, ok := fa.X.(*ssa.FieldAddr)
		if !ok {
			break
		}
		fa = up
		path = c22FieldName(fa) + "." + path
	}
	return fa.X, path, true
}

func (e *c22Engine) storeVerdict(st *ssa.Store, base ssa.Value) c22StoreVerdict {
	var v c22StoreVerdict
	og := e.origin(base, nil, c22MaxDepth, nil)
	if og.kind != 1 || og.root == nil {
		return v
	}
	if _, local := og.root.(*ssa.Alloc); og.leaks && !local {
		return v // created by a callee that also registers it somewhere: shared at birth
	}
	var roots []ssa.Value
	tuples := map[ssa.Value]int{}
	if og.rootIdx >= 0 {
		tuples[og.root] = og.rootIdx
	} else {
		roots = append(roots, og.root)
	}
	concrete := base.Type()
	o := e.track(roots, tuples, concrete, nil, c22MaxDepth)
	if !o.aliases[base] {
		return v
	}
	v.owned = true
	v.lost = true
	for _, u := range o.uses {
		if u.at == ssa.Instruction(st) {
			continue
		}
		after := e.reachable(st, u.at)
		if after {
			if g := o.gateOf(u.via); g != nil && !e.gateOpen(o, g, st, map[*ssa.Phi]bool{}) {
				after = false // the use sees the phi's other operand on every path from the store
			}
		}
		switch u.kind {
		case c22Read, c22Return:
			if after {
				v.lost = false
				v.liveBy = u.what + " at " + e.p.Rel(e.pos(u.at))
			} else if u.copier != nil && e.reachable(u.at, st) {
				v.copiedAt, v.copier = u.at, u.copier
			}
		case c22Escape:
			if after || e.reachable(u.at, st) {
				v.lost = false
				v.liveBy = u.what + " at " + e.p.Rel(e.pos(u.at))
			}
		}
		if !v.lost {
			break
		}
	}
	if v.lost {
		v.trail = append(v.trail, "object created at "+e.p.Rel(c22ValuePos(og.root)))
		for _, u := range o.uses {
			if u.kind == c22Write {
				continue
			}
			v.trail = append(v.trail, fmt.Sprintf("before the store: %s at %s", u.what, e.p.Rel(e.pos(u.at))))
		}
		v.trail = append(v.trail, "store at "+e.p.Rel(e.pos(st))+"; no read, call, return or escape of the object is reachable afterwards")
	}
	return v
}

func c22ValuePos(v ssa.Value) token.Pos {
	if v == nil {
		return token.NoPos
	}
	if p := v.Pos(); p.IsValid() {
		return p
	}
	if in, ok := v.(ssa.Instruction); ok && in.Block() != nil {
		for _, j := range in.Block().Instrs {
			if j.Pos().IsValid() {
				return j.Pos()
			}
		}
	}
	return token.NoPos
}

// resultUnused: the value produced by call (component idx of a tuple, or the value itself) is never
// read, passed on, stored or returned.
func (e *c22Engine) resultUsed(call *ssa.Call, idx int, concrete types.Type) (bool, string) {
	var roots []ssa.Value
	tuples := map[ssa.Value]int{}
	if call.Common().Signature().Results().Len() > 1 {
		tuples[call] = idx
	} else {
		roots = append(roots, call)
	}
	o := e.track(roots, tuples, concrete, nil, c22MaxDepth)
	for _, u := range o.uses {
		if u.kind != c22Write {
			return true, u.what + " at " + e.p.Rel(e.pos(u.at))
		}
	}
	return false, ""
}

// eachFunc visits the SSA functions (with closures) declared in the given module packages.
func (e *c22Engine) eachFunc(rels []string, all bool, f func(fn *ssa.Function)) {
	var visit func(fn *ssa.Function)
	visit = func(fn *ssa.Function) {
		if fn == nil || len(fn.Blocks) == 0 {
			return
		}
		f(fn)
		for _, an := range fn.AnonFuncs {
			visit(an)
		}
	}
	want := map[string]bool{}
	for _, r := range rels {
		if pk := e.p.Pkg(r); pk != nil {
			want[pk.PkgPath] = true
		}
	}
	var fns []*types.Func
	for fn := range e.p.decls {
		if fn.Pkg() == nil || (!all && !want[fn.Pkg().Path()]) {
			continue
		}
		fns = append(fns, fn)
	}
	sort.Slice(fns, func(i, j int) bool { return fns[i].Pos() < fns[j].Pos() })
	for _, fn := range fns {
		visit(e.prog.FuncValue(fn))
	}
}
