package main

import (
	"fmt"
	"go/ast"
	"go/constant"
	"go/token"
	"go/types"
	"sort"
	"strings"

	"golang.org/x/tools/go/cfg"
	"golang.org/x/tools/go/packages"
)

func init() {
	register(&Property{
		ID:        "C39",
		Patterns:  []string{"./sql/planbuilder", "./sql/analyzer"},
		Technique: "keyer/key struct field agreement over go/types (method-set enumeration, composite-literal field flow, call-site key types); enum-dispatch exhaustiveness + arm classification over go/ast+go/types; constant pair table read from the parser's composite literals; type-driven coverage; CFG must-pass-through; interprocedural may-share (map aliasing) analysis over go/ssa with function summaries for the privilege-set merge/copy family",
		Explanation: "Privilege checks — dispatch and coverage clauses of defaultAuthorizationHandler.HandleAuth and its callers in package planbuilder. (A1) the switches over auth.AuthType and auth.TargetType " +
			"have an arm for every AuthType_*/AuthTargetType_* constant of the pinned vitess parser and their default arms fail closed (return an error). (A2) every AuthType arm either sets a non-empty " +
			"constant list of privilege types, or assigns hasPrivileges from an expression that reaches a privilege decision (UserHasPrivileges, RoutineAdminCheck, a node's CheckAuth, or a handler helper that " +
			"reaches one), or is in the frozen pass table {IGNORE: checked elsewhere, SHOW: placeholder}: an emptied arm would allow the statement class to everyone. (A3) every TargetType arm outside the " +
			"pass table {Ignore, TODO} passes privilegeTypes to UserHasPrivileges and conjoins the earlier hasPrivileges. (A4) the denial `if !hasPrivileges` follows both switches, and the only `return nil` " +
			"inside them are the IGNORE arm and the information_schema exemptions. (A5) every AST struct of the parser that carries an AuthInformation is passed to HandleAuth somewhere in planbuilder, each " +
			"such call sends a non-nil error to handleErr under b.authEnabled, and in its function no path reaches a normal return without passing a HandleAuth call. (A6) no AuthInformation literal of " +
			"the parser pairs an AuthType whose arm only sets privilegeTypes with a TargetType whose arm does not consume them (the privilege list would never be consulted). " +
			"Deep-copy discipline of the stored grants (sql/mysql_db, family = everything reachable from PrivilegeSet.UnionWith/Copy and UserCopy, analysed over go/ssa with per-function summaries): " +
			"(D1) no merge function (UnionWith and the unionWith of the database/table/column/routine level; receiver = destination, argument = source) makes a map reachable from one operand " +
			"reachable from the other operand's maps - every map or struct of maps it stores into the destination was allocated by the family (make / composite literal / a family function that returns " +
			"fresh maps), never loaded from the source; a helper that stores its argument is judged by what its callers pass. (D2) PrivilegeSet.Copy and UserCopy return values that share no map with " +
			"their operand (every map field of every level is fresh; a struct copy counts only for the fields that are overwritten on every path before the return). (D3) the destination of every " +
			"PrivilegeSet.UnionWith call in the module is a set the calling function built itself (NewPrivilegeSet / Copy), never a stored one - UserActivePrivilegeSet merges roles into a copy. " +
			"A violation lets a role merge or a grant-table edit write into another account's stored grants: privileges survive REVOKE / leak between roles. " +
			"(K1) keyer field agreement of the grant tables' indexes: for every in_mem_table.Keyer of sql/mysql_db (types with GetKey(*Entry) any: primary and secondary keyers of user, role_edges, replica source info) each field of the key struct " +
			"literal GetKey returns is filled from the entry field it denotes (same name, case-insensitively, same type), reads no other entry field, and no denoted field is left zero; keyers of one entry type build pairwise different key types; every " +
			"GetMany/RemoveMany call of the module that names its keyer passes a key of the type that keyer builds (keys are `any`: a mismatch compiles and never matches). A violation makes DROP USER / DROP ROLE / REVOKE and the role lookup of the privilege " +
			"check address a different account than the statement names: stale role edges re-grant a re-created role, or granted roles stop applying.",
		NotCovered: "K1: key fields without a same-named entry field that are filled from the entry (none today; reported undecided), key values computed through entry methods, the callers' construction of key values from statement names (host/user order at the call sites in rowexec/plan), and the generic container itself (C47); " +
			"the privilege-set lookup itself (UserHasPrivileges, role activation), GRANT/REVOKE histories, CheckAuth implementations of plan nodes, target names computed by the parser, " +
			"integrator-supplied authorization handlers; for D1-D3: sharing of one fresh map between two entries of the same destination, callers that mutate a set obtained from the session cache " +
			"through Add*/Remove*/Clear* (only UnionWith destinations are decided), maps stored by functions outside the family (calls outside the family with map-carrying operands make the rule undecided, " +
			"which is a failure, inside the family and are assumed not to store their operands in the three UnionWith callers), nil maps",
		Run: func(c *Ctx) {
			runC39(c, c39Cfg{rel: "sql/planbuilder", handler: "defaultAuthorizationHandler.HandleAuth", astPkg: "github.com/dolthub/vitess/go/vt/sqlparser",
				authPrefix: "AuthType_", targetPrefix: "AuthTargetType_", authInfo: "AuthInformation",
				passAuth:   map[string]string{"AuthType_IGNORE": "authorization is handled by a parent or child node", "AuthType_SHOW": "placeholder: SHOW statements without a decided privilege"},
				passTarget: map[string]string{"AuthTargetType_Ignore": "the AuthType arm decided on its own", "AuthTargetType_TODO": "placeholder paired with AuthType_SHOW"},
				deciders:   []string{"UserHasPrivileges", "RoutineAdminCheck", "CheckAuth", "authCheckDatabaseTableNames"},
				errSink:    "handleErr", enabledField: "authEnabled", exemptDB: "information_schema",
				floors: [7]int{50, 41, 7, 4, 100, 42, 2}})
			runC39Copy(c, c39CopyCfg{rel: "sql/mysql_db",
				merges:    []string{"PrivilegeSet.UnionWith", "PrivilegeSetDatabase.unionWith", "PrivilegeSetTable.unionWith", "PrivilegeSetColumn.unionWith", "PrivilegeSetRoutine.unionWith"},
				copies:    []string{"PrivilegeSet.Copy", "UserCopy"},
				unionInto: "PrivilegeSet.UnionWith",
				floors:    [3]int{5, 2, 2}})
			runC39Keyer(c, c39KeyerCfg{rel: "sql/mysql_db", lookups: []string{"GetMany", "RemoveMany"}, floor: 26})
		},
		Fixture: func(c *Ctx, fx *Prog) {
			expectFixture(c, fx, "c39: missing arm, emptied arm, permissive default, target arm that ignores the privilege list, early return nil, uncovered AST node, dropped error, unconsulted pair",
				[]string{
					"C39-A1:AuthType_DROP",
					"C39-A1:AuthTargetType/default",
					"C39-A2:AuthType_DELETE",
					"C39-A3:AuthTargetType_Table",
					"C39-A4:return nil/AuthType_UPDATE",
					"C39-A5:type/Flush",
					"C39-A5:call/Builder.buildDelete/n.Auth",
					"C39-A5:path/Builder.buildUpdate/n.Auth",
					"C39-A6:AuthType_INSERT+AuthTargetType_Ignore",
					"C39-A6:AuthType_SELECT+AuthTargetType_Table",
				},
				func(fc *Ctx) {
					runC39(fc, c39Cfg{rel: "testdata/c39/build", handler: "handler.HandleAuth", astPkg: "vchk/testdata/c39/ast",
						authPrefix: "AuthType_", targetPrefix: "AuthTargetType_", authInfo: "AuthInformation",
						passAuth:   map[string]string{"AuthType_IGNORE": "elsewhere"},
						passTarget: map[string]string{"AuthTargetType_Ignore": "decided"},
						deciders:   []string{"UserHasPrivileges"}, errSink: "handleErr", enabledField: "authEnabled", exemptDB: "information_schema"})
				})
			expectFixture(c, fx, "c39-D: merge that stores the source's table set, helper given the source's set, half clone, shallow copy, copy shortcut, struct copy keeping the set, merge into a stored set",
				[]string{
					"C39-D1:Set.MergeFast/s.tables<-o",
					"C39-D1:Set.MergeViaHelperBad/s<-o via Set.put:s.tables",
					"C39-D1:Set.MergeHalfClone/s.tables<-o",
					"C39-D1:Set.AdoptCloneShallow/s.tables<-o",
					"C39-D2:Set.CopyShallow/result shares s",
					"C39-D2:Set.CopyEmptyShortcut/result shares s",
					"C39-D2:UserCopyBad/result shares u",
					"C39-D3:testdata/c39/privset.ActiveBad/UnionWith",
					"C39-K1:EdgeFromKeyer.GetKey/FromHost",
					"C39-K1:EdgeToKeyer.GetKey/ToUser",
					"C39-K1:EdgeToKeyer/key type",
					"C39-K1:EdgeDupKeyer/key type",
					"C39-K1:Tbl.Drop/RemoveMany(EdgeFromKeyer)",
				},
				func(fc *Ctx) {
					runC39Copy(fc, c39CopyCfg{rel: "testdata/c39/privset",
						merges:    []string{"Set.UnionWith", "Tbl.unionWith", "Set.MergeFast", "Set.MergeViaHelper", "Set.MergeViaHelperBad", "Set.MergeHalfClone", "Set.MergeCloneStd", "Set.AdoptCloneShallow"},
						copies:    []string{"Set.Copy", "Set.CopyOverwrite", "Set.CopyShallow", "Set.CopyEmptyShortcut", "UserCopy", "UserCopyBad"},
						unionInto: "Set.UnionWith"})
					runC39Keyer(fc, c39KeyerCfg{rel: "testdata/c39/keyer", lookups: []string{"GetMany", "RemoveMany"}})
				})
		},
		FixturePkgs: []string{"./testdata/c39/build", "./testdata/c39/ast", "./testdata/c39/privset", "./testdata/c39/keyer"},
	})
}

type c39Cfg struct {
	rel, handler, astPkg               string
	authPrefix, targetPrefix, authInfo string
	passAuth, passTarget               map[string]string
	deciders                           []string
	errSink, enabledField, exemptDB    string
	floors                             [7]int
}

type c39Arm struct {
	kind   string // "priv" | "check" | "pass" | "other"
	detail string
	cc     *ast.CaseClause
}

func runC39(c *Ctx, cf c39Cfg) {
	c.Rule("C39-A1", "both dispatch switches of HandleAuth have an arm for every AuthType_*/AuthTargetType_* constant of the parser, and their default arms return an error", cf.floors[0])
	c.Rule("C39-A2", "every AuthType arm sets a non-empty constant privilege list, or assigns hasPrivileges from an expression that reaches a privilege decision, or is in the frozen pass table", cf.floors[1])
	c.Rule("C39-A3", "every TargetType arm outside the pass table passes privilegeTypes to UserHasPrivileges and conjoins the earlier hasPrivileges", cf.floors[2])
	c.Rule("C39-A4", "the denial on !hasPrivileges follows both switches; `return nil` inside them only in pass-table arms or under the information_schema exemption", cf.floors[3])
	c.Rule("C39-A5", "every parser AST struct with an AuthInformation field is passed to HandleAuth in planbuilder; each call sends its error to handleErr under authEnabled; no path of the calling function returns normally without a HandleAuth call", cf.floors[4])
	c.Rule("C39-A6", "no AuthInformation literal of the parser pairs a privilege-list AuthType with a TargetType arm that does not consume the list", cf.floors[5])
	pk := c.P.Pkg(cf.rel)
	astPk := c.P.ByPath[cf.astPkg]
	if pk == nil || astPk == nil {
		c.Undecided("C39-A1", "packages", 0, "planbuilder or parser package not loaded")
		return
	}
	info := pk.TypesInfo
	hfn := LookupFunc(pk, cf.handler)
	hd := c.P.Decl(hfn)
	if hd == nil || hd.Body == nil {
		c.Undecided("C39-A1", cf.handler, 0, "handler not found")
		return
	}
	// enum constants of the parser
	enum := func(prefix string) []string {
		var out []string
		for _, n := range astPk.Types.Scope().Names() {
			if k, ok := astPk.Types.Scope().Lookup(n).(*types.Const); ok && strings.HasPrefix(n, prefix) && k.Val().Kind() == constant.String {
				out = append(out, n)
			}
		}
		sort.Strings(out)
		return out
	}
	authConsts, targetConsts := enum(cf.authPrefix), enum(cf.targetPrefix)
	// targetPrefix constants also match authPrefix if one is a prefix of the other: filter
	if strings.HasPrefix(cf.targetPrefix, cf.authPrefix) {
		var f []string
		for _, n := range authConsts {
			if !strings.HasPrefix(n, cf.targetPrefix) {
				f = append(f, n)
			}
		}
		authConsts = f
	}
	if len(authConsts) < 3 || len(targetConsts) < 2 {
		c.Undecided("C39-A1", "constants", 0, fmt.Sprintf("parser constants not found (%d %s*, %d %s*)", len(authConsts), cf.authPrefix, len(targetConsts), cf.targetPrefix))
		return
	}
	// the two switches: tag is auth.<AuthType|TargetType>
	var authParam types.Object
	for _, fl := range hd.Type.Params.List {
		for _, nm := range fl.Names {
			if nt, ok := types.Unalias(info.Defs[nm].Type()).(*types.Named); ok && nt.Obj().Name() == cf.authInfo {
				authParam = info.Defs[nm]
			}
		}
	}
	if authParam == nil {
		c.Undecided("C39-A1", cf.handler, hd.Pos(), "no parameter of type "+cf.authInfo)
		return
	}
	var swAuth, swTarget *ast.SwitchStmt
	for _, st := range hd.Body.List {
		sw, ok := st.(*ast.SwitchStmt)
		if !ok || sw.Tag == nil {
			continue
		}
		sel, ok := ast.Unparen(sw.Tag).(*ast.SelectorExpr)
		if !ok {
			continue
		}
		if id, ok := ast.Unparen(sel.X).(*ast.Ident); !ok || info.Uses[id] != authParam {
			continue
		}
		switch sel.Sel.Name {
		case "AuthType":
			swAuth = sw
		case "TargetType":
			swTarget = sw
		}
	}
	if swAuth == nil || swTarget == nil {
		c.Undecided("C39-A1", cf.handler, hd.Pos(), "the top-level switches over auth.AuthType and auth.TargetType were not found")
		return
	}
	constOf := func(e ast.Expr) string {
		var id *ast.Ident
		switch x := ast.Unparen(e).(type) {
		case *ast.SelectorExpr:
			id = x.Sel
		case *ast.Ident:
			id = x
		}
		if id != nil {
			if k, ok := info.Uses[id].(*types.Const); ok && k.Pkg() == astPk.Types {
				return id.Name
			}
		}
		return ""
	}
	// locals
	var hasPriv, privTypes types.Object
	ast.Inspect(hd.Body, func(n ast.Node) bool {
		switch x := n.(type) {
		case *ast.AssignStmt:
			if x.Tok == token.DEFINE && len(x.Lhs) == 1 && len(x.Rhs) == 1 {
				if tv, ok := info.Types[x.Rhs[0]]; ok && tv.Value != nil && tv.Value.Kind() == constant.Bool && hasPriv == nil {
					hasPriv = info.Defs[x.Lhs[0].(*ast.Ident)]
				}
			}
		case *ast.ValueSpec:
			if len(x.Names) == 1 && x.Type != nil {
				if sl, ok := info.Defs[x.Names[0]].Type().Underlying().(*types.Slice); ok && privTypes == nil {
					if nt, ok := types.Unalias(sl.Elem()).(*types.Named); ok && strings.Contains(nt.Obj().Name(), "Privilege") {
						privTypes = info.Defs[x.Names[0]]
					}
				}
			}
		}
		return true
	})
	if hasPriv == nil || privTypes == nil {
		c.Undecided("C39-A2", cf.handler, hd.Pos(), "locals hasPrivileges (bool := true) / privilegeTypes ([]PrivilegeType) not found")
		return
	}
	usesObj := func(n ast.Node, o types.Object) bool {
		found := false
		ast.Inspect(n, func(m ast.Node) bool {
			if id, ok := m.(*ast.Ident); ok && info.Uses[id] == o {
				found = true
			}
			return !found
		})
		return found
	}
	// decision reachability of handler helpers
	decides := map[*types.Func]bool{}
	var reaches func(n ast.Node, depth int) bool
	reaches = func(n ast.Node, depth int) bool {
		found := false
		ast.Inspect(n, func(m ast.Node) bool {
			call, ok := m.(*ast.CallExpr)
			if !ok || found {
				return !found
			}
			fn := Callee(info, call)
			if fn == nil {
				return true
			}
			if contains(cf.deciders, fn.Name()) {
				found = true
				return false
			}
			if fn.Pkg() == pk.Types && depth < 4 {
				if v, done := decides[fn]; done {
					found = found || v
				} else if fd := c.P.Decl(fn); fd != nil && fd.Body != nil {
					decides[fn] = false
					decides[fn] = reaches(fd.Body, depth+1)
					found = found || decides[fn]
				}
			}
			return !found
		})
		return found
	}
	classifyAuth := func(cc *ast.CaseClause) c39Arm {
		arm := c39Arm{kind: "other", cc: cc}
		if len(cc.Body) == 0 {
			return c39Arm{kind: "pass", detail: "empty arm", cc: cc}
		}
		if len(cc.Body) == 1 {
			if ret, ok := cc.Body[0].(*ast.ReturnStmt); ok && len(ret.Results) == 1 && isNilIdent(info, ret.Results[0]) {
				return c39Arm{kind: "pass", detail: "return nil", cc: cc}
			}
		}
		for _, st := range cc.Body {
			as, ok := st.(*ast.AssignStmt)
			if !ok || len(as.Lhs) == 0 {
				continue
			}
			id, ok := as.Lhs[0].(*ast.Ident)
			if !ok {
				continue
			}
			switch info.Uses[id] {
			case privTypes:
				if cl, ok := ast.Unparen(as.Rhs[0]).(*ast.CompositeLit); ok && len(cl.Elts) > 0 {
					allConst := true
					var names []string
					for _, el := range cl.Elts {
						tv, has := info.Types[el]
						if !has || tv.Value == nil {
							allConst = false
						}
						names = append(names, types.ExprString(el))
					}
					if allConst {
						arm.kind, arm.detail = "priv", strings.Join(names, ",")
					}
				}
			case hasPriv:
				if len(as.Rhs) == 1 && reaches(as.Rhs[0], 0) {
					if tv, has := info.Types[as.Rhs[0]]; !has || tv.Value == nil {
						arm.kind, arm.detail = "check", "hasPrivileges = "+shortNode(c.P.Fset, as.Rhs[0])
					}
				}
			}
		}
		return arm
	}
	// ---- A1 + A2 on the AuthType switch
	authArms := map[string]c39Arm{}
	var authDefault *ast.CaseClause
	for _, cs := range swAuth.Body.List {
		cc := cs.(*ast.CaseClause)
		if cc.List == nil {
			authDefault = cc
			continue
		}
		arm := classifyAuth(cc)
		for _, l := range cc.List {
			if n := constOf(l); n != "" {
				authArms[n] = arm
			}
		}
	}
	failsClosed := func(cc *ast.CaseClause) bool {
		if cc == nil {
			return false
		}
		// every path through the clause returns a non-nil error
		ok := true
		nret := 0
		ast.Inspect(cc, func(n ast.Node) bool {
			if ret, isRet := n.(*ast.ReturnStmt); isRet {
				nret++
				if len(ret.Results) != 1 || isNilIdent(info, ret.Results[0]) {
					ok = false
				}
			}
			return true
		})
		if nret == 0 {
			return false
		}
		last := cc.Body[len(cc.Body)-1]
		return ok && c39Terminates(last)
	}
	for _, n := range authConsts {
		arm, ok := authArms[n]
		c.Check(ok, "C39-A1", n, swAuth.Pos(), "arm present", "HandleAuth has no arm for "+n+": every statement of that class fails with \"AuthType not handled\" (or, with a permissive default, is allowed to everyone)")
		if !ok {
			continue
		}
		switch arm.kind {
		case "priv", "check":
			c.Ok("C39-A2", n, arm.cc.Pos(), arm.kind+": "+arm.detail)
		case "pass":
			if why, listed := cf.passAuth[n]; listed {
				c.Exc("C39-A2", n, arm.cc.Pos(), "pass table: "+why)
			} else {
				c.Bad("C39-A2", n, arm.cc.Pos(), "the arm for "+n+" is empty ("+arm.detail+"): hasPrivileges stays true and no privilege list is set, the statement class is allowed to every user")
			}
		default:
			c.Bad("C39-A2", n, arm.cc.Pos(), "the arm for "+n+" neither sets a constant privilege list nor assigns hasPrivileges from a privilege decision")
		}
	}
	c.Check(failsClosed(authDefault), "C39-A1", "AuthType/default", swAuth.Pos(), "default returns an error", "the default arm of the AuthType switch does not return an error on every path: an unknown AuthType is allowed")

	// ---- A1 + A3 on the TargetType switch
	targetArms := map[string]*ast.CaseClause{}
	consumes := map[string]bool{}
	var targetDefault *ast.CaseClause
	for _, cs := range swTarget.Body.List {
		cc := cs.(*ast.CaseClause)
		if cc.List == nil {
			targetDefault = cc
			continue
		}
		for _, l := range cc.List {
			if n := constOf(l); n != "" {
				targetArms[n] = cc
			}
		}
	}
	for _, n := range targetConsts {
		cc, ok := targetArms[n]
		c.Check(ok, "C39-A1", n, swTarget.Pos(), "arm present", "HandleAuth has no arm for "+n)
		if !ok {
			continue
		}
		if why, listed := cf.passTarget[n]; listed {
			empty := true
			for _, st := range cc.Body {
				if _, isEmpty := st.(*ast.EmptyStmt); !isEmpty {
					empty = false
				}
			}
			if empty {
				c.Exc("C39-A3", n, cc.Pos(), "pass table: "+why)
			} else {
				c.Ok("C39-A3", n, cc.Pos(), "pass-table arm with a body")
			}
			continue
		}
		// an assignment hasPrivileges = <decision using privilegeTypes> [&& hasPrivileges | inside a loop whose condition has && hasPrivileges]
		okArm, why := false, "no assignment to hasPrivileges from UserHasPrivileges(…privilegeTypes…)"
		var loops []*ast.ForStmt
		var visit func(n ast.Node)
		visit = func(n ast.Node) {
			ast.Inspect(n, func(m ast.Node) bool {
				switch x := m.(type) {
				case *ast.ForStmt:
					loops = append(loops, x)
					visit(x.Body)
					loops = loops[:len(loops)-1]
					return false
				case *ast.AssignStmt:
					if len(x.Lhs) != 1 || len(x.Rhs) != 1 {
						return true
					}
					id, ok := x.Lhs[0].(*ast.Ident)
					if !ok || info.Uses[id] != hasPriv {
						return true
					}
					rhs := x.Rhs[0]
					if !reaches(rhs, 0) || !usesObj(rhs, privTypes) {
						why = "hasPrivileges is assigned from an expression that does not pass privilegeTypes to a privilege decision"
						return true
					}
					conj := usesObj(rhs, hasPriv)
					for _, l := range loops {
						if l.Cond != nil && usesObj(l.Cond, hasPriv) {
							conj = true
						}
					}
					if conj {
						okArm = true
					} else {
						why = "the result overwrites hasPrivileges without `&& hasPrivileges`: a denial decided by the AuthType arm is lost"
					}
				}
				return true
			})
		}
		for _, st := range cc.Body {
			visit(st)
		}
		consumes[n] = okArm
		c.Check(okArm, "C39-A3", n, cc.Pos(), "consumes privilegeTypes and conjoins hasPrivileges", "the arm for "+n+": "+why)
	}
	c.Check(failsClosed(targetDefault), "C39-A1", strings.TrimSuffix(cf.targetPrefix, "_")+"/default", swTarget.Pos(), "default returns an error", "the default arm of the TargetType switch does not return an error on every path: an unknown TargetType is allowed")

	// ---- A4
	{
		// `return nil` inside the switches
		for _, sw := range []*ast.SwitchStmt{swAuth, swTarget} {
			for _, cs := range sw.Body.List {
				cc := cs.(*ast.CaseClause)
				label := "default"
				if len(cc.List) > 0 {
					label = constOf(cc.List[0])
				}
				var stack []ast.Node
				ast.Inspect(cc, func(n ast.Node) bool {
					if n == nil {
						stack = stack[:len(stack)-1]
						return true
					}
					stack = append(stack, n)
					ret, ok := n.(*ast.ReturnStmt)
					if !ok || len(ret.Results) != 1 || !isNilIdent(info, ret.Results[0]) {
						return true
					}
					key := "return nil/" + label
					if _, listed := cf.passAuth[label]; listed && len(stack) == 2 {
						c.Exc("C39-A4", key, ret.Pos(), "pass-table arm")
						return true
					}
					// under `if strings.EqualFold(x, "information_schema")`
					exempt := false
					for i := len(stack) - 1; i >= 0; i-- {
						if ifs, ok := stack[i].(*ast.IfStmt); ok {
							if call, ok := ast.Unparen(ifs.Cond).(*ast.CallExpr); ok && len(call.Args) == 2 {
								if fn := Callee(info, call); fn != nil && FullName(fn) == "strings.EqualFold" {
									if tv, has := info.Types[call.Args[1]]; has && tv.Value != nil && tv.Value.Kind() == constant.String && constant.StringVal(tv.Value) == cf.exemptDB {
										exempt = true
									}
								}
							}
						}
					}
					if exempt {
						c.Exc("C39-A4", key, ret.Pos(), "tables of "+cf.exemptDB+" are readable by every account")
					} else {
						c.Bad("C39-A4", key, ret.Pos(), "the arm for "+label+" returns nil before the denial on !hasPrivileges: the statement is allowed whatever the privilege decision")
					}
					return true
				})
			}
		}
		// the denial after the switches
		denial := false
		after := false
		for _, st := range hd.Body.List {
			if st == ast.Stmt(swTarget) {
				after = true
				continue
			}
			if !after {
				continue
			}
			if ifs, ok := st.(*ast.IfStmt); ok {
				if un, ok := ast.Unparen(ifs.Cond).(*ast.UnaryExpr); ok && un.Op == token.NOT {
					if id, ok := ast.Unparen(un.X).(*ast.Ident); ok && info.Uses[id] == hasPriv && len(ifs.Body.List) > 0 {
						if ret, ok := ifs.Body.List[len(ifs.Body.List)-1].(*ast.ReturnStmt); ok && len(ret.Results) == 1 && !isNilIdent(info, ret.Results[0]) {
							denial = true
						}
					}
				}
			}
		}
		authBeforeTarget := swAuth.Pos() < swTarget.Pos()
		c.Check(denial && authBeforeTarget, "C39-A4", "denial", hd.Pos(), "`if !hasPrivileges { return error }` follows both switches", "HandleAuth does not end with `if !hasPrivileges { return <error> }` after the TargetType switch: a negative privilege decision is not turned into a denial")
	}

	// ---- A6: pairs in the parser
	{
		pairs := map[[2]string]token.Pos{}
		for _, f := range astPk.Syntax {
			ast.Inspect(f, func(n ast.Node) bool {
				cl, ok := n.(*ast.CompositeLit)
				if !ok {
					return true
				}
				tv, has := astPk.TypesInfo.Types[cl]
				if !has {
					return true
				}
				nt, ok := types.Unalias(tv.Type).(*types.Named)
				if !ok || nt.Obj().Name() != cf.authInfo || nt.Obj().Pkg() != astPk.Types {
					return true
				}
				a, t := "", ""
				for _, el := range cl.Elts {
					kv, ok := el.(*ast.KeyValueExpr)
					if !ok {
						continue
					}
					k, _ := kv.Key.(*ast.Ident)
					if k == nil {
						continue
					}
					name := "(computed)"
					if id, ok := ast.Unparen(kv.Value).(*ast.Ident); ok {
						if _, isConst := astPk.TypesInfo.Uses[id].(*types.Const); isConst {
							name = id.Name
						}
					}
					switch k.Name {
					case "AuthType":
						a = name
					case "TargetType":
						t = name
					}
				}
				if a != "" && a != "(computed)" {
					if _, seen := pairs[[2]string{a, t}]; !seen {
						pairs[[2]string{a, t}] = cl.Pos()
					}
				}
				return true
			})
		}
		var ps [][2]string
		for p := range pairs {
			ps = append(ps, p)
		}
		sort.Slice(ps, func(i, j int) bool { return ps[i][0]+ps[i][1] < ps[j][0]+ps[j][1] })
		for _, p := range ps {
			a, t := p[0], p[1]
			key := a + "+" + t
			if t == "" {
				key = a + "+(none)"
			}
			arm, has := authArms[a]
			switch {
			case !has:
				c.Note("C39-A6", key, pairs[p], "AuthType without an arm (reported by A1)")
			case arm.kind != "priv":
				c.Ok("C39-A6", key, pairs[p], "the AuthType arm decides on its own ("+arm.kind+")")
			case t == "" || t == "(computed)":
				c.Ok("C39-A6", key, pairs[p], "TargetType set elsewhere or empty: the TargetType switch fails closed on an empty value")
			case consumes[t]:
				c.Ok("C39-A6", key, pairs[p], "the TargetType arm consumes the privilege list")
			default:
				c.Bad("C39-A6", key, pairs[p], fmt.Sprintf("the parser builds AuthInformation{%s, %s}: the arm for %s only sets the privilege list (%s) and the arm for %s never consults it — the statement is allowed to every user", a, t, a, arm.detail, t))
			}
		}
	}

	// ---- A5: coverage of AST structs and call-site discipline
	c39Coverage(c, cf, pk, astPk, hfn)

	// ---- A7: authorization is switched off only on a builder created for that purpose
	c.Rule("C39-A7", "Builder.DisableAuth is called only on a builder that the calling function itself created (local variable assigned from a planbuilder constructor): the builder of a user statement never has its checks switched off", cf.floors[6])
	if dis := LookupFunc(pk, "Builder.DisableAuth"); dis != nil {
		for _, mp := range c.P.Module {
			mi := mp.TypesInfo
			for _, file := range mp.Syntax {
				for _, d := range file.Decls {
					fd, ok := d.(*ast.FuncDecl)
					if !ok || fd.Body == nil {
						continue
					}
					ast.Inspect(fd.Body, func(n ast.Node) bool {
						call, ok := n.(*ast.CallExpr)
						if !ok || Callee(mi, call) != dis {
							return true
						}
						key := mp.Types.Name() + "." + DeclName(fd)
						sel, _ := ast.Unparen(call.Fun).(*ast.SelectorExpr)
						fresh := false
						if sel != nil {
							if id, ok := ast.Unparen(sel.X).(*ast.Ident); ok {
								obj := mi.Uses[id]
								ast.Inspect(fd.Body, func(m ast.Node) bool {
									as, ok := m.(*ast.AssignStmt)
									if !ok || as.Tok != token.DEFINE || len(as.Rhs) != 1 {
										return true
									}
									for _, l := range as.Lhs {
										if lid, ok := l.(*ast.Ident); ok && mi.Defs[lid] == obj && as.Pos() < call.Pos() {
											if cl, ok := ast.Unparen(as.Rhs[0]).(*ast.CallExpr); ok {
												if fn := Callee(mi, cl); fn != nil && fn.Pkg() == pk.Types && strings.HasPrefix(fn.Name(), "New") {
													fresh = true
												}
											}
										}
									}
									return true
								})
							}
						}
						c.Check(fresh, "C39-A7", key, call.Pos(), "on a builder created in this function", key+" switches authorization off on a builder it did not create: statements built later with that builder are not checked")
						return true
					})
				}
			}
		}
	} else if !c.fixtureMode {
		c.Undecided("C39-A7", "Builder.DisableAuth", 0, "not found")
	}
}

func c39Terminates(s ast.Stmt) bool {
	switch x := s.(type) {
	case *ast.ReturnStmt:
		return true
	case *ast.IfStmt:
		if x.Else == nil {
			return false
		}
		thenOK := len(x.Body.List) > 0 && c39Terminates(x.Body.List[len(x.Body.List)-1])
		switch e := x.Else.(type) {
		case *ast.BlockStmt:
			return thenOK && len(e.List) > 0 && c39Terminates(e.List[len(e.List)-1])
		case *ast.IfStmt:
			return thenOK && c39Terminates(e)
		}
	case *ast.BlockStmt:
		return len(x.List) > 0 && c39Terminates(x.List[len(x.List)-1])
	}
	return false
}

func c39Coverage(c *Ctx, cf c39Cfg, pk, astPk *packages.Package, hfn *types.Func) {
	info := pk.TypesInfo
	// AST structs with a field of type AuthInformation
	var authInfoT types.Type
	if tn, ok := astPk.Types.Scope().Lookup(cf.authInfo).(*types.TypeName); ok {
		authInfoT = tn.Type()
	}
	if authInfoT == nil {
		c.Undecided("C39-A5", cf.authInfo, 0, "type not found in the parser package")
		return
	}
	carriers := map[string]*types.TypeName{}
	for _, n := range astPk.Types.Scope().Names() {
		tn, ok := astPk.Types.Scope().Lookup(n).(*types.TypeName)
		if !ok {
			continue
		}
		st, ok := tn.Type().Underlying().(*types.Struct)
		if !ok {
			continue
		}
		for i := 0; i < st.NumFields(); i++ {
			if types.Identical(st.Field(i).Type(), authInfoT) {
				carriers[n] = tn
			}
		}
	}
	// the interface method HandleAuth (calls go through the AuthorizationHandler interface)
	isHandleAuth := func(fn *types.Func) bool { return fn != nil && fn.Name() == hfn.Name() && fn != hfn || fn == hfn }
	covered := map[string]token.Pos{}
	c.P.EachFuncDecl([]string{cf.rel}, func(_ *packages.Package, fd *ast.FuncDecl) {
		if fn, _ := info.Defs[fd.Name].(*types.Func); fn == hfn {
			return
		}
		var sites []*ast.CallExpr
		var stack []ast.Node
		ast.Inspect(fd.Body, func(n ast.Node) bool {
			if n == nil {
				stack = stack[:len(stack)-1]
				return true
			}
			stack = append(stack, n)
			call, ok := n.(*ast.CallExpr)
			if !ok || !isHandleAuth(Callee(info, call)) || len(call.Args) == 0 {
				return true
			}
			arg := ast.Unparen(call.Args[len(call.Args)-1])
			sel, ok := arg.(*ast.SelectorExpr)
			if !ok {
				return true
			}
			tv, has := info.Types[sel.X]
			if !has {
				return true
			}
			t := tv.Type
			if p, ok := t.Underlying().(*types.Pointer); ok {
				t = p.Elem()
			}
			nt, ok := types.Unalias(t).(*types.Named)
			if !ok || nt.Obj().Pkg() != astPk.Types {
				return true
			}
			if _, seen := covered[nt.Obj().Name()]; !seen {
				covered[nt.Obj().Name()] = call.Pos()
			}
			sites = append(sites, call)
			// error discipline: `if err := …HandleAuth(…); err != nil && b.authEnabled { b.handleErr(err) }`
			key := "call/" + DeclName(fd) + "/" + types.ExprString(arg)
			okFlow, why := false, "the call is not the init statement of an if"
			for i := len(stack) - 1; i >= 0; i-- {
				ifs, ok := stack[i].(*ast.IfStmt)
				if !ok || ifs.Init == nil {
					continue
				}
				as, ok := ifs.Init.(*ast.AssignStmt)
				if !ok || len(as.Rhs) != 1 || ast.Unparen(as.Rhs[0]) != ast.Expr(call) || len(as.Lhs) != 1 {
					continue
				}
				errObj := info.Defs[as.Lhs[0].(*ast.Ident)]
				cond := types.ExprString(ifs.Cond)
				condOK := false
				// err != nil [&& b.authEnabled]
				var conj []ast.Expr
				var split func(e ast.Expr)
				split = func(e ast.Expr) {
					if be, ok := ast.Unparen(e).(*ast.BinaryExpr); ok && be.Op == token.LAND {
						split(be.X)
						split(be.Y)
						return
					}
					conj = append(conj, ast.Unparen(e))
				}
				split(ifs.Cond)
				hasErrTest := false
				extraOK := true
				for _, k := range conj {
					if be, ok := k.(*ast.BinaryExpr); ok && be.Op == token.NEQ && isNilIdent(info, be.Y) {
						if id, ok := ast.Unparen(be.X).(*ast.Ident); ok && info.Uses[id] == errObj {
							hasErrTest = true
							continue
						}
					}
					if sel, ok := k.(*ast.SelectorExpr); ok && sel.Sel.Name == cf.enabledField {
						continue
					}
					extraOK = false
				}
				condOK = hasErrTest && extraOK
				sinkOK := ContainsCall(info, ifs.Body, func(fn *types.Func, cl *ast.CallExpr) bool {
					if fn.Name() != cf.errSink || len(cl.Args) != 1 {
						return false
					}
					id, ok := ast.Unparen(cl.Args[0]).(*ast.Ident)
					return ok && info.Uses[id] == errObj
				})
				if !sinkOK {
					for _, st := range ifs.Body.List {
						if ret, ok := st.(*ast.ReturnStmt); ok {
							for _, r := range ret.Results {
								if id, ok := ast.Unparen(r).(*ast.Ident); ok && info.Uses[id] == errObj {
									sinkOK = true
								}
							}
						}
					}
				}
				switch {
				case !condOK:
					why = "the condition `" + cond + "` is not `err != nil` (optionally `&& b." + cf.enabledField + "`): a denial can be skipped"
				case !sinkOK:
					why = "a non-nil error is not passed to " + cf.errSink + " (nor returned): the denial is dropped"
				default:
					okFlow = true
				}
				break
			}
			c.Check(okFlow, "C39-A5", key, call.Pos(), "error flows to "+cf.errSink, DeclName(fd)+": "+why)
			return true
		})
		if len(sites) == 0 {
			return
		}
		// path clause: no normal return of the function is reachable without passing a HandleAuth call.
		// (panics — handleErr — are no-return in the CFG.) Applied to functions whose own parameter
		// carries the AuthInformation; type-switch dispatchers are handled per arm.
		g := c.P.CFG(info, fd.Body)
		isAuthCall := func(n ast.Node) bool {
			return ContainsCall(info, n, func(fn *types.Func, _ *ast.CallExpr) bool { return isHandleAuth(fn) })
		}
		for _, call := range sites {
			arg := ast.Unparen(call.Args[len(call.Args)-1]).(*ast.SelectorExpr)
			key := "path/" + DeclName(fd) + "/" + types.ExprString(arg)
			x, ok := ast.Unparen(arg.X).(*ast.Ident)
			if !ok {
				c.Note("C39-A5", key, call.Pos(), "argument is not a plain variable: path clause not applied")
				continue
			}
			obj := info.Uses[x]
			isParam := false
			for _, fl := range fd.Type.Params.List {
				for _, nm := range fl.Names {
					if info.Defs[nm] == obj {
						isParam = true
					}
				}
			}
			var start CFGPoint
			if isParam {
				start = EntryPoint(g)
			} else {
				// a variable bound by a type-switch arm or assigned from a type assertion: start where it is bound
				var bind ast.Node
				afterBind := false
				ast.Inspect(fd.Body, func(n ast.Node) bool {
					if cc, ok := n.(*ast.CaseClause); ok && info.Implicits[cc] == obj && len(cc.Body) > 0 {
						bind = c45FirstEvaluated(cc.Body[0])
					}
					if as, ok := n.(*ast.AssignStmt); ok && bind == nil {
						for _, l := range as.Lhs {
							if id, ok := l.(*ast.Ident); ok && info.Defs[id] == obj {
								bind, afterBind = as, true
							}
						}
					}
					return true
				})
				if bind == nil {
					c.Note("C39-A5", key, call.Pos(), "binding of the variable not found: path clause not applied")
					continue
				}
				pt, found := FindNode(g, bind)
				if !found {
					c.Note("C39-A5", key, call.Pos(), "binding not in the CFG: path clause not applied")
					continue
				}
				start = CFGPoint{pt.B, pt.I - 1}
				if afterBind {
					start = pt
				}
			}
			// a node whose AuthInformation is empty needs no check: cut the edge on which
			// `<x>.Auth.AuthType != ""` is false (resp. `== ""` is true)
			noAuthEdge := func(b *cfg.Block, succ int) bool {
				if len(b.Succs) != 2 || len(b.Nodes) == 0 {
					return true
				}
				be, ok := ast.Unparen(asExpr(b.Nodes[len(b.Nodes)-1])).(*ast.BinaryExpr)
				if !ok || (be.Op != token.NEQ && be.Op != token.EQL) {
					return true
				}
				sel, ok := ast.Unparen(be.X).(*ast.SelectorExpr)
				if !ok || sel.Sel.Name != "AuthType" || types.ExprString(sel.X) != types.ExprString(arg) {
					return true
				}
				if tv, has := info.Types[be.Y]; !has || tv.Value == nil || tv.Value.Kind() != constant.String || constant.StringVal(tv.Value) != "" {
					return true
				}
				emptyEdge := 1
				if be.Op == token.EQL {
					emptyEdge = 0
				}
				return succ != emptyEdge
			}
			path := PathAvoiding(g, start, isAuthCall, nil, noAuthEdge)
			if path == nil {
				c.Ok("C39-A5", key, call.Pos(), "every normal return is preceded by a HandleAuth call")
			} else if why, ok := c39PathExceptions[DeclName(fd)+"/"+types.ExprString(arg)]; ok && !c.fixtureMode {
				c.Exc("C39-A5", key, call.Pos(), why)
			} else {
				c.Bad("C39-A5", key, call.Pos(), DeclName(fd)+" can return normally without having called HandleAuth for "+types.ExprString(arg)+": the statement is built without a privilege check on that path", c.P.DescribePath(path)...)
			}
		}
	})
	var names []string
	for n := range carriers {
		names = append(names, n)
	}
	sort.Strings(names)
	for _, n := range names {
		pos, ok := covered[n]
		if !ok {
			pos = carriers[n].Pos()
		}
		if !ok {
			if why, exc := c39TypeExceptions[n]; exc && !c.fixtureMode {
				c.Exc("C39-A5", "type/"+n, pos, why)
				continue
			}
		}
		c.Check(ok, "C39-A5", "type/"+n, pos, "passed to HandleAuth", "the parser's "+n+" carries an AuthInformation but planbuilder never passes it to HandleAuth: statements of that kind are built without a privilege check")
	}
}

// c39PathExceptions / c39TypeExceptions: named exceptions (filled after triage of today's tree).
var c39PathExceptions = map[string]string{}
var c39TypeExceptions = map[string]string{}
