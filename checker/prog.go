package main

import (
	"fmt"
	"go/ast"
	"go/token"
	"go/types"
	"os"
	"path/filepath"
	"sort"
	"strings"

	"golang.org/x/tools/go/cfg"
	"golang.org/x/tools/go/packages"
	"golang.org/x/tools/go/ssa"
	"golang.org/x/tools/go/ssa/ssautil"
)

const modPath = "github.com/dolthub/go-mysql-server"

// sridStub stands in for /repo/sql/types/spatial_reference_systems.go, which is a 0-byte
// file at the pin (so package sql/types and everything above it does not parse). It is
// used only when the file on disk is empty; it declares the two identifiers the rest of
// the tree uses. Nothing is learned about the SRID table itself.
const sridStub = `package types

type SpatialRef struct {
	Name          string
	ID            uint32
	Organization  string
	OrgCoordsysId uint32
	Definition    string
	Description   any
}

var SupportedSRIDs = map[uint32]SpatialRef{}
`

// Prog is a loaded, type-checked set of packages.
type Prog struct {
	Root     string // repository root the packages were loaded from
	Fset     *token.FileSet
	Roots    []*packages.Package
	ByPath   map[string]*packages.Package
	Module   []*packages.Package // packages of the analysed module, sorted by path
	Overlaid []string

	ssaProg *ssa.Program
	ssaPkgs map[*types.Package]*ssa.Package
	cfgs    map[ast.Node]*cfg.CFG
	decls   map[*types.Func]*ast.FuncDecl
	nFuncs  int
}

func goEnv() []string {
	env := []string{}
	for _, e := range os.Environ() {
		if strings.HasPrefix(e, "GOFLAGS=") || strings.HasPrefix(e, "GOTOOLCHAIN=") || strings.HasPrefix(e, "GOWORK=") ||
			strings.HasPrefix(e, "GOPROXY=") || strings.HasPrefix(e, "GOSUMDB=") {
			continue
		}
		env = append(env, e)
	}
	return append(env, "GOTOOLCHAIN=local", "GOFLAGS=-mod=mod", "GOPROXY=off", "GOWORK=off")
}

// Load type-checks the given package patterns (relative to root) from source, including
// all dependencies. Any type error fails the load: an undecided program never passes.
func Load(root string, extraOverlay map[string]string, patterns ...string) (*Prog, error) {
	os.Setenv("PATH", "/opt/veriftools/go1.26.8/bin:"+os.Getenv("PATH"))
	overlay := map[string][]byte{}
	var overlaid []string
	srid := filepath.Join(root, "sql/types/spatial_reference_systems.go")
	if st, err := os.Stat(srid); err == nil && st.Size() == 0 {
		overlay[srid] = []byte(sridStub)
		overlaid = append(overlaid, "sql/types/spatial_reference_systems.go (0-byte at the pin: stub declaring SpatialRef, SupportedSRIDs)")
	}
	for rel, file := range extraOverlay {
		b, err := os.ReadFile(file)
		if err != nil {
			return nil, err
		}
		overlay[filepath.Join(root, rel)] = b
		overlaid = append(overlaid, rel+" (mutant overlay "+file+")")
	}
	conf := &packages.Config{
		Mode:    packages.LoadAllSyntax | packages.NeedModule,
		Dir:     root,
		Env:     goEnv(),
		Overlay: overlay,
	}
	pkgs, err := packages.Load(conf, patterns...)
	if err != nil {
		return nil, fmt.Errorf("packages.Load: %w", err)
	}
	p := &Prog{Root: root, Roots: pkgs, ByPath: map[string]*packages.Package{}, Overlaid: overlaid,
		cfgs: map[ast.Node]*cfg.CFG{}, decls: map[*types.Func]*ast.FuncDecl{}}
	var errs []string
	packages.Visit(pkgs, nil, func(pk *packages.Package) {
		p.ByPath[pk.PkgPath] = pk
		if p.Fset == nil {
			p.Fset = pk.Fset
		}
		for _, e := range pk.Errors {
			errs = append(errs, e.Error())
		}
		if pk.Module != nil && pk.Module.Main {
			p.Module = append(p.Module, pk)
		}
	})
	if len(errs) > 0 {
		sort.Strings(errs)
		if len(errs) > 10 {
			errs = errs[:10]
		}
		return nil, fmt.Errorf("load/type errors (undecided, never a pass):\n  %s", strings.Join(errs, "\n  "))
	}
	if len(p.Module) == 0 {
		return nil, fmt.Errorf("no module packages loaded for %v", patterns)
	}
	sort.Slice(p.Module, func(i, j int) bool { return p.Module[i].PkgPath < p.Module[j].PkgPath })
	for _, pk := range p.Module {
		for _, f := range pk.Syntax {
			for _, d := range f.Decls {
				if fd, ok := d.(*ast.FuncDecl); ok {
					if fn, ok := pk.TypesInfo.Defs[fd.Name].(*types.Func); ok {
						p.decls[fn] = fd
						p.nFuncs++
					}
				}
			}
		}
	}
	return p, nil
}

// Pkg returns a module package by its path relative to the module root ("sql/plan", "" = root).
func (p *Prog) Pkg(rel string) *packages.Package {
	path := modPath
	if rel != "" && rel != "." {
		path = modPath + "/" + rel
	}
	if pk := p.ByPath[path]; pk != nil {
		return pk
	}
	if pk := p.ByPath["vchk/"+rel]; pk != nil { // checker fixtures
		return pk
	}
	return p.ByPath[rel]
}

// Rel renders a position as a path relative to the repository root.
func (p *Prog) Rel(pos token.Pos) string {
	if !pos.IsValid() {
		return "?"
	}
	ps := p.Fset.Position(pos)
	f := ps.Filename
	if r, err := filepath.Rel(p.Root, f); err == nil && !strings.HasPrefix(r, "..") {
		f = r
	}
	return fmt.Sprintf("%s:%d", f, ps.Line)
}

func (p *Prog) RelFile(pos token.Pos) string {
	s := p.Rel(pos)
	if i := strings.LastIndex(s, ":"); i >= 0 {
		return s[:i]
	}
	return s
}

// Decl returns the syntax of a function object of the module.
func (p *Prog) Decl(fn *types.Func) *ast.FuncDecl {
	if fn == nil {
		return nil
	}
	return p.decls[fn.Origin()]
}

// LookupFunc resolves "Name" or "Type.Method" in a package to its object.
func LookupFunc(pk *packages.Package, name string) *types.Func {
	if pk == nil {
		return nil
	}
	if i := strings.Index(name, "."); i >= 0 {
		tn, _ := pk.Types.Scope().Lookup(name[:i]).(*types.TypeName)
		if tn == nil {
			return nil
		}
		obj, _, _ := types.LookupFieldOrMethod(tn.Type(), true, pk.Types, name[i+1:])
		fn, _ := obj.(*types.Func)
		return fn
	}
	fn, _ := pk.Types.Scope().Lookup(name).(*types.Func)
	return fn
}

// FuncDecl resolves a function of a module package given "rel/pkg" and "Name"/"Type.Method".
func (p *Prog) FuncDecl(rel, name string) (*packages.Package, *ast.FuncDecl) {
	pk := p.Pkg(rel)
	fn := LookupFunc(pk, name)
	if fn == nil {
		return pk, nil
	}
	return pk, p.Decl(fn)
}

// PkgOf returns the loaded package that declares the object.
func (p *Prog) PkgOf(obj types.Object) *packages.Package {
	if obj == nil || obj.Pkg() == nil {
		return nil
	}
	return p.ByPath[obj.Pkg().Path()]
}

// FuncName renders a function object as pkg.(Type).Name relative to the module.
func FuncName(fn *types.Func) string {
	if fn == nil {
		return "?"
	}
	pkg := ""
	if fn.Pkg() != nil {
		pkg = strings.TrimPrefix(strings.TrimPrefix(fn.Pkg().Path(), modPath), "/")
		if pkg == "" {
			pkg = "sqle"
		}
	}
	sig := fn.Type().(*types.Signature)
	if r := sig.Recv(); r != nil {
		t := r.Type()
		if pt, ok := t.(*types.Pointer); ok {
			t = pt.Elem()
		}
		if nt, ok := t.(*types.Named); ok {
			return pkg + "." + nt.Obj().Name() + "." + fn.Name()
		}
		if at, ok := t.(*types.Alias); ok {
			return pkg + "." + at.Obj().Name() + "." + fn.Name()
		}
	}
	return pkg + "." + fn.Name()
}

// DeclName renders a FuncDecl as Type.Method or Name.
func DeclName(fd *ast.FuncDecl) string {
	if fd.Recv != nil && len(fd.Recv.List) > 0 {
		t := fd.Recv.List[0].Type
		for {
			switch x := t.(type) {
			case *ast.StarExpr:
				t = x.X
				continue
			case *ast.IndexExpr:
				t = x.X
				continue
			case *ast.IndexListExpr:
				t = x.X
				continue
			case *ast.ParenExpr:
				t = x.X
				continue
			}
			break
		}
		if id, ok := t.(*ast.Ident); ok {
			return id.Name + "." + fd.Name.Name
		}
	}
	return fd.Name.Name
}

// CFG builds (and caches) the control-flow graph of a function body. Calls to panic,
// os.Exit and log.Fatal* are treated as not returning.
func (p *Prog) CFG(info *types.Info, body *ast.BlockStmt) *cfg.CFG {
	if g, ok := p.cfgs[body]; ok {
		return g
	}
	g := cfg.New(body, func(call *ast.CallExpr) bool {
		switch f := call.Fun.(type) {
		case *ast.Ident:
			if b, ok := info.Uses[f].(*types.Builtin); ok && b.Name() == "panic" {
				return false
			}
		case *ast.SelectorExpr:
			if fn, ok := info.Uses[f.Sel].(*types.Func); ok && fn.Pkg() != nil {
				full := fn.Pkg().Path() + "." + fn.Name()
				switch full {
				case "os.Exit", "log.Fatal", "log.Fatalf", "log.Fatalln", "log.Panic", "log.Panicf":
					return false
				}
			}
		}
		return true
	})
	p.cfgs[body] = g
	return g
}

// SSA builds SSA form for every loaded package (function bodies for module packages and
// their dependencies), once.
func (p *Prog) SSA() *ssa.Program {
	if p.ssaProg != nil {
		return p.ssaProg
	}
	prog, _ := ssautil.AllPackages(p.Roots, ssa.InstantiateGenerics)
	p.ssaPkgs = map[*types.Package]*ssa.Package{}
	for _, pk := range p.Module {
		sp := prog.Package(pk.Types)
		if sp != nil {
			sp.Build()
			p.ssaPkgs[pk.Types] = sp
		}
	}
	p.ssaProg = prog
	return prog
}

// SSABuildAll builds bodies for every package (needed for whole-program call graphs).
func (p *Prog) SSABuildAll() *ssa.Program {
	prog := p.SSA()
	prog.Build()
	return prog
}

// SSAFunc returns the SSA function for a types.Func of the module.
func (p *Prog) SSAFunc(fn *types.Func) *ssa.Function {
	if fn == nil {
		return nil
	}
	return p.SSA().FuncValue(fn)
}

// SSAFuncByName resolves rel package + "Name"/"Type.Method".
func (p *Prog) SSAFuncByName(rel, name string) *ssa.Function {
	return p.SSAFunc(LookupFunc(p.Pkg(rel), name))
}

// Callee resolves the statically known callee of a call expression (function, method,
// or interface method), through type information.
func Callee(info *types.Info, call *ast.CallExpr) *types.Func {
	fun := ast.Unparen(call.Fun)
	switch f := fun.(type) {
	case *ast.IndexExpr:
		fun = f.X
	case *ast.IndexListExpr:
		fun = f.X
	}
	switch f := fun.(type) {
	case *ast.Ident:
		fn, _ := info.Uses[f].(*types.Func)
		return fn
	case *ast.SelectorExpr:
		if sel := info.Selections[f]; sel != nil {
			fn, _ := sel.Obj().(*types.Func)
			return fn
		}
		fn, _ := info.Uses[f.Sel].(*types.Func)
		return fn
	}
	return nil
}

// IsBuiltinCall reports whether call invokes the named builtin.
func IsBuiltinCall(info *types.Info, call *ast.CallExpr, name string) bool {
	if id, ok := ast.Unparen(call.Fun).(*ast.Ident); ok {
		if b, ok := info.Uses[id].(*types.Builtin); ok {
			return b.Name() == name
		}
	}
	return false
}

// FullName is pkgpath.Name or pkgpath.Type.Method of a function object (full import path).
func FullName(fn *types.Func) string {
	if fn == nil {
		return ""
	}
	sig, _ := fn.Type().(*types.Signature)
	pkg := ""
	if fn.Pkg() != nil {
		pkg = fn.Pkg().Path()
	}
	if sig != nil && sig.Recv() != nil {
		t := sig.Recv().Type()
		if pt, ok := t.(*types.Pointer); ok {
			t = pt.Elem()
		}
		switch nt := t.(type) {
		case *types.Named:
			return pkg + "." + nt.Obj().Name() + "." + fn.Name()
		case *types.Alias:
			return pkg + "." + nt.Obj().Name() + "." + fn.Name()
		}
	}
	return pkg + "." + fn.Name()
}

// EachFuncDecl visits every function declaration with a body in the given module packages.
func (p *Prog) EachFuncDecl(rels []string, f func(pk *packages.Package, fd *ast.FuncDecl)) {
	for _, rel := range rels {
		pk := p.Pkg(rel)
		if pk == nil {
			continue
		}
		for _, file := range pk.Syntax {
			for _, d := range file.Decls {
				if fd, ok := d.(*ast.FuncDecl); ok && fd.Body != nil {
					f(pk, fd)
				}
			}
		}
	}
}

// EachModuleFuncDecl visits every function declaration with a body in all loaded module packages.
func (p *Prog) EachModuleFuncDecl(f func(pk *packages.Package, fd *ast.FuncDecl)) {
	for _, pk := range p.Module {
		for _, file := range pk.Syntax {
			for _, d := range file.Decls {
				if fd, ok := d.(*ast.FuncDecl); ok && fd.Body != nil {
					f(pk, fd)
				}
			}
		}
	}
}
