package main

// eng_origin.go — "where does this value come from": a backward value-origin resolver over go/ssa,
// field sensitive (access paths), interprocedural (static callees are entered with a call stack,
// parameters without a stack are followed to every static call site of the module), with a
// module-wide index of field stores, call sites and closure creations. Used by C42-R2c (which child
// fields of a plan node reach the executor's dispatch / which are consulted by IsReadOnly),
// C17-P2w (who writes a field) and C44-K (map key normalisation).
//
// The resolver answers: "relative to these root values, which access paths (root.f.g[…]) may v
// hold?". Unknown sources (globals, results of opaque calls, parameters of functions that are only
// called dynamically) contribute nothing: the answer under-approximates the origins outside the
// roots and is exact for the idioms it reads (loads, stores, phis, accessors, closures, slices).

import (
	"fmt"
	"go/types"
	"sort"
	"strings"
	"sync"

	"golang.org/x/tools/go/packages"
	"golang.org/x/tools/go/ssa"
	"golang.org/x/tools/go/ssa/ssautil"
)

type orgStore struct {
	val ssa.Value
	at  *ssa.Store
}

// orgIndex: module-wide SSA indices, built once per loaded program.
type orgIndex struct {
	p        *Prog
	prog     *ssa.Program
	funcs    []*ssa.Function
	inMod    map[*types.Package]bool
	stores   map[*types.Var][]orgStore // struct field -> stores through a FieldAddr of that field
	callers  map[*ssa.Function][]ssa.CallInstruction
	closures map[*ssa.Function][]*ssa.MakeClosure
}

var orgIndexCache = map[*Prog]*orgIndex{}
var orgSubIndexCache = map[*Prog]map[string]*orgIndex{}
var orgProgCache = map[*Prog]*ssa.Program{}

func orgPkgOf(f *ssa.Function) *types.Package {
	for g := f; g != nil; g = g.Parent() {
		if g.Pkg != nil {
			return g.Pkg.Pkg
		}
		if o := g.Origin(); o != nil && o.Pkg != nil {
			return o.Pkg.Pkg
		}
	}
	return nil
}

// orgFieldOf: the field object selected by a FieldAddr/Field on a value of type t.
func orgFieldOf(t types.Type, i int) *types.Var {
	if p, ok := t.Underlying().(*types.Pointer); ok {
		t = p.Elem()
	}
	st, ok := t.Underlying().(*types.Struct)
	if !ok || i >= st.NumFields() {
		return nil
	}
	return st.Field(i)
}

// orgBuildSSA: SSA for the module packages, built in parallel (Prog.SSA builds them one after the
// other, which costs ~40 s for the engine's root package closure; this takes a few seconds).
// If the framework's program was already built it is reused.
func orgBuildSSA(p *Prog, mod []*packages.Package) *ssa.Program {
	if p.ssaProg != nil {
		return p.ssaProg
	}
	prog := orgProgCache[p]
	if prog == nil {
		prog, _ = ssautil.AllPackages(p.Roots, ssa.InstantiateGenerics)
		orgProgCache[p] = prog
	}
	var wg sync.WaitGroup
	for _, pk := range mod {
		if sp := prog.Package(pk.Types); sp != nil {
			wg.Add(1)
			go func() { defer wg.Done(); sp.Build() }() // Build is idempotent
		}
	}
	wg.Wait()
	return prog
}

// FuncValue: the SSA function of a declared function or method of the module.
func (ix *orgIndex) FuncValue(fn *types.Func) *ssa.Function {
	if fn == nil {
		return nil
	}
	return ix.prog.FuncValue(fn)
}

func orgIndexOf(p *Prog) *orgIndex { return orgIndexOfPkgs(p, nil) }

// orgIndexOfPkgs: the index restricted to some module packages (nil = all): only their function
// bodies are built and indexed. Enough when the analysed state is package-private (unexported
// fields can only be written inside their package) and much cheaper than the whole module.
func orgIndexOfPkgs(p *Prog, only []*packages.Package) *orgIndex {
	if only == nil {
		if ix, ok := orgIndexCache[p]; ok {
			return ix
		}
	} else if ix, ok := orgIndexCache[p]; ok {
		return ix // the full index serves every subset
	}
	ckey := ""
	for _, pk := range only {
		ckey += pk.PkgPath + ";"
	}
	if only != nil {
		if m := orgSubIndexCache[p]; m != nil && m[ckey] != nil {
			return m[ckey]
		}
	}
	mod := p.Module
	if only != nil {
		mod = only
	}
	prog := orgBuildSSA(p, mod)
	ix := &orgIndex{p: p, prog: prog, inMod: map[*types.Package]bool{}, stores: map[*types.Var][]orgStore{},
		callers: map[*ssa.Function][]ssa.CallInstruction{}, closures: map[*ssa.Function][]*ssa.MakeClosure{}}
	for _, pk := range mod {
		ix.inMod[pk.Types] = true
	}
	seen := map[*ssa.Function]bool{}
	var add func(f *ssa.Function)
	add = func(f *ssa.Function) {
		if f == nil || seen[f] || len(f.Blocks) == 0 || !ix.inMod[orgPkgOf(f)] {
			return
		}
		seen[f] = true
		ix.funcs = append(ix.funcs, f)
		for _, af := range f.AnonFuncs {
			add(af)
		}
		for _, b := range f.Blocks {
			for _, in := range b.Instrs {
				if ci, ok := in.(ssa.CallInstruction); ok {
					add(ci.Common().StaticCallee())
				}
			}
		}
	}
	for _, pk := range mod {
		sp := prog.Package(pk.Types)
		if sp == nil {
			continue
		}
		var names []string
		for n := range sp.Members {
			names = append(names, n)
		}
		sort.Strings(names)
		for _, n := range names {
			switch m := sp.Members[n].(type) {
			case *ssa.Function:
				add(m)
			case *ssa.Type:
				if _, isIface := m.Type().Underlying().(*types.Interface); isIface {
					continue
				}
				for _, t := range []types.Type{m.Type(), types.NewPointer(m.Type())} {
					ms := prog.MethodSets.MethodSet(t)
					for i := 0; i < ms.Len(); i++ {
						if fn := prog.MethodValue(ms.At(i)); fn != nil && fn.Synthetic == "" {
							add(fn)
						}
					}
				}
			}
		}
	}
	sort.SliceStable(ix.funcs, func(i, j int) bool {
		if ix.funcs[i].Pos() != ix.funcs[j].Pos() {
			return ix.funcs[i].Pos() < ix.funcs[j].Pos()
		}
		return ix.funcs[i].String() < ix.funcs[j].String()
	})
	for _, f := range ix.funcs {
		for _, b := range f.Blocks {
			for _, in := range b.Instrs {
				switch x := in.(type) {
				case *ssa.Store:
					if fa, ok := x.Addr.(*ssa.FieldAddr); ok {
						if fv := orgFieldOf(fa.X.Type(), fa.Field); fv != nil {
							ix.stores[fv] = append(ix.stores[fv], orgStore{x.Val, x})
						}
					}
				case *ssa.MakeClosure:
					if fn, ok := x.Fn.(*ssa.Function); ok {
						ix.closures[fn] = append(ix.closures[fn], x)
					}
				}
				if ci, ok := in.(ssa.CallInstruction); ok {
					if cal := ci.Common().StaticCallee(); cal != nil {
						ix.callers[cal] = append(ix.callers[cal], ci)
					}
				}
			}
		}
	}
	if only == nil {
		orgIndexCache[p] = ix
	} else {
		if orgSubIndexCache[p] == nil {
			orgSubIndexCache[p] = map[string]*orgIndex{}
		}
		orgSubIndexCache[p][ckey] = ix
	}
	return ix
}

// ---- access paths

// orgStep: one step of an access path: a struct field, or (f == nil) "an element of" a slice/array/map.
type orgStep struct{ f *types.Var }
type orgPath []orgStep

func (p orgPath) String() string {
	if len(p) == 0 {
		return "(self)"
	}
	var sb strings.Builder
	for i, s := range p {
		if s.f == nil {
			sb.WriteString("[]")
			continue
		}
		if i > 0 {
			sb.WriteString(".")
		}
		sb.WriteString(s.f.Name())
	}
	return sb.String()
}

func (p orgPath) hasElem() bool {
	for _, s := range p {
		if s.f == nil {
			return true
		}
	}
	return false
}

// orgPrefix: a is a prefix of b (or equal).
func orgPrefix(a, b orgPath) bool {
	if len(a) > len(b) {
		return false
	}
	for i := range a {
		if a[i].f != b[i].f {
			return false
		}
	}
	return true
}

func orgCat(a, b orgPath) orgPath {
	out := make(orgPath, 0, len(a)+len(b))
	out = append(out, a...)
	return append(out, b...)
}

type orgResult struct {
	path   orgPath
	choice bool // an alternative was taken on the way (phi, several call sites, several stores): "one of", not "all of"
}

type orgResolver struct {
	ix          *orgIndex
	roots       map[ssa.Value]orgPath
	storeFollow func(owner types.Type) bool      // loads of fields of this struct type are resolved through the module's stores to the field
	derive      func(call *ssa.Call) []ssa.Value // model: the call's result is (a rewritten copy of) these arguments
	opaque      func(fn *ssa.Function) bool      // parameters of these functions are not followed to their call sites
	budget      int
	truncated   bool
	out         []orgResult
	seen        map[string]bool
	ids         map[ssa.Value]int
}

func (ix *orgIndex) resolver(roots map[ssa.Value]orgPath) *orgResolver {
	return &orgResolver{ix: ix, roots: roots, budget: 4000}
}

// Resolve returns the access paths (relative to the roots) that v may hold, deduplicated and sorted.
func (r *orgResolver) Resolve(v ssa.Value) []orgResult {
	r.out, r.seen, r.ids = nil, map[string]bool{}, map[ssa.Value]int{}
	r.resolve(v, nil, nil, false)
	m := map[string]orgResult{}
	for _, o := range r.out {
		k := o.path.String()
		if old, ok := m[k]; !ok || (old.choice && !o.choice) {
			m[k] = o
		}
	}
	var keys []string
	for k := range m {
		keys = append(keys, k)
	}
	sort.Strings(keys)
	var out []orgResult
	for _, k := range keys {
		out = append(out, m[k])
	}
	return out
}

func (r *orgResolver) id(v ssa.Value) int {
	if v == nil {
		return 0
	}
	if n, ok := r.ids[v]; ok {
		return n
	}
	r.ids[v] = len(r.ids) + 1
	return len(r.ids)
}

func (r *orgResolver) resolve(v ssa.Value, suffix orgPath, stack []ssa.CallInstruction, choice bool) {
	if v == nil {
		return
	}
	if r.budget <= 0 {
		r.truncated = true
		return
	}
	r.budget--
	top := 0
	if len(stack) > 0 {
		top = r.id(stack[len(stack)-1].Value())
		if top == 0 { // go/defer have no value
			top = -len(stack)
		}
	}
	key := fmt.Sprintf("%d|%s|%d|%d", r.id(v), suffix.String(), len(stack), top)
	if r.seen[key] {
		return
	}
	r.seen[key] = true

	if pre, ok := r.roots[v]; ok {
		r.out = append(r.out, orgResult{orgCat(pre, suffix), choice})
		return
	}
	switch x := v.(type) {
	case *ssa.Parameter:
		r.fromParam(x, suffix, stack, choice)
	case *ssa.FreeVar:
		fn := x.Parent()
		idx := -1
		for i, fv := range fn.FreeVars {
			if fv == x {
				idx = i
			}
		}
		mcs := r.ix.closures[fn]
		for _, mc := range mcs {
			if idx >= 0 && idx < len(mc.Bindings) {
				r.resolve(mc.Bindings[idx], suffix, stack, choice || len(mcs) > 1)
			}
		}
	case *ssa.Phi:
		distinct := map[ssa.Value]bool{}
		for _, e := range x.Edges {
			if c, ok := e.(*ssa.Const); ok && c.IsNil() {
				continue
			}
			distinct[e] = true
		}
		for _, e := range x.Edges {
			r.resolve(e, suffix, stack, choice || len(distinct) > 1)
		}
	case *ssa.UnOp:
		if x.Op.String() == "*" { // load: pointers are transparent
			r.resolve(x.X, suffix, stack, choice)
		}
	case *ssa.FieldAddr:
		r.fromField(x.X, orgFieldOf(x.X.Type(), x.Field), suffix, stack, choice)
	case *ssa.Field:
		r.fromField(x.X, orgFieldOf(x.X.Type(), x.Field), suffix, stack, choice)
	case *ssa.IndexAddr:
		r.resolve(x.X, orgCat(orgPath{{nil}}, suffix), stack, choice)
	case *ssa.Index:
		r.resolve(x.X, orgCat(orgPath{{nil}}, suffix), stack, choice)
	case *ssa.Lookup:
		if _, isMap := x.X.Type().Underlying().(*types.Map); isMap {
			r.resolve(x.X, orgCat(orgPath{{nil}}, suffix), stack, choice)
		}
	case *ssa.Slice:
		// a sub-slice holds some, not all, of the elements: "one of"
		partial := x.High != nil
		if c, ok := x.Low.(*ssa.Const); x.Low != nil && !(ok && c.Value != nil && c.Int64() == 0) {
			partial = true
		}
		r.resolve(x.X, suffix, stack, choice || partial)
	case *ssa.MakeInterface:
		r.resolve(x.X, suffix, stack, choice)
	case *ssa.ChangeInterface:
		r.resolve(x.X, suffix, stack, choice)
	case *ssa.ChangeType:
		r.resolve(x.X, suffix, stack, choice)
	case *ssa.Convert:
		r.resolve(x.X, suffix, stack, choice)
	case *ssa.TypeAssert:
		r.resolve(x.X, suffix, stack, choice)
	case *ssa.Extract:
		switch t := x.Tuple.(type) {
		case *ssa.Call:
			r.fromCall(t, x.Index, suffix, stack, choice)
		case *ssa.TypeAssert:
			if x.Index == 0 {
				r.resolve(t.X, suffix, stack, choice)
			}
		case *ssa.Lookup:
			if x.Index == 0 {
				r.resolve(t.X, orgCat(orgPath{{nil}}, suffix), stack, choice)
			}
		case *ssa.Next: // range over a map / string: the value is an element of the ranged collection
			if rg, ok := t.Iter.(*ssa.Range); ok && x.Index == 2 {
				r.resolve(rg.X, orgCat(orgPath{{nil}}, suffix), stack, choice)
			}
		}
	case *ssa.Call:
		r.fromCall(x, 0, suffix, stack, choice)
	case *ssa.Alloc:
		r.fromCell(x, suffix, stack, choice)
	case *ssa.MakeSlice:
		r.fromCell(x, suffix, stack, choice)
	case *ssa.MakeMap:
		r.fromCell(x, suffix, stack, choice)
	}
}

func (r *orgResolver) fromField(base ssa.Value, fv *types.Var, suffix orgPath, stack []ssa.CallInstruction, choice bool) {
	if fv == nil {
		return
	}
	owner := base.Type()
	if p, ok := owner.Underlying().(*types.Pointer); ok {
		owner = p.Elem()
	}
	if r.storeFollow != nil && r.storeFollow(owner) {
		// a freshly allocated object in this function: its own stores (object sensitive) — otherwise every store to the field
		if _, isAlloc := base.(*ssa.Alloc); isAlloc {
			r.resolve(base, orgCat(orgPath{{fv}}, suffix), stack, choice)
			return
		}
		sts := r.ix.stores[fv]
		distinct := map[ssa.Value]bool{}
		for _, s := range sts {
			distinct[s.val] = true
		}
		for _, s := range sts {
			r.resolve(s.val, suffix, nil, choice || len(distinct) > 1)
		}
		return
	}
	r.resolve(base, orgCat(orgPath{{fv}}, suffix), stack, choice)
}

// fromCell: cell is an allocation (a local variable cell, a struct/array literal, a made slice/map)
// or a captured variable; follow the values stored into it (as a whole, or into the field /
// element the suffix starts with).
func (r *orgResolver) fromCell(cell ssa.Value, suffix orgPath, stack []ssa.CallInstruction, choice bool) {
	refs := cell.Referrers()
	if refs == nil {
		return
	}
	whole := 0
	for _, ref := range *refs {
		if st, ok := ref.(*ssa.Store); ok && st.Addr == cell {
			whole++
		}
	}
	for _, ref := range *refs {
		switch x := ref.(type) {
		case *ssa.Store:
			if x.Addr == cell {
				r.resolve(x.Val, suffix, stack, choice || whole > 1)
			}
		case *ssa.FieldAddr:
			if len(suffix) > 0 && suffix[0].f != nil && x.X == cell && orgFieldOf(x.X.Type(), x.Field) == suffix[0].f {
				r.storesTo(x, suffix[1:], stack, choice, false)
			}
		case *ssa.IndexAddr:
			if len(suffix) > 0 && suffix[0].f == nil && x.X == cell {
				r.storesTo(x, suffix[1:], stack, choice, true)
			}
		case *ssa.Slice:
			// s := arr[:] ; stores through the slice value
			if len(suffix) > 0 && suffix[0].f == nil && x.X == cell {
				if rr := x.Referrers(); rr != nil {
					for _, q := range *rr {
						if ia, ok := q.(*ssa.IndexAddr); ok && ia.X == x {
							r.storesTo(ia, suffix[1:], stack, choice, true)
						}
					}
				}
			}
		case *ssa.MapUpdate:
			if len(suffix) > 0 && suffix[0].f == nil && x.Map == cell {
				r.resolve(x.Value, suffix[1:], stack, choice)
			}
		case *ssa.MakeClosure:
			fn, _ := x.Fn.(*ssa.Function)
			for i, b := range x.Bindings {
				if b == cell && fn != nil && i < len(fn.FreeVars) {
					r.fromCell(fn.FreeVars[i], suffix, stack, choice)
				}
			}
		}
	}
}

// storesTo: the values stored through the address instruction addr (elements fan out: every
// element store contributes, which is "all of", not a choice).
func (r *orgResolver) storesTo(addr ssa.Value, suffix orgPath, stack []ssa.CallInstruction, choice bool, elems bool) {
	refs := addr.Referrers()
	if refs == nil {
		return
	}
	n := 0
	for _, q := range *refs {
		if st, ok := q.(*ssa.Store); ok && st.Addr == addr {
			n++
		}
	}
	for _, q := range *refs {
		if st, ok := q.(*ssa.Store); ok && st.Addr == addr {
			r.resolve(st.Val, suffix, stack, choice || (!elems && n > 1))
		}
	}
}

func (r *orgResolver) fromParam(p *ssa.Parameter, suffix orgPath, stack []ssa.CallInstruction, choice bool) {
	fn := p.Parent()
	idx := -1
	for i, q := range fn.Params {
		if q == p {
			idx = i
		}
	}
	if idx < 0 {
		return
	}
	for i := len(stack) - 1; i >= 0; i-- {
		if stack[i].Common().StaticCallee() == fn {
			if args := stack[i].Common().Args; idx < len(args) {
				r.resolve(args[idx], suffix, stack[:i], choice)
			}
			return
		}
	}
	if r.opaque != nil && r.opaque(fn) {
		return
	}
	sites := r.ix.callers[fn]
	for _, cs := range sites {
		if args := cs.Common().Args; idx < len(args) {
			r.resolve(args[idx], suffix, nil, choice || len(sites) > 1)
		}
	}
}

func (r *orgResolver) fromCall(call *ssa.Call, result int, suffix orgPath, stack []ssa.CallInstruction, choice bool) {
	com := &call.Call
	if b, ok := com.Value.(*ssa.Builtin); ok {
		if b.Name() == "append" {
			for _, a := range com.Args {
				r.resolve(a, suffix, stack, choice)
			}
		}
		return
	}
	if r.derive != nil && result == 0 {
		for _, a := range r.derive(call) {
			r.resolve(a, suffix, stack, choice)
		}
	}
	callee := com.StaticCallee()
	if callee == nil || len(callee.Blocks) == 0 || !r.ix.inMod[orgPkgOf(callee)] || len(stack) >= 6 {
		return
	}
	for _, cs := range stack {
		if cs == ssa.CallInstruction(call) {
			return // recursion
		}
	}
	var rets []*ssa.Return
	for _, b := range callee.Blocks {
		if len(b.Instrs) > 0 {
			if ret, ok := b.Instrs[len(b.Instrs)-1].(*ssa.Return); ok && result < len(ret.Results) {
				rets = append(rets, ret)
			}
		}
	}
	distinct := map[ssa.Value]bool{}
	for _, ret := range rets {
		if c, ok := ret.Results[result].(*ssa.Const); ok && c.IsNil() {
			continue
		}
		distinct[ret.Results[result]] = true
	}
	ns := append(append([]ssa.CallInstruction{}, stack...), call)
	for _, ret := range rets {
		r.resolve(ret.Results[result], suffix, ns, choice || len(distinct) > 1)
	}
}

// orgPeel strips interface conversions and type assertions.
func orgPeel(v ssa.Value) ssa.Value {
	for {
		switch x := v.(type) {
		case *ssa.MakeInterface:
			v = x.X
		case *ssa.ChangeInterface:
			v = x.X
		case *ssa.ChangeType:
			v = x.X
		case *ssa.TypeAssert:
			v = x.X
		default:
			return v
		}
	}
}
