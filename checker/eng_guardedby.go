package main

import (
	"fmt"
	"go/ast"
	"go/token"
	"go/types"
	"sort"
	"strings"

	"golang.org/x/tools/go/cfg"
	"golang.org/x/tools/go/packages"
)

// E2 — guarded-by engine.
//
// For every struct of the analysed packages that carries a sync.Mutex / sync.RWMutex field
// (directly or through a pointer), and every other field f of that struct:
//
//   f is *mutable* iff some function writes it through an object that is not function-local
//   fresh (`x := &T{…}` / `new(T)` / `T{…}` in the same function = constructor, not yet shared);
//   every access (read or write) to a mutable f must happen with the struct's mutex held, a
//   write with the exclusive lock. Immutable-after-construction fields need no lock (a data
//   race needs a write).
//
// Lock state is a must-hold forward dataflow over go/cfg per function unit (a FuncDecl body or a
// function literal), keyed by (mutex field, base expression text):
//     Inherit (never touched here: whatever the caller holds) | None (released here) | R | W
// `defer mu.Unlock()` (also inside a deferred literal) keeps the lock held to the exit and
// registers the release; at every exit a lock acquired here must be released or deferred.
// Literals: `go func(){…}` and stored literals start with nothing held; literals that are
// invoked/deferred/passed as a call argument at the point of creation start from the state there.
//
// "Caller holds the lock" helpers are not a name convention here but decided: a function that
// touches a guarded field in state Inherit *requires* the lock from its callers; it is accepted
// iff it has at least one call site, is never used as a value / through an interface / in a go
// statement, and every call site holds the lock in the required mode (or is itself such a helper:
// fixpoint). Otherwise the unlocked accesses (no holding caller at all) or the offending call
// sites (some callers hold, some do not) are reported.

type gbMode int8

const (
	gbInherit gbMode = -1
	gbNone    gbMode = 0
	gbR       gbMode = 1
	gbW       gbMode = 2
)

func (m gbMode) String() string {
	switch m {
	case gbInherit:
		return "not-taken-here"
	case gbNone:
		return "released"
	case gbR:
		return "read-locked"
	}
	return "locked"
}

type gbKey struct {
	mu   *types.Var
	base string
}

type gbState struct {
	held     map[gbKey]gbMode
	deferred map[gbKey]bool
	entryNo  bool // absent key = None (goroutine / stored literal) instead of Inherit
}

func (s *gbState) clone() *gbState {
	n := &gbState{held: make(map[gbKey]gbMode, len(s.held)), deferred: make(map[gbKey]bool, len(s.deferred)), entryNo: s.entryNo}
	for k, v := range s.held {
		n.held[k] = v
	}
	for k, v := range s.deferred {
		n.deferred[k] = v
	}
	return n
}

func (s *gbState) get(k gbKey) gbMode {
	if m, ok := s.held[k]; ok {
		return m
	}
	if s.entryNo {
		return gbNone
	}
	return gbInherit
}

func gbMeetMode(a, b gbMode) gbMode {
	if a == b {
		return a
	}
	if a == gbNone || b == gbNone || a == gbInherit || b == gbInherit {
		return gbNone
	}
	return gbR // R ⊓ W
}

// meet merges o into s (must-hold); reports whether s changed.
func (s *gbState) meet(o *gbState) bool {
	changed := false
	keys := map[gbKey]bool{}
	for k := range s.held {
		keys[k] = true
	}
	for k := range o.held {
		keys[k] = true
	}
	for k := range keys {
		m := gbMeetMode(s.get(k), o.get(k))
		if cur, ok := s.held[k]; !ok || cur != m {
			if !(m == gbInherit && !ok && !s.entryNo) {
				s.held[k] = m
				changed = true
			}
		}
	}
	for k := range s.deferred {
		if !o.deferred[k] {
			delete(s.deferred, k)
			changed = true
		}
	}
	return changed
}

// maxMode returns the strongest mode held for the mutex on any base, and whether any key exists.
func (s *gbState) anyBase(mu *types.Var) (gbMode, bool) {
	best, seen := gbInherit, false
	for k, m := range s.held {
		if k.mu == mu {
			if !seen || m > best {
				best = m
			}
			seen = true
		}
	}
	if !seen && s.entryNo {
		return gbNone, false
	}
	return best, seen
}

// ---- configuration / results ----------------------------------------------------------

type gbConfig struct {
	Pkgs []*packages.Package // packages whose functions are analysed
	// FieldLock fixes the guard of a field for structs with several mutexes: "Type.field" -> mutex field name.
	FieldLock map[string]string
	// Foreign: fields of another struct reached through a pointer are guarded by this struct's mutex
	// (on any instance): "pkgpath.Type" -> "pkgpath.Owner.mutexField".
	Foreign map[string]string
	// SkipFields: "pkgpath.Type.field" -> reason: fields that are not guarded by design.
	SkipFields map[string]string
	// ForceGuarded: "pkgpath.Type.field" confirmed by reading as guarded: stays an obligation even if
	// no function accesses it under the lock any more (vacuity guard against "all locking removed").
	ForceGuarded map[string]bool
	// OnlyStructs, if set, restricts discovery to these "pkgpath.Type" names.
	OnlyStructs map[string]bool
}

type gbStruct struct {
	Name    *types.TypeName
	Mutexes []*types.Var
	Fields  []*types.Var // non-mutex, non-sync fields
}

type gbUnit struct {
	Name    string // Type.Method, Func, …$lit1
	Top     *gbUnit
	Pk      *packages.Package
	Decl    *ast.FuncDecl
	Fn      *types.Func // top units only
	Body    *ast.BlockStmt
	Lit     *ast.FuncLit
	entry   *gbState
	nLits   int
	litKind string
}

type gbAccess struct {
	Unit   *gbUnit
	Field  *types.Var
	Owner  *gbStruct // struct whose mutex guards the field
	Guard  *types.Var
	Base   string
	Write  bool
	Fresh  bool
	Pos    token.Pos
	Held   gbMode // mode of (Guard, Base) at the access; for foreign fields: any base
	AnyMu  gbMode // strongest mode of Guard on any base
	OK     bool
	Via    string
	Reason string
	snap   *gbState
}

type gbCall struct {
	Unit   *gbUnit
	Callee *types.Func
	State  *gbState
	Pos    token.Pos
	Go     bool
}

type gbExit struct {
	Unit *gbUnit
	Pos  token.Pos
	Key  gbKey
	Mode gbMode
}

type gbResult struct {
	Structs   []*gbStruct
	byField   map[*types.Var]*gbStruct
	foreign   map[*types.Var]*types.Var // field -> guarding mutex (foreign entries)
	Accesses  []*gbAccess
	Mutable   map[*types.Var]bool
	LockedAcc map[*types.Var]int // accesses made with the guard held by the accessing function itself
	Calls     []*gbCall
	Exits     []gbExit
	BadCalls  []*gbBadCall
	Req       map[*types.Func]map[*types.Var]gbMode
	Valid     map[*types.Func]bool
	WhyNot    map[*types.Func]string
	Sites     map[*types.Func]int
	ValueUse  map[*types.Func]token.Pos
	Units     []*gbUnit
	p         *Prog
	guardOf   map[*types.Var]*types.Var
	skip      map[*types.Var]bool
	force     map[*types.Var]bool
	Acq       []gbExit // lock acquisitions (Lock/RLock) per unit
	validFM   func(fn *types.Func, mu *types.Var) bool
	UnlockInh []gbExit // unlock of a lock not taken in this unit (lock handed over by the caller)
}

type gbBadCall struct {
	Call   *gbCall
	Mu     *types.Var
	Need   gbMode
	Have   gbMode
	Reason string
}

func gbIsSyncMutex(t types.Type) bool {
	if p, ok := t.(*types.Pointer); ok {
		t = p.Elem()
	}
	n, ok := t.(*types.Named)
	if !ok || n.Obj().Pkg() == nil || n.Obj().Pkg().Path() != "sync" {
		return false
	}
	return n.Obj().Name() == "Mutex" || n.Obj().Name() == "RWMutex"
}

func gbIsSyncType(t types.Type) bool {
	if p, ok := t.(*types.Pointer); ok {
		t = p.Elem()
	}
	n, ok := types.Unalias(t).(*types.Named)
	if !ok || n.Obj().Pkg() == nil {
		return false
	}
	pp := n.Obj().Pkg().Path()
	return pp == "sync" || pp == "sync/atomic"
}

func gbTypeKey(tn *types.TypeName) string {
	if tn.Pkg() == nil {
		return tn.Name()
	}
	return tn.Pkg().Path() + "." + tn.Name()
}

// gbAnalyse runs the engine over cfg.Pkgs.
func gbAnalyse(p *Prog, conf gbConfig) *gbResult {
	r := &gbResult{p: p, byField: map[*types.Var]*gbStruct{}, foreign: map[*types.Var]*types.Var{}, Mutable: map[*types.Var]bool{}, LockedAcc: map[*types.Var]int{},
		Req: map[*types.Func]map[*types.Var]gbMode{}, Valid: map[*types.Func]bool{}, WhyNot: map[*types.Func]string{}, Sites: map[*types.Func]int{},
		ValueUse: map[*types.Func]token.Pos{}, guardOf: map[*types.Var]*types.Var{}}
	// 1. discover mutex-bearing structs
	structByKey := map[string]*gbStruct{}
	for _, pk := range conf.Pkgs {
		sc := pk.Types.Scope()
		for _, nm := range sc.Names() {
			tn, ok := sc.Lookup(nm).(*types.TypeName)
			if !ok || tn.IsAlias() {
				continue
			}
			st, ok := tn.Type().Underlying().(*types.Struct)
			if !ok {
				continue
			}
			if conf.OnlyStructs != nil && !conf.OnlyStructs[gbTypeKey(tn)] {
				continue
			}
			gs := &gbStruct{Name: tn}
			for i := 0; i < st.NumFields(); i++ {
				f := st.Field(i)
				if gbIsSyncMutex(f.Type()) {
					gs.Mutexes = append(gs.Mutexes, f)
				} else if !gbIsSyncType(f.Type()) {
					gs.Fields = append(gs.Fields, f)
				}
			}
			if len(gs.Mutexes) == 0 {
				continue
			}
			r.Structs = append(r.Structs, gs)
			structByKey[gbTypeKey(tn)] = gs
			for _, f := range gs.Fields {
				r.byField[f] = gs
			}
		}
	}
	// foreign entries
	for sname, lock := range conf.Foreign {
		i := strings.LastIndex(lock, ".")
		owner := structByKey[lock[:i]]
		if owner == nil {
			continue
		}
		var mu *types.Var
		for _, m := range owner.Mutexes {
			if m.Name() == lock[i+1:] {
				mu = m
			}
		}
		j := strings.LastIndex(sname, ".")
		var tn *types.TypeName
		for _, pk := range p.Module {
			if pk.PkgPath == sname[:j] {
				tn, _ = pk.Types.Scope().Lookup(sname[j+1:]).(*types.TypeName)
			}
		}
		if mu == nil || tn == nil {
			continue
		}
		if st, ok := tn.Type().Underlying().(*types.Struct); ok {
			for k := 0; k < st.NumFields(); k++ {
				r.foreign[st.Field(k)] = mu
				r.byField[st.Field(k)] = owner
			}
		}
	}
	sort.Slice(r.Structs, func(i, j int) bool { return gbTypeKey(r.Structs[i].Name) < gbTypeKey(r.Structs[j].Name) })
	r.skip = map[*types.Var]bool{}
	r.force = map[*types.Var]bool{}
	for _, gs := range r.Structs {
		for _, f := range gs.Fields {
			if conf.ForceGuarded[gbTypeKey(gs.Name)+"."+f.Name()] {
				r.force[f] = true
			}
			if _, ok := conf.SkipFields[gbTypeKey(gs.Name)+"."+f.Name()]; ok {
				r.skip[f] = true
			}
		}
	}

	// 2. per-unit dataflow, collecting accesses / calls / exits
	for _, pk := range conf.Pkgs {
		for _, file := range pk.Syntax {
			for _, d := range file.Decls {
				fd, ok := d.(*ast.FuncDecl)
				if !ok || fd.Body == nil {
					continue
				}
				fn, _ := pk.TypesInfo.Defs[fd.Name].(*types.Func)
				u := &gbUnit{Name: DeclName(fd), Pk: pk, Decl: fd, Fn: fn, Body: fd.Body, entry: &gbState{held: map[gbKey]gbMode{}, deferred: map[gbKey]bool{}}}
				u.Top = u
				r.analyseUnit(u)
			}
		}
	}

	// 3. mutability and guards
	for _, a := range r.Accesses {
		if a.Write && !a.Fresh {
			r.Mutable[a.Field] = true
		}
	}
	for _, gs := range r.Structs {
		for _, f := range gs.Fields {
			if len(gs.Mutexes) == 1 {
				r.guardOf[f] = gs.Mutexes[0]
				continue
			}
			if want, ok := conf.FieldLock[gs.Name.Name()+"."+f.Name()]; ok {
				for _, m := range gs.Mutexes {
					if m.Name() == want {
						r.guardOf[f] = m
					}
				}
				continue
			}
			// majority vote over the locks held at the accesses
			votes := map[*types.Var]int{}
			for _, a := range r.Accesses {
				if a.Field != f {
					continue
				}
				for _, m := range gs.Mutexes {
					if a.heldOn(m) > gbNone {
						votes[m]++
					}
				}
			}
			best := gs.Mutexes[0]
			for _, m := range gs.Mutexes {
				if votes[m] > votes[best] {
					best = m
				}
			}
			r.guardOf[f] = best
		}
	}
	for f, mu := range r.foreign {
		r.guardOf[f] = mu
	}

	// 4. requirements of top-level functions (fixpoint) and helper validity
	r.resolve()
	return r
}

// state snapshots per access for multi-mutex voting
func (a *gbAccess) heldOn(m *types.Var) gbMode {
	if a.snap == nil {
		return gbNone
	}
	if md, ok := a.snap.held[gbKey{m, a.Base}]; ok {
		return md
	}
	return gbNone
}

// ---- per-unit analysis ------------------------------------------------------------------

type gbLockOp struct {
	key gbKey
	op  string // Lock Unlock RLock RUnlock
}

// lockOp recognises X.mu.Lock() & co (sync.Mutex / sync.RWMutex methods), also through embedding.
func (r *gbResult) lockOp(info *types.Info, call *ast.CallExpr) (gbLockOp, bool) {
	sel, ok := ast.Unparen(call.Fun).(*ast.SelectorExpr)
	if !ok {
		return gbLockOp{}, false
	}
	fn, _ := info.Uses[sel.Sel].(*types.Func)
	if fn == nil || fn.Pkg() == nil || fn.Pkg().Path() != "sync" {
		return gbLockOp{}, false
	}
	sig := fn.Type().(*types.Signature)
	if sig.Recv() == nil || !gbIsSyncMutex(sig.Recv().Type()) {
		return gbLockOp{}, false
	}
	switch fn.Name() {
	case "Lock", "Unlock", "RLock", "RUnlock":
	default:
		return gbLockOp{}, false
	}
	recv := ast.Unparen(sel.X)
	if rs, ok := recv.(*ast.SelectorExpr); ok {
		if s := info.Selections[rs]; s != nil && s.Kind() == types.FieldVal && gbIsSyncMutex(s.Obj().Type()) {
			return gbLockOp{gbKey{s.Obj().(*types.Var).Origin(), types.ExprString(ast.Unparen(rs.X))}, fn.Name()}, true
		}
	}
	// promoted through an embedded mutex: X.Lock()
	if s := info.Selections[sel]; s != nil && len(s.Index()) > 1 {
		t := s.Recv()
		var fv *types.Var
		for _, ix := range s.Index()[:len(s.Index())-1] {
			if pt, ok := t.Underlying().(*types.Pointer); ok {
				t = pt.Elem()
			}
			st, ok := t.Underlying().(*types.Struct)
			if !ok {
				return gbLockOp{}, false
			}
			fv = st.Field(ix)
			t = fv.Type()
		}
		if fv != nil && gbIsSyncMutex(fv.Type()) {
			return gbLockOp{gbKey{fv.Origin(), types.ExprString(recv)}, fn.Name()}, true
		}
	}
	// plain mutex variable (package-level or local)
	if id, ok := recv.(*ast.Ident); ok {
		if v, ok := info.Uses[id].(*types.Var); ok {
			return gbLockOp{gbKey{v, ""}, fn.Name()}, true
		}
	}
	return gbLockOp{}, false
}

func gbApply(st *gbState, op gbLockOp) {
	switch op.op {
	case "Lock":
		st.held[op.key] = gbW
	case "RLock":
		st.held[op.key] = gbR
	case "Unlock", "RUnlock":
		st.held[op.key] = gbNone
	}
}

// gbEvent kinds produced by scanning one CFG node in source order.
type gbEvent struct {
	kind   string // lock | defer-unlock | access | call | lit | return
	op     gbLockOp
	sel    *ast.SelectorExpr
	write  bool
	call   *ast.CallExpr
	callee *types.Func
	isGo   bool
	lit    *ast.FuncLit
	litHow string
	pos    token.Pos
}

// scanNode lists the events of one CFG node (statement or expression), not descending into
// function literals (they become "lit" events).
func (r *gbResult) scanNode(info *types.Info, n ast.Node) []gbEvent {
	var evs []gbEvent
	var stack []ast.Node
	deferCalls, goCalls := map[*ast.CallExpr]bool{}, map[*ast.CallExpr]bool{}
	inspectNoLit(n, func(m ast.Node) bool {
		switch x := m.(type) {
		case *ast.DeferStmt:
			deferCalls[x.Call] = true
		case *ast.GoStmt:
			goCalls[x.Call] = true
		}
		return true
	})
	ast.Inspect(n, func(m ast.Node) bool {
		if m == nil {
			stack = stack[:len(stack)-1]
			return false
		}
		push := func() bool { stack = append(stack, m); return true }
		switch x := m.(type) {
		case *ast.FuncLit:
			how := "stored"
			if len(stack) > 0 {
				switch par := stack[len(stack)-1].(type) {
				case *ast.CallExpr:
					how = "sync" // invoked here, or passed as an argument to a call made here
					if goCalls[par] && ast.Unparen(par.Fun) == ast.Expr(x) {
						how = "go"
					}
					if deferCalls[par] && ast.Unparen(par.Fun) == ast.Expr(x) {
						how = "defer"
					}
				}
			}
			evs = append(evs, gbEvent{kind: "lit", lit: x, litHow: how, pos: x.Pos()})
			return false // do not descend; no push, no pop
		case *ast.CallExpr:
			if op, ok := r.lockOp(info, x); ok {
				if deferCalls[x] {
					if op.op == "Unlock" || op.op == "RUnlock" {
						evs = append(evs, gbEvent{kind: "defer-unlock", op: op, pos: x.Pos()})
					}
				} else {
					// arguments first (none), then the op
					evs = append(evs, gbEvent{kind: "lock", op: op, pos: x.Pos()})
				}
				return push()
			}
			if fn := Callee(info, x); fn != nil {
				evs = append(evs, gbEvent{kind: "call", call: x, callee: fn.Origin(), isGo: goCalls[x], pos: x.Pos()})
			}
		case *ast.SelectorExpr:
			if s := info.Selections[x]; s != nil && s.Kind() == types.FieldVal {
				if fv, ok := s.Obj().(*types.Var); ok {
					if _, tracked := r.byField[fv.Origin()]; tracked {
						evs = append(evs, gbEvent{kind: "access", sel: x, write: gbIsWrite(info, x, stack), pos: x.Sel.Pos()})
					}
				}
			} else if s != nil && (s.Kind() == types.MethodVal || s.Kind() == types.MethodExpr) {
				// method value (not in call position)?
				inCall := false
				if len(stack) > 0 {
					if c, ok := stack[len(stack)-1].(*ast.CallExpr); ok && ast.Unparen(c.Fun) == ast.Expr(x) {
						inCall = true
					}
				}
				if fn, ok := s.Obj().(*types.Func); ok && !inCall {
					if _, seen := r.ValueUse[fn.Origin()]; !seen {
						r.ValueUse[fn.Origin()] = x.Pos()
					}
				}
			}
		case *ast.Ident:
			if fn, ok := info.Uses[x].(*types.Func); ok && len(stack) > 0 {
				par := stack[len(stack)-1]
				inCall := false
				switch pp := par.(type) {
				case *ast.CallExpr:
					inCall = ast.Unparen(pp.Fun) == ast.Expr(x)
				case *ast.SelectorExpr:
					inCall = true // handled by the selector case
				}
				if !inCall {
					if _, seen := r.ValueUse[fn.Origin()]; !seen {
						r.ValueUse[fn.Origin()] = x.Pos()
					}
				}
			}
		case *ast.ReturnStmt:
			defer func() { evs = append(evs, gbEvent{kind: "return", pos: x.Pos()}) }()
		}
		return push()
	})
	// a return's operands are evaluated before it returns: move the return event last
	for i, e := range evs {
		if e.kind == "return" && i != len(evs)-1 {
			evs = append(append(evs[:i:i], evs[i+1:]...), e)
			break
		}
	}
	return evs
}

// gbIsWrite classifies a field selector by its syntactic context.
func gbIsWrite(info *types.Info, sel *ast.SelectorExpr, stack []ast.Node) bool {
	var e ast.Expr = sel
	i := len(stack) - 1
	parent := func() ast.Node {
		for i >= 0 {
			if _, ok := stack[i].(*ast.ParenExpr); ok {
				e = stack[i].(ast.Expr)
				i--
				continue
			}
			return stack[i]
		}
		return nil
	}
	for {
		p := parent()
		switch x := p.(type) {
		case *ast.IndexExpr:
			if ast.Unparen(x.X) == ast.Unparen(e) {
				switch info.TypeOf(e).Underlying().(type) {
				case *types.Map, *types.Slice, *types.Array:
					e = x
					i--
					continue
				}
			}
			return false
		case *ast.SelectorExpr:
			if ast.Unparen(x.X) == ast.Unparen(e) {
				if s := info.Selections[x]; s != nil && s.Kind() == types.FieldVal {
					if _, isPtr := info.TypeOf(e).Underlying().(*types.Pointer); !isPtr {
						e = x
						i--
						continue
					}
				}
			}
			return false
		case *ast.AssignStmt:
			for _, l := range x.Lhs {
				if ast.Unparen(l) == ast.Unparen(e) {
					return true
				}
			}
			return false
		case *ast.IncDecStmt:
			return ast.Unparen(x.X) == ast.Unparen(e)
		case *ast.UnaryExpr:
			return x.Op == token.AND && ast.Unparen(x.X) == ast.Unparen(e)
		case *ast.RangeStmt:
			return x.Tok == token.ASSIGN && ((x.Key != nil && ast.Unparen(x.Key) == ast.Unparen(e)) || (x.Value != nil && ast.Unparen(x.Value) == ast.Unparen(e)))
		case *ast.CallExpr:
			if len(x.Args) > 0 && ast.Unparen(x.Args[0]) == ast.Unparen(e) {
				return IsBuiltinCall(info, x, "delete") || IsBuiltinCall(info, x, "clear") || IsBuiltinCall(info, x, "copy")
			}
			return false
		}
		return false
	}
}

// gbFreshBase: base is a local variable of the unit's top function whose every definition is a
// composite literal / new(T) (the object is not shared yet: constructor code).
func gbFreshBase(info *types.Info, top *ast.FuncDecl, base ast.Expr) bool {
	for {
		switch x := ast.Unparen(base).(type) {
		case *ast.StarExpr:
			base = x.X
			continue
		case *ast.Ident:
			v, ok := info.Uses[x].(*types.Var)
			if !ok || v.IsField() || v.Parent() == nil || v.Pkg() == nil || v.Parent() == v.Pkg().Scope() {
				return false
			}
			if !(top.Body.Pos() <= v.Pos() && v.Pos() <= top.Body.End()) {
				return false // parameter, receiver or named result
			}
			defs, ok2 := 0, true
			ast.Inspect(top.Body, func(n ast.Node) bool {
				switch s := n.(type) {
				case *ast.AssignStmt:
					for k, l := range s.Lhs {
						id, isId := l.(*ast.Ident)
						if !isId || (info.Defs[id] != v && info.Uses[id] != v) {
							continue
						}
						defs++
						if len(s.Lhs) != len(s.Rhs) || !gbIsFreshExpr(info, s.Rhs[k]) {
							ok2 = false
						}
					}
				case *ast.ValueSpec:
					for k, id := range s.Names {
						if info.Defs[id] != v {
							continue
						}
						defs++
						if len(s.Values) == 0 {
							// var x T: zero value, fresh if not a pointer
							if _, isPtr := v.Type().Underlying().(*types.Pointer); isPtr {
								ok2 = false
							}
						} else if k >= len(s.Values) || !gbIsFreshExpr(info, s.Values[k]) {
							ok2 = false
						}
					}
				case *ast.RangeStmt:
					for _, kv := range []ast.Expr{s.Key, s.Value} {
						if id, isId := kv.(*ast.Ident); isId && (info.Defs[id] == v || info.Uses[id] == v) {
							ok2 = false
						}
					}
				}
				return true
			})
			return defs > 0 && ok2
		default:
			return false
		}
	}
}

func gbIsFreshExpr(info *types.Info, e ast.Expr) bool {
	switch x := ast.Unparen(e).(type) {
	case *ast.CompositeLit:
		return true
	case *ast.UnaryExpr:
		if x.Op == token.AND {
			_, ok := ast.Unparen(x.X).(*ast.CompositeLit)
			return ok
		}
	case *ast.CallExpr:
		return IsBuiltinCall(info, x, "new")
	case *ast.StarExpr:
		// x := *p copies the struct: writes to x's fields do not touch the shared object
		if t := info.TypeOf(x); t != nil {
			_, isStruct := t.Underlying().(*types.Struct)
			return isStruct
		}
	}
	return false
}

func (r *gbResult) analyseUnit(u *gbUnit) {
	r.Units = append(r.Units, u)
	info := u.Pk.TypesInfo
	if !r.hasLockOp(info, u.Body) {
		r.flatUnit(u)
		return
	}
	g := r.p.CFG(info, u.Body)
	if len(g.Blocks) == 0 {
		return
	}
	in := map[*cfg.Block]*gbState{g.Blocks[0]: u.entry.clone()}
	events := map[*cfg.Block][][]gbEvent{}
	for _, b := range g.Blocks {
		for _, n := range b.Nodes {
			events[b] = append(events[b], r.scanNode(info, n))
		}
	}
	transfer := func(b *cfg.Block, st *gbState, record bool) *gbState {
		st = st.clone()
		for _, evs := range events[b] {
			for _, ev := range evs {
				switch ev.kind {
				case "lock":
					if record && (ev.op.op == "Unlock" || ev.op.op == "RUnlock") && st.get(ev.op.key) == gbInherit {
						r.UnlockInh = append(r.UnlockInh, gbExit{Unit: u, Pos: ev.pos, Key: ev.op.key})
					}
					if record && (ev.op.op == "Lock" || ev.op.op == "RLock") {
						r.Acq = append(r.Acq, gbExit{Unit: u, Pos: ev.pos, Key: ev.op.key})
					}
					gbApply(st, ev.op)
				case "defer-unlock":
					st.deferred[ev.op.key] = true
				case "lit":
					// unlocks inside a deferred literal are deferred releases
					if ev.litHow == "defer" {
						inspectNoLit(ev.lit.Body, func(m ast.Node) bool {
							if c, ok := m.(*ast.CallExpr); ok {
								if op, ok := r.lockOp(info, c); ok && (op.op == "Unlock" || op.op == "RUnlock") {
									st.deferred[op.key] = true
								}
							}
							return true
						})
					}
					if record {
						u.Top.nLits++
						lu := &gbUnit{Name: fmt.Sprintf("%s$lit%d", u.Top.Name, u.Top.nLits), Top: u.Top, Pk: u.Pk, Decl: u.Decl, Body: ev.lit.Body, Lit: ev.lit, litKind: ev.litHow}
						switch ev.litHow {
						case "go", "stored":
							lu.entry = &gbState{held: map[gbKey]gbMode{}, deferred: map[gbKey]bool{}, entryNo: true}
						default:
							lu.entry = st.clone()
							lu.entry.deferred = map[gbKey]bool{}
							if ev.litHow == "defer" {
								// runs at exit: locks released by deferred unlocks registered *after* it are still held; approximation: state here
								for k := range st.deferred {
									_ = k
								}
							}
						}
						r.analyseUnit(lu)
					}
				case "access":
					if record {
						r.recordAccess(u, info, ev, st)
					}
				case "call":
					if record {
						r.Calls = append(r.Calls, &gbCall{Unit: u, Callee: ev.callee, State: st.clone(), Pos: ev.pos, Go: ev.isGo})
					}
				case "return":
					if record {
						r.recordExit(u, ev.pos, st)
					}
				}
			}
		}
		return st
	}
	// fixpoint
	work := []*cfg.Block{g.Blocks[0]}
	inWork := map[*cfg.Block]bool{g.Blocks[0]: true}
	for len(work) > 0 {
		b := work[0]
		work = work[1:]
		inWork[b] = false
		out := transfer(b, in[b], false)
		for _, s := range b.Succs {
			if cur, ok := in[s]; !ok {
				in[s] = out.clone()
			} else if !cur.meet(out) {
				continue
			}
			if !inWork[s] {
				inWork[s] = true
				work = append(work, s)
			}
		}
	}
	// recording pass
	for _, b := range g.Blocks {
		st, ok := in[b]
		if !ok {
			continue // unreachable
		}
		out := transfer(b, st, true)
		if len(b.Succs) == 0 && isFallOffEnd(b) {
			end := u.Body.Rbrace
			r.recordExit(u, end, out)
		}
	}
}

func (r *gbResult) recordExit(u *gbUnit, pos token.Pos, st *gbState) {
	for k, m := range st.held {
		if m > gbNone && !st.deferred[k] {
			// held at entry of a sync literal = the enclosing function's business
			if u.Lit != nil && u.entry.get(k) == m {
				continue
			}
			r.Exits = append(r.Exits, gbExit{Unit: u, Pos: pos, Key: k, Mode: m})
		}
	}
}

func (r *gbResult) recordAccess(u *gbUnit, info *types.Info, ev gbEvent, st *gbState) {
	s := info.Selections[ev.sel]
	fv := s.Obj().(*types.Var).Origin()
	baseExpr := ast.Unparen(ev.sel.X)
	if _, isForeign := r.foreign[fv]; isForeign {
		// only accesses through a pointer reach the shared object
		if _, isPtr := info.TypeOf(baseExpr).Underlying().(*types.Pointer); !isPtr {
			return
		}
		// and only the owner's package can hold pointers into the guarded container (escape is checked by the property)
		if owner := r.byField[fv]; owner == nil || owner.Name.Pkg() != u.Pk.Types {
			return
		}
	}
	a := &gbAccess{Unit: u, Field: fv, Owner: r.byField[fv], Base: types.ExprString(baseExpr), Write: ev.write, Pos: ev.pos, snap: st.clone()}
	a.Fresh = gbFreshBase(info, u.Decl, baseExpr)
	r.Accesses = append(r.Accesses, a)
}

// ---- interprocedural resolution ----------------------------------------------------------

// Guarded: the field is written after construction and at least one function accesses it with the
// struct's mutex held by itself, and it is not excluded by the configuration.
func (r *gbResult) Guarded(f *types.Var) bool {
	if r.skip[f] {
		return false
	}
	if _, foreign := r.foreign[f]; foreign {
		return r.Mutable[f]
	}
	if r.force[f] {
		return true
	}
	return r.Mutable[f] && r.LockedAcc[f] > 0
}

func (r *gbResult) need(a *gbAccess) gbMode {
	if a.Write {
		return gbW
	}
	return gbR
}

func (r *gbResult) resolve() {
	// held mode per access
	for _, a := range r.Accesses {
		a.Guard = r.guardOf[a.Field]
		if a.Guard == nil {
			continue
		}
		if _, foreign := r.foreign[a.Field]; foreign {
			m, _ := a.snap.anyBase(a.Guard)
			a.Held, a.AnyMu = m, m
		} else {
			a.Held = a.snap.get(gbKey{a.Guard, a.Base})
			a.AnyMu, _ = a.snap.anyBase(a.Guard)
		}
	}
	for _, a := range r.Accesses {
		if a.Guard != nil && !a.Fresh && a.Held > gbNone {
			r.LockedAcc[a.Field]++
		}
	}
	// dynamic dispatch: methods that implement an interface method of some module interface
	dynamic := r.dynamicMethods()
	// requirements (monotone fixpoint)
	addReq := func(fn *types.Func, mu *types.Var, m gbMode) bool {
		if fn == nil {
			return false
		}
		rq := r.Req[fn]
		if rq == nil {
			rq = map[*types.Var]gbMode{}
			r.Req[fn] = rq
		}
		if cur, ok := rq[mu]; !ok || cur < m {
			rq[mu] = m
			return true
		}
		return false
	}
	for _, a := range r.Accesses {
		if a.Guard != nil && r.Guarded(a.Field) && !a.Fresh && a.Held == gbInherit {
			addReq(a.Unit.Top.Fn, a.Guard, r.need(a))
		}
	}
	for changed := true; changed; {
		changed = false
		for _, c := range r.Calls {
			for mu, m := range r.Req[c.Callee] {
				have, _ := c.State.anyBase(mu)
				if have == gbInherit && !c.Go && c.Unit.Top.Fn != c.Callee {
					if addReq(c.Unit.Top.Fn, mu, m) {
						changed = true
					}
				}
			}
		}
	}
	// call sites per requiring function
	sites := map[*types.Func][]*gbCall{}
	for _, c := range r.Calls {
		if len(r.Req[c.Callee]) > 0 {
			sites[c.Callee] = append(sites[c.Callee], c)
		}
	}
	// validity per (function, mutex): least fixpoint — a helper is accepted only on the strength of
	// callers that really hold the lock (directly, or as accepted helpers themselves)
	type fm struct {
		fn *types.Func
		mu *types.Var
	}
	valid := map[fm]bool{}
	for fn := range r.Req {
		r.Sites[fn] = len(sites[fn])
	}
	siteOK := func(c *gbCall, mu *types.Var, m gbMode) (bool, gbMode) {
		have, _ := c.State.anyBase(mu)
		if c.Go {
			return false, gbNone
		}
		if have >= m {
			return true, have
		}
		if have == gbInherit && c.Unit.Top.Fn != nil && c.Unit.Top.Fn != c.Callee && valid[fm{c.Unit.Top.Fn, mu}] {
			return true, have
		}
		return false, have
	}
	static := func(fn *types.Func) string {
		if len(sites[fn]) == 0 {
			return "it has no call site in the analysed packages"
		} else if pos, used := r.ValueUse[fn]; used {
			return "it is used as a function value at " + r.p.Rel(pos)
		} else if dynamic[fn] != "" {
			return "it can be called through interface " + dynamic[fn]
		}
		return ""
	}
	for changed := true; changed; {
		changed = false
		for fn, rq := range r.Req {
			if static(fn) != "" {
				continue
			}
			for mu, m := range rq {
				if valid[fm{fn, mu}] {
					continue
				}
				for _, c := range sites[fn] {
					if c.Unit.Top.Fn == fn {
						continue // recursion
					}
					if ok, _ := siteOK(c, mu, m); ok {
						valid[fm{fn, mu}] = true
						changed = true
						break
					}
				}
			}
		}
	}
	r.validFM = func(fn *types.Func, mu *types.Var) bool { return valid[fm{fn, mu}] }
	for fn, rq := range r.Req {
		all := true
		for mu := range rq {
			if !valid[fm{fn, mu}] {
				all = false
			}
		}
		r.Valid[fn] = all
		if !all {
			if w := static(fn); w != "" {
				r.WhyNot[fn] = w
			} else {
				r.WhyNot[fn] = fmt.Sprintf("none of its %d call sites holds the lock", len(sites[fn]))
			}
		}
	}
	// bad call sites of accepted helpers
	for fn, cs := range sites {
		for mu, m := range r.Req[fn] {
			if !valid[fm{fn, mu}] {
				continue
			}
			for _, c := range cs {
				if c.Unit.Top.Fn == fn {
					continue
				}
				if ok, have := siteOK(c, mu, m); !ok {
					r.BadCalls = append(r.BadCalls, &gbBadCall{Call: c, Mu: mu, Need: m, Have: have})
				}
			}
		}
	}
	sort.Slice(r.BadCalls, func(i, j int) bool { return r.BadCalls[i].Call.Pos < r.BadCalls[j].Call.Pos })
	// verdict per access
	for _, a := range r.Accesses {
		switch {
		case a.Guard == nil:
			a.OK, a.Via = true, "no guard"
		case !r.Mutable[a.Field] && !r.force[a.Field]:
			a.OK, a.Via = true, "immutable after construction"
		case !r.Guarded(a.Field):
			a.OK, a.Via = true, "not a guarded field"
		case a.Fresh:
			a.OK, a.Via = true, "fresh object (constructor)"
		case a.Held >= r.need(a):
			a.OK, a.Via = true, "own lock"
		case a.Held == gbR && a.Write:
			a.Reason = "write under the read lock"
		case a.Held == gbInherit && a.Unit.Top.Fn != nil && r.validFM(a.Unit.Top.Fn, a.Guard):
			a.OK, a.Via = true, fmt.Sprintf("caller holds the lock (%d call sites)", r.Sites[a.Unit.Top.Fn])
		case a.Held == gbInherit:
			a.Reason = "lock not taken"
			if fn := a.Unit.Top.Fn; fn != nil && r.WhyNot[fn] != "" {
				a.Reason += "; not a caller-holds helper: " + r.WhyNot[fn]
			}
			if a.AnyMu > gbNone {
				a.Reason += " (the mutex is held on another base expression)"
			}
		default:
			a.Reason = "lock already released / not held on this path"
			if a.Unit.litKind == "go" || a.Unit.litKind == "stored" {
				a.Reason = "inside a " + a.Unit.litKind + " function literal: runs without the creator's lock"
			}
		}
	}
}

// dynamicMethods: methods that satisfy a method of a named interface of the module whose
// receiver type implements that interface (a call may reach them without a static call site).
func (r *gbResult) dynamicMethods() map[*types.Func]string {
	out := map[*types.Func]string{}
	var ifaces []*types.TypeName
	for _, pk := range r.p.Module {
		sc := pk.Types.Scope()
		for _, nm := range sc.Names() {
			if tn, ok := sc.Lookup(nm).(*types.TypeName); ok && !tn.IsAlias() {
				if it, ok := tn.Type().Underlying().(*types.Interface); ok && it.NumMethods() > 0 && tn.Type().(*types.Named).TypeParams().Len() == 0 {
					ifaces = append(ifaces, tn)
				}
			}
		}
	}
	for fn := range r.Req {
		sig := fn.Type().(*types.Signature)
		if sig.Recv() == nil {
			continue
		}
		rt := sig.Recv().Type()
		if n, ok := rt.(*types.Named); ok && n.TypeParams().Len() > 0 {
			continue
		}
		if p, ok := rt.(*types.Pointer); ok {
			if n, ok := p.Elem().(*types.Named); ok && n.TypeParams().Len() > 0 {
				continue
			}
		}
		for _, tn := range ifaces {
			it := tn.Type().Underlying().(*types.Interface)
			has := false
			for i := 0; i < it.NumMethods(); i++ {
				m := it.Method(i)
				if m.Name() == fn.Name() && (m.Exported() || m.Pkg() == fn.Pkg()) {
					has = true
				}
			}
			if !has {
				continue
			}
			if types.Implements(rt, it) || types.Implements(types.NewPointer(rt), it) {
				out[fn] = gbTypeKey(tn)
				break
			}
		}
	}
	return out
}

// ---- reporting helpers -------------------------------------------------------------------

// gbGroup is the set of accesses of one (function unit's top function, field, read/write).
type gbGroup struct {
	Key      string
	Struct   *gbStruct
	Field    *types.Var
	Write    bool
	Accesses []*gbAccess
}

// groups returns the accesses to mutable guarded fields of struct gs grouped by function/field/kind.
func (r *gbResult) groups(gs *gbStruct, fieldFilter func(*types.Var) bool) []*gbGroup {
	idx := map[string]*gbGroup{}
	var out []*gbGroup
	for _, a := range r.Accesses {
		own := r.byField[a.Field] == gs
		if !own || a.Guard == nil || !r.Guarded(a.Field) {
			continue
		}
		if fieldFilter != nil && !fieldFilter(a.Field) {
			continue
		}
		rw := "r"
		if a.Write {
			rw = "w"
		}
		fname := a.Unit.Top.Name
		if a.Unit.Pk.Types != gs.Name.Pkg() {
			fname = strings.TrimPrefix(a.Unit.Pk.PkgPath, modPath+"/") + "." + fname
		}
		owner := ""
		if _, foreign := r.foreign[a.Field]; foreign {
			owner = gbFieldOwnerName(a.Field) + "."
		}
		key := fmt.Sprintf("%s/%s%s(%s)", fname, owner, a.Field.Name(), rw)
		g := idx[key]
		if g == nil {
			g = &gbGroup{Key: key, Struct: gs, Field: a.Field, Write: a.Write}
			idx[key] = g
			out = append(out, g)
		}
		g.Accesses = append(g.Accesses, a)
	}
	sort.Slice(out, func(i, j int) bool { return out[i].Key < out[j].Key })
	return out
}

func gbFieldOwnerName(f *types.Var) string {
	// the struct that declares f: found through its position's enclosing type is not available from
	// go/types directly; the caller only needs a stable label, so use the package-qualified field parent
	// recorded in the foreign table by type name where possible.
	if f.Pkg() != nil {
		sc := f.Pkg().Scope()
		for _, nm := range sc.Names() {
			if tn, ok := sc.Lookup(nm).(*types.TypeName); ok {
				if st, ok := tn.Type().Underlying().(*types.Struct); ok {
					for i := 0; i < st.NumFields(); i++ {
						if st.Field(i) == f {
							return tn.Name()
						}
					}
				}
			}
		}
	}
	return "?"
}

// gbReport emits the obligations of one struct under rule ids ruleAcc (accesses) into c.
// exceptions: construct key -> reason. Returns the number of obligations.
func (r *gbResult) report(c *Ctx, gs *gbStruct, ruleAcc string, fieldFilter func(*types.Var) bool, exceptions map[string]string) int {
	n := 0
	for _, g := range r.groups(gs, fieldFilter) {
		n++
		var bad *gbAccess
		via := map[string]bool{}
		for _, a := range g.Accesses {
			if !a.OK && bad == nil {
				bad = a
			}
			via[a.Via] = true
		}
		pos := g.Accesses[0].Pos
		if reason, ok := exceptions[g.Key]; ok {
			if bad != nil {
				c.Exc(ruleAcc, g.Key, bad.Pos, reason)
			} else {
				c.Ok(ruleAcc, g.Key, pos, "under the lock now (the table still lists an exception for it: "+reason+")")
			}
			continue
		}
		if bad != nil {
			kind := "read"
			if bad.Write {
				kind = "write"
			}
			c.Bad(ruleAcc, g.Key, bad.Pos, fmt.Sprintf("%s of %s.%s (guarded by %s) in %s: %s [state of %s.%s here: %s]",
				kind, gs.Name.Name(), bad.Field.Name(), bad.Guard.Name(), bad.Unit.Name, bad.Reason, bad.Base, bad.Guard.Name(), bad.Held))
			continue
		}
		var vs []string
		for v := range via {
			vs = append(vs, v)
		}
		sort.Strings(vs)
		c.Ok(ruleAcc, g.Key, pos, fmt.Sprintf("%d access(es): %s", len(g.Accesses), strings.Join(vs, ", ")))
	}
	return n
}

// hasLockOp: does the body (literals included) contain any mutex operation?
func (r *gbResult) hasLockOp(info *types.Info, body *ast.BlockStmt) bool {
	found := false
	ast.Inspect(body, func(n ast.Node) bool {
		if found {
			return false
		}
		if c, ok := n.(*ast.CallExpr); ok {
			if _, ok := r.lockOp(info, c); ok {
				found = true
			}
		}
		return true
	})
	return found
}

// flatUnit handles a unit without any lock operation: its lock state is the entry state
// everywhere, so no CFG is needed.
func (r *gbResult) flatUnit(u *gbUnit) {
	info := u.Pk.TypesInfo
	st := u.entry
	for _, ev := range r.scanNode(info, u.Body) {
		switch ev.kind {
		case "access":
			r.recordAccess(u, info, ev, st)
		case "call":
			r.Calls = append(r.Calls, &gbCall{Unit: u, Callee: ev.callee, State: st, Pos: ev.pos, Go: ev.isGo})
		case "lit":
			u.Top.nLits++
			lu := &gbUnit{Name: fmt.Sprintf("%s$lit%d", u.Top.Name, u.Top.nLits), Top: u.Top, Pk: u.Pk, Decl: u.Decl, Body: ev.lit.Body, Lit: ev.lit, litKind: ev.litHow}
			switch ev.litHow {
			case "go", "stored":
				lu.entry = &gbState{held: map[gbKey]gbMode{}, deferred: map[gbKey]bool{}, entryNo: true}
			default:
				lu.entry = st
			}
			r.flatUnit(lu)
		}
	}
}

// structOfMutex finds the analysed struct that declares the mutex field.
func (r *gbResult) structOfMutex(mu *types.Var) *gbStruct {
	for _, gs := range r.Structs {
		for _, m := range gs.Mutexes {
			if m == mu {
				return gs
			}
		}
	}
	return nil
}

func (r *gbResult) unitLabel(u *gbUnit, gs *gbStruct) string {
	name := u.Top.Name
	if gs != nil && u.Pk.Types != gs.Name.Pkg() {
		name = strings.TrimPrefix(u.Pk.PkgPath, modPath+"/") + "." + name
	}
	return name
}

// reportCalls emits one obligation per call site of an accepted caller-holds helper of gs.
func (r *gbResult) reportCalls(c *Ctx, gs *gbStruct, rule string) int {
	bad := map[*gbCall]*gbBadCall{}
	for _, b := range r.BadCalls {
		if r.structOfMutex(b.Mu) == gs {
			bad[b.Call] = b
		}
	}
	n := 0
	for _, call := range r.Calls {
		for mu, need := range r.Req[call.Callee] {
			if r.structOfMutex(mu) != gs || !r.validFM(call.Callee, mu) || call.Unit.Top.Fn == call.Callee {
				continue
			}
			n++
			key := fmt.Sprintf("%s/call %s", r.unitLabel(call.Unit, gs), call.Callee.Name())
			if b := bad[call]; b != nil && b.Mu == mu {
				c.Bad(rule, key, call.Pos, fmt.Sprintf("%s is a caller-holds-the-lock helper (needs %s.%s %s) but this call site has the lock %s", call.Callee.Name(), gs.Name.Name(), mu.Name(), need, b.Have))
			} else {
				c.Ok(rule, key, call.Pos, fmt.Sprintf("holds %s.%s for helper %s", gs.Name.Name(), mu.Name(), call.Callee.Name()))
			}
		}
	}
	return n
}

// reportExits emits one obligation per (function, mutex of gs) that acquires the mutex: released
// or deferred on every exit.
func (r *gbResult) reportExits(c *Ctx, gs *gbStruct, rule string, exceptions map[string]string) int {
	type k struct {
		name string
		mu   *types.Var
	}
	first := map[k]token.Pos{}
	var order []k
	for _, a := range r.Acq {
		if r.structOfMutex(a.Key.mu) != gs {
			continue
		}
		kk := k{r.unitLabel(a.Unit, gs), a.Key.mu}
		if _, ok := first[kk]; !ok {
			first[kk] = a.Pos
			order = append(order, kk)
		}
	}
	leaks := map[k]gbExit{}
	for _, e := range r.Exits {
		if r.structOfMutex(e.Key.mu) == gs {
			kk := k{r.unitLabel(e.Unit, gs), e.Key.mu}
			if _, ok := leaks[kk]; !ok {
				leaks[kk] = e
			}
		}
	}
	sort.Slice(order, func(i, j int) bool {
		if order[i].name != order[j].name {
			return order[i].name < order[j].name
		}
		return order[i].mu.Name() < order[j].mu.Name()
	})
	for _, kk := range order {
		key := kk.name + "/" + kk.mu.Name()
		if e, leak := leaks[kk]; leak {
			if reason, ok := exceptions[key]; ok {
				c.Exc(rule, key, e.Pos, reason)
				continue
			}
			c.Bad(rule, key, e.Pos, fmt.Sprintf("%s returns at %s with %s.%s still %s and no deferred release: the next writer blocks forever", kk.name, r.p.Rel(e.Pos), e.Key.base, kk.mu.Name(), e.Mode))
		} else {
			c.Ok(rule, key, first[kk], "released (explicitly or by defer) on every exit")
		}
	}
	return len(order)
}
