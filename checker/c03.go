package main

import (
	"fmt"
	"go/ast"
	"go/constant"
	"go/token"
	"go/types"
	"sort"
	"strings"

	"golang.org/x/tools/go/cfg"
	"golang.org/x/tools/go/packages"
)

func init() {
	register(&Property{
		ID:       "C03",
		Patterns: []string{"./sql", "./sql/expression", "./sql/analyzer", "./sql/plan", "./sql/rowexec", "./memory"},
		Explanation: "A filter reaches an index as a chain of finite translation tables, and the in-memory backend turns the range back into a filter. Decided, over the abstract " +
			"value line {NULL, <k, =k, >k} (two keys: {NULL, <lo, =lo, between, =hi, >hi}): (E) each comparison expression's accepted outcome set of the three-valued compare result, read from Eval, " +
			"equals the one read from its sibling EvalValue; (F) filter type -> IndexScanOp (analyzer.IndexLeafChildren) -> builder method (rangeBuildDefaultLeaf) -> range constructor(s) called with the " +
			"converted key -> pair of cuts: the set of abstract points between the cuts equals the set the comparison accepts (inclusivity and direction preserved end to end), and the key-less " +
			"ranges chosen in the Overflow/Underflow/out-of-range arms equal what the comparison accepts when the key lies above/below every column value; (S) IndexScanOp.Swap mirrors the accepted set; " +
			"(R) for every ordered pair of cut kinds, MySQLRangeColumnExpr.Type() -> expression built by expression.NewRangeFilterExpr accepts exactly the points between the cuts " +
			"(a RangeType without an arm silently drops the filter); (K) in every function of sql, sql/plan, sql/analyzer, sql/rowexec, memory that converts a value to a column type with an in-range verdict, the converted value becomes an index key only on paths where the verdict is InRange; (X) each dispatch switch of the chain covers its enum or ends in panic/return-false.",
		NotCovered: "bound value conversion (floor/ceil, rounding arms), collations, multi-column prefix logic, IN lists, range merging/simplification (see C46), whether the planner may drop the residual filter, spatial and full-text ops",
		Technique:  "finite-domain abstract interpretation of the translation tables (AST folding) + set equality over an abstract value line",
		Run:        runC03,
	})
}

// point sets over the abstract line for one key: bit0 NULL, bit1 <k, bit2 =k, bit3 >k
const (
	c03Null = 1 << iota
	c03Lt
	c03Eq
	c03Gt
)

func c03SetString(s int) string {
	var p []string
	for i, n := range []string{"NULL", "<k", "=k", ">k"} {
		if s&(1<<i) != 0 {
			p = append(p, n)
		}
	}
	return "{" + strings.Join(p, ",") + "}"
}

// accepted-outcome set (subset of {-1,0,1}) -> point set
func c03AccToPoints(acc map[int]bool) int {
	s := 0
	if acc[-1] {
		s |= c03Lt
	}
	if acc[0] {
		s |= c03Eq
	}
	if acc[1] {
		s |= c03Gt
	}
	return s
}

// position of a single-key cut on the line: NULL | <k | =k | >k with 5 gaps 0..4
// BelowNull=0 (before NULL), AboveNull=1, Below=2 (between <k and =k), Above=3, AboveAll=4.
func c03CutPos(kind string) int {
	switch kind {
	case "BelowNull":
		return 0
	case "AboveNull":
		return 1
	case "Below":
		return 2
	case "Above":
		return 3
	case "AboveAll":
		return 4
	}
	return -1
}

// points between two single-key cut positions; gap g separates point g-1 and point g except that
// gap 2 (Below k) sits between "<k"(point1) and "=k"(point2): points are 0 NULL,1 <k,2 =k,3 >k and
// gap i is just before point i for i=0, after NULL for 1, before =k for 2, after =k for 3, after >k for 4.
func c03Between(lo, hi int) int {
	s := 0
	// point p lies after gap p (for p>=1: gap1 precedes "<k"... ) — explicit table:
	// order on the line: g0 NULL g1 <k g2 =k g3 >k g4
	pointAfterGap := []int{0, 1, 2, 3} // point i lies between gap i and gap i+1
	for p := range pointAfterGap {
		if lo <= p && p+1 <= hi {
			s |= 1 << p
		}
	}
	return s
}

func runC03(c *Ctx) {
	c.Rule("C03-E", "for each comparison expression type: accepted set of compare outcomes in Eval == accepted set in EvalValue (sibling executors agree)", 4)
	c.Rule("C03-F", "filter type -> IndexScanOp -> builder method -> keyed range constructor(s) -> cuts: points between the cuts == points the comparison accepts; key-less constructors in Overflow/Underflow/out-of-range arms == what the comparison accepts for a key above/below all values", 20)
	c.Rule("C03-S", "IndexScanOp.Swap(op) accepts the mirrored outcome set of op (literal-on-the-left filters)", 8)
	c.Rule("C03-R", "for every ordered pair of cut kinds (two keys lo<=hi): the expression NewRangeFilterExpr builds for MySQLRangeColumnExpr.Type() accepts exactly the abstract points between the cuts", 28)
	c.Rule("C03-K", "a value converted to the column type never becomes an index key (keyed range argument, Below/Above.Key) on a path where the conversion reported Overflow/Underflow", 7)
	c.Rule("C03-X", "dispatch switches of the chain are total over their enum or end in panic / explicit failure", 2)

	sqlPk, exPk, anPk := c.P.Pkg("sql"), c.P.Pkg("sql/expression"), c.P.Pkg("sql/analyzer")
	if sqlPk == nil || exPk == nil || anPk == nil {
		c.Undecided("C03-F", "packages", 0, "anchor packages not loaded")
		return
	}

	// ---- E: accepted sets of comparison expressions -----------------------------------
	acc := map[string]map[int]bool{} // type name -> accepted outcomes
	cmpTypes := []string{"Equals", "NullSafeEquals", "GreaterThan", "LessThan", "GreaterThanOrEqual", "LessThanOrEqual"}
	for _, tn := range cmpTypes {
		a, err := c03FoldEval(c, exPk, tn, "Eval")
		if err != nil {
			c.Undecided("C03-E", tn+".Eval", 0, err.Error())
			continue
		}
		acc[tn] = a
		if LookupFunc(exPk, tn+".EvalValue") == nil {
			c.Note("C03-E", tn+".EvalValue", 0, "no EvalValue sibling")
			continue
		}
		av, err := c03FoldEval(c, exPk, tn, "EvalValue")
		if err != nil {
			c.Undecided("C03-E", tn+".EvalValue", LookupFunc(exPk, tn+".EvalValue").Pos(), err.Error())
			continue
		}
		c.Check(c03AccToPoints(a) == c03AccToPoints(av), "C03-E", tn+".Eval~EvalValue", LookupFunc(exPk, tn+".EvalValue").Pos(),
			fmt.Sprintf("both accept %v", c03AccList(a)), fmt.Sprintf("%s.Eval accepts compare outcomes %v but EvalValue accepts %v: the row and value-row executors disagree", tn, c03AccList(a), c03AccList(av)))
	}
	c.Notef("accepted compare outcomes: %v", func() map[string][]int {
		m := map[string][]int{}
		for k, v := range acc {
			m[k] = c03AccList(v)
		}
		return m
	}())

	// ---- IndexScanOp enum and Swap ------------------------------------------------------
	ops, opT := EnumConsts(sqlPk, "IndexScanOp")
	if len(ops) < 10 {
		c.Undecided("C03-F", "IndexScanOp", 0, "enum not found")
		return
	}
	opName := func(v constant.Value) string { return nameOf(ops, v) }
	// expected semantic of each op (its name is the anchor): accepted point set for a single key
	opSem := map[string]int{}
	setOp := func(op string, typ string) {
		if a, ok := acc[typ]; ok {
			opSem[op] = c03AccToPoints(a)
		}
	}

	// ---- F1: filter type -> op (IndexLeafChildren) ---------------------------------------
	leafFn := LookupFunc(anPk, "IndexLeafChildren")
	leafFd := c.P.Decl(leafFn)
	if leafFd == nil {
		c.Undecided("C03-F", "IndexLeafChildren", 0, "function not found")
		return
	}
	typeToOp := map[string]string{}
	for _, tn := range cmpTypes {
		op, ok, err := c03FoldLeaf(c, anPk, exPk, leafFd, tn, "")
		if err != nil {
			c.Undecided("C03-F", "IndexLeafChildren("+tn+")", leafFd.Pos(), err.Error())
			continue
		}
		if !ok {
			c.Note("C03-F", "IndexLeafChildren("+tn+")", leafFd.Pos(), "not index-eligible")
			continue
		}
		typeToOp[tn] = opName(op)
		setOp(opName(op), tn)
	}
	// Not(Equals) -> complement
	if op, ok, err := c03FoldLeaf(c, anPk, exPk, leafFd, "Not", "Equals"); err == nil && ok {
		typeToOp["Not(Equals)"] = opName(op)
		if a, ok := acc["Equals"]; ok {
			opSem[opName(op)] = (c03Lt | c03Eq | c03Gt) &^ c03AccToPoints(a)
		}
	} else if err != nil {
		c.Undecided("C03-F", "IndexLeafChildren(Not(Equals))", leafFd.Pos(), err.Error())
	}
	// two filter types mapping to the same op must have the same accepted set
	byOp := map[string][]string{}
	for t, o := range typeToOp {
		byOp[o] = append(byOp[o], t)
	}
	for o, ts := range byOp {
		sort.Strings(ts)
		for _, t := range ts[1:] {
			a, b := acc[strings.TrimSuffix(strings.TrimPrefix(ts[0], "Not("), ")")], acc[strings.TrimSuffix(strings.TrimPrefix(t, "Not("), ")")]
			if strings.HasPrefix(ts[0], "Not(") != strings.HasPrefix(t, "Not(") || c03AccToPoints(a) != c03AccToPoints(b) {
				// NullSafeEquals and Equals legitimately differ only on NULL operands, never on outcomes
				c.Bad("C03-F", "op-shared/"+o, leafFd.Pos(), fmt.Sprintf("filter types %v map to the same IndexScanOp %s but accept different compare outcomes", ts, o))
			}
		}
	}
	c.Notef("filter type -> IndexScanOp: %v", typeToOp)

	// ---- S: Swap ---------------------------------------------------------------------------
	if swapFn := LookupFunc(sqlPk, "IndexScanOp.Swap"); swapFn != nil {
		f := &Folder{P: c.P}
		for _, o := range ops {
			v, panicked, err := f.Call(swapFn, o.Val)
			if err != nil || panicked {
				c.Undecided("C03-S", "Swap("+o.Obj.Name()+")", swapFn.Pos(), fmt.Sprint(err))
				continue
			}
			from, to := o.Obj.Name(), opName(v)
			sf, ok1 := opSem[from]
			st, ok2 := opSem[to]
			if !ok1 || !ok2 {
				c.Check(from == to, "C03-S", "Swap("+from+")", swapFn.Pos(), "identity on an op without a compare table", fmt.Sprintf("Swap(%s)=%s: op without an outcome table must be left unchanged", from, to))
				continue
			}
			mir := 0
			if sf&c03Lt != 0 {
				mir |= c03Gt
			}
			if sf&c03Gt != 0 {
				mir |= c03Lt
			}
			mir |= sf & c03Eq
			c.Check(st == mir, "C03-S", "Swap("+from+")", swapFn.Pos(), to, fmt.Sprintf("Swap(%s)=%s accepts %s, the mirror of %s is %s: `lit OP col` would be scanned as the wrong range", from, to, c03SetString(st), c03SetString(sf), c03SetString(mir)))
		}
	} else {
		c.Undecided("C03-S", "IndexScanOp.Swap", 0, "method not found")
	}

	// ---- F2: op -> builder method (rangeBuildDefaultLeaf) ---------------------------------
	leafBuild := c03FindOpSwitch(c, anPk, "indexScanRangeBuilder.rangeBuildDefaultLeaf", opT)
	if leafBuild == nil {
		c.Undecided("C03-F", "rangeBuildDefaultLeaf", 0, "switch over IndexScanOp not found")
		return
	}
	opToBuilder := map[string][]string{} // op -> builder method name(s) (NullSafeEq has two)
	hasPanicDefault := false
	for _, cs := range leafBuild.Body.List {
		cc := cs.(*ast.CaseClause)
		if cc.List == nil {
			for _, st := range cc.Body {
				if es, ok := st.(*ast.ExprStmt); ok {
					if call, ok := es.X.(*ast.CallExpr); ok && IsBuiltinCall(anPk.TypesInfo, call, "panic") {
						hasPanicDefault = true
					}
				}
			}
			continue
		}
		var methods []string
		ast.Inspect(cc, func(n ast.Node) bool {
			if call, ok := n.(*ast.CallExpr); ok {
				if fn := Callee(anPk.TypesInfo, call); fn != nil && fn.Pkg() == sqlPk.Types {
					if sig := fn.Type().(*types.Signature); sig.Recv() != nil && strings.Contains(sig.Recv().Type().String(), "MySQLIndexBuilder") {
						methods = append(methods, fn.Name())
					}
				}
			}
			return true
		})
		for _, x := range cc.List {
			if tv := anPk.TypesInfo.Types[x]; tv.Value != nil {
				opToBuilder[opName(tv.Value)] = methods
			}
		}
	}
	// X: the op switch is total or panics
	missing := []string{}
	for _, o := range ops {
		if _, ok := opToBuilder[o.Obj.Name()]; !ok {
			missing = append(missing, o.Obj.Name())
		}
	}
	c.Check(len(missing) == 0 || hasPanicDefault, "C03-X", "rangeBuildDefaultLeaf/switch-op", leafBuild.Pos(), fmt.Sprintf("unhandled ops %v reach panic", missing),
		fmt.Sprintf("IndexScanOps %v have no arm and there is no panic default: such a filter is silently left out of the index range while being marked as handled", missing))

	// ---- F3: builder method -> constructors -> cuts ------------------------------------------
	ctorDen := c03ConstructorDenotations(c, sqlPk)
	c.Notef("range constructor denotations (single key): %v", func() map[string]string {
		m := map[string]string{}
		for k, v := range ctorDen {
			m[k] = c03SetString(v)
		}
		return m
	}())
	for _, tn := range append(append([]string{}, cmpTypes...), "Not(Equals)", "IsNull", "IsNotNull") {
		var op string
		switch tn {
		case "IsNull":
			op = "IndexScanOpIsNull"
			opSem[op] = c03Null
		case "IsNotNull":
			op = "IndexScanOpIsNotNull"
			opSem[op] = c03Lt | c03Eq | c03Gt
		default:
			op = typeToOp[tn]
		}
		if op == "" {
			continue
		}
		sem, ok := opSem[op]
		if !ok {
			continue
		}
		methods := opToBuilder[op]
		if len(methods) == 0 {
			c.Bad("C03-F", tn+"/"+op, leafBuild.Pos(), fmt.Sprintf("%s maps to %s which has no builder arm", tn, op))
			continue
		}
		for _, mname := range methods {
			mfn := LookupFunc(sqlPk, "MySQLIndexBuilder."+mname)
			mfd := c.P.Decl(mfn)
			if mfd == nil {
				c.Undecided("C03-F", tn+"/"+mname, 0, "builder method not found")
				continue
			}
			// NullSafeEq dispatches on litValue == nil: IsNull for NULL literal, Equals otherwise
			want := sem
			if op == "IndexScanOpNullSafeEq" && mname == "IsNull" {
				want = c03Null
			}
			c03CheckBuilder(c, sqlPk, tn, op, mname, mfd, want, ctorDen)
		}
	}

	// ---- K: clamped keys ------------------------------------------------------------------------
	ruleClampedKey(c, "C03-K", []string{"sql", "sql/analyzer", "sql/expression", "sql/plan", "sql/rowexec", "memory"})

	// ---- R: range -> filter ---------------------------------------------------------------------
	c03RangeToFilter(c, sqlPk, exPk, acc)
}

func c03AccList(a map[int]bool) []int {
	var out []int
	for _, v := range []int{-1, 0, 1} {
		if a[v] {
			out = append(out, v)
		}
	}
	return out
}

// c03FoldEval folds T.Eval / T.EvalValue for each compare outcome and returns the outcomes
// for which the result is TRUE.
func c03FoldEval(c *Ctx, exPk *packages.Package, typeName, method string) (map[int]bool, error) {
	fn := LookupFunc(exPk, typeName+"."+method)
	fd := c.P.Decl(fn)
	if fd == nil {
		return nil, fmt.Errorf("%s.%s not found", typeName, method)
	}
	out := map[int]bool{}
	for _, sg := range []int{-1, 0, 1} {
		m := &Mini{P: c.P, Info: exPk.TypesInfo}
		m.Call = func(m *Mini, call *ast.CallExpr, fn *types.Func, recv MV, args []MV) ([]MV, bool) {
			if fn == nil {
				return nil, false
			}
			sig := fn.Type().(*types.Signature)
			if sig.Recv() != nil && sig.Results().Len() == 2 && IsErrorType(sig.Results().At(1).Type()) {
				if b, ok := sig.Results().At(0).Type().Underlying().(*types.Basic); ok && b.Info()&types.IsInteger != 0 {
					return []MV{constant.MakeInt64(int64(sg)), &MSym{Name: "nil", Nil: true}}, true
				}
			}
			return nil, false
		}
		m.Sel = func(m *Mini, sel *ast.SelectorExpr, base MV) (MV, bool) {
			if base == nil { // package-level value such as sql.TrueValue
				return &MSym{Name: sel.Sel.Name}, true
			}
			return nil, false
		}
		bind := map[types.Object]MV{}
		if fd.Recv != nil && len(fd.Recv.List[0].Names) > 0 {
			bind[exPk.TypesInfo.Defs[fd.Recv.List[0].Names[0]]] = &MSym{Name: "self"}
		}
		for _, fl := range fd.Type.Params.List {
			for _, n := range fl.Names {
				if o := exPk.TypesInfo.Defs[n]; o != nil {
					bind[o] = &MSym{Name: n.Name}
				}
			}
		}
		res, panicked, err := m.RunFunc(fd, bind)
		if err != nil {
			return nil, err
		}
		if panicked || len(res) != 2 {
			return nil, fmt.Errorf("%s.%s: unexpected result shape", typeName, method)
		}
		if b, ok := MBool(res[0]); ok {
			out[sg] = b
			continue
		}
		if s, ok := res[0].(*MSym); ok {
			switch s.Name {
			case "TrueValue":
				out[sg] = true
				continue
			case "FalseValue":
				out[sg] = false
				continue
			}
		}
		return nil, fmt.Errorf("%s.%s: result for outcome %d is neither a boolean nor True/FalseValue", typeName, method, sg)
	}
	return out, nil
}

// c03FoldLeaf folds IndexLeafChildren for an expression of dynamic type *expression.T
// (and child type for Not).
func c03FoldLeaf(c *Ctx, anPk, exPk *packages.Package, fd *ast.FuncDecl, typeName, childType string) (constant.Value, bool, error) {
	ptr := func(n string) types.Type {
		tn, _ := exPk.Types.Scope().Lookup(n).(*types.TypeName)
		if tn == nil {
			return nil
		}
		return types.NewPointer(tn.Type())
	}
	t := ptr(typeName)
	if t == nil {
		return nil, false, fmt.Errorf("type %s not found", typeName)
	}
	e := &MSym{Name: "e", Dyn: t, Fields: map[string]MV{}}
	if childType != "" {
		e.Fields["Child"] = &MSym{Name: "child", Dyn: ptr(childType), Fields: map[string]MV{}}
	}
	m := &Mini{P: c.P, Info: anPk.TypesInfo}
	m.Call = func(m *Mini, call *ast.CallExpr, fn *types.Func, recv MV, args []MV) ([]MV, bool) {
		if fn == nil {
			return nil, false
		}
		sig := fn.Type().(*types.Signature)
		if sig.Recv() != nil && sig.Results().Len() == 1 { // e.Left(), e.Right(), e.Children()
			return []MV{&MSym{Name: fn.Name()}}, true
		}
		return nil, false
	}
	bind := map[types.Object]MV{}
	for _, fl := range fd.Type.Params.List {
		for _, n := range fl.Names {
			bind[anPk.TypesInfo.Defs[n]] = e
		}
	}
	res, panicked, err := m.RunFunc(fd, bind)
	if err != nil {
		return nil, false, err
	}
	if panicked || len(res) != 4 {
		return nil, false, fmt.Errorf("unexpected result shape")
	}
	ok, isB := MBool(res[3])
	if !isB {
		return nil, false, fmt.Errorf("ok result not a constant")
	}
	if !ok {
		return nil, false, nil
	}
	op, isC := res[0].(constant.Value)
	if !isC {
		return nil, false, fmt.Errorf("op result not a constant")
	}
	return op, true, nil
}

// c03FindOpSwitch finds the switch statement over a value of the enum type in the named function.
func c03FindOpSwitch(c *Ctx, pk *packages.Package, fname string, enumT types.Type) *ast.SwitchStmt {
	fd := c.P.Decl(LookupFunc(pk, fname))
	if fd == nil {
		return nil
	}
	var found *ast.SwitchStmt
	ast.Inspect(fd.Body, func(n ast.Node) bool {
		if sw, ok := n.(*ast.SwitchStmt); ok && sw.Tag != nil && found == nil {
			if tv, ok := pk.TypesInfo.Types[sw.Tag]; ok && types.Identical(tv.Type, enumT) {
				found = sw
			}
		}
		return true
	})
	return found
}

// c03ConstructorDenotations folds every func XRangeColumnExpr(...) MySQLRangeColumnExpr with
// non-nil keys (all keys = k) and returns the set of abstract points between its cuts.
func c03ConstructorDenotations(c *Ctx, sqlPk *packages.Package) map[string]int {
	out := map[string]int{}
	rt, _ := sqlPk.Types.Scope().Lookup("MySQLRangeColumnExpr").(*types.TypeName)
	if rt == nil {
		c.Undecided("C03-F", "MySQLRangeColumnExpr", 0, "type not found")
		return out
	}
	for _, name := range sqlPk.Types.Scope().Names() {
		fn, ok := sqlPk.Types.Scope().Lookup(name).(*types.Func)
		if !ok || !strings.HasSuffix(name, "RangeColumnExpr") {
			continue
		}
		sig := fn.Type().(*types.Signature)
		if sig.Results().Len() != 1 || !types.Identical(sig.Results().At(0).Type(), rt.Type()) {
			continue
		}
		fd := c.P.Decl(fn)
		if fd == nil {
			continue
		}
		l, u, err := c03FoldCtor(c, sqlPk, fd)
		if err != nil {
			c.Undecided("C03-F", "constructor/"+name, fd.Pos(), err.Error())
			continue
		}
		out[name] = c03Between(c03CutPos(l), c03CutPos(u))
	}
	return out
}

func c03FoldCtor(c *Ctx, sqlPk *packages.Package, fd *ast.FuncDecl) (string, string, error) {
	m := &Mini{P: c.P, Info: sqlPk.TypesInfo}
	bind := map[types.Object]MV{}
	for _, fl := range fd.Type.Params.List {
		for _, n := range fl.Names {
			bind[sqlPk.TypesInfo.Defs[n]] = &MSym{Name: n.Name} // non-nil key / type
		}
	}
	res, panicked, err := m.RunFunc(fd, bind)
	if err != nil {
		return "", "", err
	}
	if panicked || len(res) != 1 {
		return "", "", fmt.Errorf("unexpected result shape")
	}
	r, ok := res[0].(*MSym)
	if !ok || r.Fields == nil {
		return "", "", fmt.Errorf("result is not a range literal")
	}
	kind := func(v MV) string {
		if s, ok := v.(*MSym); ok && s.Dyn != nil {
			if nt, ok := s.Dyn.(*types.Named); ok {
				return nt.Obj().Name()
			}
		}
		return "?"
	}
	return kind(r.Fields["LowerBound"]), kind(r.Fields["UpperBound"]), nil
}

// c03CheckBuilder decides one MySQLIndexBuilder method. The key conversion yields a
// ConvertInRange value (InRange / Overflow / Underflow); for each of the three values the CFG is
// walked from the conversion with the branches on that value resolved, and the range
// constructors reached are compared with what the comparison accepts in that situation:
// InRange -> the keyed constructors together denote exactly the accepted points; Overflow /
// Underflow -> no keyed constructor (the clamped key would be scanned), and every key-less
// constructor denotes what the comparison accepts when the key lies above / below all values.
// Constructors not reachable from the conversion (float/decimal rounding arms before it) are
// compared with what the comparison accepts for a key between representable values.
func c03CheckBuilder(c *Ctx, sqlPk *packages.Package, typeName, op, mname string, fd *ast.FuncDecl, want int, ctorDen map[string]int) {
	info := sqlPk.TypesInfo
	cir, _ := sqlPk.Types.Scope().Lookup("ConvertInRange").(*types.TypeName)
	isCIR := func(t types.Type) bool { return cir != nil && t != nil && types.Identical(t, cir.Type()) }
	nn := c03Lt | c03Eq | c03Gt
	wantOver, wantUnder := 0, 0
	if want&c03Lt != 0 {
		wantOver = nn
	}
	if want&c03Gt != 0 {
		wantUnder = nn
	}
	wantRound := -1 // one-sided comparison with a fractional key: depends on floor/ceil of the value, not decided
	if want&c03Lt != 0 && want&c03Gt != 0 {
		wantRound = nn
	} else if want&(c03Lt|c03Gt) == 0 {
		wantRound = 0
	}
	prefix := fmt.Sprintf("%s/MySQLIndexBuilder.%s", typeName, mname)

	type ctorCall struct {
		call  *ast.CallExpr
		name  string
		den   int
		keyed bool
	}
	ctorIn := func(n ast.Node) []ctorCall {
		var out []ctorCall
		ast.Inspect(n, func(m ast.Node) bool {
			if _, ok := m.(*ast.FuncLit); ok {
				return false
			}
			if call, ok := m.(*ast.CallExpr); ok {
				if fn := Callee(info, call); fn != nil && fn.Pkg() == sqlPk.Types {
					if den, ok := ctorDen[fn.Name()]; ok {
						out = append(out, ctorCall{call, fn.Name(), den, fn.Type().(*types.Signature).Params().Len() >= 2})
					}
				}
			}
			return true
		})
		return out
	}
	var all []ctorCall
	for _, st := range fd.Body.List {
		all = append(all, ctorIn(st)...)
	}

	keyless := typeName == "IsNull" || typeName == "IsNotNull" || (op == "IndexScanOpNullSafeEq" && mname == "IsNull")
	if keyless {
		for _, cc := range all {
			c.Check(cc.den == want, "C03-F", prefix+"/"+cc.name, cc.call.Pos(), "", fmt.Sprintf("%s must scan %s, scans %s", op, c03SetString(want), c03SetString(cc.den)))
		}
		if len(all) == 0 {
			c.Undecided("C03-F", prefix+"/range", fd.Pos(), "no range constructor call found")
		}
		return
	}

	// the statement that defines the ConvertInRange variable
	g := c.P.CFG(info, fd.Body)
	var cirObj types.Object
	var defNode ast.Node
	ast.Inspect(fd.Body, func(n ast.Node) bool {
		as, ok := n.(*ast.AssignStmt)
		if !ok || defNode != nil {
			return true
		}
		for _, l := range as.Lhs {
			if id := identOf(l); id != nil {
				o := info.Defs[id]
				if o == nil {
					o = info.Uses[id]
				}
				if o != nil && isCIR(o.Type()) {
					cirObj, defNode = o, as
				}
			}
		}
		return true
	})
	if defNode == nil {
		c.Undecided("C03-F", prefix+"/conversion", fd.Pos(), "no assignment of a ConvertInRange value found in the builder method")
		return
	}
	defPt, ok := FindNode(g, defNode)
	if !ok {
		c.Undecided("C03-F", prefix+"/conversion", defNode.Pos(), "conversion statement not in the CFG")
		return
	}
	// case expressions of switches over the ConvertInRange variable
	caseOf := map[ast.Expr]bool{}
	ast.Inspect(fd.Body, func(n ast.Node) bool {
		if sw, ok := n.(*ast.SwitchStmt); ok && sw.Tag != nil {
			if id := identOf(sw.Tag); id != nil && info.Uses[id] == cirObj {
				for _, cs := range sw.Body.List {
					for _, x := range cs.(*ast.CaseClause).List {
						caseOf[x] = true
					}
				}
			}
		}
		return true
	})
	constVal := func(x ast.Expr) constant.Value {
		if tv, ok := info.Types[x]; ok && tv.Value != nil && isCIR(tv.Type) {
			return tv.Value
		}
		return nil
	}
	cirConst := func(name string) constant.Value {
		if k, ok := sqlPk.Types.Scope().Lookup(name).(*types.Const); ok {
			return k.Val()
		}
		return nil
	}
	undecidedCond := false
	mkEdgeOK := func(v constant.Value) func(b *cfg.Block, succ int) bool {
		return func(b *cfg.Block, succ int) bool {
			// never follow a back edge into the head of a loop that encloses the conversion
			if t := b.Succs[succ]; (t.Kind == cfg.KindRangeLoop || t.Kind == cfg.KindForLoop || t.Kind == cfg.KindForPost) && t.Stmt != nil &&
				t.Stmt.Pos() <= defNode.Pos() && defNode.End() <= t.Stmt.End() {
				return false
			}
			if len(b.Nodes) == 0 || len(b.Succs) != 2 {
				return true
			}
			last, ok := b.Nodes[len(b.Nodes)-1].(ast.Expr)
			if !ok {
				return true
			}
			truth, decided := false, false
			if caseOf[last] {
				if cv := constVal(last); cv != nil {
					truth, decided = constant.Compare(v, token.EQL, cv), true
				}
			} else if be, ok := ast.Unparen(last).(*ast.BinaryExpr); ok && (be.Op == token.EQL || be.Op == token.NEQ) {
				var other ast.Expr
				if id := identOf(be.X); id != nil && info.Uses[id] == cirObj {
					other = be.Y
				} else if id := identOf(be.Y); id != nil && info.Uses[id] == cirObj {
					other = be.X
				}
				if other != nil {
					if cv := constVal(other); cv != nil {
						truth, decided = constant.Compare(v, be.Op, cv), true
					} else {
						undecidedCond = true
					}
				}
			} else {
				// any other condition mentioning the variable cannot be resolved
				mentions := false
				ast.Inspect(last, func(n ast.Node) bool {
					if id, ok := n.(*ast.Ident); ok && info.Uses[id] == cirObj {
						mentions = true
					}
					return true
				})
				if mentions {
					undecidedCond = true
				}
			}
			if !decided {
				return true
			}
			return (succ == 0) == truth
		}
	}
	// the walk must not leave the loop iteration that performed the conversion: the loop header
	// nodes of every loop enclosing the conversion are barriers, like the conversion itself
	loopHeads := map[ast.Node]bool{}
	ast.Inspect(fd.Body, func(n ast.Node) bool {
		switch l := n.(type) {
		case *ast.RangeStmt:
			if l.Pos() <= defNode.Pos() && defNode.End() <= l.End() {
				if l.Key != nil {
					loopHeads[l.Key] = true
				}
				if l.Value != nil {
					loopHeads[l.Value] = true
				}
			}
		case *ast.ForStmt:
			if l.Pos() <= defNode.Pos() && defNode.End() <= l.End() {
				if l.Cond != nil {
					loopHeads[l.Cond] = true
				}
				if l.Post != nil {
					loopHeads[l.Post] = true
				}
			}
		}
		return true
	})
	isDef := func(n ast.Node) bool { return n == defNode || loopHeads[n] }
	// ---- rounding of fractional keys on integer columns ---------------------------------------
	// `key = floor(key)` / `ceil(key)` before the conversion, optionally with a flag `exclude` that
	// records whether rounding changed the key. For a key strictly between the integers n and n+1 the
	// comparison accepts {v<=n} ('<' accepted) and/or {v>=n+1} ('>' accepted), never '='; the keyed
	// range built from the rounded key r must denote exactly that set of integers.
	roundDir := "" // "floor" | "ceil"
	roundedObjs := map[types.Object]bool{}
	ast.Inspect(fd.Body, func(n ast.Node) bool {
		as, ok := n.(*ast.AssignStmt)
		if !ok || len(as.Rhs) != 1 || len(as.Lhs) != 1 {
			return true
		}
		call, ok := ast.Unparen(as.Rhs[0]).(*ast.CallExpr)
		if !ok {
			return true
		}
		fn := Callee(info, call)
		if fn == nil || fn.Pkg() != sqlPk.Types || (fn.Name() != "floor" && fn.Name() != "ceil") {
			return true
		}
		if roundDir != "" && roundDir != fn.Name() {
			roundDir = "mixed"
		} else {
			roundDir = fn.Name()
		}
		if id := identOf(as.Lhs[0]); id != nil {
			if o := info.Defs[id]; o != nil {
				roundedObjs[o] = true
			} else if o := info.Uses[id]; o != nil {
				roundedObjs[o] = true
			}
		}
		return true
	})
	fracFlags := map[types.Object]bool{} // bool variables meaning "rounding changed the key"
	ast.Inspect(fd.Body, func(n ast.Node) bool {
		as, ok := n.(*ast.AssignStmt)
		if !ok || len(as.Rhs) != 1 || len(as.Lhs) != 1 {
			return true
		}
		be, ok := ast.Unparen(as.Rhs[0]).(*ast.BinaryExpr)
		if !ok || be.Op != token.NEQ {
			return true
		}
		mentionsRounded := false
		ast.Inspect(be, func(m ast.Node) bool {
			if id, ok := m.(*ast.Ident); ok && roundedObjs[info.Uses[id]] {
				mentionsRounded = true
			}
			return true
		})
		if !mentionsRounded {
			return true
		}
		if id := identOf(as.Lhs[0]); id != nil {
			if o := info.Uses[id]; o != nil {
				fracFlags[o] = true
			} else if o := info.Defs[id]; o != nil {
				fracFlags[o] = true
			}
		}
		return true
	})
	reachedAny := map[*ast.CallExpr]bool{}
	for _, sit := range []struct {
		name  string
		val   constant.Value
		wantK int
	}{{"InRange", cirConst("InRange"), want}, {"Overflow", cirConst("Overflow"), wantOver}, {"Underflow", cirConst("Underflow"), wantUnder}} {
		if sit.val == nil {
			c.Undecided("C03-F", prefix+"/"+sit.name, fd.Pos(), "ConvertInRange constant not found")
			continue
		}
		var reached []ctorCall
		for _, n := range ReachableNodes(g, defPt, isDef, mkEdgeOK(sit.val)) {
			reached = append(reached, ctorIn(n)...)
		}
		for _, cc := range reached {
			reachedAny[cc.call] = true
		}
		key := prefix + "/" + sit.name
		if sit.name == "InRange" {
			union, keylessSeen := 0, ""
			for _, cc := range reached {
				if cc.keyed {
					union |= cc.den
				} else {
					keylessSeen = cc.name
				}
			}
			switch {
			case len(reached) == 0:
				c.Undecided("C03-F", key, defNode.Pos(), "no range constructor reachable for an in-range key")
			case keylessSeen != "":
				c.Bad("C03-F", key, defNode.Pos(), fmt.Sprintf("for an in-range key the key-less range %s is reachable: the scan ignores the key", keylessSeen))
			default:
				c.Check(union == want, "C03-F", key, defNode.Pos(), c03SetString(want), fmt.Sprintf("%s accepts rows with column in %s relative to the key, but %s -> MySQLIndexBuilder.%s scans %s for an in-range key (inclusivity or direction changed along the chain)", typeName, c03SetString(want), op, mname, c03SetString(union)))
			}
			continue
		}
		if len(reached) == 0 {
			c.Bad("C03-F", key, defNode.Pos(), fmt.Sprintf("no range is produced when the key conversion reports %s", sit.name))
			continue
		}
		okAll := true
		msg := ""
		for _, cc := range reached {
			if cc.keyed {
				okAll = false
				msg = fmt.Sprintf("the key conversion reports %s (key clamped to the column type's bound) yet the keyed range %s is built from it: rows holding the bound value match a literal that is outside the type", sit.name, cc.name)
			} else if cc.den != sit.wantK {
				okAll = false
				msg = fmt.Sprintf("key %s every column value: %s accepts %s of the non-NULL rows, but the %s arm scans %s (%s)", map[string]string{"Overflow": "above", "Underflow": "below"}[sit.name], op, c03SetString(sit.wantK), sit.name, c03SetString(cc.den), cc.name)
			}
		}
		c.Check(okAll, "C03-F", key, defNode.Pos(), "", msg)
	}
	if roundDir == "floor" || roundDir == "ceil" {
		for _, fracSit := range []bool{false, true} {
			fr := fracSit
			extra := func(cond ast.Expr) (bool, bool) {
				e := ast.Unparen(cond)
				neg := false
				if u, ok := e.(*ast.UnaryExpr); ok && u.Op == token.NOT {
					neg, e = true, ast.Unparen(u.X)
				}
				if id, ok := e.(*ast.Ident); ok && fracFlags[info.Uses[id]] {
					return fr != neg, true
				}
				return false, false
			}
			union, any := 0, false
			for _, n := range c03ReachedWith(g, defPt, isDef, mkEdgeOK(cirConst("InRange")), extra) {
				for _, cc := range ctorIn(n) {
					if cc.keyed {
						union |= cc.den
						any = true
					}
				}
			}
			key := fmt.Sprintf("%s/rounding=%s/fractional=%v", prefix, roundDir, fr)
			if !any {
				c.Undecided("C03-F", key, defNode.Pos(), "no keyed range reachable")
				continue
			}
			exp := want
			if fr {
				// classes of integers relative to the rounded key r: v<r, v=r, v>r
				exp = 0
				if roundDir == "floor" { // r = n: accepted '<' means v<=n, accepted '>' means v>=n+1
					if want&c03Lt != 0 {
						exp |= c03Lt | c03Eq
					}
					if want&c03Gt != 0 {
						exp |= c03Gt
					}
				} else { // r = n+1
					if want&c03Lt != 0 {
						exp |= c03Lt
					}
					if want&c03Gt != 0 {
						exp |= c03Eq | c03Gt
					}
				}
			}
			c.Check(union == exp, "C03-F", key, defNode.Pos(), c03SetString(exp),
				fmt.Sprintf("integer column, key %s: %s accepts the integers in %s relative to %s(key), but the builder scans %s — a row equal to the rounded key is lost or gained only on the index path",
					map[bool]string{true: "with a fractional part", false: "integral"}[fr], typeName, c03SetString(exp), roundDir, c03SetString(union)))
		}
	} else if roundDir == "mixed" {
		c.Undecided("C03-F", prefix+"/rounding", fd.Pos(), "both floor and ceil are applied in one builder method")
	}
	if undecidedCond {
		c.Undecided("C03-F", prefix+"/conditions", defNode.Pos(), "a branch condition on the ConvertInRange value could not be resolved")
	}
	// constructors outside the conversion's reach: rounding arms (key between representable values)
	for _, cc := range all {
		if reachedAny[cc.call] {
			continue
		}
		key := prefix + "/rounding/" + cc.name
		if cc.keyed {
			c.Note("C03-F", key, cc.call.Pos(), "keyed range before the key conversion: value-dependent, not decided")
		} else if wantRound >= 0 {
			c.Check(cc.den == wantRound, "C03-F", key, cc.call.Pos(), "", fmt.Sprintf("key between representable values (rounding arm): %s accepts %s, this arm scans %s", op, c03SetString(wantRound), c03SetString(cc.den)))
		} else {
			c.Note("C03-F", key, cc.call.Pos(), "value-dependent rounding arm of a one-sided comparison: not decided")
		}
	}
}

// ---- R: range -> filter expression ---------------------------------------------------------------

type c03Cut struct {
	kind string
	key  int // 0 none, 1 lo, 2 hi
}

// two-key line: points 0 NULL, 1 <lo, 2 =lo, 3 between, 4 =hi, 5 >hi; gaps 0..6 before each point / after last
func (k c03Cut) gap() int {
	switch k.kind {
	case "BelowNull":
		return 0
	case "AboveNull":
		return 1
	case "Below":
		if k.key == 1 {
			return 2
		}
		return 4
	case "Above":
		if k.key == 1 {
			return 3
		}
		return 5
	}
	return 6
}
func (k c03Cut) String() string {
	switch k.key {
	case 1:
		return k.kind + "(lo)"
	case 2:
		return k.kind + "(hi)"
	}
	return k.kind
}

// sign of point p relative to key (1 lo, 2 hi); p in 1..5
func c03PointVsKey(p, key int) int {
	pos := map[int]int{1: 2, 2: 4}[key] // point index of =key
	return sign(p - pos)
}

type c03Expr struct {
	kind string // cmp, isnull, isnotnull, and, or, not, lit
	typ  string // comparison type name
	key  int
	kids []*c03Expr
	val  bool
}

// three-valued evaluation: 1 true, 0 false, -1 NULL
func (e *c03Expr) eval(p int, acc map[string]map[int]bool) int {
	switch e.kind {
	case "lit":
		if e.val {
			return 1
		}
		return 0
	case "isnull":
		if p == 0 {
			return 1
		}
		return 0
	case "isnotnull":
		if p == 0 {
			return 0
		}
		return 1
	case "cmp":
		if p == 0 {
			if e.typ == "NullSafeEquals" {
				return 0
			}
			return -1
		}
		if acc[e.typ][c03PointVsKey(p, e.key)] {
			return 1
		}
		return 0
	case "not":
		v := e.kids[0].eval(p, acc)
		if v == -1 {
			return -1
		}
		return 1 - v
	case "and":
		a, b := e.kids[0].eval(p, acc), e.kids[1].eval(p, acc)
		if a == 0 || b == 0 {
			return 0
		}
		if a == -1 || b == -1 {
			return -1
		}
		return 1
	case "or":
		a, b := e.kids[0].eval(p, acc), e.kids[1].eval(p, acc)
		if a == 1 || b == 1 {
			return 1
		}
		if a == -1 || b == -1 {
			return -1
		}
		return 0
	}
	return -1
}

func (e *c03Expr) String() string {
	switch e.kind {
	case "lit":
		return fmt.Sprint(e.val)
	case "cmp":
		return fmt.Sprintf("%s(col,%s)", e.typ, map[int]string{1: "lo", 2: "hi"}[e.key])
	case "isnull", "isnotnull":
		return e.kind + "(col)"
	case "not":
		return "not(" + e.kids[0].String() + ")"
	}
	return e.kind + "(" + e.kids[0].String() + "," + e.kids[1].String() + ")"
}

func c03RangeToFilter(c *Ctx, sqlPk, exPk *packages.Package, acc map[string]map[int]bool) {
	typeFn := LookupFunc(sqlPk, "MySQLRangeColumnExpr.Type")
	typeFd := c.P.Decl(typeFn)
	nrfFd := c.P.Decl(LookupFunc(exPk, "NewRangeFilterExpr"))
	if typeFd == nil || nrfFd == nil {
		c.Undecided("C03-R", "anchors", 0, "MySQLRangeColumnExpr.Type or expression.NewRangeFilterExpr not found")
		return
	}
	rts, rtT := EnumConsts(sqlPk, "RangeType")
	// the switch over rce.Type() in NewRangeFilterExpr
	var sw *ast.SwitchStmt
	ast.Inspect(nrfFd.Body, func(n ast.Node) bool {
		if s, ok := n.(*ast.SwitchStmt); ok && s.Tag != nil && sw == nil {
			if tv, ok := exPk.TypesInfo.Types[s.Tag]; ok && types.Identical(tv.Type, rtT) {
				sw = s
			}
		}
		return true
	})
	if sw == nil {
		c.Undecided("C03-R", "NewRangeFilterExpr/switch", nrfFd.Pos(), "switch over RangeType not found")
		return
	}
	// the variable each arm assigns (rangeColumnExpr) and the range variable (rce)
	var resultObj, rceObj types.Object
	if call, ok := sw.Tag.(*ast.CallExpr); ok {
		if se, ok := call.Fun.(*ast.SelectorExpr); ok {
			if id := identOf(se.X); id != nil {
				rceObj = exPk.TypesInfo.Uses[id]
			}
		}
	}
	counts := map[types.Object]int{}
	for _, cs := range sw.Body.List {
		for _, st := range cs.(*ast.CaseClause).Body {
			ast.Inspect(st, func(n ast.Node) bool {
				if as, ok := n.(*ast.AssignStmt); ok && len(as.Lhs) == 1 && as.Tok == token.ASSIGN {
					if id := identOf(as.Lhs[0]); id != nil {
						counts[exPk.TypesInfo.Uses[id]]++
					}
				}
				return true
			})
		}
	}
	for o, n := range counts {
		if resultObj == nil || n > counts[resultObj] {
			resultObj = o
		}
	}
	if resultObj == nil || rceObj == nil {
		c.Undecided("C03-R", "NewRangeFilterExpr/vars", sw.Pos(), "cannot identify the range variable and the per-column result variable")
		return
	}
	handled := map[string]bool{}
	hasDefault := false
	for _, cs := range sw.Body.List {
		cc := cs.(*ast.CaseClause)
		if cc.List == nil {
			hasDefault = true
		}
		for _, x := range cc.List {
			if tv := exPk.TypesInfo.Types[x]; tv.Value != nil {
				handled[nameOf(rts, tv.Value)] = true
			}
		}
	}

	kindT := func(n string) types.Type {
		tn, _ := sqlPk.Types.Scope().Lookup(n).(*types.TypeName)
		if tn == nil {
			return nil
		}
		return tn.Type()
	}
	cuts := []c03Cut{{"BelowNull", 0}, {"AboveNull", 0}, {"Below", 1}, {"Above", 1}, {"Below", 2}, {"Above", 2}, {"AboveAll", 0}}
	keySym := map[int]*MSym{1: {Name: "lo"}, 2: {Name: "hi"}}
	mkCut := func(k c03Cut) *MSym {
		s := &MSym{Name: k.String(), Dyn: kindT(k.kind), Fields: map[string]MV{}}
		if k.key != 0 {
			s.Fields["Key"] = keySym[k.key]
			s.Fields["Typ"] = keySym[0]
		}
		return s
	}
	producedTypes := map[string]bool{}
	for _, L := range cuts {
		for _, U := range cuts {
			if L.gap() > U.gap() {
				continue // inverted ranges are never constructed (builders order their cuts)
			}
			key := fmt.Sprintf("range[%s,%s]", L, U)
			lo, up := mkCut(L), mkCut(U)
			rce := &MSym{Name: "rce", Fields: map[string]MV{"LowerBound": lo, "UpperBound": up, "Typ": &MSym{Name: "typ"}}}
			// Type()
			tm := &Mini{P: c.P, Info: sqlPk.TypesInfo}
			bind := map[types.Object]MV{}
			if typeFd.Recv != nil && len(typeFd.Recv.List[0].Names) > 0 {
				bind[sqlPk.TypesInfo.Defs[typeFd.Recv.List[0].Names[0]]] = rce
			}
			res, panicked, err := tm.RunFunc(typeFd, bind)
			if err != nil || panicked || len(res) != 1 {
				c.Undecided("C03-R", key, typeFd.Pos(), fmt.Sprintf("Type() not foldable: %v", err))
				continue
			}
			rtv, _ := res[0].(constant.Value)
			rtName := nameOf(rts, rtv)
			producedTypes[rtName] = true
			want := 0
			for p := 0; p < 6; p++ {
				if L.gap() <= p && p+1 <= U.gap() {
					want |= 1 << p
				}
			}
			// pick the arm
			var arm *ast.CaseClause
			for _, cs := range sw.Body.List {
				cc := cs.(*ast.CaseClause)
				for _, x := range cc.List {
					if tv := exPk.TypesInfo.Types[x]; tv.Value != nil && constant.Compare(tv.Value, token.EQL, rtv) {
						arm = cc
					}
				}
			}
			var expr *c03Expr
			if arm != nil {
				e, err := c03FoldArm(c, exPk, sqlPk, arm, resultObj, rceObj, rce, keySym)
				if err != nil {
					c.Undecided("C03-R", key, arm.Pos(), "arm not foldable: "+err.Error())
					continue
				}
				expr = e
			}
			got := 0
			desc := "no filter (arm missing: every row passes)"
			if expr == nil {
				got = 0x3f
			} else {
				desc = expr.String()
				for p := 0; p < 6; p++ {
					if expr.eval(p, acc) == 1 {
						got |= 1 << p
					}
				}
			}
			c.Check(got == want, "C03-R", key, typeFd.Pos(), rtName+" -> "+desc,
				fmt.Sprintf("cuts [%s,%s] denote points %s; Type()=%s and NewRangeFilterExpr builds %s which accepts %s (points: 0 NULL,1 <lo,2 =lo,3 between,4 =hi,5 >hi)", L, U, c03Bits(want), rtName, desc, c03Bits(got)))
		}
	}
	// X: every RangeType that Type() can produce has an arm (there is no default: a missing arm drops the filter)
	var miss []string
	for rt := range producedTypes {
		if !handled[rt] && !hasDefault {
			miss = append(miss, rt)
		}
	}
	sort.Strings(miss)
	// RangeType_Invalid is produced only for cut pairs that no constructor builds; it is reported by C03-R if reachable
	c.Check(len(miss) == 0 || (len(miss) == 1 && miss[0] == "RangeType_Invalid"), "C03-X", "NewRangeFilterExpr/switch-rangetype", sw.Pos(), fmt.Sprintf("%d range types handled", len(handled)),
		fmt.Sprintf("RangeTypes %v are produced by MySQLRangeColumnExpr.Type() for constructible cut pairs but have no arm (and the switch has no default): the filter is dropped", miss))
}

func c03Bits(s int) string {
	var out []string
	for p := 0; p < 6; p++ {
		if s&(1<<p) != 0 {
			out = append(out, fmt.Sprint(p))
		}
	}
	return "{" + strings.Join(out, ",") + "}"
}

// c03FoldArm folds one case arm of NewRangeFilterExpr into a symbolic filter expression.
func c03FoldArm(c *Ctx, exPk, sqlPk *packages.Package, arm *ast.CaseClause, resultObj, rceObj types.Object, rce *MSym, keySym map[int]*MSym) (*c03Expr, error) {
	exprOf := map[*MSym]*c03Expr{}
	wrap := func(e *c03Expr) MV {
		s := &MSym{Name: e.String()}
		exprOf[s] = e
		return s
	}
	unwrap := func(v MV) *c03Expr {
		if s, ok := v.(*MSym); ok {
			return exprOf[s]
		}
		return nil
	}
	m := &Mini{P: c.P, Info: exPk.TypesInfo}
	m.Call = func(m *Mini, call *ast.CallExpr, fn *types.Func, recv MV, args []MV) ([]MV, bool) {
		if fn == nil {
			return nil, false
		}
		name := fn.Name()
		sig := fn.Type().(*types.Signature)
		switch {
		case name == "NewLiteral" && fn.Pkg() == exPk.Types:
			if b, ok := MBool(args[0]); ok {
				return []MV{wrap(&c03Expr{kind: "lit", val: b})}, true
			}
			return []MV{&MSym{Name: "lit", Fields: map[string]MV{"val": args[0]}}}, true
		case (name == "JoinAnd" || name == "JoinOr") && fn.Pkg() == exPk.Types:
			var acc *c03Expr
			for _, a := range args {
				e := unwrap(a)
				if e == nil {
					if s, ok := a.(*MSym); ok && s.Nil {
						continue
					}
					return nil, false
				}
				if acc == nil {
					acc = e
				} else {
					acc = &c03Expr{kind: map[string]string{"JoinAnd": "and", "JoinOr": "or"}[name], kids: []*c03Expr{acc, e}}
				}
			}
			if acc == nil {
				return []MV{&MSym{Name: "nil", Nil: true}}, true
			}
			return []MV{wrap(acc)}, true
		case name == "NewIsNull":
			return []MV{wrap(&c03Expr{kind: "isnull"})}, true
		case name == "NewIsNotNull":
			return []MV{wrap(&c03Expr{kind: "isnotnull"})}, true
		case name == "NewNot" && fn.Pkg() == exPk.Types:
			if e := unwrap(args[0]); e != nil {
				return []MV{wrap(&c03Expr{kind: "not", kids: []*c03Expr{e}})}, true
			}
		case fn.Pkg() == exPk.Types && sig.Recv() == nil && sig.Results().Len() == 1 && len(args) == 2:
			// comparison constructor: result type *T with T a comparison type
			if pt, ok := sig.Results().At(0).Type().(*types.Pointer); ok {
				if nt, ok := pt.Elem().(*types.Named); ok {
					if lit, ok := args[1].(*MSym); ok && lit.Fields != nil {
						for k, ks := range keySym {
							if lit.Fields["val"] == MV(ks) {
								return []MV{wrap(&c03Expr{kind: "cmp", typ: nt.Obj().Name(), key: k})}, true
							}
						}
					}
				}
			}
		}
		return nil, false
	}
	bind := map[types.Object]MV{resultObj: &MSym{Name: "nil", Nil: true}, rceObj: rce}
	_, returned, panicked, get, err := m.RunBlock(arm.Body, bind)
	if err != nil {
		return nil, err
	}
	if returned || panicked {
		return nil, fmt.Errorf("arm returns or panics")
	}
	v, _ := get(resultObj)
	if s, ok := v.(*MSym); ok && s.Nil {
		return nil, nil
	}
	e := unwrap(v)
	if e == nil {
		return nil, fmt.Errorf("arm result is not an expression built from the known constructors")
	}
	return e, nil
}


// c03ReachedWith walks the CFG like cirFlow.Reached with an additional resolver for flag conditions.
func c03ReachedWith(g *cfg.CFG, from CFGPoint, barrier func(ast.Node) bool, base func(b *cfg.Block, succ int) bool, extra func(cond ast.Expr) (bool, bool)) []ast.Node {
	edge := func(b *cfg.Block, succ int) bool {
		if len(b.Nodes) > 0 && len(b.Succs) == 2 {
			if last, ok := b.Nodes[len(b.Nodes)-1].(ast.Expr); ok {
				if t, decided := extra(last); decided {
					return (succ == 0) == t
				}
			}
		}
		return base(b, succ)
	}
	return ReachableNodes(g, from, barrier, edge)
}
