package main

import (
	"encoding/binary"
	"fmt"
	"go/ast"
	"go/constant"
	"go/token"
	"go/types"
	"os"
	"path/filepath"
	"sort"
	"strings"

	"golang.org/x/tools/go/packages"
	"golang.org/x/tools/go/ssa"
)

// C29 — collation comparison coherent with hashing: weight-table laws (T1–T4) read from the
// collation table and the sorter functions, plus the single-weight-source clause (S1).

type c29Config struct {
	SqlRel     string // "sql"
	Array      string // "collationArray"
	SorterType string // "CollationSorter"
	CollID     string // "CollationID"
	SorterM    string // "Sorter"
	WeightM    string // "WriteWeightString"
	HashFns    []string
	TypesRel   string // "sql/types" ("" = skip S1 compare / T3 gate)
	StringType string // "StringType"
	CompareM   string // "Compare"
	CreateFn   string // "CreateString"
	Floors     map[string]int
}

func init() {
	register(&Property{
		ID:       "C29",
		Patterns: []string{"./sql/types"},
		Explanation: "Table and source clauses of 'collation comparison is coherent with hashing'. Every collation's per-rune weight function (collationArray[c].Sorter) is read as a " +
			"piecewise table: map literal or embedded fixed-width .bin map, range ladder `r >= a && r <= b -> r +/- k | const`, default. Decided: (T1) every `_ci` collation with a sorter " +
			"gives 'a'+k and 'A'+k the same weight for k in 0..25; (T2) every `_bin` collation's weights are injective over the runes it maps, and for the Unicode character sets " +
			"strictly increasing in the code point (surrogates excluded); (T3) every collation entry with ID != 0 either has a sorter or cannot become the collation of a string type: " +
			"types.StringType values are built only in types.CreateString, behind a `collation.Sorter() == nil` test whose true edge only returns an error; (T4) the IsCaseSensitive " +
			"column agrees with the name suffix (_ci false, _cs/_bin true) and case-sensitive collations with a sorter keep 'a' and 'A' apart; (S1) one weight source: StringType.Compare " +
			"calls only the function value returned by CollationID.Sorter() of its own collation, Sorter() returns collationArray[c].Sorter, WriteWeightString calls only " +
			"collationArray[c].Sorter, HashToUint/HashToBytes derive from WriteWeightString. Given S1, 'compare equal' and 'equal weight strings' are computed from the same per-rune numbers.",
		NotCovered: "the part of S1 about string transformations between decoding and weighting (dropped: not exact), totality/transitivity for multi-rune strings, contractions/expansions of real UCA collations, PAD SPACE handling, LIKE, the language-specific exceptions listed per collation",
		Technique:  "constant-table extraction from composite literals, embedded data files and range ladders (go/ast + go/constant) + SSA source tracing of dynamic calls",
		Run: func(c *Ctx) {
			runC29(c, c29Config{SqlRel: "sql", Array: "collationArray", SorterType: "CollationSorter", CollID: "CollationID", SorterM: "Sorter", WeightM: "WriteWeightString",
				HashFns: []string{"HashToUint", "HashToBytes"}, TypesRel: "sql/types", StringType: "StringType", CompareM: "Compare", CreateFn: "CreateString",
				Floors: map[string]int{"T1": 130, "T2": 15, "T3": 280, "T4": 310, "S1": 5}})
		},
		Fixture: func(c *Ctx, fx *Prog) {
			expectFixture(c, fx, "c29: _ci table with one case pair apart, _bin table with a swapped pair, wrong case flag, second weight source",
				[]string{"C29-T1:x_general_ci/e", "C29-T2:x_bin/injective", "C29-T4:x_wrong_cs/flag", "C29-S1:CollationID.WriteWeightString/weight-source"},
				func(fc *Ctx) {
					runC29(fc, c29Config{SqlRel: "testdata/c29/coll", Array: "collationArray", SorterType: "CollationSorter", CollID: "CollationID", SorterM: "Sorter",
						WeightM: "WriteWeightString", Floors: map[string]int{}})
				})
		},
		FixturePkgs: []string{"./testdata/c29/coll"},
	})
}

// c29T1Exceptions: collation/letter -> reason. (language-specific tailorings)
var c29T1Exceptions = map[string]string{}

func init() {
	for _, n := range []string{"utf16_turkish_ci", "utf32_turkish_ci", "utf8mb3_turkish_ci", "utf8mb4_turkish_ci", "utf8mb4_tr_0900_ai_ci"} {
		c29T1Exceptions[n+"/i"] = "Turkish tailoring: the upper case of 'i' is dotted 'İ' (U+0130) and the lower case of 'I' is dotless 'ı' (U+0131); MySQL's Turkish collations keep 'i' and 'I' apart as well"
	}
}

var c29T2Exceptions = map[string]string{}

// ---- table model ---------------------------------------------------------------------------

type c29Range struct {
	lo, hi int64
	delta  int64
	konst  bool // weight = delta (constant) instead of r + delta
}

type c29Table struct {
	m      map[int64]int64
	ranges []c29Range
	def    int64
}

func (t *c29Table) weight(r int64) int64 {
	if w, ok := t.m[r]; ok {
		return w
	}
	for _, g := range t.ranges {
		if r >= g.lo && r <= g.hi {
			if g.konst {
				return g.delta
			}
			return r + g.delta
		}
	}
	return t.def
}

type c29Reader struct {
	c     *Ctx
	cache map[*types.Func]*c29Table
	errs  map[*types.Func]error
	bins  map[string]map[int64]int64
}

func (rd *c29Reader) constInt(info *types.Info, e ast.Expr) (int64, bool) {
	if tv, ok := info.Types[e]; ok && tv.Value != nil {
		if v, ok := constant.Int64Val(constant.ToInt(tv.Value)); ok {
			return v, true
		}
	}
	return 0, false
}

// read turns a sorter function into a table, or explains why its shape is not readable.
func (rd *c29Reader) read(fn *types.Func) (*c29Table, error) {
	if t, ok := rd.cache[fn]; ok {
		return t, rd.errs[fn]
	}
	t, err := rd.read1(fn)
	rd.cache[fn], rd.errs[fn] = t, err
	return t, err
}

func (rd *c29Reader) read1(fn *types.Func) (*c29Table, error) {
	fd := rd.c.P.Decl(fn)
	pk := rd.c.P.PkgOf(fn)
	if fd == nil || fd.Body == nil || pk == nil {
		return nil, fmt.Errorf("no body")
	}
	info := pk.TypesInfo
	if fd.Type.Params == nil || len(fd.Type.Params.List) != 1 || len(fd.Type.Params.List[0].Names) != 1 {
		return nil, fmt.Errorf("sorter must take exactly one rune")
	}
	param := info.Defs[fd.Type.Params.List[0].Names[0]]
	var isParam func(e ast.Expr) bool
	isParam = func(e ast.Expr) bool {
		e = ast.Unparen(e)
		if call, ok := e.(*ast.CallExpr); ok && len(call.Args) == 1 {
			if tv, ok := info.Types[call.Fun]; ok && tv.IsType() { // int32(r)
				return isParam(call.Args[0])
			}
		}
		id, ok := e.(*ast.Ident)
		return ok && info.Uses[id] == param
	}
	t := &c29Table{m: map[int64]int64{}}
	stmts := fd.Body.List
	var okVar, wVar types.Object
	// optional: weight, ok := M[r]
	if len(stmts) > 0 {
		if as, ok := stmts[0].(*ast.AssignStmt); ok && as.Tok == token.DEFINE && len(as.Lhs) == 2 && len(as.Rhs) == 1 {
			ix, ok := as.Rhs[0].(*ast.IndexExpr)
			if !ok || !isParam(ix.Index) {
				return nil, fmt.Errorf("first statement is not `w, ok := M[r]`")
			}
			m, err := rd.mapOf(pk, ix.X)
			if err != nil {
				return nil, err
			}
			t.m = m
			wVar = info.Defs[as.Lhs[0].(*ast.Ident)]
			okVar = info.Defs[as.Lhs[1].(*ast.Ident)]
			stmts = stmts[1:]
		}
	}
	ret := func(list []ast.Stmt) (c29Range, error) {
		if len(list) != 1 {
			return c29Range{}, fmt.Errorf("arm is not a single return")
		}
		rs, ok := list[0].(*ast.ReturnStmt)
		if !ok || len(rs.Results) != 1 {
			return c29Range{}, fmt.Errorf("arm is not a single return")
		}
		e := ast.Unparen(rs.Results[0])
		if v, ok := rd.constInt(info, e); ok {
			return c29Range{delta: v, konst: true}, nil
		}
		if isParam(e) {
			return c29Range{}, nil
		}
		if be, ok := e.(*ast.BinaryExpr); ok && isParam(be.X) && (be.Op == token.ADD || be.Op == token.SUB) {
			if k, ok := rd.constInt(info, be.Y); ok {
				if be.Op == token.SUB {
					k = -k
				}
				return c29Range{delta: k}, nil
			}
		}
		return c29Range{}, fmt.Errorf("return expression %s is not r, r+k, r-k or a constant", types.ExprString(e))
	}
	haveDefault := false
	var walk func(s ast.Stmt) error
	walk = func(s ast.Stmt) error {
		switch x := s.(type) {
		case *ast.IfStmt:
			if x.Init != nil {
				return fmt.Errorf("if with init")
			}
			cond := ast.Unparen(x.Cond)
			if id, ok := cond.(*ast.Ident); ok && okVar != nil && info.Uses[id] == okVar {
				// if ok { return weight }
				if len(x.Body.List) != 1 {
					return fmt.Errorf("ok arm is not `return weight`")
				}
				rs, isRet := x.Body.List[0].(*ast.ReturnStmt)
				if !isRet || len(rs.Results) != 1 {
					return fmt.Errorf("ok arm is not `return weight`")
				}
				if id2, ok := ast.Unparen(rs.Results[0]).(*ast.Ident); !ok || info.Uses[id2] != wVar {
					return fmt.Errorf("ok arm returns something other than the looked-up weight")
				}
			} else {
				be, ok := cond.(*ast.BinaryExpr)
				if !ok || be.Op != token.LAND {
					return fmt.Errorf("condition %s is not `r >= a && r <= b`", types.ExprString(cond))
				}
				l, ok1 := ast.Unparen(be.X).(*ast.BinaryExpr)
				h, ok2 := ast.Unparen(be.Y).(*ast.BinaryExpr)
				if !ok1 || !ok2 || l.Op != token.GEQ || h.Op != token.LEQ || !isParam(l.X) || !isParam(h.X) {
					return fmt.Errorf("condition %s is not `r >= a && r <= b`", types.ExprString(cond))
				}
				lo, okA := rd.constInt(info, l.Y)
				hi, okB := rd.constInt(info, h.Y)
				if !okA || !okB {
					return fmt.Errorf("range bounds are not constants")
				}
				g, err := ret(x.Body.List)
				if err != nil {
					return err
				}
				g.lo, g.hi = lo, hi
				t.ranges = append(t.ranges, g)
			}
			switch e := x.Else.(type) {
			case nil:
				return nil
			case *ast.IfStmt:
				return walk(e)
			case *ast.BlockStmt:
				g, err := ret(e.List)
				if err != nil {
					return err
				}
				if !g.konst {
					return fmt.Errorf("default arm is not a constant")
				}
				t.def, haveDefault = g.delta, true
				return nil
			}
			return fmt.Errorf("unsupported else")
		case *ast.ReturnStmt:
			g, err := ret([]ast.Stmt{x})
			if err != nil {
				return err
			}
			if g.konst {
				t.def, haveDefault = g.delta, true
			} else {
				// unconditional `return r ± k`: one range over everything
				g.lo, g.hi = -1<<40, 1<<40
				t.ranges = append(t.ranges, g)
				haveDefault = true
			}
			return nil
		}
		return fmt.Errorf("unsupported statement %T", s)
	}
	for _, s := range stmts {
		if err := walk(s); err != nil {
			return nil, fmt.Errorf("%s: %v", rd.c.P.Rel(s.Pos()), err)
		}
	}
	if !haveDefault {
		return nil, fmt.Errorf("no default weight")
	}
	return t, nil
}

// mapOf resolves M in `M[r]`: a package-level map variable with a literal initializer, or a
// zero-argument function that returns a map variable filled by loadWeightsMap from an embedded .bin.
func (rd *c29Reader) mapOf(pk *packages.Package, e ast.Expr) (map[int64]int64, error) {
	info := pk.TypesInfo
	switch x := ast.Unparen(e).(type) {
	case *ast.Ident:
		v, ok := info.Uses[x].(*types.Var)
		if !ok {
			return nil, fmt.Errorf("%s is not a variable", x.Name)
		}
		spec := c29VarSpec(rd.c.P, v)
		if spec == nil || len(spec.Values) != 1 {
			return nil, fmt.Errorf("map variable %s has no literal initializer", x.Name)
		}
		cl, ok := spec.Values[0].(*ast.CompositeLit)
		if !ok {
			return nil, fmt.Errorf("map variable %s is not initialised by a literal", x.Name)
		}
		vpk := rd.c.P.PkgOf(v)
		out := make(map[int64]int64, len(cl.Elts))
		for _, el := range cl.Elts {
			kv, ok := el.(*ast.KeyValueExpr)
			if !ok {
				return nil, fmt.Errorf("map literal element without key")
			}
			k, ok1 := rd.constInt(vpk.TypesInfo, kv.Key)
			w, ok2 := rd.constInt(vpk.TypesInfo, kv.Value)
			if !ok1 || !ok2 {
				return nil, fmt.Errorf("non-constant map literal entry in %s", x.Name)
			}
			if _, dup := out[k]; dup {
				return nil, fmt.Errorf("duplicate key %d in %s", k, x.Name)
			}
			out[k] = w
		}
		return out, nil
	case *ast.CallExpr:
		fn := Callee(info, x)
		if fn == nil || len(x.Args) != 0 {
			return nil, fmt.Errorf("map source is not a zero-argument function")
		}
		return rd.binMap(fn)
	}
	return nil, fmt.Errorf("unsupported map source %s", types.ExprString(e))
}

func c29VarSpec(p *Prog, v *types.Var) *ast.ValueSpec {
	pk := p.PkgOf(v)
	if pk == nil {
		return nil
	}
	for _, f := range pk.Syntax {
		if f.Pos() > v.Pos() || v.Pos() > f.End() {
			continue
		}
		for _, d := range f.Decls {
			gd, ok := d.(*ast.GenDecl)
			if !ok || gd.Tok != token.VAR {
				continue
			}
			for _, s := range gd.Specs {
				vs := s.(*ast.ValueSpec)
				for _, n := range vs.Names {
					if pk.TypesInfo.Defs[n] == v {
						return vs
					}
				}
			}
		}
	}
	return nil
}

func c29VarDoc(p *Prog, v *types.Var) string {
	pk := p.PkgOf(v)
	if pk == nil {
		return ""
	}
	for _, f := range pk.Syntax {
		if f.Pos() > v.Pos() || v.Pos() > f.End() {
			continue
		}
		for _, d := range f.Decls {
			gd, ok := d.(*ast.GenDecl)
			if !ok || gd.Tok != token.VAR {
				continue
			}
			for _, s := range gd.Specs {
				vs := s.(*ast.ValueSpec)
				for _, n := range vs.Names {
					if pk.TypesInfo.Defs[n] == v {
						doc := ""
						if gd.Doc != nil {
							doc += gd.Doc.Text()
							for _, cm := range gd.Doc.List {
								doc += "\n" + cm.Text
							}
						}
						if vs.Doc != nil {
							for _, cm := range vs.Doc.List {
								doc += "\n" + cm.Text
							}
						}
						return doc
					}
				}
			}
		}
	}
	return ""
}

// binMap follows `func X() map[rune]int32 { once.Do(func() { loadWeightsMap(X_map, X_bin) }); return X_map }`
// to the file named by X_bin's //go:embed directive and decodes it with the loader's framing
// (8-byte records: big-endian uint32 rune, big-endian uint32 weight), which is verified on the loader.
func (rd *c29Reader) binMap(fn *types.Func) (map[int64]int64, error) {
	fd := rd.c.P.Decl(fn)
	pk := rd.c.P.PkgOf(fn)
	if fd == nil || pk == nil {
		return nil, fmt.Errorf("weights function %s has no body", fn.Name())
	}
	info := pk.TypesInfo
	var binVar, mapVar *types.Var
	var loader *types.Func
	ast.Inspect(fd.Body, func(n ast.Node) bool {
		call, ok := n.(*ast.CallExpr)
		if !ok || len(call.Args) != 2 {
			return true
		}
		f := Callee(info, call)
		if f == nil || f.Pkg() != pk.Types {
			return true
		}
		a0, ok0 := ast.Unparen(call.Args[0]).(*ast.Ident)
		a1, ok1 := ast.Unparen(call.Args[1]).(*ast.Ident)
		if ok0 && ok1 {
			m, _ := info.Uses[a0].(*types.Var)
			b, _ := info.Uses[a1].(*types.Var)
			if m != nil && b != nil {
				mapVar, binVar, loader = m, b, f
			}
		}
		return true
	})
	if binVar == nil {
		return nil, fmt.Errorf("%s: no loader call (map, bin) found", fn.Name())
	}
	// the function must return the same map variable
	returnsMap := false
	for _, s := range fd.Body.List {
		if rs, ok := s.(*ast.ReturnStmt); ok && len(rs.Results) == 1 {
			if id, ok := ast.Unparen(rs.Results[0]).(*ast.Ident); ok && info.Uses[id] == mapVar {
				returnsMap = true
			}
		}
	}
	if !returnsMap {
		return nil, fmt.Errorf("%s does not return the map it loads", fn.Name())
	}
	if err := rd.checkLoader(loader); err != nil {
		return nil, err
	}
	doc := c29VarDoc(rd.c.P, binVar)
	file := ""
	for _, line := range strings.Split(doc, "\n") {
		line = strings.TrimSpace(line)
		if strings.HasPrefix(line, "//go:embed ") {
			file = strings.TrimSpace(strings.TrimPrefix(line, "//go:embed "))
		}
	}
	if file == "" {
		return nil, fmt.Errorf("%s: no //go:embed directive on %s", fn.Name(), binVar.Name())
	}
	dir := filepath.Dir(rd.c.P.Fset.Position(binVar.Pos()).Filename)
	path := filepath.Join(dir, file)
	if m, ok := rd.bins[path]; ok {
		return m, nil
	}
	b, err := os.ReadFile(path)
	if err != nil {
		return nil, fmt.Errorf("embedded weights %s not readable: %v", file, err)
	}
	if len(b)%8 != 0 {
		return nil, fmt.Errorf("embedded weights %s: length %d is not a multiple of the 8-byte record", file, len(b))
	}
	m := make(map[int64]int64, len(b)/8)
	for i := 0; i < len(b); i += 8 {
		m[int64(int32(binary.BigEndian.Uint32(b[i:])))] = int64(int32(binary.BigEndian.Uint32(b[i+4:])))
	}
	rd.bins[path] = m
	return m, nil
}

var c29LoaderOK = map[*types.Func]error{}

// checkLoader: the loader steps by 8 and reads two big-endian uint32 at offsets i and i+4.
func (rd *c29Reader) checkLoader(f *types.Func) error {
	if e, ok := c29LoaderOK[f]; ok {
		return e
	}
	fd := rd.c.P.Decl(f)
	pk := rd.c.P.PkgOf(f)
	err := func() error {
		if fd == nil || pk == nil {
			return fmt.Errorf("loader %s has no body", f.Name())
		}
		step8, be, off4 := false, 0, false
		ast.Inspect(fd.Body, func(n ast.Node) bool {
			switch x := n.(type) {
			case *ast.AssignStmt:
				if x.Tok == token.ADD_ASSIGN && len(x.Rhs) == 1 {
					if v, ok := rd.constInt(pk.TypesInfo, x.Rhs[0]); ok && v == 8 {
						step8 = true
					}
				}
			case *ast.CallExpr:
				if fn := Callee(pk.TypesInfo, x); fn != nil && fn.Name() == "Uint32" && fn.Pkg() != nil && fn.Pkg().Path() == "encoding/binary" {
					if sel, ok := x.Fun.(*ast.SelectorExpr); ok {
						if s2, ok := sel.X.(*ast.SelectorExpr); ok && s2.Sel.Name == "BigEndian" {
							be++
						}
					}
				}
			case *ast.BinaryExpr:
				if x.Op == token.ADD {
					if v, ok := rd.constInt(pk.TypesInfo, x.Y); ok && v == 4 {
						off4 = true
					}
				}
			}
			return true
		})
		if !step8 || be != 2 || !off4 {
			return fmt.Errorf("loader %s does not have the fixed-width framing (8-byte records of two big-endian uint32): embedded tables not decoded", f.Name())
		}
		return nil
	}()
	c29LoaderOK[f] = err
	return err
}

// ---- the collation table -------------------------------------------------------------------

type c29Entry struct {
	idx     int
	id      int64
	name    string
	cs      bool
	sorter  *types.Func
	hasSort bool
	pos     token.Pos
}

func c29ReadArray(c *Ctx, cfg c29Config) ([]c29Entry, error) {
	pk := c.P.Pkg(cfg.SqlRel)
	if pk == nil {
		return nil, fmt.Errorf("package %s not loaded", cfg.SqlRel)
	}
	v, _ := pk.Types.Scope().Lookup(cfg.Array).(*types.Var)
	if v == nil {
		return nil, fmt.Errorf("%s not found", cfg.Array)
	}
	spec := c29VarSpec(c.P, v)
	if spec == nil || len(spec.Values) != 1 {
		return nil, fmt.Errorf("%s has no literal initializer", cfg.Array)
	}
	cl, ok := spec.Values[0].(*ast.CompositeLit)
	if !ok {
		return nil, fmt.Errorf("%s is not a composite literal", cfg.Array)
	}
	var elemT types.Type
	switch u := v.Type().Underlying().(type) {
	case *types.Array:
		elemT = u.Elem()
	case *types.Slice:
		elemT = u.Elem()
	default:
		return nil, fmt.Errorf("%s is not an array", cfg.Array)
	}
	st, ok := elemT.Underlying().(*types.Struct)
	if !ok {
		return nil, fmt.Errorf("element type is not a struct")
	}
	fidx := map[string]int{}
	for i := 0; i < st.NumFields(); i++ {
		fidx[st.Field(i).Name()] = i
	}
	for _, need := range []string{"ID", "Name", "IsCaseSensitive", "Sorter"} {
		if _, ok := fidx[need]; !ok {
			return nil, fmt.Errorf("struct field %s not found", need)
		}
	}
	info := pk.TypesInfo
	var out []c29Entry
	next := 0
	for _, el := range cl.Elts {
		idx := next
		if kv, ok := el.(*ast.KeyValueExpr); ok {
			if tv, ok := info.Types[kv.Key]; ok && tv.Value != nil {
				if i, ok := constant.Int64Val(constant.ToInt(tv.Value)); ok {
					idx = int(i)
				}
			}
			el = kv.Value
		}
		next = idx + 1
		ecl, ok := el.(*ast.CompositeLit)
		if !ok {
			return nil, fmt.Errorf("entry %d is not a struct literal", idx)
		}
		fields := map[string]ast.Expr{}
		for i, fe := range ecl.Elts {
			if kv, ok := fe.(*ast.KeyValueExpr); ok {
				fields[kv.Key.(*ast.Ident).Name] = kv.Value
			} else if i < st.NumFields() {
				fields[st.Field(i).Name()] = fe
			}
		}
		e := c29Entry{idx: idx, pos: ecl.Pos()}
		if x := fields["ID"]; x != nil {
			if tv := info.Types[x]; tv.Value != nil {
				e.id, _ = constant.Int64Val(constant.ToInt(tv.Value))
			}
		}
		if x := fields["Name"]; x != nil {
			if tv := info.Types[x]; tv.Value != nil && tv.Value.Kind() == constant.String {
				e.name = constant.StringVal(tv.Value)
			}
		}
		if x := fields["IsCaseSensitive"]; x != nil {
			if tv := info.Types[x]; tv.Value != nil && tv.Value.Kind() == constant.Bool {
				e.cs = constant.BoolVal(tv.Value)
			}
		}
		if x := fields["Sorter"]; x != nil {
			switch s := ast.Unparen(x).(type) {
			case *ast.Ident:
				if f, ok := info.Uses[s].(*types.Func); ok {
					e.sorter, e.hasSort = f, true
				} else if _, isNil := info.Uses[s].(*types.Nil); !isNil {
					return nil, fmt.Errorf("entry %d: Sorter is neither nil nor a function", idx)
				}
			case *ast.SelectorExpr:
				if f, ok := info.Uses[s.Sel].(*types.Func); ok {
					e.sorter, e.hasSort = f, true
				} else {
					return nil, fmt.Errorf("entry %d: Sorter is not a function", idx)
				}
			default:
				return nil, fmt.Errorf("entry %d: unsupported Sorter expression", idx)
			}
		}
		out = append(out, e)
	}
	return out, nil
}

var c29UnicodeCharsets = []string{"utf8mb4_", "utf8mb3_", "utf8_", "utf16_", "utf16le_", "utf32_", "ucs2_"}

func runC29(c *Ctx, cfg c29Config) {
	fl := func(k string) int { return cfg.Floors[k] }
	c.Rule("C29-T1", "every _ci collation with a sorter: weight('a'+k) == weight('A'+k) for k in 0..25 (one instance per collation; a violation names the letter)", fl("T1"))
	c.Rule("C29-T2", "every _bin collation with a sorter: weights injective over the mapped runes; Unicode character sets also strictly increasing in the code point outside the surrogate block", fl("T2"))
	c.Rule("C29-T3", "every collation entry with ID != 0 has a sorter or is unusable: StringType literals are built only in CreateString behind an error-only `Sorter() == nil` test", fl("T3"))
	c.Rule("C29-T4", "IsCaseSensitive agrees with the name suffix (_ci false; _cs, _bin true) and case-sensitive collations with a sorter keep 'a' and 'A' apart", fl("T4"))
	c.Rule("C29-S1", "one weight source: StringType.Compare calls only CollationID.Sorter()'s result, Sorter() returns collationArray[c].Sorter, WriteWeightString calls only collationArray[c].Sorter, the hash functions derive from WriteWeightString", fl("S1"))

	entries, err := c29ReadArray(c, cfg)
	if err != nil {
		c.Undecided("C29-T3", cfg.Array, 0, "collation table not readable: "+err.Error())
		return
	}
	rd := &c29Reader{c: c, cache: map[*types.Func]*c29Table{}, errs: map[*types.Func]error{}, bins: map[string]map[int64]int64{}}
	gateOK := c29Gate(c, cfg)
	nSort, nReal := 0, 0
	for _, e := range entries {
		if e.id == 0 {
			continue
		}
		nReal++
		key := e.name
		if key == "" {
			key = fmt.Sprintf("id%d", e.id)
		}
		// T3
		if e.hasSort {
			c.Ok("C29-T3", key, e.pos, "has a sorter")
		} else if gateOK {
			c.Ok("C29-T3", key, e.pos, "no sorter: cannot become the collation of a string type (CreateString gate)")
		} else {
			c.Bad("C29-T3", key, e.pos, fmt.Sprintf("collation %s (id %d) has no Sorter and string types can be built without the nil-sorter test: comparing such a column calls a nil function", key, e.id))
		}
		// T4 flag vs suffix
		wantCS, known := false, false
		switch {
		case strings.HasSuffix(e.name, "_ci"):
			wantCS, known = false, true
		case strings.HasSuffix(e.name, "_cs"), strings.HasSuffix(e.name, "_bin"), e.name == "binary":
			wantCS, known = true, true
		}
		if known {
			c.Check(e.cs == wantCS, "C29-T4", key+"/flag", e.pos, "", fmt.Sprintf("collation %s declares IsCaseSensitive=%v, its name says %v: SHOW COLLATION and case-folding decisions that read the flag disagree with the weight table", key, e.cs, wantCS))
		}
		if !e.hasSort {
			continue
		}
		nSort++
		tab, err := rd.read(e.sorter)
		if err != nil {
			c.Undecided("C29-T1", key, e.sorter.Pos(), fmt.Sprintf("sorter %s is not readable as a table: %v", e.sorter.Name(), err))
			continue
		}
		if strings.HasSuffix(e.name, "_ci") {
			var bad []string
			for k := int64(0); k < 26; k++ {
				lo, up := tab.weight('a'+k), tab.weight('A'+k)
				if lo != up {
					bad = append(bad, string(rune('a'+k)))
				}
			}
			// report per letter so that a known tailoring does not hide another letter
			if len(bad) == 0 {
				c.Ok("C29-T1", key, e.sorter.Pos(), "26 case pairs share their weight")
			}
			for _, l := range bad {
				k2 := key + "/" + l
				r := rune(l[0])
				if why, ok := c29T1Exceptions[k2]; ok && !c.fixtureMode {
					c.Exc("C29-T1", k2, e.sorter.Pos(), why)
				} else {
					c.Bad("C29-T1", k2, e.sorter.Pos(), fmt.Sprintf("case-insensitive collation %s (sorter %s): weight('%c') = %d but weight('%c') = %d: strings differing only in the case of this letter do not compare equal and hash differently", key, e.sorter.Name(), r, tab.weight(int64(r)), r-32, tab.weight(int64(r-32))))
				}
			}
		}
		if known && wantCS && e.name != "binary" {
			same := 0
			for k := int64(0); k < 26; k++ {
				if tab.weight('a'+k) == tab.weight('A'+k) && tab.weight('a'+k) != tab.def {
					same++
				}
			}
			c.Check(same == 0, "C29-T4", key+"/case-pairs", e.sorter.Pos(), "", fmt.Sprintf("case-sensitive collation %s gives %d of the 26 ASCII case pairs the same weight", key, same))
		}
		if strings.HasSuffix(e.name, "_bin") {
			c29Bin(c, key, e, tab)
		}
	}
	c.Notef("collation table: %d slots, %d entries with ID != 0, %d with a sorter, %d distinct sorter functions read, %d embedded .bin tables decoded", len(entries), nReal, nSort, len(rd.cache), len(rd.bins))
	c29S1(c, cfg)
}

func c29Bin(c *Ctx, key string, e c29Entry, tab *c29Table) {
	// injective over mapped runes
	seen := map[int64]int64{}
	dup := ""
	add := func(r, w int64) {
		if w == tab.def {
			return
		}
		if o, ok := seen[w]; ok && o != r && dup == "" {
			dup = fmt.Sprintf("U+%04X and U+%04X both have weight %d", o, r, w)
		}
		seen[w] = r
	}
	unicode := false
	for _, p := range c29UnicodeCharsets {
		if strings.HasPrefix(e.name, p) {
			unicode = true
		}
	}
	mono := ""
	if unicode {
		prev, prevR := int64(-1), int64(-1)
		for r := int64(0); r <= 0x10FFFF; r++ {
			if r >= 0xD800 && r <= 0xDFFF {
				continue
			}
			w := tab.weight(r)
			if w == tab.def {
				continue
			}
			if w <= prev && mono == "" {
				mono = fmt.Sprintf("weight(U+%04X) = %d is not above weight(U+%04X) = %d", r, w, prevR, prev)
			}
			if w == prev && dup == "" {
				dup = fmt.Sprintf("U+%04X and U+%04X both have weight %d", prevR, r, w)
			}
			prev, prevR = w, r
		}
	} else {
		for r, w := range tab.m {
			add(r, w)
		}
		for _, g := range tab.ranges {
			if g.hi-g.lo > 1<<21 {
				continue
			}
			for r := g.lo; r <= g.hi; r++ {
				if _, inMap := tab.m[r]; !inMap {
					add(r, tab.weight(r))
				}
			}
		}
	}
	if why, ok := c29T2Exceptions[key+"/injective"]; ok && dup != "" && !c.fixtureMode {
		c.Exc("C29-T2", key+"/injective", e.sorter.Pos(), why)
	} else {
		c.Check(dup == "", "C29-T2", key+"/injective", e.sorter.Pos(), "", fmt.Sprintf("binary collation %s equates two different characters: %s", key, dup))
	}
	if unicode {
		if why, ok := c29T2Exceptions[key+"/monotone"]; ok && mono != "" && !c.fixtureMode {
			c.Exc("C29-T2", key+"/monotone", e.sorter.Pos(), why)
		} else {
			c.Check(mono == "", "C29-T2", key+"/monotone", e.sorter.Pos(), "", fmt.Sprintf("binary collation %s does not order by code point: %s", key, mono))
		}
	}
}

// c29Gate: every composite literal of the string type lies in CreateFn, and CreateFn tests
// collation.Sorter() == nil with a true edge that only returns an error, dominating the literal.
func c29Gate(c *Ctx, cfg c29Config) bool {
	if cfg.TypesRel == "" {
		return true
	}
	tp := c.P.Pkg(cfg.TypesRel)
	sp := c.P.Pkg(cfg.SqlRel)
	if tp == nil || sp == nil {
		c.Undecided("C29-T3", "gate", 0, "types package not loaded")
		return false
	}
	stn, _ := tp.Types.Scope().Lookup(cfg.StringType).(*types.TypeName)
	create := LookupFunc(tp, cfg.CreateFn)
	sorterM := LookupFunc(sp, cfg.CollID+"."+cfg.SorterM)
	if stn == nil || create == nil || sorterM == nil {
		c.Undecided("C29-T3", "gate", 0, "StringType / CreateString / CollationID.Sorter not found")
		return false
	}
	ok := true
	// who may construct
	for _, mp := range c.P.Module {
		for _, f := range mp.Syntax {
			for _, d := range f.Decls {
				fd, isFn := d.(*ast.FuncDecl)
				ast.Inspect(d, func(n ast.Node) bool {
					cl, isCl := n.(*ast.CompositeLit)
					if !isCl || len(cl.Elts) == 0 {
						return true
					}
					if tv, has := mp.TypesInfo.Types[cl]; !has || !types.Identical(tv.Type, stn.Type()) {
						return true
					}
					where := "package level"
					if isFn {
						where = DeclName(fd)
					}
					if !isFn || mp.TypesInfo.Defs[fd.Name] != create {
						c.Bad("C29-T3", "gate/constructor:"+where, cl.Pos(), fmt.Sprintf("a %s value is built in %s, outside %s: its collation is not tested for a missing sorter", cfg.StringType, where, cfg.CreateFn))
						ok = false
					}
					return true
				})
			}
		}
	}
	// the gate in CreateFn
	sf := c.P.SSAFunc(create)
	gated := false
	if sf != nil {
		for _, b := range sf.Blocks {
			if len(b.Instrs) == 0 {
				continue
			}
			iff, isIf := b.Instrs[len(b.Instrs)-1].(*ssa.If)
			if !isIf {
				continue
			}
			bo, isBo := iff.Cond.(*ssa.BinOp)
			if !isBo || (bo.Op != token.EQL && bo.Op != token.NEQ) {
				continue
			}
			var x ssa.Value
			if ngIsNilConst(bo.Y) {
				x = bo.X
			} else if ngIsNilConst(bo.X) {
				x = bo.Y
			}
			call, isCall := x.(*ssa.Call)
			if !isCall || ngStaticCallee(&call.Call) != sorterM {
				continue
			}
			nilEdge := 0
			if bo.Op == token.NEQ {
				nilEdge = 1
			}
			if !ivOnlyFails(b.Succs[nilEdge], map[*ssa.BasicBlock]bool{}) {
				continue
			}
			// the other edge must dominate every construction of the string type
			other := b.Succs[1-nilEdge]
			all := true
			found := false
			for _, b2 := range sf.Blocks {
				for _, in := range b2.Instrs {
					if a, isAlloc := in.(*ssa.Alloc); isAlloc {
						if pt, isPtr := a.Type().Underlying().(*types.Pointer); isPtr && types.Identical(pt.Elem(), stn.Type()) {
							found = true
							if !(other.Dominates(b2) && len(other.Preds) == 1) {
								all = false
							}
						}
					}
				}
			}
			if all && found {
				gated = true
			}
		}
	}
	c.Check(gated, "C29-T3", "gate/"+cfg.CreateFn, create.Pos(), "Sorter() == nil is rejected with an error before the string type is built",
		fmt.Sprintf("%s does not reject a collation whose Sorter() is nil before it builds the %s: a column with an unimplemented collation would call a nil weight function", cfg.CreateFn, cfg.StringType))
	return ok && gated
}

// c29S1: the single-weight-source clause.
func c29S1(c *Ctx, cfg c29Config) {
	sp := c.P.Pkg(cfg.SqlRel)
	if sp == nil {
		return
	}
	arr, _ := sp.Types.Scope().Lookup(cfg.Array).(*types.Var)
	stn, _ := sp.Types.Scope().Lookup(cfg.SorterType).(*types.TypeName)
	sorterM := LookupFunc(sp, cfg.CollID+"."+cfg.SorterM)
	weightM := LookupFunc(sp, cfg.CollID+"."+cfg.WeightM)
	if arr == nil || stn == nil || sorterM == nil || weightM == nil {
		c.Undecided("C29-S1", "anchors", 0, "collationArray / CollationSorter / Sorter / WriteWeightString not found")
		return
	}
	// fromArray: v is a load of <array>[i].Sorter
	fromArray := func(v ssa.Value) bool {
		ld, ok := v.(*ssa.UnOp)
		if !ok || ld.Op != token.MUL {
			return false
		}
		fa, ok := ld.X.(*ssa.FieldAddr)
		if !ok {
			return false
		}
		pt, ok := fa.X.Type().Underlying().(*types.Pointer)
		if !ok {
			return false
		}
		st, ok := pt.Elem().Underlying().(*types.Struct)
		if !ok || st.Field(fa.Field).Name() != "Sorter" {
			return false
		}
		ia, ok := fa.X.(*ssa.IndexAddr)
		if !ok {
			return false
		}
		g, ok := ia.X.(*ssa.Global)
		return ok && g.Object() == arr
	}
	// dynamic calls of a CollationSorter-typed value in fn
	dynCalls := func(sf *ssa.Function) []*ssa.Call {
		var out []*ssa.Call
		var fns []*ssa.Function
		fns = append(fns, sf)
		fns = append(fns, sf.AnonFuncs...)
		for _, f := range fns {
			for _, b := range f.Blocks {
				for _, in := range b.Instrs {
					call, ok := in.(*ssa.Call)
					if !ok || call.Call.IsInvoke() || call.Call.StaticCallee() != nil {
						continue
					}
					if sig, ok := call.Call.Value.Type().Underlying().(*types.Signature); ok && sig.Params().Len() == 1 && sig.Results().Len() == 1 {
						if types.Identical(call.Call.Value.Type(), stn.Type()) || types.Identical(call.Call.Value.Type().Underlying(), stn.Type().Underlying()) {
							out = append(out, call)
						}
					}
				}
			}
		}
		return out
	}
	// (ii) Sorter() returns the array field
	if sf := c.P.SSAFunc(sorterM); sf != nil {
		ok := true
		n := 0
		for _, b := range sf.Blocks {
			if ret, isRet := b.Instrs[len(b.Instrs)-1].(*ssa.Return); isRet && len(ret.Results) == 1 {
				n++
				if !fromArray(ret.Results[0]) {
					ok = false
				}
			}
		}
		c.Check(ok && n > 0, "C29-S1", cfg.CollID+"."+cfg.SorterM+"/returns-table-entry", sorterM.Pos(), "", "CollationID.Sorter() does not return collationArray[c].Sorter: comparison and hashing may take their weights from different functions")
	}
	// (iii) WriteWeightString
	if sf := c.P.SSAFunc(weightM); sf != nil {
		calls := dynCalls(sf)
		ok := len(calls) > 0
		for _, call := range calls {
			if !fromArray(call.Call.Value) {
				ok = false
			}
		}
		c.Check(ok, "C29-S1", cfg.CollID+"."+cfg.WeightM+"/weight-source", weightM.Pos(), fmt.Sprintf("%d weight call(s), all through collationArray[c].Sorter", len(calls)),
			"CollationID.WriteWeightString obtains a rune weight from something other than collationArray[c].Sorter (or calls no weight function at all): equal-comparing strings can get different weight strings/hashes")
	}
	// (iv) hash functions derive from WriteWeightString
	for _, hn := range cfg.HashFns {
		hf := LookupFunc(sp, cfg.CollID+"."+hn)
		sf := c.P.SSAFunc(hf)
		if hf == nil || sf == nil {
			c.Undecided("C29-S1", cfg.CollID+"."+hn, 0, "hash function not found")
			continue
		}
		reach := false
		seen := map[*ssa.Function]bool{}
		var visit func(f *ssa.Function, d int)
		visit = func(f *ssa.Function, d int) {
			if f == nil || seen[f] || d > 3 {
				return
			}
			seen[f] = true
			for _, b := range f.Blocks {
				for _, in := range b.Instrs {
					if call, ok := in.(*ssa.Call); ok {
						if ngStaticCallee(&call.Call) == weightM {
							reach = true
						}
						if cal := call.Call.StaticCallee(); cal != nil && cal.Pkg == f.Pkg {
							visit(cal, d+1)
						}
					}
				}
			}
		}
		visit(sf, 0)
		c.Check(reach && len(dynCalls(sf)) == 0, "C29-S1", cfg.CollID+"."+hn+"/derives-from-weight-string", hf.Pos(), "", "CollationID."+hn+" does not derive its hash from WriteWeightString (or weighs runes itself)")
	}
	// (i) StringType.Compare
	if cfg.TypesRel != "" {
		tp := c.P.Pkg(cfg.TypesRel)
		cmp := LookupFunc(tp, cfg.StringType+"."+cfg.CompareM)
		sf := c.P.SSAFunc(cmp)
		if cmp == nil || sf == nil {
			c.Undecided("C29-S1", cfg.StringType+"."+cfg.CompareM, 0, "StringType.Compare not found")
			return
		}
		calls := dynCalls(sf)
		ok := len(calls) >= 2
		why := ""
		for _, call := range calls {
			src, isCall := call.Call.Value.(*ssa.Call)
			if !isCall || ngStaticCallee(&src.Call) != sorterM {
				ok = false
				why = "a weight call whose function value is not the result of CollationID.Sorter()"
				continue
			}
			// the collation must be the receiver's own
			recvOK := false
			if len(src.Call.Args) == 1 {
				switch x := src.Call.Args[0].(type) {
				case *ssa.Field:
					recvOK = x.X == ssa.Value(sf.Params[0])
				case *ssa.UnOp:
					if fa, isFa := x.X.(*ssa.FieldAddr); isFa {
						recvOK = ngTrack(sf.Params[0]) == fa.X || fa.X == ssa.Value(sf.Params[0])
					}
				}
			}
			if !recvOK {
				ok = false
				why = "the sorter is taken from a collation other than the receiver's"
			}
		}
		c.Check(ok, "C29-S1", cfg.StringType+"."+cfg.CompareM+"/weight-source", cmp.Pos(), fmt.Sprintf("%d weight calls, all through t.collation.Sorter()", len(calls)),
			"StringType.Compare does not take both rune weights from its own collation's Sorter() ("+why+"): comparison and weight strings can disagree")
	}
	_ = sort.Strings
}
