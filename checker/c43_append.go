package main

import (
	"fmt"
	"go/ast"
	"go/types"

	"golang.org/x/tools/go/packages"
)

// C43-S2 (accumulators are not crossed): a reader that sorts the objects it enumerates into
// several accumulators (one slice per class: before/after x insert/update/delete ...) grows each
// with `acc = append(acc, x)`. An assignment `a = append(b, x)` between two *different*
// accumulators of the same function - both grown by self-append elsewhere in it - drops what a
// held, lists b's elements under a's class and lets the two share a backing array: objects are
// listed twice or not at all.
//
// Decided per function of the given packages: for every assignment `a = append(b, ...)` with a, b
// local slice variables, a != b, b self-appended somewhere in the function, and a an accumulator as
// well - self-appended, or a sibling of b (same scope, same type, only ever assigned from append
// calls) - report.
// Self-appends are counted as the instances of the rule.

func ruleAccumulatorsNotCrossed(c *Ctx, rule string, rels []string) {
	c.P.EachFuncDecl(rels, func(pk *packages.Package, fd *ast.FuncDecl) {
		if fd.Body == nil {
			return
		}
		info := pk.TypesInfo
		type app struct {
			dst, src types.Object
			as       *ast.AssignStmt
		}
		var apps []app
		self := map[types.Object]bool{}
		ast.Inspect(fd.Body, func(n ast.Node) bool {
			as, ok := n.(*ast.AssignStmt)
			if !ok || len(as.Lhs) != 1 || len(as.Rhs) != 1 {
				return true
			}
			call, ok := ast.Unparen(as.Rhs[0]).(*ast.CallExpr)
			if !ok || len(call.Args) < 1 {
				return true
			}
			id, ok := ast.Unparen(call.Fun).(*ast.Ident)
			if !ok || id.Name != "append" {
				return true
			}
			if _, isBuiltin := info.Uses[id].(*types.Builtin); !isBuiltin {
				return true
			}
			l, r := identOf(as.Lhs[0]), identOf(call.Args[0])
			if l == nil || r == nil {
				return true
			}
			lo := info.Uses[l]
			if lo == nil {
				lo = info.Defs[l]
			}
			ro := info.Uses[r]
			lv, _ := lo.(*types.Var)
			rv, _ := ro.(*types.Var)
			if lv == nil || rv == nil || lv.IsField() || rv.IsField() || lv.Pkg() == nil || lv.Parent() == lv.Pkg().Scope() {
				return true
			}
			apps = append(apps, app{lv, rv, as})
			if lv == rv {
				self[lv] = true
			}
			return true
		})
		// a destination counts as an accumulator too when it is a sibling of the source: declared in the
		// same scope with the same type, and only ever assigned from append calls
		onlyAppended := map[types.Object]bool{}
		for _, a := range apps {
			onlyAppended[a.dst] = true
		}
		ast.Inspect(fd.Body, func(n ast.Node) bool {
			as, ok := n.(*ast.AssignStmt)
			if !ok {
				return true
			}
			for i, l := range as.Lhs {
				id := identOf(l)
				if id == nil {
					continue
				}
				o := info.Uses[id]
				if o == nil {
					o = info.Defs[id]
				}
				if o == nil || !onlyAppended[o] {
					continue
				}
				isAppend := false
				if len(as.Lhs) == len(as.Rhs) {
					if call, ok := ast.Unparen(as.Rhs[i]).(*ast.CallExpr); ok {
						if f, ok := ast.Unparen(call.Fun).(*ast.Ident); ok && f.Name == "append" {
							isAppend = true
						}
					}
				}
				if !isAppend {
					onlyAppended[o] = false
				}
			}
			return true
		})
		sibling := func(d, s types.Object) bool {
			dv, sv := d.(*types.Var), s.(*types.Var)
			return dv.Parent() == sv.Parent() && types.Identical(dv.Type(), sv.Type()) && onlyAppended[d]
		}
		for _, a := range apps {
			if a.dst == a.src {
				continue
			}
			if self[a.src] && (self[a.dst] || sibling(a.dst, a.src)) {
				c.Bad(rule, fmt.Sprintf("%s/%s = append(%s, ...)", DeclName(fd), a.dst.Name(), a.src.Name()), a.as.Pos(),
					fmt.Sprintf("%s: `%s = append(%s, ...)` crosses two accumulators that are each grown by self-append elsewhere in the function: what %s held is dropped, the elements of %s are listed under %s's class, and both share a backing array, so objects are listed twice or not at all",
						DeclName(fd), a.dst.Name(), a.src.Name(), a.dst.Name(), a.src.Name(), a.dst.Name()))
			}
		}
		n := 0
		for range self {
			n++
		}
		if n >= 2 {
			c.Ok(rule, DeclName(fd)+"/accumulators", fd.Pos(), fmt.Sprintf("%d accumulators, none crossed", n))
		}
	})
}
