package main

import (
	"fmt"
	"go/ast"
	"go/constant"
	"go/token"
	"go/types"
)

// C44-S2 (a variable is set only at a scope it has): the setter of a system variable refuses a
// GLOBAL set of a session-only variable and a SESSION set of a global-only variable before it
// stores anything (the planner rejects only the explicitly qualified forms). Read as a table: the
// leading `if cond { return ..., <error> }` statements of the setter are folded for every pair
// (global flag, scope type); on (true, Session-only) and on (false, Global-only) one of them must
// be taken for certain. Conditions are folded over the bool parameter, comparisons of the scope
// type with constants of its enum, and one level of helper methods whose body is a single
// `return <such a condition>`; anything else is unknown and guarantees nothing.

func runC44SetterGuards(c *Ctx, rel, setter, scopeConstSession, scopeConstGlobal string, floor int) {
	const rule = "C44-S2"
	c.Rule(rule, "the system-variable setter refuses, before storing, a GLOBAL set of a session-only variable and a SESSION set of a global-only variable (leading error returns folded over the global flag and the scope type)", floor)
	pk, fd := c.P.FuncDecl(rel, setter)
	if pk == nil || fd == nil || fd.Body == nil {
		c.Undecided(rule, setter, 0, "setter not found")
		return
	}
	info := pk.TypesInfo
	sessC, _ := pk.Types.Scope().Lookup(scopeConstSession).(*types.Const)
	globC, _ := pk.Types.Scope().Lookup(scopeConstGlobal).(*types.Const)
	if sessC == nil || globC == nil {
		c.Undecided(rule, setter, fd.Pos(), "scope constants not found")
		return
	}
	var flag types.Object
	for _, f := range fd.Type.Params.List {
		for _, n := range f.Names {
			if o := info.Defs[n]; o != nil && types.Identical(o.Type(), types.Typ[types.Bool]) {
				flag = o
			}
		}
	}
	if flag == nil {
		c.Undecided(rule, setter, fd.Pos(), "no bool parameter")
		return
	}
	type tri int
	const (
		unknown tri = iota
		yes
		no
	)
	not := func(t tri) tri {
		switch t {
		case yes:
			return no
		case no:
			return yes
		}
		return unknown
	}
	var eval func(e ast.Expr, inf *types.Info, global bool, scope constant.Value, depth int) tri
	eval = func(e ast.Expr, inf *types.Info, global bool, scope constant.Value, depth int) tri {
		e = ast.Unparen(e)
		switch x := e.(type) {
		case *ast.Ident:
			if inf.Uses[x] == flag {
				if global {
					return yes
				}
				return no
			}
		case *ast.UnaryExpr:
			if x.Op == token.NOT {
				return not(eval(x.X, inf, global, scope, depth))
			}
		case *ast.BinaryExpr:
			switch x.Op {
			case token.LAND, token.LOR:
				l, r := eval(x.X, inf, global, scope, depth), eval(x.Y, inf, global, scope, depth)
				short := yes
				if x.Op == token.LAND {
					short = no
				}
				if l == short || r == short {
					return short
				}
				if l != unknown && r != unknown {
					return not(short)
				}
				return unknown
			case token.EQL, token.NEQ:
				var cv constant.Value
				var other ast.Expr
				if tv, ok := inf.Types[x.Y]; ok && tv.Value != nil {
					cv, other = tv.Value, x.X
				} else if tv, ok := inf.Types[x.X]; ok && tv.Value != nil {
					cv, other = tv.Value, x.Y
				}
				if cv != nil && other != nil {
					if tv, ok := inf.Types[other]; ok && types.Identical(tv.Type, sessC.Type()) {
						eq := constant.Compare(scope, token.EQL, cv)
						if (x.Op == token.EQL) == eq {
							return yes
						}
						return no
					}
				}
			}
		case *ast.CallExpr:
			if depth >= 2 {
				return unknown
			}
			if fn := Callee(inf, x); fn != nil && len(x.Args) == 0 {
				if d := c.P.Decl(fn); d != nil && d.Body != nil && len(d.Body.List) == 1 {
					if rs, ok := d.Body.List[0].(*ast.ReturnStmt); ok && len(rs.Results) == 1 {
						if dpk := c.P.PkgOf(fn); dpk != nil {
							return eval(rs.Results[0], dpk.TypesInfo, global, scope, depth+1)
						}
					}
				}
			}
		}
		return unknown
	}
	refused := func(global bool, scope constant.Value) bool {
		for _, st := range fd.Body.List {
			ifs, ok := st.(*ast.IfStmt)
			if !ok || ifs.Init != nil {
				return false // the first statement that is not a guard ends the guard prefix
			}
			returnsErr := false
			if len(ifs.Body.List) >= 1 {
				if rs, ok := ifs.Body.List[len(ifs.Body.List)-1].(*ast.ReturnStmt); ok && len(rs.Results) >= 1 {
					if tv, ok := info.Types[rs.Results[len(rs.Results)-1]]; ok && !tv.IsNil() {
						returnsErr = true
					}
				}
			}
			if !returnsErr {
				return false
			}
			if eval(ifs.Cond, info, global, scope, 0) == yes {
				return true
			}
		}
		return false
	}
	for _, cs := range []struct {
		key    string
		global bool
		scope  *types.Const
		what   string
	}{
		{"global-set-of-session-only", true, sessC, "SET GLOBAL of a session-only variable"},
		{"session-set-of-global-only", false, globC, "a session-scope SET of a global-only variable"},
	} {
		key := setter + "/" + cs.key
		if refused(cs.global, cs.scope.Val()) {
			c.Ok(rule, key, fd.Pos(), "refused by a leading guard")
		} else {
			c.Bad(rule, key, fd.Pos(), fmt.Sprintf("%s: no leading guard is taken for certain on %s (flag %v, scope %s): the value is stored at a scope the variable does not have - the issuing session reads its own value while the global value and every other session are unchanged, and no error is raised", setter, cs.what, cs.global, cs.scope.Name()))
		}
	}
}
