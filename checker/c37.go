package main

import (
	"fmt"
	"go/ast"
	"go/constant"
	"go/token"
	"go/types"
	"sort"
	"strings"

	"golang.org/x/tools/go/cfg"
	"golang.org/x/tools/go/packages"
)

// C37 — process list and KILL: begin/end pairing, counter coupling, cancel discipline, guarded-by.

type c37Pair struct {
	Name  string
	Begin []string // full names of the begin functions/methods
	End   []string
	Kind  string // "ctx": begin returns (newCtx, err), end takes newCtx on the same receiver text; "arg": same argument text; "recv": same receiver text
}

type c37Must struct {
	Rel, Fn string // function that must call …
	Callee  string // … this function (full name) on every path (directly or deferred)
}

type c37Anchors struct {
	plRel, plType         string
	procRel, procType     string
	procsField, byPid     string
	running, connected    string
	counterFuncs          map[string]bool // names of the (type-resolved) callees that change a status counter
	sessionID             string          // full name of the method giving the connection id of a context's session
	ctxPid                string          // full name of the method giving the pid of a context's query (identity of the query a call is about)
	pairs                 []c37Pair
	musts                 []c37Must
	q2Exceptions          map[string]string
	floors                map[string]int
	guardedBy             func(c *Ctx) // Q4 (real tree only)
}

func c37Real() c37Anchors {
	sq := modPath + "/sql."
	return c37Anchors{
		plRel: "", plType: "ProcessList", procRel: "sql", procType: "Process", procsField: "procs", byPid: "byQueryPid",
		running: "Threads_running", connected: "Threads_connected",
		counterFuncs: map[string]bool{"IncrementGlobal": true, "SetGlobal": true, "IncrementStatusVariable": true},
		sessionID:    sq + "Session.ID",
		ctxPid:       sq + "Context.Pid",
		pairs: []c37Pair{
			{Name: "BeginQuery/EndQuery", Kind: "ctx", Begin: []string{sq + "ProcessList.BeginQuery", modPath + ".ProcessList.BeginQuery"}, End: []string{sq + "ProcessList.EndQuery", modPath + ".ProcessList.EndQuery"}},
			{Name: "BeginOperation/EndOperation", Kind: "ctx", Begin: []string{sq + "ProcessList.BeginOperation", modPath + ".ProcessList.BeginOperation"}, End: []string{sq + "ProcessList.EndOperation", modPath + ".ProcessList.EndOperation"}},
			{Name: "SessionCommandBegin/SessionCommandEnd", Kind: "arg", Begin: []string{sq + "SessionCommandBegin"}, End: []string{sq + "SessionCommandEnd"}},
			{Name: "QueryStarted/QueryEnded", Kind: "recv", Begin: []string{modPath + "/server.connState.QueryStarted"}, End: []string{modPath + "/server.connState.QueryEnded"}},
		},
		musts: []c37Must{
			{"server", "Handler.NewConnection", modPath + "/server.SessionManager.AddConn"},
			{"server", "Handler.ConnectionClosed", modPath + "/server.SessionManager.RemoveConn"},
			{"server", "SessionManager.AddConn", sq + "ProcessList.AddConnection"},
			{"server", "SessionManager.RemoveConn", sq + "ProcessList.RemoveConnection"},
		},
		q2Exceptions: map[string]string{
			"ProcessList.ConnectionReady/Threads_connected": "replaces the entry AddConnection inserted under the same connection id (authenticated user/database); not a new connection, so no increment",
		},
		floors: map[string]int{"C37-Q1": 18, "C37-Q1b": 4, "C37-Q2": 6, "C37-Q2w": 10, "C37-Q3a": 2, "C37-Q3b": 4, "C37-Q3c": 4, "C37-Q3d": 1, "C37-Q3e": 2, "C37-Q3f": 14, "C37-Q4": 50, "C37-Q4x": 15, "C37-Q4e": 13},
	}
}

func init() {
	register(&Property{
		ID:       "C37",
		Patterns: []string{".", "./server", "./eventscheduler"},
		Explanation: "Decided: (Q1) every call of ProcessList.BeginQuery/BeginOperation, sql.SessionCommandBegin and connState.QueryStarted is followed on every control-flow path on which it succeeded " +
			"(the err != nil edge of its own error result is pruned) by the matching End… on the same object (the context the Begin returned / the same argument / the same receiver), called " +
			"directly or deferred, before the function returns; NewConnection→AddConn→AddConnection and ConnectionClosed→RemoveConn→RemoveConnection are reached on every path (Q1b). " +
			"(Q2) path-sensitive counter balance in every ProcessList method: on each path #increments of Threads_running = #stores of a non-zero QueryPid = #insertions into byQueryPid, and " +
			"#decrements = #stores QueryPid=0 + #deletions from procs of a process whose QueryPid is known non-zero on that path (a deletion with QueryPid untested is a violation: one of the two cases " +
			"is necessarily miscounted); Threads_connected: #increments = #insertions into procs, #decrements = #deletions; (Q2w) the two counters, Process.QueryPid and Process.Kill are written " +
			"only inside ProcessList methods. (Q3a) a path that clears QueryPid also clears Kill and deletes the byQueryPid entry, a path that deletes from procs also deletes from byQueryPid; (Q3b) every " +
			"invocation of a stored cancel function addresses exactly one process: the receiver is procs[k] with k the method's connection-id parameter or the id of the context's own session, never " +
			"inside a loop over procs; (Q3c) every store to Process.Kill is nil or a cancel function created in the same call. " +
			"Identity (the pid of a call's own query is read from the code: Context.Pid() of a parameter, a variable whose only definition is that call, or a never-assigned parameter of QueryPid's type): " +
			"(Q3d) in every method that ends a query while keeping the process (it stores QueryPid = 0), each store to a field of the process, each invocation of its stored cancel and each decrement of " +
			"Threads_running is reachable from the method's entry only through an edge on which `thatProcess.QueryPid == own pid` holds (true edge of ==, false edge of !=, read through &&, || and !): " +
			"a late End of an earlier query must not deregister, cancel or un-count the connection's current query; (Q3e) every delete(byQueryPid, k) has k = own pid, or k = P.QueryPid with P the process " +
			"deleted from procs in the same call or with P.QueryPid tested equal to the own pid; (Q3f) every procs[k] / delete(procs, k) in a ProcessList method has k = the never-assigned connection-id " +
			"parameter, Session.ID() of a parameter (directly or through a single-definition variable), or a single-definition variable read from byQueryPid[own pid] — KILL and the by-pid progress entry " +
			"points reach exactly the requested connection / the connection registered for the requested pid. (Q4) guarded-by: procs, byQueryPid and every field of a *Process " +
			"reached from procs are accessed only with ProcessList.mu held (writes exclusively), every function that takes mu releases it on every exit, and no *Process pointer escapes the " +
			"ProcessList methods (Q4e). Each violated clause makes the list or a counter disagree with the set of connected sessions / running queries, or lets a cancel hit the wrong query. " +
			"(K1) exact addressing of KILL: the connection id handed to plan.NewKill in planbuilder.buildKill derives, through integer conversions only, from the evaluation of the parsed statement's ConnID operand; every narrowing " +
			"conversion on that way (and in plan.NewKill and the executor's buildKill) is consumed only at points reached exclusively by paths on which the operand was proven to fit the target type - by comparisons with constants or by the " +
			"round-trip test int64(uint32(x)) == x (calls that cannot return, Builder.handleErr, end a path); Kill.ConnID is stored only by NewKill from its parameter, NewKill is referenced only by the statement builder, and the executor passes " +
			"ConnID of its own node to ProcessList.Kill and KillConnection. A violation lets KILL hit a connection the statement did not address (KILL 4294967297 -> connection 1).",
		NotCovered: "K1: the evaluation of the operand expression itself (getInt64Value: literal folding), ProcessList.Kill's own lookup (Q3b/Q3f), the services.KillConnection callback of the server, ids wider than the wire protocol's 32 bit; " +
			"interleavings/linearizability across methods, what callers do between Begin and End, ConnectionReady being invoked while a query runs, kill of a query through context propagation in the executor; " +
			"Q3d–Q3f: effects placed in function literals / deferred closures or in helper functions called from the method (none today), a process reached through anything but a variable or a call-free expression, " +
			"BeginQuery on a connection whose previous query has not ended yet (the older query's cancel and its byQueryPid entry are overwritten/kept: inter-method state, not decided)",
		Technique:  "SSA backward slice of the KILL id + forward must-analysis (interval of the operand, round-trip fact) over the CFG with no-return calls cut, for every narrowing conversion on the path; who-may-store of Kill.ConnID; stateful CFG path exploration (pairing with error-edge pruning; saturating event counters with branch facts) + who-may-write + guarded-by dataflow + CFG reachability with the pid-equality edges removed (control dependence on the identity test) + single-definition def-use of map keys",
		Run: func(c *Ctx) {
			a := c37Real()
			a.guardedBy = func(c *Ctx) {
				r := gbShared(c)
				for _, e := range gbTable {
					if e.Type == "ProcessList" {
						gbReportEntry(c, r, e, "C37-Q4", "C37-Q4c", "C37-Q4x", nil, nil)
					}
				}
			}
			runC37(c, a)
			runC37Kill(c, c37KillCfg{builderRel: "sql/planbuilder", builderFn: "Builder.buildKill", planRel: "sql/plan", ctor: "NewKill", nodeType: "Kill", idField: "ConnID",
				execRel: "sql/rowexec", execFn: "BaseBuilder.buildKill", operandField: "ConnID", sinks: []string{"Kill", "KillConnection"}, floor: 8})
		},
		Fixture: func(c *Ctx, fx *Prog) {
			fa := func(rel string) c37Anchors {
				pp := "vchk/" + rel
				return c37Anchors{plRel: rel, plType: "ProcessList", procRel: rel, procType: "Process", procsField: "procs", byPid: "byQueryPid",
					running: "Threads_running", connected: "Threads_connected", counterFuncs: map[string]bool{"IncrementGlobal": true},
					sessionID: pp + ".Session.ID", ctxPid: pp + ".Context.Pid",
					pairs: []c37Pair{
						{Name: "BeginQuery/EndQuery", Kind: "ctx", Begin: []string{pp + ".ProcessList.BeginQuery"}, End: []string{pp + ".ProcessList.EndQuery"}},
						{Name: "CommandBegin/CommandEnd", Kind: "arg", Begin: []string{pp + ".CommandBegin"}, End: []string{pp + ".CommandEnd"}},
					},
					musts:  []c37Must{{rel, "Closed", pp + ".ProcessList.RemoveConnection"}},
					floors: map[string]int{},
				}
			}
			expectFixture(c, fx, "c37 good: reference process list accepted", nil, func(fc *Ctx) { runC37(fc, fa("testdata/c37/good")) })
			expectFixture(c, fx, "c37 bad: counter before error return, removal without decrement, End missing on one path, cancel in a loop, stale Kill, foreign counter writer, End of any query, foreign byQueryPid entry removed, by-pid access not through byQueryPid",
				[]string{
					"C37-Q1:handleBad/BeginQuery/EndQuery",
					"C37-Q1:handleBad2/CommandBegin/CommandEnd",
					"C37-Q1b:Closed/RemoveConnection",
					"C37-Q2:ProcessList.BeginQuery/Threads_running",
					"C37-Q2:ProcessList.RemoveConnection/Threads_running",
					"C37-Q2:ProcessList.AddConnection/Threads_connected",
					"C37-Q2w:bump/Threads_running",
					"C37-Q3a:ProcessList.EndQuery/clears",
					"C37-Q3b:ProcessList.KillAll/cancel",
					"C37-Q3c:ProcessList.Reuse/Kill=",
					"C37-Q3d:ProcessList.EndAny/own-query-only",
					"C37-Q3e:ProcessList.EndKeyed/delete(byQueryPid)",
					"C37-Q3f:ProcessList.Touch/procs[]",
				},
				func(fc *Ctx) { runC37(fc, fa("testdata/c37/bad")) })
		},
		FixturePkgs: []string{"./testdata/c37/good", "./testdata/c37/bad"},
	})
}

func runC37(c *Ctx, a c37Anchors) {
	fl := func(id string) int { return a.floors[id] }
	c.Rule("C37-Q1", "every successful Begin… (BeginQuery, BeginOperation, SessionCommandBegin, QueryStarted) reaches its End… on the same object on every path to the function's exits", fl("C37-Q1"))
	c.Rule("C37-Q1b", "connection registration chain: NewConnection→AddConn→AddConnection, ConnectionClosed→RemoveConn→RemoveConnection on every path", fl("C37-Q1b"))
	c.Rule("C37-Q2", "per-path counter balance in ProcessList methods (Threads_running ↔ QueryPid/byQueryPid/removal of a running process; Threads_connected ↔ procs insert/delete)", fl("C37-Q2"))
	c.Rule("C37-Q2w", "Threads_running/Threads_connected, Process.QueryPid and Process.Kill are written only in ProcessList methods", fl("C37-Q2w"))
	c.Rule("C37-Q3a", "clearing QueryPid also clears Kill and the byQueryPid entry; deleting from procs also deletes from byQueryPid", fl("C37-Q3a"))
	c.Rule("C37-Q3b", "a stored cancel is invoked only on procs[k], k = connection-id parameter or the context's own session id, never in a loop over procs", fl("C37-Q3b"))
	c.Rule("C37-Q3c", "every store to Process.Kill is nil or a cancel function created in the same call", fl("C37-Q3c"))
	c.Rule("C37-Q3d", "a method that ends a query (clears QueryPid) touches the process (field stores, stored cancel) and decrements Threads_running only after `process.QueryPid == pid of the context's query` succeeded", fl("C37-Q3d"))
	c.Rule("C37-Q3e", "every deletion from byQueryPid is keyed by the call's own pid, or by the QueryPid of the process removed from procs in the same call / tested equal to the own pid", fl("C37-Q3e"))
	c.Rule("C37-Q3f", "every procs[k] access in a ProcessList method is keyed by the connection-id parameter, the session id of a parameter, or byQueryPid[own pid]", fl("C37-Q3f"))
	if a.guardedBy != nil {
		c.Rule("C37-Q4", "guarded-by: ProcessList.procs/byQueryPid and *Process fields only under ProcessList.mu (writes exclusive)", fl("C37-Q4"))
		c.Rule("C37-Q4c", "call sites of caller-holds-the-lock helpers of ProcessList hold mu", 0)
		c.Rule("C37-Q4x", "every ProcessList function that takes mu releases it (explicitly or deferred) on every exit", fl("C37-Q4x"))
		c.Rule("C37-Q4e", "no *Process pointer obtained from procs escapes a ProcessList method (only field access, nil tests, copies)", fl("C37-Q4e"))
	}
	plPk := c.P.Pkg(a.plRel)
	procPk := c.P.Pkg(a.procRel)
	if plPk == nil || procPk == nil {
		c.Undecided("C37-Q2", "packages", 0, "process list packages not loaded")
		return
	}
	plTN, _ := plPk.Types.Scope().Lookup(a.plType).(*types.TypeName)
	procTN, _ := procPk.Types.Scope().Lookup(a.procType).(*types.TypeName)
	if plTN == nil || procTN == nil {
		c.Undecided("C37-Q2", "types", 0, "ProcessList/Process types not found")
		return
	}
	s := &c37State{c: c, a: a, plPk: plPk, plTN: plTN, procTN: procTN}
	s.procsVar = c47FieldVar(plTN, a.procsField)
	s.byPidVar = c47FieldVar(plTN, a.byPid)
	s.qpidVar = c47FieldVar(procTN, "QueryPid")
	s.killVar = c47FieldVar(procTN, "Kill")
	if s.procsVar == nil || s.byPidVar == nil || s.qpidVar == nil || s.killVar == nil {
		c.Undecided("C37-Q2", "fields", 0, "procs/byQueryPid/QueryPid/Kill fields not found")
		return
	}
	pkgs := c.P.Module
	if c.fixtureMode {
		pkgs = []*packages.Package{plPk}
	}
	s.pairing(pkgs)
	s.mustCalls()
	s.counters()
	s.whoWrites(pkgs)
	s.cancels()
	s.identity()
	if a.guardedBy != nil {
		a.guardedBy(c)
		s.escapes()
	}
}

type c37State struct {
	c                                   *Ctx
	a                                   c37Anchors
	plPk                                *packages.Package
	plTN, procTN                        *types.TypeName
	procsVar, byPidVar, qpidVar, killVar *types.Var
}

func c37In(set []string, s string) bool {
	for _, x := range set {
		if x == s {
			return true
		}
	}
	return false
}

func c37UnitName(u funcUnit) string {
	n := DeclName(u.Decl)
	if u.Lit != nil {
		n += "$lit"
	}
	return n
}

// ---- Q1 ---------------------------------------------------------------------------------

func (s *c37State) pairing(pkgs []*packages.Package) {
	c := s.c
	for _, pk := range pkgs {
		info := pk.TypesInfo
		for _, file := range pk.Syntax {
			for _, d := range file.Decls {
				fd, ok := d.(*ast.FuncDecl)
				if !ok || fd.Body == nil {
					continue
				}
				for _, u := range funcUnits(fd) {
					var begins []*ast.CallExpr
					inspectNoLit(u.Body, func(n ast.Node) bool {
						if call, ok := n.(*ast.CallExpr); ok {
							if fn := Callee(info, call); fn != nil {
								for _, p := range s.a.pairs {
									if c37In(p.Begin, FullName(fn.Origin())) {
										begins = append(begins, call)
									}
								}
							}
						}
						return true
					})
					for _, call := range begins {
						s.checkPair(pk, u, call)
					}
				}
			}
		}
	}
	_ = c
}

func (s *c37State) checkPair(pk *packages.Package, u funcUnit, begin *ast.CallExpr) {
	c, info := s.c, pk.TypesInfo
	fn := Callee(info, begin).Origin()
	var pair c37Pair
	for _, p := range s.a.pairs {
		if c37In(p.Begin, FullName(fn)) {
			pair = p
		}
	}
	uname := c37UnitName(u)
	if pk != s.plPk && !c.fixtureMode {
		uname = strings.TrimPrefix(pk.PkgPath, modPath+"/") + "." + uname
	}
	key := uname + "/" + pair.Name
	g := c.P.CFG(info, u.Body)
	pt, ok := FindNode(g, begin)
	if !ok {
		c.Note("C37-Q1", key, begin.Pos(), "Begin call in unreachable code")
		return
	}
	node := pt.B.Nodes[pt.I]
	switch node.(type) {
	case *ast.DeferStmt, *ast.GoStmt:
		c.Undecided("C37-Q1", key, begin.Pos(), "Begin is deferred or spawned: pairing not decidable")
		return
	}
	// results bound by the Begin
	var errObj, ctxObj types.Object
	if as, ok := node.(*ast.AssignStmt); ok && len(as.Rhs) == 1 && ast.Unparen(as.Rhs[0]) == ast.Expr(begin) {
		obj := func(e ast.Expr) types.Object {
			id, ok := e.(*ast.Ident)
			if !ok || id.Name == "_" {
				return nil
			}
			if o := info.Defs[id]; o != nil {
				return o
			}
			return info.Uses[id]
		}
		last := as.Lhs[len(as.Lhs)-1]
		if o := obj(last); o != nil && IsErrorType(o.Type()) {
			errObj = o
		}
		if pair.Kind == "ctx" && len(as.Lhs) == 2 {
			ctxObj = obj(as.Lhs[0])
		}
	}
	if pair.Kind == "ctx" && ctxObj == nil {
		c.Bad("C37-Q1", key, begin.Pos(), "the context returned by "+fn.Name()+" is not kept in a variable: the End call cannot address the registered operation")
		return
	}
	recvText := func(call *ast.CallExpr) string {
		if sel, ok := ast.Unparen(call.Fun).(*ast.SelectorExpr); ok {
			return types.ExprString(sel.X)
		}
		return ""
	}
	isEnd := func(call *ast.CallExpr) bool {
		efn := Callee(info, call)
		if efn == nil || !c37In(pair.End, FullName(efn.Origin())) {
			return false
		}
		switch pair.Kind {
		case "ctx":
			if len(call.Args) != 1 || recvText(call) != recvText(begin) {
				return false
			}
			id, ok := ast.Unparen(call.Args[0]).(*ast.Ident)
			return ok && info.Uses[id] == ctxObj
		case "arg":
			return len(call.Args) == 1 && len(begin.Args) == 1 && types.ExprString(call.Args[0]) == types.ExprString(begin.Args[0])
		case "recv":
			return recvText(call) == recvText(begin)
		}
		return false
	}
	hasEnd := func(n ast.Node) bool {
		found := false
		var visit func(m ast.Node) bool
		visit = func(m ast.Node) bool {
			if found {
				return false
			}
			switch x := m.(type) {
			case *ast.FuncLit:
				return false
			case *ast.DeferStmt:
				if lit, ok := ast.Unparen(x.Call.Fun).(*ast.FuncLit); ok {
					ast.Inspect(lit.Body, func(k ast.Node) bool {
						if call, ok := k.(*ast.CallExpr); ok && isEnd(call) {
							found = true
						}
						return !found
					})
				}
			case *ast.CallExpr:
				if isEnd(x) {
					found = true
				}
			}
			return !found
		}
		ast.Inspect(n, visit)
		return found
	}
	assignsErr := func(n ast.Node) bool {
		if errObj == nil {
			return false
		}
		hit := false
		inspectNoLit(n, func(m ast.Node) bool {
			if as, ok := m.(*ast.AssignStmt); ok {
				for _, l := range as.Lhs {
					if id, ok := l.(*ast.Ident); ok && (info.Uses[id] == errObj || info.Defs[id] == errObj) {
						hit = true
					}
				}
			}
			return true
		})
		return hit
	}
	bad := pathExplore(g, pt, errObj != nil,
		func(n ast.Node, errLive bool) (bool, pathAct) {
			if hasEnd(n) {
				return errLive, pathStop
			}
			if errLive && assignsErr(n) {
				errLive = false
			}
			return errLive, pathGo
		},
		func(b *cfg.Block, succ int, errLive bool) (bool, bool) {
			if errLive {
				if o, nonNil, ok := ErrNilEdge(info, b, succ); ok && o == errObj {
					if nonNil {
						return errLive, false // the Begin failed: nothing to end
					}
					return false, true
				}
			}
			return errLive, true
		},
		func(errLive bool, ret *ast.ReturnStmt) bool { return true })
	if bad != nil {
		c.Bad("C37-Q1", key, begin.Pos(), fmt.Sprintf("%s: a path on which %s succeeded reaches the end of %s without %s on the same object (directly or deferred)",
			pair.Name, fn.Name(), uname, strings.TrimPrefix(pair.End[0][strings.LastIndex(pair.End[0], ".")+1:], ".")), c.P.DescribePath(bad)...)
		return
	}
	c.Ok("C37-Q1", key, begin.Pos(), "End reached (or deferred) on every success path")
}

func (s *c37State) mustCalls() {
	c := s.c
	for _, m := range s.a.musts {
		pk, fd := c.P.FuncDecl(m.Rel, m.Fn)
		short := m.Callee[strings.LastIndex(m.Callee, ".")+1:]
		name := m.Fn
		if i := strings.LastIndex(name, "."); i >= 0 && !c.fixtureMode {
			// keep Type.Method
		}
		key := name + "/" + short
		if fd == nil || fd.Body == nil {
			c.Undecided("C37-Q1b", key, 0, "function "+m.Rel+"."+m.Fn+" not found")
			continue
		}
		info := pk.TypesInfo
		g := c.P.CFG(info, fd.Body)
		has := func(n ast.Node) bool {
			return ContainsCall(info, n, func(fn *types.Func, _ *ast.CallExpr) bool { return FullName(fn.Origin()) == m.Callee })
		}
		if p := PathAvoiding(g, EntryPoint(g), has, nil, nil); p != nil {
			c.Bad("C37-Q1b", key, fd.Pos(), m.Fn+" has a path that never calls (or defers) "+short+": the connection is not (de)registered", c.P.DescribePath(p)...)
		} else {
			c.Ok("C37-Q1b", key, fd.Pos(), short+" on every path")
		}
	}
}

// ---- Q2 / Q3a: counters ---------------------------------------------------------------------

type c37Ev struct {
	kind string // incR decR incC decC reg dereg killNil killSet mapIns mapDel procIns procDel
	pos  token.Pos
}

type c37Cnt struct {
	incR, decR, incC, decC, reg, dereg, killNil, mapIns, mapDel, procIns, procDel, procDelRun, procDelUnk int8
	qfact                                                                                                  int8 // 0 unknown, 1 QueryPid != 0, 2 QueryPid == 0
}

func c37Sat(x int8) int8 {
	if x < 3 {
		return x + 1
	}
	return x
}

func (s *c37State) isField(info *types.Info, e ast.Expr, fv *types.Var) bool {
	return c47SelField(info, e) == fv
}

// events of one CFG node, in source order.
func (s *c37State) nodeEvents(info *types.Info, n ast.Node) ([]c37Ev, string) {
	var evs []c37Ev
	undecided := ""
	inspectNoLit(n, func(m ast.Node) bool {
		switch x := m.(type) {
		case *ast.CallExpr:
			if IsBuiltinCall(info, x, "delete") && len(x.Args) == 2 {
				if s.isField(info, x.Args[0], s.byPidVar) {
					evs = append(evs, c37Ev{"mapDel", x.Pos()})
				} else if s.isField(info, x.Args[0], s.procsVar) {
					evs = append(evs, c37Ev{"procDel", x.Pos()})
				}
				return true
			}
			fn := Callee(info, x)
			if fn == nil || !s.a.counterFuncs[fn.Name()] {
				return true
			}
			name, delta, haveDelta := "", int64(0), false
			for _, arg := range x.Args {
				tv, ok := info.Types[arg]
				if !ok || tv.Value == nil {
					continue
				}
				switch tv.Value.Kind() {
				case constant.String:
					name = constant.StringVal(tv.Value)
				case constant.Int:
					if v, ok := constant.Int64Val(tv.Value); ok {
						delta, haveDelta = v, true
					}
				}
			}
			if name != s.a.running && name != s.a.connected {
				return true
			}
			if !haveDelta || (delta != 1 && delta != -1) {
				undecided = "counter " + name + " changed by a non-constant or non-unit amount at " + s.c.P.Rel(x.Pos())
				return true
			}
			k := "inc"
			if delta < 0 {
				k = "dec"
			}
			if name == s.a.running {
				k += "R"
			} else {
				k += "C"
			}
			evs = append(evs, c37Ev{k, x.Pos()})
		case *ast.AssignStmt:
			for i, l := range x.Lhs {
				l = ast.Unparen(l)
				switch {
				case s.isField(info, l, s.qpidVar):
					zero := false
					if len(x.Lhs) == len(x.Rhs) {
						if tv, ok := info.Types[x.Rhs[i]]; ok && tv.Value != nil && constant.Sign(tv.Value) == 0 {
							zero = true
						}
					}
					if zero {
						evs = append(evs, c37Ev{"dereg", x.Pos()})
					} else {
						evs = append(evs, c37Ev{"reg", x.Pos()})
					}
				case s.isField(info, l, s.killVar):
					if len(x.Lhs) == len(x.Rhs) && isNilIdent(info, x.Rhs[i]) {
						evs = append(evs, c37Ev{"killNil", x.Pos()})
					} else {
						evs = append(evs, c37Ev{"killSet", x.Pos()})
					}
				default:
					if ix, ok := l.(*ast.IndexExpr); ok {
						if s.isField(info, ix.X, s.byPidVar) {
							evs = append(evs, c37Ev{"mapIns", x.Pos()})
						} else if s.isField(info, ix.X, s.procsVar) {
							evs = append(evs, c37Ev{"procIns", x.Pos()})
						}
					}
				}
			}
		}
		return true
	})
	return evs, undecided
}

func (s *c37State) plMethods() []*ast.FuncDecl {
	var out []*ast.FuncDecl
	for _, file := range s.plPk.Syntax {
		for _, d := range file.Decls {
			fd, ok := d.(*ast.FuncDecl)
			if !ok || fd.Body == nil || fd.Recv == nil || len(fd.Recv.List) != 1 {
				continue
			}
			if c47NamedOf(s.plPk.TypesInfo.TypeOf(fd.Recv.List[0].Type)) == s.plTN {
				out = append(out, fd)
			}
		}
	}
	sort.Slice(out, func(i, j int) bool { return out[i].Name.Name < out[j].Name.Name })
	return out
}

func (s *c37State) counters() {
	c, info := s.c, s.plPk.TypesInfo
	for _, fd := range s.plMethods() {
		g := c.P.CFG(info, fd.Body)
		evOf := map[ast.Node][]c37Ev{}
		kinds := map[string]bool{}
		undec := ""
		for _, b := range g.Blocks {
			for _, n := range b.Nodes {
				evs, u := s.nodeEvents(info, n)
				if u != "" {
					undec = u
				}
				evOf[n] = evs
				for _, e := range evs {
					kinds[e.kind] = true
				}
			}
		}
		name := DeclName(fd)
		apply := func(n ast.Node, st c37Cnt) (c37Cnt, pathAct) {
			for _, e := range evOf[n] {
				switch e.kind {
				case "incR":
					st.incR = c37Sat(st.incR)
				case "decR":
					st.decR = c37Sat(st.decR)
				case "incC":
					st.incC = c37Sat(st.incC)
				case "decC":
					st.decC = c37Sat(st.decC)
				case "reg":
					st.reg = c37Sat(st.reg)
					st.qfact = 1
				case "dereg":
					st.dereg = c37Sat(st.dereg)
					st.qfact = 2
				case "killNil":
					st.killNil = c37Sat(st.killNil)
				case "mapIns":
					st.mapIns = c37Sat(st.mapIns)
				case "mapDel":
					st.mapDel = c37Sat(st.mapDel)
				case "procIns":
					st.procIns = c37Sat(st.procIns)
				case "procDel":
					st.procDel = c37Sat(st.procDel)
					switch st.qfact {
					case 1:
						st.procDelRun = c37Sat(st.procDelRun)
					case 0:
						st.procDelUnk = c37Sat(st.procDelUnk)
					}
				}
			}
			return st, pathGo
		}
		edge := func(b *cfg.Block, succ int, st c37Cnt) (c37Cnt, bool) {
			if len(b.Nodes) == 0 || len(b.Succs) != 2 {
				return st, true
			}
			be, ok := ast.Unparen(asExpr(b.Nodes[len(b.Nodes)-1])).(*ast.BinaryExpr)
			if !ok || (be.Op != token.NEQ && be.Op != token.EQL) {
				return st, true
			}
			var other ast.Expr
			if s.isField(info, be.X, s.qpidVar) {
				other = be.Y
			} else if s.isField(info, be.Y, s.qpidVar) {
				other = be.X
			} else {
				return st, true
			}
			tv, ok := info.Types[other]
			if !ok || tv.Value == nil || constant.Sign(tv.Value) != 0 {
				return st, true
			}
			nonZero := (be.Op == token.NEQ) == (succ == 0)
			if nonZero {
				st.qfact = 1
			} else {
				st.qfact = 2
			}
			return st, true
		}
		type req struct {
			rule, key string
			active    bool
			pred      func(st c37Cnt) string
		}
		reqs := []req{
			{"C37-Q2", name + "/" + s.a.running, kinds["incR"] || kinds["decR"] || kinds["reg"] || kinds["dereg"] || kinds["mapIns"] || kinds["procDel"], func(st c37Cnt) string {
				switch {
				case st.incR != st.reg:
					return fmt.Sprintf("%s incremented %d time(s) but a query registered (QueryPid set) %d time(s)", s.a.running, st.incR, st.reg)
				case st.reg != st.mapIns:
					return fmt.Sprintf("QueryPid set %d time(s) but %s gets %d entr(y/ies)", st.reg, s.a.byPid, st.mapIns)
				case st.procDelUnk > 0:
					return "a process is deleted from procs without testing whether it has a running query (QueryPid != 0): either the running or the idle case miscounts " + s.a.running
				case st.decR != st.dereg+st.procDelRun:
					return fmt.Sprintf("%s decremented %d time(s) but %d quer(y/ies) deregistered (QueryPid cleared %d, running process removed %d)", s.a.running, st.decR, st.dereg+st.procDelRun, st.dereg, st.procDelRun)
				}
				return ""
			}},
			{"C37-Q2", name + "/" + s.a.connected, kinds["incC"] || kinds["decC"] || kinds["procIns"] || kinds["procDel"], func(st c37Cnt) string {
				switch {
				case st.incC != st.procIns:
					return fmt.Sprintf("%s incremented %d time(s) but %d insertion(s) into procs", s.a.connected, st.incC, st.procIns)
				case st.decC != st.procDel:
					return fmt.Sprintf("%s decremented %d time(s) but %d deletion(s) from procs", s.a.connected, st.decC, st.procDel)
				}
				return ""
			}},
			{"C37-Q3a", name + "/clears", kinds["dereg"] || kinds["procDel"], func(st c37Cnt) string {
				switch {
				case st.dereg > 0 && st.killNil == 0:
					return "QueryPid is cleared but the stored cancel function (Kill) is kept: a later KILL would invoke the finished query's cancel"
				case st.dereg > 0 && st.mapDel == 0:
					return "QueryPid is cleared but the byQueryPid entry is kept"
				case st.procDel > 0 && st.mapDel == 0:
					return "the process is deleted from procs but its byQueryPid entry is kept"
				}
				return ""
			}},
		}
		for _, rq := range reqs {
			if !rq.active {
				continue
			}
			if undec != "" {
				c.Undecided(rq.rule, rq.key, fd.Pos(), undec)
				continue
			}
			msg := ""
			bad := pathExplore(g, EntryPoint(g), c37Cnt{}, apply, edge, func(st c37Cnt, ret *ast.ReturnStmt) bool {
				if m := rq.pred(st); m != "" {
					msg = m
					return true
				}
				return false
			})
			if reason, ok := s.a.q2Exceptions[rq.key]; ok && bad != nil {
				c.Exc(rq.rule, rq.key, fd.Pos(), reason)
				continue
			}
			if bad != nil {
				c.Bad(rq.rule, rq.key, fd.Pos(), "on a path through "+name+": "+msg, c.P.DescribePath(bad)...)
			} else {
				c.Ok(rq.rule, rq.key, fd.Pos(), "balanced on every path")
			}
		}
	}
}

// ---- Q2w: who may write ------------------------------------------------------------------

func (s *c37State) inPLMethod(pk *packages.Package, fd *ast.FuncDecl) bool {
	if pk != s.plPk || fd.Recv == nil || len(fd.Recv.List) != 1 {
		return false
	}
	return c47NamedOf(pk.TypesInfo.TypeOf(fd.Recv.List[0].Type)) == s.plTN
}

func (s *c37State) whoWrites(pkgs []*packages.Package) {
	c := s.c
	for _, pk := range pkgs {
		info := pk.TypesInfo
		for _, file := range pk.Syntax {
			for _, d := range file.Decls {
				fd, ok := d.(*ast.FuncDecl)
				if !ok || fd.Body == nil {
					continue
				}
				fname := DeclName(fd)
				if pk != s.plPk && !c.fixtureMode {
					fname = strings.TrimPrefix(pk.PkgPath, modPath+"/") + "." + fname
				}
				inPL := s.inPLMethod(pk, fd)
				ast.Inspect(fd.Body, func(n ast.Node) bool {
					switch x := n.(type) {
					case *ast.CallExpr:
						fn := Callee(info, x)
						if fn == nil || !s.a.counterFuncs[fn.Name()] {
							return true
						}
						for _, arg := range x.Args {
							if tv, ok := info.Types[arg]; ok && tv.Value != nil && tv.Value.Kind() == constant.String {
								nm := constant.StringVal(tv.Value)
								if nm == s.a.running || nm == s.a.connected {
									key := fname + "/" + nm
									if inPL {
										c.Ok("C37-Q2w", key, x.Pos(), "counter changed inside a ProcessList method")
									} else {
										c.Bad("C37-Q2w", key, x.Pos(), nm+" is changed outside the ProcessList methods: it can no longer equal the number of registered connections/queries")
									}
								}
							}
						}
					case *ast.AssignStmt:
						for _, l := range x.Lhs {
							for _, fv := range []*types.Var{s.qpidVar, s.killVar} {
								if s.isField(info, l, fv) {
									key := fname + "/" + fv.Name() + "="
									if inPL {
										c.Ok("C37-Q2w", key, x.Pos(), "written inside a ProcessList method")
									} else {
										c.Bad("C37-Q2w", key, x.Pos(), "Process."+fv.Name()+" is written outside the ProcessList methods")
									}
								}
							}
						}
					}
					return true
				})
			}
		}
	}
}

// ---- Q3b / Q3c: cancels ------------------------------------------------------------------

func (s *c37State) cancels() {
	c, info := s.c, s.plPk.TypesInfo
	for _, fd := range s.plMethods() {
		name := DeclName(fd)
		params := map[types.Object]bool{}
		for _, f := range fd.Type.Params.List {
			for _, nm := range f.Names {
				if o := info.Defs[nm]; o != nil {
					params[o] = true
				}
			}
		}
		// is k an acceptable address of "the" connection?
		addrOK := func(k ast.Expr) bool {
			id, ok := ast.Unparen(k).(*ast.Ident)
			if !ok {
				return false
			}
			o := info.Uses[id]
			if params[o] {
				return true
			}
			def := c47UniqueDef(info, fd.Body, o)
			if call, ok := ast.Unparen(def).(*ast.CallExpr); ok {
				if fn := Callee(info, call); fn != nil && FullName(fn.Origin()) == s.a.sessionID {
					return true
				}
			}
			return false
		}
		c47Walk(fd.Body, func(n ast.Node, stack []ast.Node) {
			call, ok := n.(*ast.CallExpr)
			if !ok || !s.isField(info, call.Fun, s.killVar) {
				return
			}
			key := name + "/cancel"
			sel := ast.Unparen(call.Fun).(*ast.SelectorExpr)
			msg := ""
			for _, anc := range stack {
				if rs, ok := anc.(*ast.RangeStmt); ok && s.isField(info, rs.X, s.procsVar) {
					msg = "a stored cancel is invoked inside a loop over procs: it hits other connections than the addressed one"
				}
			}
			if msg == "" {
				switch b := ast.Unparen(sel.X).(type) {
				case *ast.Ident:
					def := c47UniqueDef(info, fd.Body, info.Uses[b])
					ix, ok := ast.Unparen(def).(*ast.IndexExpr)
					if def == nil || !ok || !s.isField(info, ix.X, s.procsVar) {
						msg = "the process whose cancel is invoked is not a single procs[k] lookup"
					} else if !addrOK(ix.Index) {
						msg = "the process whose cancel is invoked is procs[" + types.ExprString(ix.Index) + "], which is neither the connection-id parameter nor the id of the context's own session"
					}
				case *ast.IndexExpr:
					if !s.isField(info, b.X, s.procsVar) || !addrOK(b.Index) {
						msg = "the process whose cancel is invoked is not procs[<connection id>]"
					}
				default:
					msg = "the process whose cancel is invoked is not a single procs[k] lookup"
				}
			}
			if msg != "" {
				c.Bad("C37-Q3b", key, call.Pos(), name+": "+msg)
			} else {
				c.Ok("C37-Q3b", key, call.Pos(), "cancel of procs[<addressed connection>] only")
			}
		})
		inspectNoLit(fd.Body, func(n ast.Node) bool {
			as, ok := n.(*ast.AssignStmt)
			if !ok {
				return true
			}
			for i, l := range as.Lhs {
				if !s.isField(info, l, s.killVar) {
					continue
				}
				key := name + "/Kill="
				if len(as.Lhs) != len(as.Rhs) {
					c.Bad("C37-Q3c", key, as.Pos(), "Kill assigned from a multi-value expression")
					continue
				}
				r := ast.Unparen(as.Rhs[i])
				if isNilIdent(info, r) {
					c.Ok("C37-Q3c", key, as.Pos(), "cleared")
					continue
				}
				okFresh := false
				if id, isId := r.(*ast.Ident); isId {
					o := info.Uses[id]
					if !params[o] {
						if def := c47UniqueDef(info, fd.Body, o); def != nil {
							_, okFresh = ast.Unparen(def).(*ast.CallExpr)
						}
						// multi-value definitions: `x, cancel := f()`
						if !okFresh {
							n := 0
							ast.Inspect(fd.Body, func(m ast.Node) bool {
								if a2, ok := m.(*ast.AssignStmt); ok && len(a2.Rhs) == 1 && len(a2.Lhs) > 1 {
									for _, l2 := range a2.Lhs {
										if id2, ok := l2.(*ast.Ident); ok && (info.Defs[id2] == o || info.Uses[id2] == o) {
											if _, isCall := ast.Unparen(a2.Rhs[0]).(*ast.CallExpr); isCall {
												n++
											} else {
												n += 2
											}
										}
									}
								}
								return true
							})
							okFresh = n == 1
						}
					}
				}
				if okFresh {
					c.Ok("C37-Q3c", key, as.Pos(), "fresh cancel function created in this call")
				} else {
					c.Bad("C37-Q3c", key, as.Pos(), "Process.Kill is set to `"+types.ExprString(r)+"`, which is not a cancel function created in this call: an old cancel can hit a later query")
				}
			}
			return true
		})
	}
}

// ---- Q4e: escapes of *Process ------------------------------------------------------------

func (s *c37State) escapes() {
	c, info := s.c, s.plPk.TypesInfo
	ptrT := types.NewPointer(s.procTN.Type())
	for _, file := range s.plPk.Syntax {
		for _, d := range file.Decls {
			fd, ok := d.(*ast.FuncDecl)
			if !ok || fd.Body == nil {
				continue
			}
			name := DeclName(fd)
			// signature must not hand out / take *Process
			if fn, ok := info.Defs[fd.Name].(*types.Func); ok {
				sig := fn.Type().(*types.Signature)
				for _, tup := range []*types.Tuple{sig.Params(), sig.Results()} {
					for i := 0; i < tup.Len(); i++ {
						if types.Identical(tup.At(i).Type(), ptrT) {
							c.Bad("C37-Q4e", name+"/signature", fd.Pos(), "a function of the ProcessList package takes or returns *"+s.a.procType+": the pointer outlives the lock")
						}
					}
				}
			}
			type use struct {
				first token.Pos
				bad   token.Pos
			}
			uses := map[*types.Var]*use{}
			var order []*types.Var
			c47Walk(fd.Body, func(n ast.Node, stack []ast.Node) {
				id, ok := n.(*ast.Ident)
				if !ok {
					return
				}
				o, _ := info.Uses[id].(*types.Var)
				if o == nil || o.IsField() || !types.Identical(o.Type(), ptrT) {
					return
				}
				u := uses[o]
				if u == nil {
					u = &use{first: o.Pos()}
					uses[o] = u
					order = append(order, o)
				}
				par := c47Parent(stack, 0)
				okUse := false
				switch p := par.(type) {
				case *ast.SelectorExpr:
					okUse = ast.Unparen(p.X) == ast.Expr(id)
				case *ast.StarExpr:
					okUse = true // *p: copy
				case *ast.BinaryExpr:
					okUse = (p.Op == token.EQL || p.Op == token.NEQ) && (isNilIdent(info, p.X) || isNilIdent(info, p.Y))
				case *ast.AssignStmt:
					for _, l := range p.Lhs {
						if ast.Unparen(l) == ast.Expr(id) {
							okUse = true // (re)definition of the local
						}
					}
				}
				if !okUse && !u.bad.IsValid() {
					u.bad = id.Pos()
				}
			})
			for _, o := range order {
				key := name + "/" + o.Name()
				if u := uses[o]; u.bad.IsValid() {
					c.Bad("C37-Q4e", key, u.bad, fmt.Sprintf("*%s variable %s is used other than for field access / nil test / copy in %s (returned, passed or stored): it escapes ProcessList.mu", s.a.procType, o.Name(), name))
				} else {
					c.Ok("C37-Q4e", key, u.first, "local *"+s.a.procType+" used for field access only")
				}
			}
		}
	}
}
