package main

import (
	"fmt"
	"go/ast"
	"go/token"
	"go/types"
	"sort"
	"strings"

	"golang.org/x/tools/go/packages"
)

// C16 — secondary indexes stay consistent with the table rows: coupled-update and aliasing clauses.

type c16Params struct {
	rel        string // backend package ("memory")
	structName string // "TableData"
	partField  string // "partitions"
	idxField   string // "secondaryIndexStorage"
	defField   string // "indexes" (the index definitions the maintenance functions must range over)
	copyMethod string // "copy"
	rowRel     string // "sql"
	rowType    string // "Row"
	floors     map[string]int
}

var c16Repo = c16Params{rel: "memory", structName: "TableData", partField: "partitions", idxField: "secondaryIndexStorage", defField: "indexes",
	copyMethod: "copy", rowRel: "sql", rowType: "Row", floors: map[string]int{"C16-U": 14, "C16-M": 2, "C16-A": 2, "C16-L": 4, "C16-V1": 12}}

var c16UExceptions = map[string]string{
	"NewDualTable/replace-all": "the dual table: one constant row assigned to a table fresh from NewTable; no index can be declared on it, its index storage is the constructor's empty map",
}

func init() {
	register(&Property{
		ID:       "C16",
		Patterns: []string{"./memory"},
		Explanation: "Coupling of row positions and secondary index storage in the in-memory backend (index rows end in the (partition, position) of the table row they describe). Decided: (U) every write to a value of the type of TableData.partitions in package memory is classified — a *position change* (an element store whose value is an append / re-slice, a nested element store, a swap through an alias field) must be followed on every CFG path to a successful exit by an index-maintenance action (a call to a function that stores into secondaryIndexStorage, or an inline loop over the index storage); a *same-length rebuild* (for k, p := range partitions { new := make(len(p)) … partitions[k] = new }) keeps positions; a *replace-all* (whole field or composite literal) must replace the index storage in the same function; " +
			"(M) every maintenance function ranges over all index definitions (TableData.indexes) and stores into the storage of each one, with no continue/break in the loop; " +
			"(L) per-index independence: in every `range` over the index definitions (TableData.indexes) or over a value of the index-storage type held in a struct field (secondaryIndexStorage, partitionssort.indexes) whose body writes index storage, every controlling expression (if/for condition, switch tag and cases, operand of an inner range) that encloses an index write or an exit statement (break, continue, goto, return) may read a local variable that is declared outside that loop and assigned inside its body only if every control-flow path from the start of an iteration to the read passes an assignment of the variable that does not read it (per-index re-initialisation), or the variable provably enters every iteration with the same constant (declared with K, every re-initialisation assigns K, every other write is followed by a re-initialisation before the next index); otherwise what is done for one index depends on the indexes visited before it and later indexes are maintained partially; " +
			"(A) the rows of secondaryIndexStorage (and of partitions) are either never modified in place or are deep-copied by TableData.copy: copy() takes the statement snapshot that DiscardChanges restores, and shares every row it does not copy; " +
			"(V1) row form: the backend keeps the schema-shaped row (what GetField ordinals of index expressions address) and the storage row (TableData.toStorageRow: VIRTUAL generated columns dropped, later ordinals shifted). Every row argument of sql.Expression.Eval in package memory and of every function that forwards a Row parameter there over static calls (rowToIndexStorage <- addRowToIndexes <- insertHelper …: the index-key builders) has no SSA reaching definition that is the result of the storage projection (any (Row) Row function reading sql.Column.Virtual, or returning such a result), and no Row stored into a value of the partitions type shares a non-projection reaching definition with such an argument in the same function (the stored row and the key row are different forms).",
		NotCovered: "that the maintenance functions compute the right index entries (expression evaluation, prefix lengths; V1 decides only that they are computed from the schema-shaped row), rows that reach Expression.Eval through interface calls, struct fields or collections (V1 follows parameters over static calls only), storage rows read back from partitions (normalizeRowForRead side), index definitions changed by DDL, the sort order of the index storage, lookups (IndexedTable) themselves; L: state carried across indexes through struct fields, package variables, pointers (&v) or closures, and data dependences that do not go through a controlling expression (a carried value stored into an index row)",
		Technique:  "who-may-write over go/types (all stores to values of the partitions / index-storage types) + CFG must-pass-through to successful exits + shallow/deep copy shape of the snapshot function + loop-carried def-use (kill-dominance from the loop body entry over go/cfg) of the variables read by controlling expressions + SSA reaching definitions (phi/re-slice/local stores) with an interprocedural parameter-sink closure for the row form",
		Run:        func(c *Ctx) { runC16(c, c16Repo) },
		Fixture: func(c *Ctx, fx *Prog) {
			p := c16Params{rel: "testdata/c16/mem", structName: "TableData", partField: "partitions", idxField: "secondaryIndexStorage", defField: "indexes",
				copyMethod: "copy", rowRel: "testdata/c16/sql", rowType: "Row", floors: map[string]int{}}
			expectFixture(c, fx, "c16: uncoupled row moves and shared index rows must be reported", []string{
				"C16-U:removeRow/position-change",
				"C16-U:TableData.reset/replace-all",
				"C16-M:addToIndexes/all-indexes",
				"C16-A:shiftLocations/in-place index row",
				"C16-A:swapLocations/in-place index row",
				"C16-A:swapLocationsReset/in-place index row",
				"C16-A:swapLocationsCarried/in-place index row",
				"C16-A:swapLocationsResetAfter/in-place index row",
				"C16-L:swapLocationsCarried/range .secondaryIndexStorage",
				"C16-L:dropFromIndexes/range .indexes",
			}, func(fc *Ctx) { runC16(fc, p) })
		},
		FixturePkgs: []string{"./testdata/c16/sql", "./testdata/c16/mem"},
	})
}

func runC16(c *Ctx, p c16Params) {
	c.Rule("C16-U", "every write to partitions is a position change followed by index maintenance on all successful paths, a same-length rebuild, or a replace-all that also replaces the index storage", p.floors["C16-U"])
	c.Rule("C16-M", "maintenance functions range over all index definitions without skipping", p.floors["C16-M"])
	c.Rule("C16-L", "inside a loop over all indexes that writes index storage, no condition controlling a write or an exit reads state carried over from the previous indexes", p.floors["C16-L"])
	c.Rule("C16-A", "index / partition rows are never modified in place unless TableData.copy deep-copies them", p.floors["C16-A"])
	pk, rowPk := c.P.Pkg(p.rel), c.P.Pkg(p.rowRel)
	if pk == nil || rowPk == nil {
		c.Undecided("C16-U", "packages", 0, "packages not loaded")
		return
	}
	info := pk.TypesInfo
	tn, _ := pk.Types.Scope().Lookup(p.structName).(*types.TypeName)
	rtn, _ := rowPk.Types.Scope().Lookup(p.rowType).(*types.TypeName)
	if tn == nil || rtn == nil {
		c.Undecided("C16-U", "anchors", 0, p.structName+" or "+p.rowType+" not found")
		return
	}
	st, _ := tn.Type().Underlying().(*types.Struct)
	var partF, idxF, defF *types.Var
	for i := 0; st != nil && i < st.NumFields(); i++ {
		switch st.Field(i).Name() {
		case p.partField:
			partF = st.Field(i)
		case p.idxField:
			idxF = st.Field(i)
		case p.defField:
			defF = st.Field(i)
		}
	}
	if partF == nil || idxF == nil || defF == nil {
		c.Undecided("C16-U", "fields", tn.Pos(), "fields "+p.partField+"/"+p.idxField+"/"+p.defField+" not found in "+p.structName)
		return
	}
	rowT := rtn.Type()
	partT, idxT := partF.Type(), idxF.Type()
	isT := func(e ast.Expr, t types.Type) bool {
		et := info.TypeOf(e)
		return et != nil && types.Identical(et, t)
	}
	isFieldSel := func(e ast.Expr, f *types.Var) bool {
		sel, ok := ast.Unparen(e).(*ast.SelectorExpr)
		return ok && info.Uses[sel.Sel] == types.Object(f)
	}
	// origin: does expression e (a row, a slice of rows, or the map) derive from a value of map type t
	// held in a struct field (any struct)? Follows := definitions, range statements and indexing.
	type defs struct {
		assign map[types.Object]ast.Expr
		rng    map[types.Object]ast.Expr
	}
	defsOf := map[*ast.FuncDecl]*defs{}
	getDefs := func(fd *ast.FuncDecl) *defs {
		if d := defsOf[fd]; d != nil {
			return d
		}
		d := &defs{map[types.Object]ast.Expr{}, map[types.Object]ast.Expr{}}
		ast.Inspect(fd.Body, func(n ast.Node) bool {
			switch x := n.(type) {
			case *ast.AssignStmt:
				if len(x.Lhs) == len(x.Rhs) {
					for i, l := range x.Lhs {
						if id, ok := l.(*ast.Ident); ok {
							o := info.Defs[id]
							if o == nil {
								o = info.Uses[id]
							}
							if o != nil {
								if _, dup := d.assign[o]; !dup {
									d.assign[o] = x.Rhs[i]
								}
							}
						}
					}
				}
			case *ast.RangeStmt:
				if id, ok := x.Value.(*ast.Ident); ok {
					if o := info.Defs[id]; o != nil {
						d.rng[o] = x.X
					}
				}
			}
			return true
		})
		defsOf[fd] = d
		return d
	}
	var fromFieldOfType func(fd *ast.FuncDecl, e ast.Expr, t types.Type, depth int) bool
	fromFieldOfType = func(fd *ast.FuncDecl, e ast.Expr, t types.Type, depth int) bool {
		if depth > 8 {
			return false
		}
		e = ast.Unparen(e)
		if isT(e, t) {
			if _, ok := e.(*ast.SelectorExpr); ok {
				return true
			}
		}
		d := getDefs(fd)
		switch x := e.(type) {
		case *ast.Ident:
			o := info.Uses[x]
			if r, ok := d.rng[o]; ok {
				return fromFieldOfType(fd, r, t, depth+1)
			}
			if r, ok := d.assign[o]; ok {
				return fromFieldOfType(fd, r, t, depth+1)
			}
		case *ast.IndexExpr:
			return fromFieldOfType(fd, x.X, t, depth+1)
		case *ast.SliceExpr:
			return fromFieldOfType(fd, x.X, t, depth+1)
		case *ast.CallExpr:
			if IsBuiltinCall(info, x, "append") && len(x.Args) > 0 {
				return fromFieldOfType(fd, x.Args[0], t, depth+1)
			}
		}
		return false
	}

	// maintenance functions: functions of the package with an element store into an index-storage map held in a field
	maint := map[*types.Func]*ast.FuncDecl{}
	c.P.EachFuncDecl([]string{p.rel}, func(_ *packages.Package, fd *ast.FuncDecl) {
		fn, _ := info.Defs[fd.Name].(*types.Func)
		ast.Inspect(fd.Body, func(n ast.Node) bool {
			as, ok := n.(*ast.AssignStmt)
			if !ok {
				return true
			}
			for _, l := range as.Lhs {
				if ix, ok := ast.Unparen(l).(*ast.IndexExpr); ok && isT(ix.X, idxT) && isFieldSel(ix.X, idxF) && fn != nil {
					maint[fn] = fd
				}
			}
			return true
		})
	})
	isMaintAction := func(n ast.Node) (string, bool) {
		for _, call := range dmlCallsIn(n, false) {
			if fn := Callee(info, call); fn != nil && maint[fn.Origin()] != nil {
				return fn.Name(), true
			}
		}
		return "", false
	}

	// ---- L (c16_loop.go) ---------------------------------------------------------------
	c16LoopCarried(&c16LoopEnv{c: c, p: p, info: info, idxF: idxF, defF: defF, idxT: idxT, rowT: rowT, isT: isT, isFieldSel: isFieldSel, fromField: fromFieldOfType, maint: maint}, pk)

	// ---- V1 (c16_rowform.go) ---------------------------------------------------------------
	if !c.fixtureMode {
		c16RowFormRule(c, p, pk, rowT, partT, p.floors["C16-V1"])
	}

	// ---- U ------------------------------------------------------------------------------
	usedMaint := map[*types.Func]bool{}
	c.P.EachFuncDecl([]string{p.rel}, func(_ *packages.Package, fd *ast.FuncDecl) {
		name := DeclName(fd)
		fn, _ := info.Defs[fd.Name].(*types.Func)
		if fn == nil {
			return
		}
		sig := fn.Type().(*types.Signature)
		var g = c.P.CFG(info, fd.Body)
		// whole-field stores and composite literals
		replacesIdx := false
		ast.Inspect(fd.Body, func(n ast.Node) bool {
			switch x := n.(type) {
			case *ast.AssignStmt:
				for _, l := range x.Lhs {
					if isFieldSel(l, idxF) {
						replacesIdx = true
					}
				}
			case *ast.CompositeLit:
				if nt := dmlNamedOf(info.TypeOf(x)); nt != nil && nt.Obj() == tn {
					for _, el := range x.Elts {
						if kv, ok := el.(*ast.KeyValueExpr); ok {
							if id, ok := kv.Key.(*ast.Ident); ok && id.Name == p.idxField {
								replacesIdx = true
							}
						}
					}
				}
			}
			return true
		})
		report := func(kind string, pos token.Pos, ok bool, okMsg, badMsg string, path ...string) {
			key := name + "/" + kind
			switch {
			case ok:
				c.Ok("C16-U", key, pos, okMsg)
			case c16UExceptions[key] != "" && !c.fixtureMode:
				c.Exc("C16-U", key, pos, c16UExceptions[key])
			default:
				c.Bad("C16-U", key, pos, name+": "+badMsg, path...)
			}
		}
		ast.Inspect(fd.Body, func(n ast.Node) bool {
			switch x := n.(type) {
			case *ast.FuncLit:
				return true
			case *ast.CompositeLit:
				if nt := dmlNamedOf(info.TypeOf(x)); nt != nil && nt.Obj() == tn {
					for _, el := range x.Elts {
						if kv, ok := el.(*ast.KeyValueExpr); ok {
							if id, ok := kv.Key.(*ast.Ident); ok && id.Name == p.partField {
								report("replace-all", kv.Pos(), replacesIdx, "literal sets the index storage too", "a "+p.structName+" literal sets "+p.partField+" without "+p.idxField)
							}
						}
					}
				}
			case *ast.AssignStmt:
				for li, l := range x.Lhs {
					l = ast.Unparen(l)
					// whole field
					if isFieldSel(l, partF) {
						report("replace-all", x.Pos(), replacesIdx, "replaces the index storage in the same function", "replaces "+p.partField+" as a whole but leaves "+p.idxField+" as it was: every index row now points at a position of the old rows")
						continue
					}
					ix, ok := l.(*ast.IndexExpr)
					if !ok {
						continue
					}
					kind := ""
					switch {
					case isT(ix.X, partT) && fromFieldOfType(fd, ix.X, partT, 0):
						// partitions[k] = v
						var rhs ast.Expr
						if len(x.Rhs) == len(x.Lhs) {
							rhs = x.Rhs[li]
						}
						if c16SameLengthRebuild(info, fd, x, ix, rhs, partT) {
							kind = "same-length-rebuild"
						} else {
							kind = "position-change"
						}
					default:
						// partitions[k][i] = row  (nested element of a slice that derives from a partitions map in a field)
						if inner, ok := ast.Unparen(ix.X).(*ast.IndexExpr); ok && isT(inner.X, partT) && fromFieldOfType(fd, inner.X, partT, 0) {
							kind = "position-change"
						} else if et := info.TypeOf(ix.X); et != nil {
							if sl, ok := et.Underlying().(*types.Slice); ok && types.Identical(sl.Elem(), rowT) && fromFieldOfType(fd, ix.X, partT, 0) {
								kind = "position-change"
							}
						}
					}
					switch kind {
					case "same-length-rebuild":
						c.Ok("C16-U", name+"/same-length-rebuild", x.Pos(), "every partition is rebuilt with the same length: positions are kept")
					case "position-change":
						pt, ok := FindNode(g, x)
						if !ok {
							c.Undecided("C16-U", name+"/position-change", x.Pos(), "store not found in the CFG")
							continue
						}
						inline := false
						var seenMaint string
						path := dmlSearch(g, pt, 0, func(m ast.Node, st int) (int, dmlVerdict) {
							if mn, ok := isMaintAction(m); ok {
								seenMaint = mn
								return st, dmlStop
							}
							// inline maintenance: a loop over an index-storage map held in a field
							if e, ok := m.(ast.Expr); ok && isT(e, idxT) {
								if _, isSel := ast.Unparen(e).(*ast.SelectorExpr); isSel {
									inline = true
									return st, dmlStop
								}
							}
							if r, ok := m.(*ast.ReturnStmt); ok {
								e := dmlErrOperand(info, sig, r)
								if e != nil && !isNilIdent(info, e) {
									return st, dmlStop // error exit
								}
								return st, dmlHit
							}
							return st, dmlGo
						}, nil, func(int) bool { return true })
						for _, call := range dmlCallsIn(fd.Body, false) {
							if cf := Callee(info, call); cf != nil && maint[cf.Origin()] != nil {
								usedMaint[cf.Origin()] = true
							}
						}
						okMsg := "followed by index maintenance on every successful path"
						if inline {
							okMsg += " (inline loop over the index storage)"
						} else if seenMaint != "" {
							okMsg += " (" + seenMaint + ")"
						}
						var ps []string
						if path != nil {
							ps = c.P.DescribePath(path)
						}
						report("position-change", x.Pos(), path == nil, okMsg, "rows change position in "+p.partField+" and a successful exit is reachable without index maintenance: the index rows keep pointing at the old positions", ps...)
					}
				}
			}
			return true
		})
	})

	// ---- M ------------------------------------------------------------------------------
	var ms []*types.Func
	for fn := range usedMaint {
		ms = append(ms, fn)
	}
	sort.Slice(ms, func(i, j int) bool { return ms[i].Pos() < ms[j].Pos() })
	for _, fn := range ms {
		fd := maint[fn]
		name := DeclName(fd)
		why := "no `for … range <table>." + p.defField + "` loop containing the index-storage store"
		ast.Inspect(fd.Body, func(n ast.Node) bool {
			rs, ok := n.(*ast.RangeStmt)
			if !ok || !isFieldSel(rs.X, defF) {
				return true
			}
			stores := false
			skip := ""
			ast.Inspect(rs.Body, func(m ast.Node) bool {
				switch y := m.(type) {
				case *ast.AssignStmt:
					for _, l := range y.Lhs {
						if ix, ok := ast.Unparen(l).(*ast.IndexExpr); ok && isFieldSel(ix.X, idxF) {
							stores = true
						}
					}
				case *ast.BranchStmt:
					// break / continue of an inner loop are fine; those that target the range loop are not
					if y.Tok == token.CONTINUE || y.Tok == token.BREAK {
						inner := false
						ast.Inspect(rs.Body, func(k ast.Node) bool {
							switch lp := k.(type) {
							case *ast.ForStmt:
								if lp.Body.Pos() <= y.Pos() && y.End() <= lp.Body.End() {
									inner = true
								}
							case *ast.RangeStmt:
								if lp.Body.Pos() <= y.Pos() && y.End() <= lp.Body.End() {
									inner = true
								}
							case *ast.SwitchStmt:
								if y.Tok == token.BREAK && lp.Body.Pos() <= y.Pos() && y.End() <= lp.Body.End() {
									inner = true
								}
							}
							return true
						})
						if !inner {
							skip = y.Tok.String()
						}
					}
				}
				return true
			})
			switch {
			case !stores:
			case skip != "":
				why = "the loop over " + p.defField + " contains `" + skip + "`: some indexes are skipped"
			default:
				why = ""
			}
			return true
		})
		if why == "" {
			c.Ok("C16-M", name+"/all-indexes", fd.Pos(), "ranges over every index definition")
		} else {
			c.Bad("C16-M", name+"/all-indexes", fd.Pos(), name+": "+why)
		}
	}
	if len(ms) == 0 {
		c.Undecided("C16-M", "maintenance-functions", 0, "no maintenance function is used after a position change")
	}

	// ---- A ------------------------------------------------------------------------------
	_, copyFd := c.P.FuncDecl(p.rel, p.structName+"."+p.copyMethod)
	deep := map[string]bool{}
	if copyFd == nil {
		c.Undecided("C16-A", p.structName+"."+p.copyMethod, 0, "snapshot function not found")
		return
	}
	for _, it := range []struct {
		f    *types.Var
		name string
	}{{idxF, "index"}, {partF, "partition"}} {
		state := "not copied at all (the map itself is shared)"
		ast.Inspect(copyFd.Body, func(n ast.Node) bool {
			rs, ok := n.(*ast.RangeStmt)
			if !ok || !isFieldSel(rs.X, it.f) {
				return true
			}
			shallow, deepCopy := false, false
			for _, call := range dmlCallsIn(rs.Body, true) {
				if IsBuiltinCall(info, call, "copy") {
					shallow = true
				}
				if fn := Callee(info, call); fn != nil && fn.Name() == "Copy" {
					if sig := fn.Type().(*types.Signature); sig.Recv() != nil && types.Identical(sig.Recv().Type(), rowT) {
						deepCopy = true
					}
				}
			}
			switch {
			case deepCopy && !shallow:
				state = ""
			case shallow:
				state = "copied with the builtin copy(): the slice is new, the rows are shared"
			default:
				state = "re-assigned without copying the rows"
			}
			return true
		})
		deep[it.name] = state == ""
		if state == "" {
			c.Ok("C16-A", p.structName+"."+p.copyMethod+"/"+it.name+"-rows", copyFd.Pos(), "rows are copied one by one (Row.Copy)")
		} else {
			c.Note("C16-A", p.structName+"."+p.copyMethod+"/"+it.name+"-rows", copyFd.Pos(), it.name+" rows in the snapshot are "+state+"; in-place writes to such rows are therefore violations")
		}
	}
	nSites := 0
	c.P.EachFuncDecl([]string{p.rel}, func(_ *packages.Package, fd *ast.FuncDecl) {
		name := DeclName(fd)
		reported := map[string]bool{}
		ast.Inspect(fd.Body, func(n ast.Node) bool {
			as, ok := n.(*ast.AssignStmt)
			if !ok {
				return true
			}
			for _, l := range as.Lhs {
				ix, ok := ast.Unparen(l).(*ast.IndexExpr)
				if !ok || !isT(ix.X, rowT) {
					continue
				}
				for _, it := range []struct {
					t    types.Type
					name string
				}{{idxT, "index"}, {partT, "partition"}} {
					if !fromFieldOfType(fd, ix.X, it.t, 0) {
						continue
					}
					key := name + "/in-place " + it.name + " row"
					if reported[key] {
						continue
					}
					reported[key] = true
					nSites++
					if deep[it.name] {
						c.Ok("C16-A", key, as.Pos(), "the snapshot function copies these rows, an in-place write stays private")
					} else {
						c.Bad("C16-A", key, as.Pos(), fmt.Sprintf("%s writes a cell of an %s row in place (`%s`), but %s.%s shares these rows with the statement snapshot: when the statement is discarded the restored table rows and the already rewritten row locations disagree, and index lookups return other rows than a scan", name, it.name, types.ExprString(l), p.structName, p.copyMethod))
					}
				}
			}
			return true
		})
	})
	if nSites == 0 {
		c.Ok("C16-A", "no-in-place-row-writes", copyFd.Pos(), "no row of the index storage or of the partitions is modified in place")
	}
	_ = strings.TrimSpace
}

// c16SameLengthRebuild recognises
//
//	for k, p := range X.partitions { newP := make([]Row, len(p)); for i, row := range p { …; newP[i] = … }; X.partitions[k] = newP }
//
// i.e. the assigned slice was made with the length of the ranged partition and the key is the range key.
func c16SameLengthRebuild(info *types.Info, fd *ast.FuncDecl, as *ast.AssignStmt, ix *ast.IndexExpr, rhs ast.Expr, partT types.Type) bool {
	if rhs == nil {
		return false
	}
	var loop *ast.RangeStmt
	ast.Inspect(fd.Body, func(n ast.Node) bool {
		if rs, ok := n.(*ast.RangeStmt); ok && rs.Body.Pos() <= as.Pos() && as.End() <= rs.Body.End() {
			if t := info.TypeOf(rs.X); t != nil && types.Identical(t, partT) {
				loop = rs
			}
		}
		return true
	})
	if loop == nil {
		return false
	}
	kid, ok1 := loop.Key.(*ast.Ident)
	vid, ok2 := loop.Value.(*ast.Ident)
	if !ok1 || !ok2 {
		return false
	}
	if id, ok := ast.Unparen(ix.Index).(*ast.Ident); !ok || info.Uses[id] != info.Defs[kid] {
		return false
	}
	nid, ok := ast.Unparen(rhs).(*ast.Ident)
	if !ok {
		return false
	}
	nobj := info.Uses[nid]
	// newP := make([]Row, len(p))
	madeWithLen := false
	grows := false
	ast.Inspect(loop.Body, func(n ast.Node) bool {
		a, ok := n.(*ast.AssignStmt)
		if !ok {
			return true
		}
		for i, l := range a.Lhs {
			id, ok := l.(*ast.Ident)
			if !ok || i >= len(a.Rhs) {
				continue
			}
			o := info.Defs[id]
			if o == nil {
				o = info.Uses[id]
			}
			if o != nobj {
				continue
			}
			call, ok := ast.Unparen(a.Rhs[i]).(*ast.CallExpr)
			if !ok {
				grows = true
				continue
			}
			if IsBuiltinCall(info, call, "make") && len(call.Args) == 2 {
				if lc, ok := ast.Unparen(call.Args[1]).(*ast.CallExpr); ok && IsBuiltinCall(info, lc, "len") && len(lc.Args) == 1 {
					if pid, ok := ast.Unparen(lc.Args[0]).(*ast.Ident); ok && info.Uses[pid] == info.Defs[vid] {
						madeWithLen = true
						continue
					}
				}
			}
			grows = true // append / anything else may change the length
		}
		return true
	})
	return madeWithLen && !grows
}
