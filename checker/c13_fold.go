package main

import (
	"fmt"
	"go/ast"
	"go/constant"
	"go/token"
	"go/types"
	"sort"
	"strings"
)

// c13 fold: a forking finite-domain fold of the row-count handlers and of the function that
// chooses them. Nothing from /repo is executed: the syntax of a (small) function is folded over
// an abstraction of its inputs -
//
//	rows     a row is {single | double} wide; a double row has an old and a new half, the old half is
//	         either all NULL or (NULL, value) and the halves are equal / different (per table for a join row);
//	counters integer fields of the handler are concrete (they start at 0, as in the literal that builds it);
//	flags    boolean fields are concrete when the scenario fixes them, otherwise unknown;
//	unknown  a condition on an unknown value forks the fold: BOTH branches are followed, and the rule
//	         requires every branch to end in the same counts (so a condition that does not matter to the
//	         counts - a nil check of a callback, a "first row" flag - does not disturb the table).
//
// Any construct outside the subset makes the fold fail and the table entry is reported as not
// readable (never a pass).

type c13V any // constant.Value | c13Nil | c13Unk | c13Row | c13TabMap | c13Key | c13Ref | c13Len

type c13Nil struct{}
type c13Unk struct {
	nonNil bool
	tag    string
}
type c13RowDesc struct {
	double bool
	oldNil bool  // old half is all NULL
	rel    []int // per table (one entry for a single-table row): 0 old==new, 1 old!=new
}
type c13Row struct {
	d     *c13RowDesc
	half  int // -1 whole row, 0 old half, 1 new half
	table int // -1: all tables
}
type c13TabMap struct {
	d    *c13RowDesc
	half int
}
type c13Key struct{ i int }
type c13Ref struct{ i int }   // index into the state's object table
type c13Len struct{ n int64 } // a value of which only len() is known (a schema)

const c13Width = 2 // columns per table row in the abstraction

type c13Obj struct {
	typ    types.Type // the struct type (named, not the pointer)
	fields map[string]c13V
}

type c13St struct {
	vars map[types.Object]c13V
	objs []*c13Obj
}

func (s *c13St) clone() *c13St {
	n := &c13St{vars: make(map[types.Object]c13V, len(s.vars)), objs: make([]*c13Obj, len(s.objs))}
	for k, v := range s.vars {
		n.vars[k] = v
	}
	for i, o := range s.objs {
		f := make(map[string]c13V, len(o.fields))
		for k, v := range o.fields {
			f[k] = v
		}
		n.objs[i] = &c13Obj{typ: o.typ, fields: f}
	}
	return n
}

type c13Ctl int

const (
	c13Normal c13Ctl = iota
	c13Return
	c13Break
	c13Continue
)

type c13Out struct {
	st   *c13St
	ctl  c13Ctl
	vals []c13V
}

type c13Fail struct{ s string }

type c13Ev struct {
	p        *Prog
	rowT     *types.Named // the row type (slice of values)
	schemaT  *types.Named // the schema type (only its length is tracked)
	okT      *types.Named // the result struct: functions returning it are inlined
	dispatch *types.Func  // the handler-choosing function (a recursive call is "delegated or nil")
	tables   int          // abstract tables of a join row
	steps    int
	depth    int
}

func (e *c13Ev) fail(n ast.Node, format string, a ...any) {
	panic(c13Fail{fmt.Sprintf(format, a...) + " at " + e.p.Rel(n.Pos())})
}

// newObj builds a struct value with every field at its zero value.
func (e *c13Ev) newObj(st *c13St, t types.Type) c13Ref {
	o := &c13Obj{typ: t, fields: map[string]c13V{}}
	if s, ok := t.Underlying().(*types.Struct); ok {
		for i := 0; i < s.NumFields(); i++ {
			o.fields[s.Field(i).Name()] = e.zero(s.Field(i).Type())
		}
	}
	st.objs = append(st.objs, o)
	return c13Ref{len(st.objs) - 1}
}

func (e *c13Ev) zero(t types.Type) c13V {
	switch u := t.Underlying().(type) {
	case *types.Basic:
		switch {
		case u.Info()&types.IsBoolean != 0:
			return constant.MakeBool(false)
		case u.Info()&types.IsInteger != 0:
			return constant.MakeInt64(0)
		case u.Info()&types.IsString != 0:
			return constant.MakeString("")
		}
	case *types.Interface, *types.Pointer, *types.Slice, *types.Map, *types.Signature, *types.Chan:
		return c13Nil{}
	}
	return c13Unk{tag: "zero"}
}

// ---- statements ------------------------------------------------------------------------------

func (e *c13Ev) block(info *types.Info, list []ast.Stmt, st *c13St) []c13Out {
	cur := []*c13St{st}
	var outs []c13Out
	for _, s := range list {
		var next []*c13St
		for _, c := range cur {
			for _, o := range e.stmt(info, s, c) {
				if o.ctl == c13Normal {
					next = append(next, o.st)
				} else {
					outs = append(outs, o)
				}
			}
		}
		cur = next
		if len(cur) == 0 {
			break
		}
	}
	for _, c := range cur {
		outs = append(outs, c13Out{st: c})
	}
	return outs
}

func c13One(st *c13St) []c13Out { return []c13Out{{st: st}} }

func (e *c13Ev) stmt(info *types.Info, s ast.Stmt, st *c13St) []c13Out {
	e.steps++
	if e.steps > 200000 {
		e.fail(s, "step budget exceeded")
	}
	switch s := s.(type) {
	case *ast.BlockStmt:
		return e.block(info, s.List, st)
	case *ast.EmptyStmt:
		return c13One(st)
	case *ast.ExprStmt:
		call, ok := ast.Unparen(s.X).(*ast.CallExpr)
		if !ok {
			e.fail(s, "unsupported expression statement")
		}
		var outs []c13Out
		for _, r := range e.call(info, call, st) {
			outs = append(outs, c13Out{st: r.st})
		}
		return outs
	case *ast.ReturnStmt:
		if len(s.Results) == 1 {
			if call, ok := ast.Unparen(s.Results[0]).(*ast.CallExpr); ok {
				var outs []c13Out
				for _, r := range e.call(info, call, st) {
					outs = append(outs, c13Out{st: r.st, ctl: c13Return, vals: r.vals})
				}
				return outs
			}
		}
		var vals []c13V
		for _, r := range s.Results {
			vals = append(vals, e.expr(info, r, st))
		}
		return []c13Out{{st: st, ctl: c13Return, vals: vals}}
	case *ast.DeclStmt:
		gd, ok := s.Decl.(*ast.GenDecl)
		if !ok || gd.Tok != token.VAR {
			e.fail(s, "unsupported declaration")
		}
		for _, sp := range gd.Specs {
			vs := sp.(*ast.ValueSpec)
			for i, n := range vs.Names {
				o := info.Defs[n]
				if i < len(vs.Values) {
					st.vars[o] = e.expr(info, vs.Values[i], st)
				} else {
					st.vars[o] = e.zero(o.Type())
				}
			}
		}
		return c13One(st)
	case *ast.IncDecStmt:
		cur := e.expr(info, s.X, st)
		cv, ok := cur.(constant.Value)
		if !ok || cv.Kind() != constant.Int {
			e.fail(s, "counter outside the abstraction")
		}
		d := int64(1)
		if s.Tok == token.DEC {
			d = -1
		}
		e.store(info, s.X, constant.BinaryOp(cv, token.ADD, constant.MakeInt64(d)), st, false)
		return c13One(st)
	case *ast.AssignStmt:
		return e.assign(info, s, st)
	case *ast.IfStmt:
		starts := []*c13St{st}
		if s.Init != nil {
			starts = nil
			for _, o := range e.stmt(info, s.Init, st) {
				if o.ctl != c13Normal {
					e.fail(s, "if-init leaves the statement")
				}
				starts = append(starts, o.st)
			}
		}
		var outs []c13Out
		for _, c := range starts {
			t := e.cond(info, s.Cond, c)
			if t >= 0 { // true or unknown
				b := c
				if t == 0 {
					b = c.clone()
				}
				outs = append(outs, e.block(info, s.Body.List, b)...)
			}
			if t <= 0 { // false or unknown
				if s.Else != nil {
					outs = append(outs, e.stmt(info, s.Else, c)...)
				} else {
					outs = append(outs, c13Out{st: c})
				}
			}
		}
		return outs
	case *ast.ForStmt:
		starts := []*c13St{st}
		if s.Init != nil {
			starts = nil
			for _, o := range e.stmt(info, s.Init, st) {
				starts = append(starts, o.st)
			}
		}
		var outs []c13Out
		cur := starts
		for iter := 0; len(cur) > 0; iter++ {
			if iter > 64 {
				e.fail(s, "loop does not terminate within the abstraction's bound")
			}
			var next []*c13St
			for _, c := range cur {
				if s.Cond != nil {
					switch e.cond(info, s.Cond, c) {
					case -1:
						outs = append(outs, c13Out{st: c})
						continue
					case 0:
						e.fail(s, "loop condition is not decided by the abstraction")
					}
				} else {
					e.fail(s, "unbounded loop")
				}
				for _, o := range e.block(info, s.Body.List, c) {
					switch o.ctl {
					case c13Break:
						outs = append(outs, c13Out{st: o.st})
					case c13Return:
						outs = append(outs, o)
					default:
						if s.Post != nil {
							for _, po := range e.stmt(info, s.Post, o.st) {
								next = append(next, po.st)
							}
						} else {
							next = append(next, o.st)
						}
					}
				}
			}
			cur = next
		}
		return outs
	case *ast.RangeStmt:
		tv := info.Types[s.X]
		if _, isMap := tv.Type.Underlying().(*types.Map); !isMap {
			e.fail(s, "range over a non-map is outside the abstraction")
		}
		if _, isTab := e.expr(info, s.X, st).(c13TabMap); isTab {
			e.fail(s, "range over the per-table row map")
		}
		cur := []*c13St{st}
		var outs []c13Out
		for k := 0; k < e.tables; k++ {
			var next []*c13St
			for _, c := range cur {
				for j, x := range []ast.Expr{s.Key, s.Value} {
					id, _ := x.(*ast.Ident)
					if x == nil || (id != nil && id.Name == "_") {
						continue
					}
					if id == nil {
						e.fail(s, "range assigns to a non-identifier")
					}
					var v c13V = c13Key{k}
					if j == 1 {
						v = c13Unk{nonNil: true, tag: "map value"}
					}
					if o := info.Defs[id]; o != nil {
						c.vars[o] = v
					} else if o := info.Uses[id]; o != nil {
						c.vars[o] = v
					}
				}
				for _, o := range e.block(info, s.Body.List, c) {
					switch o.ctl {
					case c13Break:
						outs = append(outs, c13Out{st: o.st})
					case c13Return:
						outs = append(outs, o)
					default:
						next = append(next, o.st)
					}
				}
			}
			cur = next
		}
		for _, c := range cur {
			outs = append(outs, c13Out{st: c})
		}
		return outs
	case *ast.BranchStmt:
		if s.Label != nil {
			e.fail(s, "labelled branch")
		}
		switch s.Tok {
		case token.BREAK:
			return []c13Out{{st: st, ctl: c13Break}}
		case token.CONTINUE:
			return []c13Out{{st: st, ctl: c13Continue}}
		}
		e.fail(s, "unsupported branch")
	case *ast.SwitchStmt:
		if s.Init != nil || s.Tag != nil {
			e.fail(s, "switch with init/tag is outside the abstraction")
		}
		// tagless switch = if/else-if chain
		var outs []c13Out
		cur := []*c13St{st}
		var deflt *ast.CaseClause
		for _, cs := range s.Body.List {
			cc := cs.(*ast.CaseClause)
			if cc.List == nil {
				deflt = cc
				continue
			}
			if len(cc.List) != 1 {
				e.fail(cc, "multi-expression case")
			}
			var next []*c13St
			for _, c := range cur {
				t := e.cond(info, cc.List[0], c)
				if t >= 0 {
					b := c
					if t == 0 {
						b = c.clone()
					}
					outs = append(outs, e.switchBody(info, cc.Body, b)...)
				}
				if t <= 0 {
					next = append(next, c)
				}
			}
			cur = next
		}
		for _, c := range cur {
			if deflt != nil {
				outs = append(outs, e.switchBody(info, deflt.Body, c)...)
			} else {
				outs = append(outs, c13Out{st: c})
			}
		}
		return outs
	case *ast.TypeSwitchStmt:
		return e.typeSwitch(info, s, st)
	}
	e.fail(s, "unsupported statement %T", s)
	return nil
}

func (e *c13Ev) switchBody(info *types.Info, body []ast.Stmt, st *c13St) []c13Out {
	outs := e.block(info, body, st)
	for i := range outs {
		if outs[i].ctl == c13Break {
			outs[i].ctl = c13Normal
		}
	}
	return outs
}

func (e *c13Ev) typeSwitch(info *types.Info, s *ast.TypeSwitchStmt, st *c13St) []c13Out {
	if s.Init != nil {
		e.fail(s, "type switch with init")
	}
	var x ast.Expr
	bound := false
	switch a := s.Assign.(type) {
	case *ast.ExprStmt:
		x = a.X.(*ast.TypeAssertExpr).X
	case *ast.AssignStmt:
		x = a.Rhs[0].(*ast.TypeAssertExpr).X
		bound = true
	}
	v := e.expr(info, x, st)
	var dyn types.Type
	switch r := v.(type) {
	case c13Ref:
		dyn = types.NewPointer(st.objs[r.i].typ)
	case c13Nil:
	default:
		e.fail(s, "type switch on a value whose dynamic type the abstraction does not track")
	}
	var chosen, deflt *ast.CaseClause
outer:
	for _, cs := range s.Body.List {
		cc := cs.(*ast.CaseClause)
		if cc.List == nil {
			deflt = cc
			continue
		}
		for _, tx := range cc.List {
			if isNilIdent(info, tx) {
				if dyn == nil {
					chosen = cc
					break outer
				}
				continue
			}
			t := info.Types[tx].Type
			if dyn == nil {
				continue
			}
			if types.Identical(dyn, t) {
				chosen = cc
				break outer
			}
			if it, ok := t.Underlying().(*types.Interface); ok && types.Implements(dyn, it) {
				chosen = cc
				break outer
			}
		}
	}
	if chosen == nil {
		chosen = deflt
	}
	if chosen == nil {
		return c13One(st)
	}
	if bound {
		if o := info.Implicits[chosen]; o != nil {
			st.vars[o] = v
		}
	}
	return e.switchBody(info, chosen.Body, st)
}

// store writes v to an identifier or to a field of a tracked struct value.
func (e *c13Ev) store(info *types.Info, target ast.Expr, v c13V, st *c13St, define bool) {
	switch t := ast.Unparen(target).(type) {
	case *ast.Ident:
		if t.Name == "_" {
			return
		}
		if define {
			if o := info.Defs[t]; o != nil {
				st.vars[o] = v
				return
			}
		}
		if o := info.Uses[t]; o != nil {
			st.vars[o] = v
			return
		}
		e.fail(t, "assignment to unresolved identifier %s", t.Name)
	case *ast.SelectorExpr:
		base := e.expr(info, t.X, st)
		if r, ok := base.(c13Ref); ok {
			st.objs[r.i].fields[t.Sel.Name] = v
			return
		}
		e.fail(t, "store through a value the abstraction does not track")
	default:
		e.fail(target, "unsupported assignment target")
	}
}

func (e *c13Ev) assign(info *types.Info, s *ast.AssignStmt, st *c13St) []c13Out {
	define := s.Tok == token.DEFINE
	if len(s.Rhs) == 1 && len(s.Lhs) > 1 {
		switch r := ast.Unparen(s.Rhs[0]).(type) {
		case *ast.CallExpr:
			var outs []c13Out
			for _, cr := range e.call(info, r, st) {
				if len(cr.vals) != len(s.Lhs) {
					e.fail(s, "assignment arity mismatch")
				}
				for i, l := range s.Lhs {
					e.store(info, l, cr.vals[i], cr.st, define)
				}
				outs = append(outs, c13Out{st: cr.st})
			}
			return outs
		case *ast.TypeAssertExpr:
			v := e.expr(info, r.X, st)
			want := info.Types[r.Type].Type
			switch x := v.(type) {
			case c13Ref:
				ok := types.Identical(types.NewPointer(st.objs[x.i].typ), want)
				if ok {
					e.store(info, s.Lhs[0], v, st, define)
				} else {
					e.store(info, s.Lhs[0], e.zero(want), st, define)
				}
				e.store(info, s.Lhs[1], constant.MakeBool(ok), st, define)
			case c13Nil:
				e.store(info, s.Lhs[0], e.zero(want), st, define)
				e.store(info, s.Lhs[1], constant.MakeBool(false), st, define)
			default:
				e.store(info, s.Lhs[0], c13Unk{tag: "asserted"}, st, define)
				e.store(info, s.Lhs[1], c13Unk{tag: "assertion ok"}, st, define)
			}
			return c13One(st)
		case *ast.IndexExpr:
			e.store(info, s.Lhs[0], e.expr(info, r, st), st, define)
			e.store(info, s.Lhs[1], c13Unk{tag: "present"}, st, define)
			return c13One(st)
		}
		e.fail(s, "unsupported multi-value assignment")
	}
	if len(s.Lhs) != len(s.Rhs) {
		e.fail(s, "assignment arity mismatch")
	}
	if len(s.Rhs) == 1 {
		if call, ok := ast.Unparen(s.Rhs[0]).(*ast.CallExpr); ok && (s.Tok == token.DEFINE || s.Tok == token.ASSIGN) {
			var outs []c13Out
			for _, cr := range e.call(info, call, st) {
				if len(cr.vals) != 1 {
					e.fail(s, "call used as a single value")
				}
				e.store(info, s.Lhs[0], cr.vals[0], cr.st, define)
				outs = append(outs, c13Out{st: cr.st})
			}
			return outs
		}
	}
	vals := make([]c13V, len(s.Rhs))
	for i, r := range s.Rhs {
		vals[i] = e.expr(info, r, st)
	}
	for i, l := range s.Lhs {
		v := vals[i]
		if s.Tok != token.DEFINE && s.Tok != token.ASSIGN {
			op, ok := map[token.Token]token.Token{token.ADD_ASSIGN: token.ADD, token.SUB_ASSIGN: token.SUB, token.MUL_ASSIGN: token.MUL}[s.Tok]
			cur, isC := e.expr(info, l, st).(constant.Value)
			rv, isR := v.(constant.Value)
			if !ok || !isC || !isR || cur.Kind() != constant.Int || rv.Kind() != constant.Int {
				e.fail(s, "compound assignment outside the abstraction")
			}
			v = constant.BinaryOp(cur, op, rv)
		}
		e.store(info, l, v, st, define)
	}
	return c13One(st)
}

// ---- expressions -------------------------------------------------------------------------------

// cond folds a condition: +1 true, -1 false, 0 unknown (the caller follows both branches).
func (e *c13Ev) cond(info *types.Info, x ast.Expr, st *c13St) int {
	v := e.expr(info, x, st)
	if cv, ok := v.(constant.Value); ok && cv.Kind() == constant.Bool {
		if constant.BoolVal(cv) {
			return 1
		}
		return -1
	}
	if _, ok := v.(c13Unk); ok {
		return 0
	}
	e.fail(x, "condition does not fold to a truth value (%s)", types.ExprString(x))
	return 0
}

func c13Tri(t int) c13V {
	switch t {
	case 1:
		return constant.MakeBool(true)
	case -1:
		return constant.MakeBool(false)
	}
	return c13Unk{tag: "bool"}
}

// equal: +1 equal, -1 different, 0 unknown
func (e *c13Ev) equal(at ast.Node, a, b c13V) int {
	ca, ok1 := a.(constant.Value)
	cb, ok2 := b.(constant.Value)
	if ok1 && ok2 {
		if constant.Compare(ca, token.EQL, cb) {
			return 1
		}
		return -1
	}
	isNil := func(v c13V) bool { _, ok := v.(c13Nil); return ok }
	nonNil := func(v c13V) bool {
		switch x := v.(type) {
		case c13Ref, c13Row, c13TabMap, c13Len, constant.Value:
			return true
		case c13Unk:
			return x.nonNil
		}
		return false
	}
	switch {
	case isNil(a) && isNil(b):
		return 1
	case isNil(a) && nonNil(b), isNil(b) && nonNil(a):
		return -1
	}
	if ra, ok := a.(c13Ref); ok {
		if rb, ok := b.(c13Ref); ok {
			if ra.i == rb.i {
				return 1
			}
			return -1
		}
	}
	if _, ok := a.(c13Unk); ok {
		return 0
	}
	if _, ok := b.(c13Unk); ok {
		return 0
	}
	e.fail(at, "comparison outside the abstraction")
	return 0
}

func (e *c13Ev) expr(info *types.Info, x ast.Expr, st *c13St) c13V {
	if tv, ok := info.Types[x]; ok && tv.Value != nil {
		return tv.Value
	}
	switch x := x.(type) {
	case *ast.ParenExpr:
		return e.expr(info, x.X, st)
	case *ast.Ident:
		o := info.Uses[x]
		if o == nil {
			o = info.Defs[x]
		}
		if _, isNil := o.(*types.Nil); isNil {
			return c13Nil{}
		}
		if v, ok := st.vars[o]; ok {
			return v
		}
		if c, ok := o.(*types.Const); ok {
			return c.Val()
		}
		if _, ok := o.(*types.Var); ok {
			return c13Unk{tag: x.Name}
		}
		if _, ok := o.(*types.Func); ok {
			return c13Unk{nonNil: true, tag: x.Name}
		}
		e.fail(x, "identifier %s is outside the abstraction", x.Name)
	case *ast.UnaryExpr:
		switch x.Op {
		case token.AND:
			return e.expr(info, x.X, st)
		case token.NOT:
			return c13Tri(-e.cond(info, x.X, st))
		}
		v, ok := e.expr(info, x.X, st).(constant.Value)
		if !ok {
			e.fail(x, "unary operator on a non-constant")
		}
		return constant.UnaryOp(x.Op, v, 0)
	case *ast.StarExpr:
		return e.expr(info, x.X, st)
	case *ast.BinaryExpr:
		switch x.Op {
		case token.LAND:
			l := e.cond(info, x.X, st)
			if l == -1 {
				return c13Tri(-1)
			}
			r := e.cond(info, x.Y, st)
			if r == -1 {
				return c13Tri(-1)
			}
			if l == 1 && r == 1 {
				return c13Tri(1)
			}
			return c13Tri(0)
		case token.LOR:
			l := e.cond(info, x.X, st)
			if l == 1 {
				return c13Tri(1)
			}
			r := e.cond(info, x.Y, st)
			if r == 1 {
				return c13Tri(1)
			}
			if l == -1 && r == -1 {
				return c13Tri(-1)
			}
			return c13Tri(0)
		}
		l, r := e.expr(info, x.X, st), e.expr(info, x.Y, st)
		switch x.Op {
		case token.EQL:
			return c13Tri(e.equal(x, l, r))
		case token.NEQ:
			return c13Tri(-e.equal(x, l, r))
		}
		cl, ok1 := l.(constant.Value)
		cr, ok2 := r.(constant.Value)
		if !ok1 || !ok2 {
			if _, u := l.(c13Unk); u {
				return c13Unk{tag: "arith"}
			}
			if _, u := r.(c13Unk); u {
				return c13Unk{tag: "arith"}
			}
			e.fail(x, "binary operator outside the abstraction")
		}
		switch x.Op {
		case token.LSS, token.LEQ, token.GTR, token.GEQ:
			return constant.MakeBool(constant.Compare(cl, x.Op, cr))
		case token.QUO:
			if cl.Kind() == constant.Int && cr.Kind() == constant.Int {
				if constant.Sign(cr) == 0 {
					e.fail(x, "division by zero")
				}
				return constant.BinaryOp(cl, token.QUO_ASSIGN, cr) // integer division
			}
		}
		return constant.BinaryOp(cl, x.Op, cr)
	case *ast.SelectorExpr:
		if id := identOf(x.X); id != nil {
			if _, isPkg := info.Uses[id].(*types.PkgName); isPkg {
				if c, ok := info.Uses[x.Sel].(*types.Const); ok {
					return c.Val()
				}
				return c13Unk{tag: types.ExprString(x)}
			}
		}
		base := e.expr(info, x.X, st)
		switch b := base.(type) {
		case c13Ref:
			if v, ok := st.objs[b.i].fields[x.Sel.Name]; ok {
				return v
			}
			if sel := info.Selections[x]; sel != nil && sel.Kind() == types.MethodVal {
				return c13Unk{nonNil: true, tag: "method value"}
			}
			e.fail(x, "field %s is outside the abstraction", x.Sel.Name)
		case c13Unk:
			return c13Unk{tag: types.ExprString(x)}
		}
		e.fail(x, "selection on a value the abstraction does not track")
	case *ast.CompositeLit:
		tv := info.Types[x]
		named := dmlNamedOf(tv.Type)
		if named == nil {
			return c13Unk{nonNil: true, tag: "literal"}
		}
		sT, isStruct := named.Underlying().(*types.Struct)
		if !isStruct {
			return c13Unk{nonNil: true, tag: "literal"}
		}
		ref := e.newObj(st, named)
		for i, el := range x.Elts {
			if kv, ok := el.(*ast.KeyValueExpr); ok {
				if id, ok := kv.Key.(*ast.Ident); ok {
					st.objs[ref.i].fields[id.Name] = e.expr(info, kv.Value, st)
				}
			} else if i < sT.NumFields() {
				st.objs[ref.i].fields[sT.Field(i).Name()] = e.expr(info, el, st)
			}
		}
		return ref
	case *ast.TypeAssertExpr:
		return e.expr(info, x.X, st)
	case *ast.FuncLit:
		return c13Unk{nonNil: true, tag: "func"}
	case *ast.SliceExpr:
		base, ok := e.expr(info, x.X, st).(c13Row)
		if !ok || base.half != -1 || !base.d.double || x.Slice3 {
			e.fail(x, "slice expression outside the abstraction")
		}
		bound := func(b ast.Expr) int64 {
			v, ok := e.expr(info, b, st).(constant.Value)
			if !ok || v.Kind() != constant.Int {
				e.fail(x, "slice bound is not a known integer")
			}
			n, _ := constant.Int64Val(v)
			return n
		}
		half := e.rowLen(base) / 2
		switch {
		case x.Low == nil && x.High != nil && bound(x.High) == half:
			return c13Row{d: base.d, half: 0, table: -1}
		case x.High == nil && x.Low != nil && bound(x.Low) == half:
			return c13Row{d: base.d, half: 1, table: -1}
		}
		e.fail(x, "slice does not cut the row into its halves")
	case *ast.IndexExpr:
		base := e.expr(info, x.X, st)
		switch b := base.(type) {
		case c13Row:
			iv, ok := e.expr(info, x.Index, st).(constant.Value)
			if !ok || iv.Kind() != constant.Int {
				e.fail(x, "row index is not a known integer")
			}
			i, _ := constant.Int64Val(iv)
			if i < 0 || i >= e.rowLen(b) {
				e.fail(x, "row index %d out of range", i)
			}
			// old half of a double row: all NULL, or (NULL, value, value …); everything else holds values
			inOld := b.d.double && (b.half == 0 || (b.half == -1 && i < e.rowLen(b)/2))
			if inOld && (b.d.oldNil || i%c13Width == 0) {
				return c13Nil{}
			}
			return c13Unk{nonNil: true, tag: "column value"}
		case c13TabMap:
			k, ok := e.expr(info, x.Index, st).(c13Key)
			if !ok {
				e.fail(x, "per-table row map indexed by something that is not a table key of the loop")
			}
			return c13Row{d: b.d, half: b.half, table: k.i}
		case c13Unk, c13Nil: // an untracked map / slice (indexing a nil map yields the zero value)
			return c13Unk{tag: "element"}
		}
		e.fail(x, "index expression outside the abstraction")
	case *ast.CallExpr:
		rs := e.call(info, x, st)
		if len(rs) != 1 || rs[0].st != st {
			e.fail(x, "a call that forks is nested in an expression")
		}
		if len(rs[0].vals) != 1 {
			e.fail(x, "call used as a single value returns %d values", len(rs[0].vals))
		}
		return rs[0].vals[0]
	}
	e.fail(x, "unsupported expression %T", x)
	return nil
}

func (e *c13Ev) rowLen(r c13Row) int64 {
	n := int64(c13Width)
	if len(r.d.rel) > 1 && r.table == -1 {
		n *= int64(len(r.d.rel))
	}
	if r.d.double && r.half == -1 {
		n *= 2
	}
	return n
}

// ---- calls -------------------------------------------------------------------------------------

type c13CallRes struct {
	st   *c13St
	vals []c13V
}

func (e *c13Ev) call(info *types.Info, call *ast.CallExpr, st *c13St) []c13CallRes {
	one := func(vals ...c13V) []c13CallRes { return []c13CallRes{{st: st, vals: vals}} }
	// conversion
	if tv, ok := info.Types[call.Fun]; ok && tv.IsType() && len(call.Args) == 1 {
		return one(e.expr(info, call.Args[0], st))
	}
	if IsBuiltinCall(info, call, "len") && len(call.Args) == 1 {
		switch v := e.expr(info, call.Args[0], st).(type) {
		case c13Row:
			return one(constant.MakeInt64(e.rowLen(v)))
		case c13Len:
			return one(constant.MakeInt64(v.n))
		}
		return one(c13Unk{tag: "len"})
	}
	if IsBuiltinCall(info, call, "panic") {
		e.fail(call, "panic")
	}
	fn := Callee(info, call)
	var recv c13V
	hasRecv := false
	if sel, ok := ast.Unparen(call.Fun).(*ast.SelectorExpr); ok {
		if s := info.Selections[sel]; s != nil && s.Kind() == types.MethodVal {
			recv = e.expr(info, sel.X, st)
			hasRecv = true
		}
	}
	args := make([]c13V, len(call.Args))
	for i, a := range call.Args {
		args[i] = e.expr(info, a, st)
	}
	sig, _ := info.Types[call.Fun].Type.(*types.Signature)
	unknown := func() []c13CallRes {
		// a call the abstraction gives no meaning to must not be able to reach a tracked struct value
		for _, a := range append([]c13V{recv}, args...) {
			if _, isRef := a.(c13Ref); isRef {
				e.fail(call, "tracked value escapes into %s", types.ExprString(call.Fun))
			}
		}
		var vals []c13V
		if sig != nil {
			for i := 0; i < sig.Results().Len(); i++ {
				vals = append(vals, c13Unk{tag: "result of " + types.ExprString(call.Fun)})
			}
		}
		return one(vals...)
	}
	if fn == nil {
		return unknown() // call of a function value
	}
	fsig := fn.Type().(*types.Signature)
	// the handler-choosing function calling itself: either no handler or a delegated one
	if e.dispatch != nil && fn == e.dispatch {
		other := st.clone()
		return []c13CallRes{{st: st, vals: []c13V{c13Nil{}}}, {st: other, vals: []c13V{c13Unk{nonNil: true, tag: "delegated"}}}}
	}
	// Row.Equals(ctx, other, schema): the relation of the two abstract rows
	if hasRecv && e.rowT != nil && fsig.Recv() != nil && dmlNamedOf(fsig.Recv().Type()) == e.rowT &&
		fsig.Results().Len() == 2 && IsErrorType(fsig.Results().At(1).Type()) {
		a, okA := recv.(c13Row)
		var b c13Row
		okB := false
		for _, x := range args {
			if r, isRow := x.(c13Row); isRow {
				b, okB = r, true
			}
		}
		if !okA || !okB || a.d != b.d || a.table != b.table || a.half == -1 || b.half == -1 {
			e.fail(call, "row comparison between values that are not the halves of one row")
		}
		if !a.d.double {
			e.fail(call, "row comparison on a single-width row")
		}
		eq := true
		if a.half != b.half {
			for k, r := range a.d.rel {
				if (a.table == -1 || a.table == k) && r != 0 {
					eq = false
				}
			}
		}
		return one(constant.MakeBool(eq), c13Nil{})
	}
	// a function that splits a half of a join row into per-table rows: (Row, Schema) -> map[…]Row
	if e.rowT != nil && fsig.Results().Len() == 1 {
		if m, isMap := fsig.Results().At(0).Type().Underlying().(*types.Map); isMap && dmlNamedOf(m.Elem()) == e.rowT {
			for _, x := range args {
				if r, isRow := x.(c13Row); isRow && r.half != -1 && r.table == -1 {
					return one(c13TabMap{d: r.d, half: r.half})
				}
			}
		}
	}
	// inline: methods of a tracked struct value, and functions that build the result struct
	inline := false
	if _, isRef := recv.(c13Ref); isRef && hasRecv {
		inline = true
	}
	if e.okT != nil && fsig.Results().Len() == 1 && dmlNamedOf(fsig.Results().At(0).Type()) == e.okT && fsig.Recv() == nil {
		inline = true
	}
	fd := e.p.Decl(fn)
	if !inline || fd == nil || fd.Body == nil {
		return unknown()
	}
	if e.depth > 6 {
		e.fail(call, "inlining too deep")
	}
	pk := e.p.PkgOf(fn)
	cinfo := pk.TypesInfo
	if ro := dmlRecvObj(cinfo, fd); ro != nil {
		st.vars[ro] = recv
	}
	i := 0
	for _, fl := range fd.Type.Params.List {
		for _, n := range fl.Names {
			if o := cinfo.Defs[n]; o != nil && i < len(args) {
				st.vars[o] = args[i]
			}
			i++
		}
		if len(fl.Names) == 0 {
			i++
		}
	}
	if fd.Type.Results != nil {
		for _, f := range fd.Type.Results.List {
			for _, n := range f.Names {
				if o := cinfo.Defs[n]; o != nil {
					st.vars[o] = e.zero(o.Type())
				}
			}
		}
	}
	e.depth++
	outs := e.block(cinfo, fd.Body.List, st)
	e.depth--
	var res []c13CallRes
	for _, o := range outs {
		switch o.ctl {
		case c13Return:
			vals := o.vals
			if len(vals) == 0 && fd.Type.Results != nil { // bare return with named results
				for _, f := range fd.Type.Results.List {
					for _, n := range f.Names {
						vals = append(vals, o.st.vars[cinfo.Defs[n]])
					}
				}
			}
			res = append(res, c13CallRes{st: o.st, vals: vals})
		case c13Normal:
			res = append(res, c13CallRes{st: o.st})
		default:
			e.fail(call, "break/continue leaves %s", fn.Name())
		}
	}
	return res
}

// runMethod folds one method of the struct value ref on every state of sts; args are bound by position.
func (e *c13Ev) runMethod(fd *ast.FuncDecl, info *types.Info, recv c13Ref, sts []*c13St, arg func(t types.Type) c13V) (outs []c13CallRes, err error) {
	defer func() {
		if r := recover(); r != nil {
			if f, ok := r.(c13Fail); ok {
				err = fmt.Errorf("%s", f.s)
				return
			}
			panic(r)
		}
	}()
	for _, st := range sts {
		if ro := dmlRecvObj(info, fd); ro != nil {
			st.vars[ro] = recv
		}
		for _, fl := range fd.Type.Params.List {
			for _, n := range fl.Names {
				if o := info.Defs[n]; o != nil {
					st.vars[o] = arg(o.Type())
				}
			}
		}
		if fd.Type.Results != nil {
			for _, f := range fd.Type.Results.List {
				for _, n := range f.Names {
					if o := info.Defs[n]; o != nil {
						st.vars[o] = e.zero(o.Type())
					}
				}
			}
		}
		for _, o := range e.block(info, fd.Body.List, st) {
			switch o.ctl {
			case c13Return, c13Normal:
				outs = append(outs, c13CallRes{st: o.st, vals: o.vals})
			default:
				return nil, fmt.Errorf("break/continue leaves %s", fd.Name.Name)
			}
		}
	}
	return outs, nil
}

func c13Show(v c13V) string {
	switch x := v.(type) {
	case nil:
		return "<none>"
	case constant.Value:
		return x.ExactString()
	case c13Nil:
		return "nil"
	case c13Unk:
		return "?" + x.tag
	case c13Ref:
		return fmt.Sprintf("obj#%d", x.i)
	}
	return fmt.Sprintf("%T", v)
}

func c13SortedKeys[V any](m map[string]V) []string {
	var ks []string
	for k := range m {
		ks = append(ks, k)
	}
	sort.Strings(ks)
	return ks
}

var _ = strings.Join
