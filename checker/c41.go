package main

import (
	"fmt"
	"go/ast"
	"go/token"
	"go/types"
	"sort"
	"strings"

	"golang.org/x/tools/go/packages"
)

func init() {
	register(&Property{
		ID:       "C41",
		Patterns: []string{"./sql/mysql_db"},
		Technique: "writer/reader table extraction over go/types (flatbuffer Add* calls vs accessor selections) + intra-procedural may-depend closure pairing struct fields with serialized fields; " +
			"for the privilege-set tree: collection fields read from the struct declarations, transitive field-use closure per receiver/parameter, and finite evaluation (one boolean per collection) of " +
			"emptiness predicates, child filters and guarded deletes; access-path summaries of accessor methods; key-normaliser agreement per map field",
		Explanation: "Accounts, roles and grants are persisted by MySQLDb.Persist (serialize* functions filling flatbuffer tables of package serial) and " +
			"reloaded by MySQLDb.LoadData (Load*/load* functions building the in-memory structs). Decided: (F1) for every field F of every flatbuffer table T of " +
			"package serial, F is written on the Persist side iff its accessor is used on the LoadData side; (F2) the pairing between in-memory struct fields " +
			"and serialized fields is the same in both directions: the writer stores S.f into T.F iff the loader's composite literal of S fills f from T.F " +
			"(so a field that is stored but not restored, restored from another field, or two swapped fields are reported). " +
			"Container coverage of the privilege-set tree (the struct types reachable from PrivilegeSet through its map/slice fields; a level's collections are its map/slice fields): " +
			"(P1a) every emptiness predicate (the nullary bool method all tree types define: HasPrivileges) is true whenever any collection of its level holds something; " +
			"(P1b) every filter applied to a child while children are enumerated (getDatabases/GetTables/..., the mysql.db/tables_priv/procs_priv row producers, the arms of the predicates) keeps " +
			"each child that holds something in a collection the guarded code consumes - the whole child when it is passed on; (P1c) a child entry is deleted from its parent's map " +
			"only under a test that covers all of the child's collections; (P2a) every collection of every level is paired with a serialized field by the writer and by the loader; " +
			"(P2b) union, equality and copy methods use every collection of the receiver and of the parameter; (P2c) the clear methods empty every collection or their callers drop the entry; " +
			"(P3) AddX and RemoveX of one level operate on the same leaf collection (access paths through the accessor methods); " +
			"(P4) all functions that index or delete in one map collection derive the key through the normaliser the storing functions use (strings.ToLower). " +
			"A violated instance means some part of the access-control state is different after a reload, or a grant/revoke is not reflected exactly.",
		NotCovered: "value encodings inside one field (timestamps as Unix seconds, JSON attributes, privilege ids as int32), element order inside parallel flatbuffer vectors, the legacy JSON loader, " +
			"fields that are deliberately not persisted (listed as info: IsSuperUser is persisted through the separate SuperUser vector, IsEphemeral users are never persisted), " +
			"and OverwriteUsersAndGrantData (reported as info only: it documents that it restores users and grants only). For the tree clauses: that a predicate body outside the if/range/return shape " +
			"computes a disjunction (only its read coverage is decided then), filters whose condition mixes an emptiness test with other terms or sits in an else-chain (info), the precision of " +
			"Equals beyond 'looks at every collection', the keys under which the loader re-inserts children (shown harmless: every copy re-keys through getUseable*), " +
			"which privilege ids are legal at which level, and the GRANT/REVOKE plan nodes that call these methods (C39)",
		Run: func(c *Ctx) {
			pairs := runC41(c, "sql/mysql_db", "sql/mysql_db/serial", "MySQLDb.Persist", "MySQLDb.LoadData", 45, 41)
			runC41Tree(c, "sql/mysql_db", "PrivilegeSet", pairs, c41tFloors{p1a: 10, p1b: 11, p1c: 1, p2a: 10, p2b: 23, p2c: 4, p3: 6, p4: 14})
		},
		Fixture: func(c *Ctx, fx *Prog) {
			expectFixture(c, fx, "c41: unread field, unwritten field and swapped fields must be reported",
				[]string{
					"C41-F1:Edge.Admin", "C41-F1:Edge.Note",
					"C41-F2:Edge.Admin<->serial.Edge.Admin",
					"C41-F2:Edge.From<->serial.Edge.From", "C41-F2:Edge.From<->serial.Edge.To",
					"C41-F2:Edge.To<->serial.Edge.From", "C41-F2:Edge.To<->serial.Edge.To",
					"C41-F2:Edge.Note<->serial.Edge.Note",
				},
				func(fc *Ctx) {
					runC41(fc, "testdata/c41/db", "testdata/c41/db/serial", "Store.Persist", "Store.LoadData", 0, 0)
				})
			expectFixture(c, fx, "c41 tree: a predicate, a child filter, the writer+loader, a union, a copy, a reset, a guarded delete and a remove that each forget a collection, and a delete with an un-normalised key, must be reported",
				[]string{
					"C41-P1a:Set.NonEmpty:global", "C41-P1a:Set.NonEmpty:named", "C41-P1a:DbSet.NonEmpty:procs",
					"C41-P1b:Set.NonEmpty:DbSet", "C41-P1b:Set.list:DbSet",
					"C41-P1c:Set.RemoveDb:delete DbSet",
					"C41-P2a:DbSet.procs", "C41-P2a:ProcSet.privs",
					"C41-P2b:Set.Clone:named", "C41-P2b:DbSet.union:procs",
					"C41-P2c:DbSet.clear",
					"C41-P3:Set.AddTab/RemoveTab",
					"C41-P4:Set.RemoveProc:DbSet.procs",
				},
				func(fc *Ctx) {
					pairs := runC41(fc, "testdata/c41/tree", "testdata/c41/tree/serial", "Store.Persist", "Store.LoadData", 0, 0)
					runC41Tree(fc, "testdata/c41/tree", "Set", pairs, c41tFloors{})
				})
		},
		FixturePkgs: []string{"./testdata/c41/db", "./testdata/c41/db/serial", "./testdata/c41/tree", "./testdata/c41/tree/serial"},
	})
}

type c41Table struct {
	name   string
	named  *types.Named
	fields []string               // from T+"Add"+F builder functions
	add    map[string]*types.Func // F -> TAddF
	acc    map[string]*types.Func // F -> (*T).F
}

// c41Tables reads the flatbuffer schema from the generated package: a table is a named struct type T
// with package functions TStart and TEnd; its fields are the functions TAdd<F>; each must have an accessor method (*T).F.
func c41Tables(c *Ctx, sp *packages.Package) []*c41Table {
	scope := sp.Types.Scope()
	var tables []*c41Table
	for _, n := range scope.Names() {
		tn, ok := scope.Lookup(n).(*types.TypeName)
		if !ok {
			continue
		}
		nt, ok := tn.Type().(*types.Named)
		if !ok {
			continue
		}
		if _, isStruct := nt.Underlying().(*types.Struct); !isStruct {
			continue
		}
		if _, ok := scope.Lookup(n + "Start").(*types.Func); !ok {
			continue
		}
		if _, ok := scope.Lookup(n + "End").(*types.Func); !ok {
			continue
		}
		tables = append(tables, &c41Table{name: n, named: nt, add: map[string]*types.Func{}, acc: map[string]*types.Func{}})
	}
	// assign every XAddY function to the table with the longest matching name
	for _, n := range scope.Names() {
		fn, ok := scope.Lookup(n).(*types.Func)
		if !ok {
			continue
		}
		var best *c41Table
		for _, t := range tables {
			if strings.HasPrefix(n, t.name+"Add") && len(n) > len(t.name)+3 && (best == nil || len(t.name) > len(best.name)) {
				best = t
			}
		}
		if best == nil {
			continue
		}
		f := n[len(best.name)+3:]
		best.fields = append(best.fields, f)
		best.add[f] = fn
	}
	for _, t := range tables {
		sort.Strings(t.fields)
		for _, f := range t.fields {
			obj, _, _ := types.LookupFieldOrMethod(types.NewPointer(t.named), true, sp.Types, f)
			m, _ := obj.(*types.Func)
			if m == nil {
				c.Undecided("C41-F1", t.name+"."+f, t.add[f].Pos(), "builder function "+t.name+"Add"+f+" has no accessor method (*"+t.name+")."+f+": generated schema not readable")
				continue
			}
			t.acc[f] = m
		}
	}
	return tables
}

type c41Pair struct{ s, t string } // "Struct.field", "Table.Field"

// c41Pairs is the writer-side and the loader-side relation {(Struct.field, Table.Field)} computed by C41-F2.
type c41Pairs struct{ W, L map[c41Pair]token.Pos }

func runC41(c *Ctx, dbRel, serialRel, persistRoot, loadRoot string, floorF1, floorF2 int) *c41Pairs {
	c.Rule("C41-F1", "for every field F of every flatbuffer table T of package serial: TAddF is called by a function reachable from "+persistRoot+
		" iff the accessor (*T).F (or FBytes) is used by a function reachable from "+loadRoot, floorF1)
	c.Rule("C41-F2", "the writer stores struct field S.f into serialized field T.F (argument of TAddF may depend on S.f) iff the loader's composite literal of S fills f from an expression that may depend on accessor (*T).F", floorF2)
	db, sp := c.P.Pkg(dbRel), c.P.Pkg(serialRel)
	if db == nil || sp == nil {
		c.Undecided("C41-F1", "packages", 0, "anchor packages not loaded: "+dbRel+", "+serialRel)
		return nil
	}
	info := db.TypesInfo
	pRoot, lRoot := LookupFunc(db, persistRoot), LookupFunc(db, loadRoot)
	if pRoot == nil || lRoot == nil || c.P.Decl(pRoot) == nil || c.P.Decl(lRoot) == nil {
		c.Undecided("C41-F1", "roots", 0, "anchor functions not found: "+persistRoot+", "+loadRoot)
		return nil
	}
	tables := c41Tables(c, sp)
	if len(tables) == 0 {
		c.Undecided("C41-F1", "tables", 0, "no flatbuffer tables (type T with TStart/TEnd) found in "+serialRel)
		return nil
	}
	addOf := map[*types.Func][2]string{} // TAddF -> (T, F)
	accOf := map[*types.Func][2]string{} // any accessor-like method of T -> (T, F), exact accessors only
	lenOf := map[*types.Func][2]string{} // FLength (counted for dependence, not for "read")
	tableOfType := map[*types.TypeName]*c41Table{}
	for _, t := range tables {
		tableOfType[t.named.Obj()] = t
		for f, fn := range t.add {
			addOf[fn] = [2]string{t.name, f}
		}
		for f, m := range t.acc {
			accOf[m] = [2]string{t.name, f}
			for _, suf := range []string{"Bytes", "Length"} {
				obj, _, _ := types.LookupFieldOrMethod(types.NewPointer(t.named), true, sp.Types, f+suf)
				if m2, ok := obj.(*types.Func); ok {
					if _, clash := t.acc[f+suf]; clash {
						continue
					}
					if suf == "Bytes" {
						accOf[m2] = [2]string{t.name, f}
					} else {
						lenOf[m2] = [2]string{t.name, f}
					}
				}
			}
		}
	}

	writers := lfLocalCallees(c.P, db.Types, info, pRoot)
	loaders := lfLocalCallees(c.P, db.Types, info, lRoot)
	c.Notef("functions reachable from %s: %d, from %s: %d; tables: %d", persistRoot, len(writers), loadRoot, len(loaders), len(tables))

	// ---- F1: written iff read -------------------------------------------------------------
	written := map[[2]string]token.Pos{}
	read := map[[2]string]token.Pos{}
	for _, fn := range writers {
		ast.Inspect(c.P.Decl(fn).Body, func(n ast.Node) bool {
			if call, ok := n.(*ast.CallExpr); ok {
				if k, ok := addOf[originOf(Callee(info, call))]; ok {
					if _, dup := written[k]; !dup {
						written[k] = call.Pos()
					}
				}
			}
			return true
		})
	}
	for _, fn := range loaders {
		ast.Inspect(c.P.Decl(fn).Body, func(n ast.Node) bool {
			if sel, ok := n.(*ast.SelectorExpr); ok {
				if s := info.Selections[sel]; s != nil {
					if m, ok := s.Obj().(*types.Func); ok {
						if k, ok := accOf[m.Origin()]; ok {
							if _, dup := read[k]; !dup {
								read[k] = sel.Pos()
							}
						}
					}
				}
			}
			return true
		})
	}
	for _, t := range tables {
		for _, f := range t.fields {
			k := [2]string{t.name, f}
			w, wok := written[k]
			r, rok := read[k]
			key := t.name + "." + f
			switch {
			case wok && rok:
				c.Ok("C41-F1", key, r, "written at "+c.P.Rel(w)+", read at "+c.P.Rel(r))
			case wok && !rok:
				c.Bad("C41-F1", key, w, fmt.Sprintf("serialized field %s.%s is written (%sAdd%s at %s) but its accessor (*serial.%s).%s is never used on the %s side: the value is lost on reload",
					t.name, f, t.name, f, c.P.Rel(w), t.name, f, loadRoot))
			case !wok && rok:
				c.Bad("C41-F1", key, r, fmt.Sprintf("serialized field %s.%s is read at %s but %sAdd%s is never called on the %s side: the loader always sees the flatbuffer default",
					t.name, f, c.P.Rel(r), t.name, f, persistRoot))
			default:
				c.Note("C41-F1", "unused/"+key, t.add[f].Pos(), "schema field neither written nor read")
			}
		}
	}

	// ---- F2: pairing of struct fields and serialized fields ---------------------------------
	isDBStruct := func(t types.Type) *types.Named {
		if p, ok := types.Unalias(t).(*types.Pointer); ok {
			t = p.Elem()
		}
		nt, ok := types.Unalias(t).(*types.Named)
		if !ok || nt.Obj().Pkg() != db.Types {
			return nil
		}
		if _, ok := nt.Underlying().(*types.Struct); !ok {
			return nil
		}
		return nt
	}
	// fields of the receiver's struct that a method reads through its receiver (transitively through methods called on the receiver)
	methodReads := map[*types.Func][]string{}
	var readsOf func(m *types.Func, depth int) []string
	readsOf = func(m *types.Func, depth int) []string {
		m = m.Origin()
		if r, ok := methodReads[m]; ok {
			return r
		}
		methodReads[m] = nil
		fd := c.P.Decl(m)
		if fd == nil || fd.Body == nil || fd.Recv == nil || len(fd.Recv.List) == 0 || len(fd.Recv.List[0].Names) == 0 || depth > 6 {
			return nil
		}
		recv := info.Defs[fd.Recv.List[0].Names[0]]
		set := map[string]bool{}
		ast.Inspect(fd.Body, func(n ast.Node) bool {
			sel, ok := n.(*ast.SelectorExpr)
			if !ok {
				return true
			}
			id, ok := ast.Unparen(sel.X).(*ast.Ident)
			if !ok || info.Uses[id] != recv {
				return true
			}
			if s := info.Selections[sel]; s != nil {
				switch o := s.Obj().(type) {
				case *types.Var:
					if s.Kind() == types.FieldVal {
						set[o.Name()] = true
					}
				case *types.Func:
					for _, f := range readsOf(o, depth+1) {
						set[f] = true
					}
				}
			}
			return true
		})
		var out []string
		for f := range set {
			out = append(out, f)
		}
		sort.Strings(out)
		methodReads[m] = out
		return out
	}

	pairsW := map[c41Pair]token.Pos{}
	pairsL := map[c41Pair]token.Pos{}
	for _, fn := range writers {
		fd := c.P.Decl(fn)
		var d *lfDeps
		ast.Inspect(fd.Body, func(n ast.Node) bool {
			call, ok := n.(*ast.CallExpr)
			if !ok {
				return true
			}
			k, ok := addOf[originOf(Callee(info, call))]
			if !ok || len(call.Args) < 2 {
				return true
			}
			if d == nil {
				d = lfBuild(info, fd.Body, nil)
			}
			d.Reach(call.Args[len(call.Args)-1], func(m ast.Node) {
				sel, ok := m.(*ast.SelectorExpr)
				if !ok {
					return
				}
				s := info.Selections[sel]
				if s == nil {
					return
				}
				nt := isDBStruct(s.Recv())
				if nt == nil {
					return
				}
				switch o := s.Obj().(type) {
				case *types.Var:
					if s.Kind() == types.FieldVal {
						p := c41Pair{nt.Obj().Name() + "." + o.Name(), k[0] + "." + k[1]}
						if _, dup := pairsW[p]; !dup {
							pairsW[p] = call.Pos()
						}
					}
				case *types.Func:
					for _, f := range readsOf(o, 0) {
						p := c41Pair{nt.Obj().Name() + "." + f, k[0] + "." + k[1]}
						if _, dup := pairsW[p]; !dup {
							pairsW[p] = call.Pos()
						}
					}
				}
			})
			return true
		})
	}
	// loader side: composite literals of db structs in functions that use serial accessors
	outParam := func(call *ast.CallExpr) []ast.Expr {
		fn := Callee(info, call)
		if fn == nil {
			return nil
		}
		if _, ok := accOf[fn.Origin()]; !ok {
			return nil
		}
		var out []ast.Expr
		for _, a := range call.Args {
			if tv, ok := info.Types[a]; ok {
				if p, ok := types.Unalias(tv.Type).(*types.Pointer); ok {
					if nt, ok := types.Unalias(p.Elem()).(*types.Named); ok && tableOfType[nt.Obj()] != nil {
						out = append(out, a)
					}
				}
			}
		}
		return out
	}
	litStructs := map[string]bool{}
	for _, fn := range loaders {
		fd := c.P.Decl(fn)
		usesSerial := false
		ast.Inspect(fd.Body, func(n ast.Node) bool {
			if sel, ok := n.(*ast.SelectorExpr); ok {
				if s := info.Selections[sel]; s != nil {
					if m, ok := s.Obj().(*types.Func); ok {
						if _, ok := accOf[m.Origin()]; ok {
							usesSerial = true
						}
					}
				}
			}
			return !usesSerial
		})
		if !usesSerial {
			continue
		}
		d := lfBuild(info, fd.Body, outParam)
		ast.Inspect(fd.Body, func(n ast.Node) bool {
			lit, ok := n.(*ast.CompositeLit)
			if !ok {
				return true
			}
			nt := isDBStruct(info.Types[lit].Type)
			if nt == nil {
				return true
			}
			st := nt.Underlying().(*types.Struct)
			litStructs[nt.Obj().Name()] = true
			for i, el := range lit.Elts {
				var fname string
				var val ast.Expr
				if kv, ok := el.(*ast.KeyValueExpr); ok {
					id, ok := kv.Key.(*ast.Ident)
					if !ok {
						continue
					}
					fname, val = id.Name, kv.Value
				} else if i < st.NumFields() {
					fname, val = st.Field(i).Name(), el
				} else {
					continue
				}
				d.Reach(val, func(m ast.Node) {
					sel, ok := m.(*ast.SelectorExpr)
					if !ok {
						return
					}
					s := info.Selections[sel]
					if s == nil {
						return
					}
					mm, ok := s.Obj().(*types.Func)
					if !ok {
						return
					}
					k, ok := accOf[mm.Origin()]
					if !ok {
						if k, ok = lenOf[mm.Origin()]; !ok {
							return
						}
					}
					p := c41Pair{nt.Obj().Name() + "." + fname, k[0] + "." + k[1]}
					if _, dup := pairsL[p]; !dup {
						pairsL[p] = val.Pos()
					}
				})
			}
			return true
		})
	}
	// only structs the writer persists are paired: helper structs the loader derives from loaded values
	// (map keys such as routineKey) have no writer side and are not part of the persisted state
	persisted := map[string]bool{}
	all := map[c41Pair]bool{}
	for p := range pairsW {
		all[p] = true
		persisted[p.s[:strings.Index(p.s, ".")]] = true
	}
	for p := range pairsL {
		if persisted[p.s[:strings.Index(p.s, ".")]] {
			all[p] = true
		}
	}
	var keys []c41Pair
	for p := range all {
		keys = append(keys, p)
	}
	sort.Slice(keys, func(i, j int) bool {
		if keys[i].s != keys[j].s {
			return keys[i].s < keys[j].s
		}
		return keys[i].t < keys[j].t
	})
	describe := func(m map[c41Pair]token.Pos, s string, byStruct bool) string {
		var out []string
		for p := range m {
			if byStruct && p.s == s {
				out = append(out, "serial."+p.t)
			} else if !byStruct && p.t == s {
				out = append(out, p.s)
			}
		}
		sort.Strings(out)
		if len(out) == 0 {
			return "nothing"
		}
		return strings.Join(out, ", ")
	}
	for _, p := range keys {
		w, wok := pairsW[p]
		l, lok := pairsL[p]
		key := p.s + "<->serial." + p.t
		switch {
		case wok && lok:
			c.Ok("C41-F2", key, l, "stored at "+c.P.Rel(w)+", restored at "+c.P.Rel(l))
		case wok:
			c.Bad("C41-F2", key, w, fmt.Sprintf("the writer stores %s into serial.%s (at %s) but the loader's literal fills %s from %s: the field does not survive a reload",
				p.s, p.t, c.P.Rel(w), p.s, describe(pairsL, p.s, true)))
		default:
			c.Bad("C41-F2", key, l, fmt.Sprintf("the loader fills %s from serial.%s (at %s) but the writer stores %s into that field: the reloaded field holds a different value",
				p.s, p.t, c.P.Rel(l), describe(pairsW, p.t, false)))
		}
	}
	// information: struct fields of the loaded structs that are neither stored nor restored
	var names []string
	for s := range litStructs {
		if persisted[s] {
			names = append(names, s)
		}
	}
	sort.Strings(names)
	for _, s := range names {
		tn, _ := db.Types.Scope().Lookup(s).(*types.TypeName)
		if tn == nil {
			continue
		}
		st := tn.Type().Underlying().(*types.Struct)
		for i := 0; i < st.NumFields(); i++ {
			f := s + "." + st.Field(i).Name()
			used := false
			for p := range all {
				if p.s == f {
					used = true
				}
			}
			if !used {
				c.Note("C41-F2", "not-persisted/"+f, st.Field(i).Pos(), "struct field is neither stored by the writer nor restored by the loader (not an obligation)")
			}
		}
	}
	return &c41Pairs{W: pairsW, L: pairsL}
}

func originOf(fn *types.Func) *types.Func {
	if fn == nil {
		return nil
	}
	return fn.Origin()
}
