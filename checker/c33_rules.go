package main

import (
	"fmt"
	"go/ast"
	"go/types"
	"sort"
	"strings"

	"golang.org/x/tools/go/ssa"
)

// ---------------------------------------------------------------------------------------
// G1: one compiler

func (e *c33) eachInstr(fns []*ssa.Function, f func(fn *ssa.Function, in ssa.Instruction)) {
	for _, fn := range fns {
		for _, b := range fn.Blocks {
			for _, in := range b.Instrs {
				f(fn, in)
			}
		}
	}
}

func c33Strip(v ssa.Value) ssa.Value {
	for {
		switch x := v.(type) {
		case *ssa.ChangeInterface:
			v = x.X
		case *ssa.MakeInterface:
			if _, ok := x.X.Type().Underlying().(*types.Interface); ok {
				v = x.X
				continue
			}
			return v
		default:
			return v
		}
	}
}

func (e *c33) ruleG1() {
	c := e.c
	type storeRec struct {
		fn     *ssa.Function
		st     *ssa.Store
		fam    *c33Fam
		helper *ssa.Function
	}
	var viaHelper []storeRec
	votes := map[*ssa.Function]int{}
	e.eachInstr(e.funcs, func(fn *ssa.Function, in ssa.Instruction) {
		st, ok := in.(*ssa.Store)
		if !ok {
			return
		}
		_, fld, nt, ok := c33FieldAddr(st.Addr)
		if !ok {
			return
		}
		fam := e.famOf[nt]
		if fam == nil || fld != fam.reField {
			return
		}
		val := c33Strip(st.Val)
		base := e.fnName(fn) + "/" + fld.Name() + " <- "
		if c33IsNilConst(val) {
			c.Ok("C33-G1", base+"nil", st.Pos(), "matcher field reset to nil")
			return
		}
		if _, f2, nt2, ok := c33FieldLoad(val); ok && nt2 == nt && f2 == fld {
			c.Ok("C33-G1", base+"hand-over", st.Pos(), "matcher handed over from another node of the same type")
			return
		}
		if ex, ok := val.(*ssa.Extract); ok && ex.Index == 0 {
			if call, ok := ex.Tuple.(*ssa.Call); ok {
				if sf := c33StaticFn(call.Common()); sf != nil && sf.Pkg != nil && sf.Pkg.Pkg == e.pk.Types {
					viaHelper = append(viaHelper, storeRec{fn, st, fam, sf})
					votes[sf]++
					return
				}
			}
		}
		if call, ok := val.(*ssa.Call); ok {
			if sf := c33StaticFn(call.Common()); sf != nil && sf.Pkg != nil && sf.Pkg.Pkg == e.pk.Types {
				viaHelper = append(viaHelper, storeRec{fn, st, fam, sf})
				votes[sf]++
				return
			}
		}
		c.Bad("C33-G1", base+"other", st.Pos(), fmt.Sprintf("%s stores %s into the matcher field %s.%s: not the result of the package's compile helper, not a hand-over from a sibling node, not nil - this node's matcher is built another way than its siblings'",
			e.fnName(fn), c33Describe(val), fam.tn.Name(), fld.Name()))
	})
	// the compile helper: the function most stores agree on
	var best *ssa.Function
	for f, n := range votes {
		if best == nil || n > votes[best] || n == votes[best] && f.Name() < best.Name() {
			best = f
		}
	}
	if best == nil {
		c.Undecided("C33-G1", "compile helper", 0, "no store into a matcher field takes the result of a package function")
		return
	}
	e.H = best
	for _, r := range viaHelper {
		key := e.fnName(r.fn) + "/" + r.fam.reField.Name() + " <- " + r.helper.Name()
		if r.helper == e.H {
			c.Ok("C33-G1", key, r.st.Pos(), "matcher compiled by "+e.H.Name())
		} else {
			c.Bad("C33-G1", key, r.st.Pos(), fmt.Sprintf("%s compiles its matcher with %s while the siblings use %s: pattern, flags and collation are no longer interpreted by one piece of code",
				e.fnName(r.fn), r.helper.Name(), e.H.Name()))
		}
	}
	// who may construct a matcher
	ctor := func(fn *types.Func) bool {
		if fn == nil || fn.Pkg() == nil {
			return false
		}
		sig, _ := fn.Type().(*types.Signature)
		if sig == nil || sig.Recv() != nil || sig.Results().Len() == 0 {
			return false
		}
		return types.Identical(types.Unalias(sig.Results().At(0).Type()), e.regexT)
	}
	rp := c.P.Pkg(e.cfg.RegexRel)
	nctor := 0
	hobj, _ := e.H.Object().(*types.Func)
	for _, pk := range c.P.Module {
		if pk == rp {
			continue // the matcher package itself wraps the constructor
		}
		for _, file := range pk.Syntax {
			for _, d := range file.Decls {
				encl := "package initialiser of " + pk.Types.Name()
				var enclFn *types.Func
				if fd, ok := d.(*ast.FuncDecl); ok {
					enclFn, _ = pk.TypesInfo.Defs[fd.Name].(*types.Func)
					encl = DeclName(fd)
					if pk != e.pk {
						encl = pk.Types.Name() + "." + encl
					}
				}
				ast.Inspect(d, func(n ast.Node) bool {
					call, ok := n.(*ast.CallExpr)
					if !ok {
						return true
					}
					callee := Callee(pk.TypesInfo, call)
					if !ctor(callee) || callee.Pkg() == e.pk.Types {
						// package-local functions returning a matcher are helpers (checked as stores), not constructors
						return true
					}
					nctor++
					key := "construct: " + encl + " -> " + callee.Name()
					if enclFn != nil && enclFn == hobj {
						c.Ok("C33-G1", key, call.Pos(), "matcher constructed inside the compile helper")
					} else {
						c.Bad("C33-G1", key, call.Pos(), fmt.Sprintf("%s constructs a matcher with %s outside the compile helper %s: a second way to obtain a matcher, with its own reading of pattern and flags",
							encl, callee.Name(), e.H.Name()))
					}
					return true
				})
			}
		}
	}
	if nctor == 0 {
		c.Undecided("C33-G1", "construct", e.H.Pos(), "no call of a matcher constructor found in the loaded module")
	}
	e.helperRoles()
	if e.hPattern < 0 || e.hSubject < 0 {
		return
	}
	// arguments of H
	type site struct {
		fn    *ssa.Function
		call  *ssa.Call
		fam   *c33Fam
		roles map[string]*types.Var
	}
	var sites []site
	e.eachInstr(e.funcs, func(fn *ssa.Function, in ssa.Instruction) {
		call, ok := in.(*ssa.Call)
		if !ok || c33StaticFn(call.Common()) != e.H {
			return
		}
		fam := e.famOfFn(fn)
		key := e.fnName(fn) + "/" + e.H.Name() + " arguments"
		if fam == nil {
			c.Bad("C33-G1", key, c33Pos(in), e.fnName(fn)+" calls the compile helper but is not a method of a node that stores the matcher")
			return
		}
		roles := map[string]*types.Var{}
		recv := c33Recv(fn)
		bad := ""
		for role, idx := range map[string]int{"pattern": e.hPattern, "subject": e.hSubject, "match_type": e.hFlags} {
			if idx < 0 || idx >= len(call.Call.Args) {
				continue
			}
			a := c33Strip(call.Call.Args[idx])
			base, f, nt, ok := c33FieldLoad(a)
			if !ok || nt != fam.named || base != ssa.Value(recv) {
				bad += fmt.Sprintf("the %s parameter receives %s, not a field of the receiver; ", role, c33Describe(a))
				continue
			}
			roles[role] = f
		}
		if bad != "" {
			c.Bad("C33-G1", key, c33Pos(in), e.fnName(fn)+": "+bad+"the siblings pass their own argument expressions")
			return
		}
		sites = append(sites, site{fn, call, fam, roles})
	})
	// sibling agreement by field name (majority), identity inside a type
	for _, role := range []string{"pattern", "subject", "match_type"} {
		cnt := map[string]int{}
		for _, s := range sites {
			if f := s.roles[role]; f != nil {
				cnt[f.Name()]++
			}
		}
		maj := ""
		for n, k := range cnt {
			if maj == "" || k > cnt[maj] || k == cnt[maj] && n < maj {
				maj = n
			}
		}
		for _, s := range sites {
			f := s.roles[role]
			if f == nil {
				continue
			}
			key := e.fnName(s.fn) + "/" + e.H.Name() + " " + role
			msg := ""
			if f.Name() != maj {
				msg = fmt.Sprintf("%s passes field %s as the %s of %s, the siblings pass %s", e.fnName(s.fn), f.Name(), role, e.H.Name(), maj)
			}
			if role == "subject" {
				subj := e.subjectField(s.fam)
				if subj != nil && subj != f {
					msg = fmt.Sprintf("%s passes field %s as the collation subject of %s but the string matched in %s comes from field %s: case sensitivity is decided on another argument than the one matched",
						e.fnName(s.fn), f.Name(), e.H.Name(), e.cfg.EvalM, subj.Name())
				}
			}
			if role == "pattern" && s.roles["subject"] == f {
				msg = fmt.Sprintf("%s passes field %s both as pattern and as subject", e.fnName(s.fn), f.Name())
			}
			if msg != "" {
				c.Bad("C33-G1", key, c33Pos(s.call), msg)
			} else {
				c.Ok("C33-G1", key, c33Pos(s.call), role+" <- receiver field "+f.Name())
			}
		}
	}
}

// helperRoles finds which parameters of H are the pattern (its evaluated value reaches a string
// parameter of a matcher method), the match_type (its evaluated value reaches the string the
// flag loop ranges over) and the subject (the remaining expression parameter).
func (e *c33) helperRoles() {
	e.hPattern, e.hSubject, e.hFlags = -1, -1, -1
	idxOf := func(p *ssa.Parameter) int {
		for i, q := range e.H.Params {
			if q == p {
				return i
			}
		}
		return -1
	}
	hf := []*ssa.Function{e.H}
	hf = append(hf, e.H.AnonFuncs...)
	e.eachInstr(hf, func(fn *ssa.Function, in ssa.Instruction) {
		switch x := in.(type) {
		case *ssa.Call:
			m := e.regexMethod(x.Common())
			if m == nil {
				return
			}
			sig := m.Type().(*types.Signature)
			for j, a := range x.Call.Args {
				if j < sig.Params().Len() && c33IsString(sig.Params().At(j).Type()) {
					for _, o := range e.origins(a) {
						if o.kind == "eval-param" {
							e.hPattern = idxOf(o.param)
						}
					}
				}
			}
		case *ssa.Range:
			if c33IsString(x.X.Type()) {
				for _, o := range e.origins(x.X) {
					if o.kind == "eval-param" {
						e.hFlags = idxOf(o.param)
					}
				}
			}
		}
	})
	n := 0
	for i, p := range e.H.Params {
		if types.Identical(types.Unalias(p.Type()), e.exprT) && i != e.hPattern && i != e.hFlags {
			e.hSubject = i
			n++
		}
	}
	if e.hPattern < 0 || n != 1 {
		e.c.Undecided("C33-G1", e.H.Name()+" parameter roles", e.H.Pos(), fmt.Sprintf("cannot tell pattern / subject / match_type parameters of %s apart (pattern=%d, match_type=%d, %d other expression parameters)", e.H.Name(), e.hPattern, e.hFlags, n))
		e.hPattern, e.hSubject = -1, -1
	}
}

func c33IsString(t types.Type) bool {
	b, ok := t.Underlying().(*types.Basic)
	return ok && b.Info()&types.IsString != 0
}

func c33IsInt(t types.Type) bool {
	b, ok := types.Unalias(t).(*types.Basic) // unnamed integer types only: flag sets are named types
	return ok && b.Info()&types.IsInteger != 0
}

// subjectSetter: the matcher method whose parameters are (context, string) and whose only result is
// the error: it receives the string to match against.
func (e *c33) subjectSetter() *types.Func {
	var found *types.Func
	for i := 0; i < e.regexI.NumMethods(); i++ {
		m := e.regexI.Method(i)
		sig := m.Type().(*types.Signature)
		ns, other := 0, 0
		for j := 0; j < sig.Params().Len(); j++ {
			t := sig.Params().At(j).Type()
			switch {
			case c33IsString(t):
				ns++
			case c33IsContext(t):
			default:
				other++
			}
		}
		if ns == 1 && other == 0 && sig.Results().Len() == 1 && c33IsErr(sig.Results().At(0).Type()) {
			if found != nil {
				return nil
			}
			found = m
		}
	}
	return found
}

// subjectField: the receiver field whose evaluated value is the match string in the type's methods.
func (e *c33) subjectField(fam *c33Fam) *types.Var {
	if fam.subject != nil {
		return fam.subject
	}
	set := e.subjectSetter()
	if set == nil {
		return nil
	}
	e.eachInstr(e.funcs, func(fn *ssa.Function, in ssa.Instruction) {
		call, ok := in.(*ssa.Call)
		if !ok || e.famOfFn(fn) != fam || e.regexMethod(call.Common()) != set {
			return
		}
		sig := set.Type().(*types.Signature)
		for j, a := range call.Call.Args {
			if j < sig.Params().Len() && c33IsString(sig.Params().At(j).Type()) {
				for _, o := range e.origins(a) {
					if o.kind == "eval-field" {
						fam.subject = o.field
					}
				}
			}
		}
	})
	return fam.subject
}

// ---------------------------------------------------------------------------------------
// G2: error discipline

type c33SlotStore struct {
	fn   *ssa.Function
	st   *ssa.Store
	fam  *c33Fam
	slot *types.Var
	what string
}

func (e *c33) nonNilCtor(v ssa.Value) bool {
	v = c33Strip(v)
	if mi, ok := v.(*ssa.MakeInterface); ok {
		// a concrete error value converted to the interface (Kind.New returns *Error)
		v = mi.X
	}
	call, ok := v.(*ssa.Call)
	if !ok {
		return false
	}
	fn := c33Callee(call.Common())
	return fn != nil && e.errCtors[FullName(fn)]
}

// releaseMethod: a matcher method without parameters whose only result is the error (Close).
func c33IsRelease(m *types.Func) bool {
	sig := m.Type().(*types.Signature)
	return sig.Params().Len() == 0 && sig.Results().Len() == 1 && c33IsErr(sig.Results().At(0).Type())
}

func (e *c33) ruleG2() {
	c := e.c
	hf := append([]*ssa.Function{e.H}, e.H.AnonFuncs...)
	e.eachInstr(hf, func(fn *ssa.Function, in ssa.Instruction) {
		if cc := c33CallOf(in); cc != nil {
			if sf := c33StaticFn(cc); sf != nil && sf != e.H && sf.Pkg != nil && sf.Pkg.Pkg == e.pk.Types && sf.Parent() == nil && c33ErrIndex(sf.Signature) >= 0 {
				e.hHelpers[sf] = true
			}
		}
	})
	var slotStores []c33SlotStore
	e.eachInstr(e.funcs, func(fn *ssa.Function, in ssa.Instruction) {
		if !e.inScope(fn) {
			return
		}
		cc := c33CallOf(in)
		if cc == nil {
			return
		}
		what := ""
		var method *types.Func
		if m := e.regexMethod(cc); m != nil {
			if c33ErrIndex(m.Type().(*types.Signature)) < 0 {
				return
			}
			what, method = m.Name(), m
		} else if sf := c33StaticFn(cc); sf != nil && (sf == e.H || e.hHelpers[sf]) {
			what = sf.Name()
		} else {
			return
		}
		key := e.fnName(fn) + "/" + what
		pos := c33Pos(in)
		call, isCall := in.(*ssa.Call)
		var ev ssa.Value
		if isCall {
			ev = c33Extract(call, c33ErrIndex(cc.Signature()))
			if ev != nil && len(*ev.Referrers()) == 0 {
				ev = nil
			}
		}
		if ev == nil {
			// discarded
			outer := c33Outer(fn)
			switch {
			case method != nil && c33IsRelease(method) && fn.Parent() == nil && c33ErrIndex(outer.Signature) < 0 && isCall:
				c.Exc("C33-G2", key, pos, e.fnName(fn)+" has no error result (the interface method it implements cannot report): the release error of the matcher is dropped")
			case method != nil && c33IsRelease(method) && isCall && e.onErrorExit(fn, call):
				c.Ok("C33-G2", key, pos, "release error dropped on a path that returns another, non-nil error")
			default:
				c.Bad("C33-G2", key, pos, fmt.Sprintf("%s discards the error of %s: an invalid pattern / failed match is not reported to the caller of %s", e.fnName(fn), what, e.cfg.EvalM))
			}
			return
		}
		recv := c33Recv(fn)
		fam := e.famOfFn(fn)
		errIdx := c33ErrIndex(fn.Signature)
		w := &c33Walk{e: e, fn: fn}
		w.onInstr = func(in ssa.Instruction, st *c33State) (c33Act, string) {
			switch x := in.(type) {
			case *ssa.Store:
				if base, f, nt, ok := c33FieldAddr(x.Addr); ok && fam != nil && nt == fam.named && recv != nil && base == ssa.Value(recv) && c33IsErr(f.Type()) && st.isCar(x.Val) {
					fam.slots[f] = true
					slotStores = append(slotStores, c33SlotStore{fn, x, fam, f, what})
					return c33Done, ""
				}
			case *ssa.Return:
				if errIdx < 0 {
					return c33Bad, fmt.Sprintf("%s returns here without an error result while the error of %s is unexamined or non-nil", e.fnName(fn), what)
				}
				op := x.Results[errIdx]
				if st.isCar(op) || e.nonNilCtor(st.resolve(op)) {
					return c33Done, ""
				}
				return c33Bad, fmt.Sprintf("%s returns %s in the error position on a path where the error of %s is unexamined or non-nil: the failure does not reach the caller",
					e.fnName(fn), c33Describe(st.resolve(op)), what)
			}
			return c33Cont, ""
		}
		w.onIf = func(in *ssa.If, st *c33State) [2]bool {
			if x, nn, ok := c33NilTest(in.Cond); ok && st.isCar(x) {
				f := [2]bool{}
				f[nn] = true
				return f
			}
			return [2]bool{true, true}
		}
		idx := c33IndexOf(in)
		bad, path := w.run(in.Block(), idx+1, c33NewState(ev))
		if bad != "" {
			c.Bad("C33-G2", key, pos, bad, path...)
		} else {
			c.Ok("C33-G2", key, pos, "error of "+what+" returned or stored in the node's error field on every path")
		}
	})
	e.ruleSlots(slotStores)
}

func c33IndexOf(in ssa.Instruction) int {
	for i, x := range in.Block().Instrs {
		if x == in {
			return i
		}
	}
	return -1
}

// onErrorExit: every path from the call returns, in the error position, a value that is known
// non-nil there (the call's block is dominated by the non-nil edge of a nil test of it).
func (e *c33) onErrorExit(fn *ssa.Function, call *ssa.Call) bool {
	errIdx := c33ErrIndex(fn.Signature)
	if errIdx < 0 {
		return false
	}
	knownNonNil := func(v ssa.Value) bool {
		for _, b := range fn.Blocks {
			if len(b.Instrs) == 0 {
				continue
			}
			ifi, ok := b.Instrs[len(b.Instrs)-1].(*ssa.If)
			if !ok {
				continue
			}
			x, nn, ok := c33NilTest(ifi.Cond)
			if !ok || x != v {
				continue
			}
			s := b.Succs[nn]
			if len(s.Preds) == 1 && s.Dominates(call.Block()) {
				return true
			}
		}
		return false
	}
	w := &c33Walk{e: e, fn: fn}
	ok := true
	w.onInstr = func(in ssa.Instruction, st *c33State) (c33Act, string) {
		if r, isRet := in.(*ssa.Return); isRet {
			if !knownNonNil(st.resolve(r.Results[errIdx])) {
				ok = false
				return c33Bad, "returns a possibly nil error"
			}
			return c33Done, ""
		}
		return c33Cont, ""
	}
	bad, _ := w.run(call.Block(), c33IndexOf(call)+1, c33NewState())
	return ok && bad == ""
}

func (e *c33) ruleSlots(stores []c33SlotStore) {
	c := e.c
	// functions that store a slot, closed under "encloses such a closure"
	storers := map[*ssa.Function]map[*types.Var]bool{}
	mark := func(f *ssa.Function, slot *types.Var) {
		for ; f != nil; f = f.Parent() {
			if storers[f] == nil {
				storers[f] = map[*types.Var]bool{}
			}
			storers[f][slot] = true
		}
	}
	e.eachInstr(e.funcs, func(fn *ssa.Function, in ssa.Instruction) {
		if st, ok := in.(*ssa.Store); ok {
			if _, f, nt, ok := c33FieldAddr(st.Addr); ok {
				if fam := e.famOf[nt]; fam != nil && fam.slots[f] {
					mark(fn, f)
				}
			}
		}
	})
	// ... and under "calls a storer but cannot report": a function (or literal) without an error result
	// that calls a storer leaves the pending value to its own caller
	for changed := true; changed; {
		changed = false
		e.eachInstr(e.funcs, func(fn *ssa.Function, in ssa.Instruction) {
			cc := c33CallOf(in)
			if cc == nil || c33ErrIndex(fn.Signature) >= 0 {
				return
			}
			sf := c33StaticFn(cc)
			if sf == nil {
				return
			}
			for slot := range storers[sf] {
				if !storers[fn][slot] {
					mark(fn, slot)
					changed = true
				}
			}
		})
	}
	isSlotLoad := func(v ssa.Value, base ssa.Value, slot *types.Var) bool {
		b, f, _, ok := c33FieldLoad(v)
		return ok && f == slot && b == base
	}
	// (a) pending value not overwritten in the same function
	for _, s := range stores {
		s := s
		key := e.fnName(s.fn) + "/" + s.slot.Name() + " <- " + s.what
		base, _, _, _ := c33FieldAddr(s.st.Addr)
		w := &c33Walk{e: e, fn: s.fn}
		w.onInstr = func(in ssa.Instruction, st *c33State) (c33Act, string) {
			switch x := in.(type) {
			case *ssa.UnOp:
				if isSlotLoad(x, base, s.slot) {
					st.car[x] = true
				}
			case *ssa.Store:
				if b, f, _, ok := c33FieldAddr(x.Addr); ok && f == s.slot && b == base {
					return c33Bad, fmt.Sprintf("%s stores %s.%s again while the error of %s stored before may be pending (no nil test of the field in between): that error is lost",
						e.fnName(s.fn), s.fam.tn.Name(), s.slot.Name(), s.what)
				}
			case *ssa.Call:
				if sf := c33StaticFn(x.Common()); sf != nil && storers[sf][s.slot] {
					return c33Bad, fmt.Sprintf("%s calls %s, which stores %s.%s again, while the error of %s may be pending", e.fnName(s.fn), sf.Name(), s.fam.tn.Name(), s.slot.Name(), s.what)
				}
			}
			return c33Cont, ""
		}
		w.onIf = func(in *ssa.If, st *c33State) [2]bool {
			if x, nn, ok := c33NilTest(in.Cond); ok && st.isCar(x) {
				f := [2]bool{}
				f[nn] = true // the nil edge is discharged: nothing is pending there
				return f
			}
			return [2]bool{true, true}
		}
		bad, path := w.run(s.st.Block(), c33IndexOf(s.st)+1, c33NewState())
		if bad != "" {
			c.Bad("C33-G2s", key, s.st.Pos(), bad, path...)
		} else {
			c.Ok("C33-G2s", key, s.st.Pos(), "stored error stays pending until the function returns or is tested")
		}
	}
	// (b) callers examine the field
	e.eachInstr(e.funcs, func(fn *ssa.Function, in ssa.Instruction) {
		call, ok := in.(*ssa.Call)
		if !ok {
			return
		}
		sf := c33StaticFn(call.Common())
		if sf == nil || len(storers[sf]) == 0 {
			return
		}
		if c33ErrIndex(fn.Signature) < 0 {
			// cannot report: the pending value is its caller's business (fn is a storer itself)
			return
		}
		if len(call.Call.Args) == 0 {
			return
		}
		base := c33Root(call.Call.Args[0])
		var slots []*types.Var
		for s := range storers[sf] {
			slots = append(slots, s)
		}
		sort.Slice(slots, func(i, j int) bool { return slots[i].Name() < slots[j].Name() })
		errIdx := c33ErrIndex(fn.Signature)
		for _, slot := range slots {
			slot := slot
			key := e.fnName(fn) + "/" + slot.Name() + " after " + sf.Name()
			w := &c33Walk{e: e, fn: fn}
			w.onInstr = func(in ssa.Instruction, st *c33State) (c33Act, string) {
				switch x := in.(type) {
				case *ssa.UnOp:
					if isSlotLoad(x, base, slot) {
						st.car[x] = true
					}
				case *ssa.Store:
					if b, f, _, ok := c33FieldAddr(x.Addr); ok && f == slot && b == base {
						return c33Bad, fmt.Sprintf("%s overwrites %s before examining it after the call of %s", e.fnName(fn), slot.Name(), sf.Name())
					}
				case *ssa.Return:
					if errIdx >= 0 && st.isCar(x.Results[errIdx]) {
						return c33Done, ""
					}
					return c33Bad, fmt.Sprintf("%s returns here without having tested %s after the call of %s (or returns something else than the field on its non-nil edge): a compile error - invalid pattern, unknown match_type - is not reported",
						e.fnName(fn), slot.Name(), sf.Name())
				}
				if cc := c33CallOf(in); cc != nil {
					if m := e.regexMethod(cc); m != nil {
						return c33Bad, fmt.Sprintf("%s calls the matcher method %s while the compile error stored in %s by %s has not been examined", e.fnName(fn), m.Name(), slot.Name(), sf.Name())
					}
					if g := c33StaticFn(cc); g != nil && storers[g][slot] {
						return c33Bad, fmt.Sprintf("%s calls %s again before examining %s", e.fnName(fn), g.Name(), slot.Name())
					}
				}
				return c33Cont, ""
			}
			w.onIf = func(in *ssa.If, st *c33State) [2]bool {
				if x, nn, ok := c33NilTest(in.Cond); ok && st.isCar(x) {
					f := [2]bool{}
					f[nn] = true
					return f
				}
				return [2]bool{true, true}
			}
			bad, path := w.run(call.Block(), c33IndexOf(call)+1, c33NewState())
			if bad != "" {
				c.Bad("C33-G2s", key, c33Pos(call), bad, path...)
			} else {
				c.Ok("C33-G2s", key, c33Pos(call), "the field is tested after the call; its non-nil edge returns it")
			}
		}
	})
}

// ---------------------------------------------------------------------------------------
// G3: NULL in, NULL out

// nullReturn: every path from the edge b -> b.Succs[si] returns only nil constants and calls nothing.
func (e *c33) nullReturn(fn *ssa.Function, b *ssa.BasicBlock, si int) (string, []string) {
	w := &c33Walk{e: e, fn: fn}
	w.onInstr = func(in ssa.Instruction, st *c33State) (c33Act, string) {
		switch x := in.(type) {
		case *ssa.Return:
			for _, r := range x.Results {
				if !c33IsNilConst(st.resolve(r)) {
					return c33Bad, fmt.Sprintf("returns %s instead of the literal NULL", c33Describe(st.resolve(r)))
				}
			}
			return c33Done, ""
		case *ssa.Store:
			if _, ok := x.Addr.(*ssa.Alloc); !ok {
				return c33Bad, "writes memory before returning NULL"
			}
		}
		if cc := c33CallOf(in); cc != nil {
			name := "a function value"
			if f := c33Callee(cc); f != nil {
				name = f.Name()
			}
			return c33Bad, "calls " + name + " before returning"
		}
		return c33Cont, ""
	}
	return w.runEdge(b, si, c33NewState())
}

func (e *c33) ruleG3() {
	c := e.c
	e.eachInstr(e.funcs, func(fn *ssa.Function, in ssa.Instruction) {
		call, ok := in.(*ssa.Call)
		if !ok || !e.isEvalCall(call.Common()) {
			return
		}
		outer := c33Outer(fn)
		fam := e.famOfFn(fn)
		if !(outer == e.H || fam != nil && outer == fam.eval) {
			return
		}
		name := "expression"
		if _, f, _, ok := c33FieldLoad(call.Call.Value); ok {
			name = f.Name()
		} else if p, ok := c33Root(call.Call.Value).(*ssa.Parameter); ok {
			name = p.Name()
		}
		key := e.fnName(fn) + "/NULL " + name
		pos := c33Pos(in)
		v := c33Extract(call, 0)
		if v == nil {
			c.Bad("C33-G3", key, pos, e.fnName(fn)+" evaluates the argument "+name+" and drops its value: a NULL argument cannot yield NULL")
			return
		}
		// uses of v (through interface conversions)
		type use struct {
			in   ssa.Instruction
			test *ssa.If
			nn   int
		}
		var uses []use
		var collect func(val ssa.Value)
		collect = func(val ssa.Value) {
			for _, r := range *val.Referrers() {
				switch x := r.(type) {
				case *ssa.ChangeInterface:
					collect(x)
					continue
				case *ssa.DebugRef:
					continue
				case *ssa.BinOp:
					if tx, nn, ok := c33NilTest(x); ok && tx == val {
						isTest := len(*x.Referrers()) > 0
						var ifi *ssa.If
						for _, rr := range *x.Referrers() {
							if i2, ok := rr.(*ssa.If); ok {
								ifi = i2
							} else if _, ok := rr.(*ssa.DebugRef); !ok {
								isTest = false
							}
						}
						if isTest && ifi != nil {
							uses = append(uses, use{in: x, test: ifi, nn: nn})
							continue
						}
					}
				}
				uses = append(uses, use{in: r})
			}
		}
		collect(v)
		var tests []use
		for _, u := range uses {
			if u.test != nil {
				tests = append(tests, u)
			}
		}
		if len(tests) == 0 {
			c.Bad("C33-G3", key, pos, fmt.Sprintf("%s never tests the evaluated argument %s for nil: a NULL %s is converted and matched instead of yielding NULL as in the sibling functions", e.fnName(fn), name, name))
			return
		}
		var firstMsg string
		var firstPath []string
		for _, t := range tests {
			tb := t.test.Block()
			nonNil := tb.Succs[t.nn]
			msg := ""
			var path []string
			if len(nonNil.Preds) != 1 {
				msg = "the non-nil successor of the nil test is also reached from elsewhere"
			}
			if msg == "" {
				for _, u := range uses {
					if u.test != nil {
						continue
					}
					if !nonNil.Dominates(u.in.Block()) {
						msg = fmt.Sprintf("%s uses the evaluated argument %s at %s where it may still be NULL (not dominated by the non-nil edge of its nil test)", e.fnName(fn), name, e.instrLine(u.in))
						break
					}
				}
			}
			if msg == "" {
				if bad, p := e.nullReturn(fn, tb, 1-t.nn); bad != "" {
					msg = fmt.Sprintf("%s: when the argument %s is NULL the function %s", e.fnName(fn), name, bad)
					path = p
				}
			}
			if msg == "" {
				c.Ok("C33-G3", key, pos, "nil-tested; NULL edge returns (nil, nil); other uses dominated by the non-nil edge")
				return
			}
			if firstMsg == "" {
				firstMsg, firstPath = msg, path
			}
		}
		c.Bad("C33-G3", key, pos, firstMsg, firstPath...)
	})
}

// ---------------------------------------------------------------------------------------
// G3c: nil matcher guard

func (e *c33) ruleG3c() {
	c := e.c
	// functions that may store a matcher field
	reStorers := map[*ssa.Function]bool{}
	e.eachInstr(e.funcs, func(fn *ssa.Function, in ssa.Instruction) {
		if st, ok := in.(*ssa.Store); ok {
			if _, f, nt, ok := c33FieldAddr(st.Addr); ok {
				if fam := e.famOf[nt]; fam != nil && fam.reField == f {
					for g := fn; g != nil; g = g.Parent() {
						reStorers[g] = true
					}
				}
			}
		}
	})
	for changed := true; changed; {
		changed = false
		e.eachInstr(e.funcs, func(fn *ssa.Function, in ssa.Instruction) {
			if cc := c33CallOf(in); cc != nil && !reStorers[fn] {
				if sf := c33StaticFn(cc); sf != nil && reStorers[sf] {
					for g := fn; g != nil; g = g.Parent() {
						reStorers[g] = true
					}
					changed = true
				}
			}
		})
	}
	kills := func(in ssa.Instruction, fam *c33Fam) bool {
		switch x := in.(type) {
		case *ssa.Store:
			if _, f, _, ok := c33FieldAddr(x.Addr); ok && f == fam.reField {
				return true
			}
		}
		if cc := c33CallOf(in); cc != nil {
			if sf := c33StaticFn(cc); sf != nil && reStorers[sf] {
				return true
			}
			// a closure literal passed to a call may run and store
			for _, a := range cc.Args {
				if mc, ok := a.(*ssa.MakeClosure); ok {
					if f, ok := mc.Fn.(*ssa.Function); ok && reStorers[f] {
						return true
					}
				}
			}
		}
		return false
	}
	nilEdgeDone := map[*ssa.If]bool{}
	e.eachInstr(e.funcs, func(fn *ssa.Function, in ssa.Instruction) {
		cc := c33CallOf(in)
		if cc == nil {
			return
		}
		m := e.regexMethod(cc)
		if m == nil || !e.inScope(fn) {
			return
		}
		base, fld, nt, ok := c33FieldLoad(cc.Value)
		if !ok {
			return // a local matcher (fresh from the constructor inside the compile helper)
		}
		fam := e.famOf[nt]
		if fam == nil || fam.reField != fld {
			return
		}
		key := e.fnName(fn) + "/" + m.Name() + " guarded"
		pos := c33Pos(in)
		cb := in.Block()
		var guard *ssa.If
		var gs *ssa.BasicBlock
		var gnn int
		for d := cb; d != nil; d = d.Idom() {
			if len(d.Instrs) == 0 {
				continue
			}
			ifi, ok := d.Instrs[len(d.Instrs)-1].(*ssa.If)
			if !ok {
				continue
			}
			x, nn, ok := c33NilTest(ifi.Cond)
			if !ok {
				continue
			}
			b2, f2, _, ok := c33FieldLoad(x)
			if !ok || f2 != fld || b2 != base {
				continue
			}
			s := d.Succs[nn]
			if len(s.Preds) == 1 && s.Dominates(cb) {
				guard, gs, gnn = ifi, s, nn
				break
			}
		}
		if guard == nil {
			c.Bad("C33-G3c", key, pos, fmt.Sprintf("%s calls %s on the matcher field %s without a dominating non-nil test of the field: a NULL pattern or NULL match_type leaves the field nil (the siblings return NULL), here the call panics",
				e.fnName(fn), m.Name(), fld.Name()))
			return
		}
		// no store / recompile between the guard and the call
		reach := map[*ssa.BasicBlock]bool{}
		var fwd func(b *ssa.BasicBlock)
		fwd = func(b *ssa.BasicBlock) {
			if reach[b] {
				return
			}
			reach[b] = true
			if b == cb {
				return
			}
			for _, s := range b.Succs {
				fwd(s)
			}
		}
		fwd(gs)
		canReach := map[*ssa.BasicBlock]bool{}
		var bwd func(b *ssa.BasicBlock)
		bwd = func(b *ssa.BasicBlock) {
			if canReach[b] {
				return
			}
			canReach[b] = true
			if b == gs {
				return
			}
			for _, p := range b.Preds {
				bwd(p)
			}
		}
		bwd(cb)
		killed := ""
		for b := range reach {
			if !canReach[b] {
				continue
			}
			for _, x := range b.Instrs {
				if b == cb && x == in {
					break
				}
				if kills(x, fam) {
					killed = e.instrLine(x)
				}
			}
		}
		if killed != "" {
			c.Bad("C33-G3c", key, pos, fmt.Sprintf("%s: between the nil test of %s and the call of %s the field may be replaced (%s): the test no longer covers the matcher that is used", e.fnName(fn), fld.Name(), m.Name(), killed))
			return
		}
		c.Ok("C33-G3c", key, pos, "dominated by the non-nil edge of a test of the matcher field")
		if c33Outer(fn) == fam.eval && fn.Parent() == nil && !nilEdgeDone[guard] {
			nilEdgeDone[guard] = true
			k2 := e.fnName(fn) + "/nil " + fld.Name() + " returns NULL"
			if bad, path := e.nullReturn(fn, guard.Block(), 1-gnn); bad != "" {
				c.Bad("C33-G3c", k2, guard.Pos(), fmt.Sprintf("%s: when the matcher is nil (NULL pattern or NULL match_type) the function %s; the siblings return NULL", e.fnName(fn), bad), path...)
			} else {
				c.Ok("C33-G3c", k2, guard.Pos(), "NULL pattern / match_type: returns (nil, nil)")
			}
		}
	})
}

// ---------------------------------------------------------------------------------------
// S1 + G5: what is handed to the matcher

func (e *c33) checkString(key string, pos ssa.Instruction, fnName, what string, v ssa.Value) {
	c := e.c
	orgs := e.origins(v)
	if len(orgs) == 0 {
		c.Bad("C33-S1", key, c33Pos(pos), fnName+": cannot find where "+what+" comes from")
		return
	}
	for _, o := range orgs {
		msg := ""
		switch {
		case o.kind != "eval-field" && o.kind != "eval-param":
			msg = fmt.Sprintf("%s comes from %s, not from an evaluated SQL argument", what, o.describe())
		case o.arith() != "":
			msg = fmt.Sprintf("%s is modified (operator %s) between the SQL argument and the matcher", what, o.arith())
		case e.foreignStep(o, false) != "":
			msg = fmt.Sprintf("%s (from %s) passes through %s between the SQL argument and the matcher: the siblings hand the converted, unwrapped value over unchanged", what, o.describe(), e.foreignStep(o, false))
		case !e.hasConv(o):
			msg = fmt.Sprintf("%s (from %s) does not pass through %s.%s", what, o.describe(), e.cfg.ConvType, e.cfg.ConvM)
		case !o.hasCallee(e.unwraps):
			msg = fmt.Sprintf("%s (from %s) is converted with %s.%s but never unwrapped (%s): the conversion returns a lazily loaded text wrapper unchanged, so this function fails (type assertion / wrong value) on a stored TEXT value that its siblings match",
				what, o.describe(), e.cfg.ConvType, e.cfg.ConvM, strings.Join(e.cfg.Unwraps, " / "))
		}
		if msg != "" {
			c.Bad("C33-S1", key, c33Pos(pos), fnName+": "+msg)
			return
		}
	}
	c.Ok("C33-S1", key, c33Pos(pos), what+" <- "+orgs[0].describe()+", converted and unwrapped")
}

func (e *c33) ruleArgs() {
	c := e.c
	type intArgs struct {
		fn         *ssa.Function
		in         ssa.Instruction
		fam        *c33Fam
		m          *types.Func
		start, occ *types.Var
	}
	var pairs []intArgs
	e.eachInstr(e.funcs, func(fn *ssa.Function, in ssa.Instruction) {
		if !e.inScope(fn) {
			return
		}
		cc := c33CallOf(in)
		if cc == nil {
			return
		}
		// the validator's string argument
		if sf := c33StaticFn(cc); sf != nil && e.hHelpers[sf] && c33Outer(fn) == e.H {
			for j, a := range cc.Args {
				if j < sf.Signature.Params().Len() && c33IsString(sf.Signature.Params().At(j).Type()) {
					if _, isParam := c33Root(a).(*ssa.Parameter); isParam {
						continue // the function name for messages
					}
					e.checkString(e.fnName(fn)+"/"+sf.Name()+"."+sf.Signature.Params().At(j).Name(), in, e.fnName(fn), "the "+sf.Signature.Params().At(j).Name()+" argument of "+sf.Name(), a)
				}
			}
			return
		}
		m := e.regexMethod(cc)
		if m == nil {
			return
		}
		sig := m.Type().(*types.Signature)
		var ints []int
		for j := 0; j < sig.Params().Len() && j < len(cc.Args); j++ {
			p := sig.Params().At(j)
			switch {
			case c33IsString(p.Type()):
				e.checkString(e.fnName(fn)+"/"+m.Name()+"."+p.Name(), in, e.fnName(fn), "the "+p.Name()+" argument of "+m.Name(), cc.Args[j])
			case c33IsInt(p.Type()):
				ints = append(ints, j)
			}
		}
		if len(ints) == 0 {
			return
		}
		fam := e.famOfFn(fn)
		rec := intArgs{fn: fn, in: in, fam: fam, m: m}
		for k, j := range ints {
			p := sig.Params().At(j)
			key := e.fnName(fn) + "/" + m.Name() + "." + p.Name()
			orgs := e.origins(cc.Args[j])
			msg := ""
			var fld *types.Var
			nconst := 0
			for _, o := range orgs {
				switch {
				case o.arith() != "":
					msg = fmt.Sprintf("%s: the %s argument of %s is computed with operator %s in the wrapper: the 1-based SQL value is converted in the matcher, arithmetic here shifts this function against its siblings by one", e.fnName(fn), p.Name(), m.Name(), o.arith())
				case o.kind == "const":
					nconst++
					lim, ok := e.cfg.ConstArgs[m.Name()]
					cv, isInt := c33ConstInt(o.cst)
					if !ok || !isInt || k > 1 || cv < 0 || cv > lim[k] {
						msg = fmt.Sprintf("%s: the %s argument of %s is %s; the frozen table allows constants only for %v (start, occurrence upper bounds): the match would not start at the beginning of the subject / not at the first occurrence", e.fnName(fn), p.Name(), m.Name(), o.describe(), e.cfg.ConstArgs)
					}
				case o.kind == "eval-field" && e.foreignStep(o, true) != "":
					msg = fmt.Sprintf("%s: the %s argument of %s passes through %s between the SQL argument and the matcher", e.fnName(fn), p.Name(), m.Name(), e.foreignStep(o, true))
				case o.kind == "eval-field":
					if fld != nil && fld != o.field {
						msg = fmt.Sprintf("%s: the %s argument of %s comes from two fields (%s, %s)", e.fnName(fn), p.Name(), m.Name(), fld.Name(), o.field.Name())
					}
					fld = o.field
				default:
					msg = fmt.Sprintf("%s: the %s argument of %s comes from %s, not from an evaluated SQL argument", e.fnName(fn), p.Name(), m.Name(), o.describe())
				}
				if msg != "" {
					break
				}
			}
			if msg == "" && len(orgs) == 0 {
				msg = e.fnName(fn) + ": cannot find where the " + p.Name() + " argument of " + m.Name() + " comes from"
			}
			if msg == "" && fld != nil && nconst > 0 {
				msg = fmt.Sprintf("%s: the %s argument of %s is sometimes a constant, sometimes field %s", e.fnName(fn), p.Name(), m.Name(), fld.Name())
			}
			if msg != "" {
				c.Bad("C33-G5", key, c33Pos(in), msg)
				continue
			}
			if fld == nil {
				c.Ok("C33-G5", key, c33Pos(in), "constant within the frozen table")
				continue
			}
			switch k {
			case 0:
				rec.start = fld
			case 1:
				rec.occ = fld
			}
			c.Ok("C33-G5", key, c33Pos(in), p.Name()+" <- evaluated field "+fld.Name()+", conversions only")
		}
		if rec.start != nil && rec.occ != nil && fam != nil {
			pairs = append(pairs, rec)
		}
	})
	// second int parameter is the occurrence in every method (read from the interface)
	for i := 0; i < e.regexI.NumMethods(); i++ {
		m := e.regexI.Method(i)
		sig := m.Type().(*types.Signature)
		var names []string
		for j := 0; j < sig.Params().Len(); j++ {
			if c33IsInt(sig.Params().At(j).Type()) {
				names = append(names, sig.Params().At(j).Name())
			}
		}
		if len(names) >= 2 && names[1] != "occurrence" || len(names) > 2 {
			c.Undecided("C33-G5", "interface/"+m.Name(), m.Pos(), fmt.Sprintf("integer parameters of %s are %v: expected (start|position, occurrence)", m.Name(), names))
		}
	}
	// sibling agreement on (position field, occurrence field)
	cnt := map[string]int{}
	for _, p := range pairs {
		cnt[p.start.Name()+"/"+p.occ.Name()]++
	}
	maj := ""
	for k, n := range cnt {
		if maj == "" || n > cnt[maj] || n == cnt[maj] && k < maj {
			maj = k
		}
	}
	for _, p := range pairs {
		key := e.fnName(p.fn) + "/" + p.m.Name() + " position-occurrence"
		got := p.start.Name() + "/" + p.occ.Name()
		switch {
		case p.start == p.occ:
			c.Bad("C33-G5", key, c33Pos(p.in), fmt.Sprintf("%s passes field %s both as start position and as occurrence of %s", e.fnName(p.fn), p.start.Name(), p.m.Name()))
		case got != maj:
			c.Bad("C33-G5", key, c33Pos(p.in), fmt.Sprintf("%s passes (start, occurrence) = fields (%s) to %s, its siblings pass (%s): position and occurrence are swapped or taken from other arguments", e.fnName(p.fn), got, p.m.Name(), maj))
		default:
			c.Ok("C33-G5", key, c33Pos(p.in), "(start, occurrence) <- fields ("+got+") as in every sibling")
		}
	}
}

func c33ConstInt(k *ssa.Const) (int64, bool) {
	if k == nil || k.Value == nil {
		return 0, false
	}
	if !c33IsInt(k.Type()) {
		return 0, false
	}
	return k.Int64(), true
}

// hasConv: the derivation passes through the to-text conversion: the configured method itself, or the
// method of that name invoked through an interface that the configured type implements.
func (e *c33) hasConv(o c33Org) bool {
	recvT := e.conv.Type().(*types.Signature).Recv().Type()
	for _, s := range o.steps {
		if s.fn == nil || s.fn.Name() != e.cfg.ConvM {
			continue
		}
		if s.fn == e.conv.Origin() {
			return true
		}
		if s.recv != nil {
			if it, ok := s.recv.Underlying().(*types.Interface); ok && (types.Implements(recvT, it) || types.Implements(types.NewPointer(recvT), it)) {
				return true
			}
		}
	}
	return false
}

// foreignStep names a call on the derivation that is neither the to-text conversion, an unwrap helper nor
// (for integers) a conversion method of the type layer.
func (e *c33) foreignStep(o c33Org, ints bool) string {
	for _, st := range o.steps {
		if st.fn == nil {
			continue
		}
		if e.unwraps[st.fn] || st.fn == e.conv.Origin() {
			continue
		}
		if st.fn.Name() == e.cfg.ConvM && st.fn.Pkg() != nil {
			pp := st.fn.Pkg().Path()
			if xp, cp := e.c.P.Pkg(e.cfg.ExprRel), e.c.P.Pkg(e.cfg.ConvRel); xp != nil && pp == xp.PkgPath || cp != nil && pp == cp.PkgPath {
				if ints || e.hasConv(c33Org{steps: []c33Step{st}}) {
					continue
				}
			}
		}
		return FuncName(st.fn)
	}
	return ""
}
