package main

import (
	"go/ast"
	"go/token"
	"go/types"
)

// C38-L9: insert-if-absent on the lock table is atomic. Every store into LockSubsystem.locks must be
// control-dependent on the miss edge of a comma-ok lookup of the same map with the same key in the
// same function (which L5 requires to hold the exclusive lock): a store that does not re-check
// replaces a lock cell that another session may already own — two sessions then CAS on different
// cells and both acquire the lock.
func c38InsertIfAbsent(c *Ctx, rel, typeName, field string) {
	c.Rule("C38-L9", "every store into LockSubsystem.locks is guarded by a lookup miss of the same key in the same (exclusively locked) function: no blind overwrite of an existing lock cell", 1)
	pk := c.P.Pkg(rel)
	if pk == nil {
		c.Undecided("C38-L9", rel, 0, "package not loaded")
		return
	}
	info := pk.TypesInfo
	isLocksIndex := func(e ast.Expr) (*ast.IndexExpr, bool) {
		ix, ok := ast.Unparen(e).(*ast.IndexExpr)
		if !ok {
			return nil, false
		}
		se, ok := ast.Unparen(ix.X).(*ast.SelectorExpr)
		if !ok || se.Sel.Name != field {
			return nil, false
		}
		sel := info.Selections[se]
		if sel == nil {
			return nil, false
		}
		t := sel.Recv()
		if p, ok := t.(*types.Pointer); ok {
			t = p.Elem()
		}
		nt, ok := t.(*types.Named)
		return ix, ok && nt.Obj().Name() == typeName
	}
	for _, file := range pk.Syntax {
		for _, d := range file.Decls {
			fd, ok := d.(*ast.FuncDecl)
			if !ok || fd.Body == nil {
				continue
			}
			// comma-ok lookups: ok-variable -> key text
			okVars := map[types.Object]string{}
			ast.Inspect(fd.Body, func(n ast.Node) bool {
				as, ok := n.(*ast.AssignStmt)
				if !ok || len(as.Lhs) != 2 || len(as.Rhs) != 1 {
					return true
				}
				if ix, isIx := isLocksIndex(as.Rhs[0]); isIx {
					if id := identOf(as.Lhs[1]); id != nil {
						o := info.Defs[id]
						if o == nil {
							o = info.Uses[id]
						}
						if o != nil {
							okVars[o] = types.ExprString(ix.Index)
						}
					}
				}
				return true
			})
			var stack []ast.Node
			ast.Inspect(fd.Body, func(n ast.Node) bool {
				if n == nil {
					stack = stack[:len(stack)-1]
					return true
				}
				stack = append(stack, n)
				as, ok := n.(*ast.AssignStmt)
				if !ok {
					return true
				}
				for _, l := range as.Lhs {
					ix, isIx := isLocksIndex(l)
					if !isIx {
						continue
					}
					keyText := types.ExprString(ix.Index)
					guarded := false
					var child ast.Node = as
					for i := len(stack) - 2; i >= 0 && !guarded; i-- {
						if is, ok := stack[i].(*ast.IfStmt); ok {
							cond := ast.Unparen(is.Cond)
							neg := false
							if u, ok := cond.(*ast.UnaryExpr); ok && u.Op == token.NOT {
								neg, cond = true, ast.Unparen(u.X)
							}
							if id, ok := cond.(*ast.Ident); ok {
								if k, isOk := okVars[info.Uses[id]]; isOk && k == keyText {
									inBody := child == ast.Node(is.Body)
									if (neg && inBody) || (!neg && !inBody && is.Else != nil) {
										guarded = true
									}
								}
							}
						}
						child = stack[i]
					}
					c.Check(guarded, "C38-L9", DeclName(fd)+"/"+field+"["+keyText+"] store", as.Pos(), "under the miss edge of a lookup of the same key",
						DeclName(fd)+" stores a new lock cell into "+field+"["+keyText+"] without re-checking under the exclusive lock that the name is still absent: a concurrent creator's cell (possibly already owned) is replaced, and two sessions acquire the same named lock")
				}
				return true
			})
		}
	}
}
