package main

import (
	"go/ast"
	"go/token"
	"go/types"
)

// C23-T2: which row goes into the trigger logic and which row is handed on.
//
// The rows are identified by definition, not by name:
//
//	child row      first result of the child.Next assignment
//	logic row      first result of a logic.Next assignment
//	last row       the variable passed (Row-typed argument) to the selector function; every assignment
//	               to it must copy the logic row, inside a loop that contains the logic.Next call
//	selected row   Row-typed result of the selector call
//	current row    (block executor) the variable returned by the row return; it must be the row the
//	               statements are built on, start as a field of the receiver, and only be replaced
//	               by a value derived from the logic row

type c23FlowFacts struct {
	childRow  types.Object
	logicRows map[types.Object]bool
	logicNext []*ast.CallExpr
	builds    []*ast.CallExpr
}

func c23FlowCollect(m *c23Machine) c23FlowFacts {
	f := c23FlowFacts{logicRows: map[types.Object]bool{}}
	ast.Inspect(m.x.next.Body, func(n ast.Node) bool {
		as, ok := n.(*ast.AssignStmt)
		if !ok || len(as.Rhs) != 1 {
			return true
		}
		call, ok := ast.Unparen(as.Rhs[0]).(*ast.CallExpr)
		if !ok {
			return true
		}
		switch m.callKind(call) {
		case c23KChild:
			f.childRow = c23Obj(m.info, as.Lhs[0])
		case c23KLogic:
			if o := c23Obj(m.info, as.Lhs[0]); o != nil {
				f.logicRows[o] = true
			}
			f.logicNext = append(f.logicNext, call)
		case c23KBuild:
			f.builds = append(f.builds, call)
		}
		return true
	})
	return f
}

// c23RowArgs returns the Row-typed arguments of a call.
func c23RowArgs(e *c23Env, info *types.Info, call *ast.CallExpr) []ast.Expr {
	var out []ast.Expr
	for _, a := range call.Args {
		if t := info.TypeOf(a); t != nil && (types.Identical(t, e.rowT) || c23IsNilLit(info, a)) {
			// a nil literal in a Row position counts as a Row argument (and is never the wanted row)
			if c23IsNilLit(info, a) {
				continue
			}
			out = append(out, a)
		}
	}
	return out
}

// c23RowParamArg returns the argument passed for the callee's (single) Row-typed parameter.
func c23RowParamArg(e *c23Env, info *types.Info, call *ast.CallExpr) ast.Expr {
	fn := Callee(info, call)
	if fn == nil {
		return nil
	}
	sig := fn.Type().(*types.Signature)
	var arg ast.Expr
	n := 0
	for i := 0; i < sig.Params().Len() && i < len(call.Args); i++ {
		if types.Identical(sig.Params().At(i).Type(), e.rowT) {
			arg = call.Args[i]
			n++
		}
	}
	if n != 1 {
		return nil
	}
	return arg
}

// c23AssignmentsTo lists the assignments (incl. definitions) whose left side names obj, with the matching right side
// (nil when the statement is a multi-value call assignment).
type c23Asg struct {
	stmt *ast.AssignStmt
	rhs  ast.Expr
	idx  int
}

func c23AssignmentsTo(info *types.Info, body ast.Node, obj types.Object) []c23Asg {
	var out []c23Asg
	ast.Inspect(body, func(n ast.Node) bool {
		as, ok := n.(*ast.AssignStmt)
		if !ok {
			return true
		}
		for i, l := range as.Lhs {
			if c23Obj(info, l) == obj {
				var rhs ast.Expr
				if len(as.Rhs) == len(as.Lhs) {
					rhs = as.Rhs[i]
				}
				out = append(out, c23Asg{as, rhs, i})
			}
		}
		return true
	})
	return out
}

func c23Mentions(info *types.Info, e ast.Expr, objs map[types.Object]bool) bool {
	found := false
	ast.Inspect(e, func(n ast.Node) bool {
		if id, ok := n.(*ast.Ident); ok && objs[info.Uses[id]] {
			found = true
		}
		return !found
	})
	return found
}

// c23EnclosingLoopContains reports whether some for/range statement of body contains both nodes.
func c23EnclosingLoopContains(body ast.Node, a, b ast.Node) bool {
	found := false
	ast.Inspect(body, func(n ast.Node) bool {
		switch n.(type) {
		case *ast.ForStmt, *ast.RangeStmt:
			if n.Pos() <= a.Pos() && a.End() <= n.End() && n.Pos() <= b.Pos() && b.End() <= n.End() {
				found = true
			}
		}
		return true
	})
	return found
}

func c23RunFlow(e *c23Env) {
	c := e.c
	info := e.execPk.TypesInfo
	selFn := LookupFunc(e.execPk, e.nm.selectorFn)
	prepFn := LookupFunc(e.execPk, e.nm.prependFn)
	for _, x := range c23Executors(e) {
		m := &c23Machine{e: e, info: info, x: x, recv: c23RecvObj(info, x.next)}
		m.prepare()
		f := c23FlowCollect(m)
		name := x.typeName + ".Next"
		body := x.next.Body
		var rowReturns []*ast.ReturnStmt
		ast.Inspect(body, func(n ast.Node) bool {
			switch r := n.(type) {
			case *ast.FuncLit:
				return false
			case *ast.ReturnStmt:
				if len(r.Results) >= 2 && !c23IsNilLit(info, r.Results[0]) {
					rowReturns = append(rowReturns, r)
				}
			}
			return true
		})

		if m.unit == nil {
			// ---- executor over a child (triggerIter) -------------------------------------------------------
			if f.childRow == nil {
				c.Undecided("C23-T2", name+"/logic-input-row", x.next.Pos(), "no assignment from child.Next found")
				continue
			}
			for _, b := range f.builds {
				arg := c23RowParamArg(e, info, b)
				c.Check(arg != nil && c23Obj(info, arg) == f.childRow, "C23-T2", name+"/logic-input-row", b.Pos(),
					"the logic is built on the row pulled from the child", "the logic iterator is not built on the row pulled from the child (the body would not see this row's OLD/NEW)")
			}
			// prepend transform
			if prepFn == nil {
				c.Undecided("C23-T2", name+"/prepend-row", x.next.Pos(), "function "+e.nm.prependFn+" not found")
			} else {
				n := 0
				for _, call := range c23Calls(body) {
					if fn := Callee(info, call); fn != nil && fn == prepFn {
						n++
						arg := c23RowParamArg(e, info, call)
						c.Check(arg != nil && c23Obj(info, arg) == f.childRow, "C23-T2", name+"/prepend-row", call.Pos(),
							"row sources of the logic are prepended with the row pulled from the child", "the prepend transform is not given the row pulled from the child (tables read in the body would not see this row's OLD/NEW)")
					}
				}
				if n == 0 {
					c.Bad("C23-T2", name+"/prepend-row", x.next.Pos(), "no call of "+e.nm.prependFn+": the row is not made visible to the row sources of the trigger body")
				}
			}
			// last logic row + selector
			var selCall *ast.CallExpr
			var selAsg *ast.AssignStmt
			if selFn != nil {
				ast.Inspect(body, func(n ast.Node) bool {
					if as, ok := n.(*ast.AssignStmt); ok && len(as.Rhs) == 1 {
						if call, ok := ast.Unparen(as.Rhs[0]).(*ast.CallExpr); ok {
							if fn := Callee(info, call); fn != nil && fn == selFn {
								selCall, selAsg = call, as
							}
						}
					}
					return true
				})
			}
			var selRow, selOK types.Object
			if selCall == nil {
				c.Undecided("C23-T2", name+"/last-logic-row", x.next.Pos(), "no call of "+e.nm.selectorFn+" whose results are bound: the selection of the logic row is not readable")
			} else {
				for _, l := range selAsg.Lhs {
					if o := c23Obj(info, l); o != nil {
						if types.Identical(o.Type(), e.rowT) {
							selRow = o
						} else if b, ok := o.Type().Underlying().(*types.Basic); ok && b.Kind() == types.Bool {
							selOK = o
						}
					}
				}
				arg := c23RowParamArg(e, info, selCall)
				lastObj := c23Obj(info, arg)
				good := lastObj != nil
				why := "the selector is not given a row variable"
				if good {
					n := 0
					for _, a := range c23AssignmentsTo(info, body, lastObj) {
						n++
						src := c23Obj(info, a.rhs)
						if a.rhs == nil || src == nil || !f.logicRows[src] {
							good, why = false, "the variable given to the selector is assigned something other than the row returned by the logic iterator's Next"
							break
						}
						inLoop := false
						for _, ln := range f.logicNext {
							if c23EnclosingLoopContains(body, a.stmt, ln) {
								inLoop = true
							}
						}
						if !inLoop {
							good, why = false, "the variable given to the selector is not updated inside the loop that drains the logic iterator"
						}
					}
					if n == 0 {
						good, why = false, "the variable given to the selector is never assigned the logic iterator's row (a SET NEW.x in the body would be lost)"
					}
				}
				if good {
					c.Ok("C23-T2", name+"/last-logic-row", selCall.Pos(), "the selector sees the last row of the drained logic iterator")
				} else {
					c.Bad("C23-T2", name+"/last-logic-row", selCall.Pos(), why)
				}
			}
			// returned rows
			nChild, nSel := 0, 0
			for _, r := range rowReturns {
				o := c23Obj(info, r.Results[0])
				switch {
				case o != nil && o == f.childRow:
					nChild++
					c.Ok("C23-T2", name+"/returns-child-row", r.Pos(), "hands on the row pulled from the child")
				case o != nil && selRow != nil && o == selRow:
					nSel++
					// the return must be guarded by the selector's verdict
					guarded := false
					ast.Inspect(body, func(n ast.Node) bool {
						if is, ok := n.(*ast.IfStmt); ok && is.Body.Pos() <= r.Pos() && r.End() <= is.Body.End() {
							if selOK != nil && c23Obj(info, is.Cond) == selOK {
								guarded = true
							}
						}
						return true
					})
					c.Check(guarded, "C23-T2", name+"/returns-selected-logic-row", r.Pos(), "hands on the selected logic row when the selector says so",
						"the selected logic row is returned without testing the selector's verdict")
				default:
					// the RETURNING projection of an AFTER INSERT executor
					isRet := false
					if o != nil {
						for _, a := range c23AssignmentsTo(info, body, o) {
							if call, ok := ast.Unparen(a.stmt.Rhs[0]).(*ast.CallExpr); ok && len(a.stmt.Rhs) == 1 {
								if fn := Callee(info, call); fn != nil && fn.Name() == e.nm.returningFn && c23IsNamed(fn.Type().(*types.Signature).Recv().Type(), e.execPk, x.typeName) {
									isRet = true
								}
							}
						}
					}
					if isRet {
						c.Exc("C23-T2", name+"/returns-returning-row", r.Pos(), "exception "+x.typeName+"."+e.nm.returningFn+": INSERT … RETURNING under an AFTER INSERT executor hands on the RETURNING projection of the inserted row (client result, not stored)")
					} else {
						c.Bad("C23-T2", name+"/returns-other-row", r.Pos(), "a returned row is neither the child's row nor the row selected from the logic")
					}
				}
			}
			if nChild == 0 {
				c.Bad("C23-T2", name+"/returns-child-row", x.next.Pos(), "no return hands on the child's row (AFTER triggers and bodies without SET NEW must pass the row through)")
			}
			if nSel == 0 && selCall != nil {
				c.Bad("C23-T2", name+"/returns-selected-logic-row", x.next.Pos(), "no return hands on the row selected from the logic: a BEFORE trigger's SET NEW.x would not be what gets stored")
			}
			continue
		}

		// ---- block executor (triggerBlockIter): the current row threads through the statements ---------------
		if len(rowReturns) != 1 {
			c.Undecided("C23-T2", name+"/current-row", x.next.Pos(), "expected exactly one row return in a block executor")
			continue
		}
		cur := c23Obj(info, rowReturns[0].Results[0])
		if cur == nil {
			c.Undecided("C23-T2", name+"/current-row", rowReturns[0].Pos(), "the returned row is not a variable")
			continue
		}
		for _, b := range f.builds {
			arg := c23RowParamArg(e, info, b)
			c.Check(arg != nil && c23Obj(info, arg) == cur, "C23-T2", name+"/logic-input-row", b.Pos(),
				"each statement is built on the block's current row (later statements see an earlier SET NEW.x)", "a statement of the block is not built on the block's current row: a SET NEW.x of an earlier statement is invisible to it")
		}
		good, why := true, ""
		nInit, nUpd := 0, 0
		for _, a := range c23AssignmentsTo(info, body, cur) {
			inUnit := m.unit.Pos() <= a.stmt.Pos() && a.stmt.End() <= m.unit.End()
			if !inUnit {
				nInit++
				if a.rhs == nil || !c23FieldOfRecv(info, a.rhs, m.recv) {
					good, why = false, "the current row does not start as the row the block was built with (a field of the receiver)"
				}
				continue
			}
			nUpd++
			if a.rhs == nil || !c23Mentions(info, a.rhs, f.logicRows) {
				good, why = false, "inside the statement loop the current row is replaced by something not derived from the statement's result row"
			}
		}
		if nInit != 1 && good {
			good, why = false, "the current row is not initialised exactly once before the statement loop"
		}
		if nUpd == 0 && good {
			good, why = false, "no statement result ever replaces the current row: SET NEW.x inside BEGIN…END would be lost"
		}
		if good {
			c.Ok("C23-T2", name+"/current-row", rowReturns[0].Pos(), "the current row starts as the block's input row, is replaced only by statement results and is what the block returns")
		} else {
			c.Bad("C23-T2", name+"/current-row", rowReturns[0].Pos(), why)
		}
	}
}

var _ = token.NoPos
