package main

import (
	"go/ast"
	"go/token"
	"go/types"

	"golang.org/x/tools/go/cfg"
)

// E1 helpers: path queries over go/cfg graphs.
//
// go/cfg facts used here: a Block's Nodes are statements/expressions in execution order; an
// `if cond` block ends with the cond expression and has Succs[0] = then, Succs[1] = else; a
// ReturnStmt is a node and its block has no successors; DeferStmt is a node at the place the
// defer is registered; `for`/`switch`/`select` are lowered to blocks. Function literals are
// NOT descended into (they are separate functions).

type CFGPoint struct {
	B *cfg.Block
	I int // index into B.Nodes; the search starts AFTER this node
}

// FindNode locates the CFG point whose node contains (or is) the given AST node.
func FindNode(g *cfg.CFG, n ast.Node) (CFGPoint, bool) {
	for _, b := range g.Blocks {
		for i, bn := range b.Nodes {
			if bn.Pos() <= n.Pos() && n.End() <= bn.End() {
				return CFGPoint{b, i}, true
			}
		}
	}
	return CFGPoint{}, false
}

// EntryPoint is the point before the first node of the function.
func EntryPoint(g *cfg.CFG) CFGPoint { return CFGPoint{g.Blocks[0], -1} }

// PathAvoiding searches forward from just after `from` for a node satisfying `target`
// along a path on which no node satisfies `barrier`. It returns the nodes of one such
// path (ending with the target), or nil if every path to a target passes a barrier.
// `edgeOK`, if non-nil, can prune CFG edges (e.g. the err == nil successor of an error test).
// A node that is both barrier and target counts as barrier.
// If target is nil, the function's exits are the targets: ReturnStmt nodes and the implicit
// fall-off-the-end (reported with a nil last element).
func PathAvoiding(g *cfg.CFG, from CFGPoint, barrier, target func(ast.Node) bool, edgeOK func(b *cfg.Block, succ int) bool) []ast.Node {
	visited := map[*cfg.Block]bool{}
	var walk func(b *cfg.Block, i int, tr *trail) []ast.Node
	walk = func(b *cfg.Block, i int, tr *trail) []ast.Node {
		for ; i < len(b.Nodes); i++ {
			n := b.Nodes[i]
			if barrier != nil && barrier(n) {
				return nil
			}
			if target != nil {
				if target(n) {
					return tr.with(n)
				}
			} else if _, ok := n.(*ast.ReturnStmt); ok {
				return tr.with(n)
			}
			if _, ok := n.(*ast.ReturnStmt); ok {
				return nil // path ends
			}
		}
		if len(b.Succs) == 0 {
			if target == nil && isFallOffEnd(b) {
				return tr.with(nil)
			}
			return nil
		}
		for si, s := range b.Succs {
			if edgeOK != nil && !edgeOK(b, si) {
				continue
			}
			if visited[s] {
				continue
			}
			visited[s] = true
			var last ast.Node
			if len(b.Nodes) > 0 {
				last = b.Nodes[len(b.Nodes)-1]
			}
			if r := walk(s, 0, &trail{prev: tr, n: last, branch: si, nsucc: len(b.Succs)}); r != nil {
				return r
			}
		}
		return nil
	}
	return walk(from.B, from.I+1, nil)
}

func isFallOffEnd(b *cfg.Block) bool {
	// a block without successors that does not end in return/panic: function end
	if len(b.Nodes) == 0 {
		return b.Live
	}
	switch n := b.Nodes[len(b.Nodes)-1].(type) {
	case *ast.ReturnStmt:
		return false
	case *ast.ExprStmt:
		if call, ok := n.X.(*ast.CallExpr); ok {
			if id, ok := call.Fun.(*ast.Ident); ok && id.Name == "panic" {
				return false
			}
		}
	}
	return b.Live
}

type trail struct {
	prev   *trail
	n      ast.Node
	branch int
	nsucc  int
}

func (t *trail) with(n ast.Node) []ast.Node {
	var rev []ast.Node
	for x := t; x != nil; x = x.prev {
		if x.n != nil {
			rev = append(rev, x.n)
		}
	}
	out := make([]ast.Node, 0, len(rev)+1)
	for i := len(rev) - 1; i >= 0; i-- {
		out = append(out, rev[i])
	}
	return append(out, n)
}

// DescribePath renders a CFG path for a diagnostic.
func (p *Prog) DescribePath(path []ast.Node) []string {
	var out []string
	for _, n := range path {
		if n == nil {
			out = append(out, "end of function (implicit return)")
			continue
		}
		out = append(out, p.Rel(n.Pos())+": "+shortNode(p.Fset, n))
	}
	return out
}

func shortNode(fset *token.FileSet, n ast.Node) string {
	s := types.ExprString(nodeExpr(n))
	if len(s) > 90 {
		s = s[:90] + "…"
	}
	return s
}

func nodeExpr(n ast.Node) ast.Expr {
	switch x := n.(type) {
	case ast.Expr:
		return x
	case *ast.ExprStmt:
		return x.X
	case *ast.ReturnStmt:
		if len(x.Results) == 0 {
			return ast.NewIdent("return")
		}
		return &ast.CallExpr{Fun: ast.NewIdent("return"), Args: x.Results}
	case *ast.AssignStmt:
		if len(x.Rhs) == 1 {
			return &ast.BinaryExpr{X: tuple(x.Lhs), Op: token.ASSIGN, Y: x.Rhs[0]}
		}
		return &ast.BinaryExpr{X: tuple(x.Lhs), Op: token.ASSIGN, Y: tuple(x.Rhs)}
	case *ast.DeferStmt:
		return &ast.CallExpr{Fun: ast.NewIdent("defer"), Args: []ast.Expr{x.Call}}
	case *ast.GoStmt:
		return &ast.CallExpr{Fun: ast.NewIdent("go"), Args: []ast.Expr{x.Call}}
	case *ast.IncDecStmt:
		return &ast.UnaryExpr{Op: x.Tok, X: x.X}
	case *ast.SendStmt:
		return &ast.BinaryExpr{X: x.Chan, Op: token.ARROW, Y: x.Value}
	case *ast.ValueSpec:
		if len(x.Names) > 0 {
			return x.Names[0]
		}
	case *ast.RangeStmt:
		return &ast.CallExpr{Fun: ast.NewIdent("range"), Args: []ast.Expr{x.X}}
	}
	return ast.NewIdent("…")
}

func tuple(xs []ast.Expr) ast.Expr {
	if len(xs) == 1 {
		return xs[0]
	}
	return &ast.CallExpr{Fun: ast.NewIdent(""), Args: xs}
}

// ContainsCallTo reports whether node n (not descending into function literals) contains a
// call that resolves to one of the given functions (matched by types.Func identity after
// Origin(), or by FullName when byName is set).
func ContainsCall(info *types.Info, n ast.Node, match func(fn *types.Func, call *ast.CallExpr) bool) bool {
	found := false
	ast.Inspect(n, func(m ast.Node) bool {
		if found {
			return false
		}
		switch x := m.(type) {
		case *ast.FuncLit:
			return false
		case *ast.CallExpr:
			if fn := Callee(info, x); fn != nil && match(fn, x) {
				found = true
				return false
			}
		}
		return true
	})
	return found
}

// ErrNilEdge classifies the successor edge `succ` of block b when b ends in a comparison of
// an error-typed (or any nilable) expression with nil: it returns (obj, isNonNilEdge, ok) where obj
// is the compared variable. Useful as an edgeOK pruner: follow only error paths, or only
// success paths.
func ErrNilEdge(info *types.Info, b *cfg.Block, succ int) (obj types.Object, nonNil bool, ok bool) {
	if len(b.Nodes) == 0 || len(b.Succs) != 2 {
		return nil, false, false
	}
	be, isBin := ast.Unparen(asExpr(b.Nodes[len(b.Nodes)-1])).(*ast.BinaryExpr)
	if !isBin || (be.Op != token.NEQ && be.Op != token.EQL) {
		return nil, false, false
	}
	var id *ast.Ident
	if isNilIdent(info, be.Y) {
		id, _ = ast.Unparen(be.X).(*ast.Ident)
	} else if isNilIdent(info, be.X) {
		id, _ = ast.Unparen(be.Y).(*ast.Ident)
	}
	if id == nil {
		return nil, false, false
	}
	o := info.Uses[id]
	if o == nil {
		return nil, false, false
	}
	// Succs[0] is the true branch
	condTrue := succ == 0
	nonNil = (be.Op == token.NEQ) == condTrue
	return o, nonNil, true
}

func asExpr(n ast.Node) ast.Expr {
	if e, ok := n.(ast.Expr); ok {
		return e
	}
	return ast.NewIdent("_")
}

func isNilIdent(info *types.Info, e ast.Expr) bool {
	id, ok := ast.Unparen(e).(*ast.Ident)
	if !ok {
		return false
	}
	_, isNil := info.Uses[id].(*types.Nil)
	return isNil
}

// IsErrorType reports whether t is the predeclared error interface.
func IsErrorType(t types.Type) bool {
	return t != nil && types.Identical(t, types.Universe.Lookup("error").Type())
}

// DeferredCalls lists the call expressions of defer statements directly in body (not in
// nested function literals), including calls made inside a deferred function literal's body
// when `intoLits` is set.
func DeferredCalls(body *ast.BlockStmt, intoLits bool) []*ast.CallExpr {
	var out []*ast.CallExpr
	ast.Inspect(body, func(n ast.Node) bool {
		switch x := n.(type) {
		case *ast.FuncLit:
			return false
		case *ast.DeferStmt:
			out = append(out, x.Call)
			if lit, ok := x.Call.Fun.(*ast.FuncLit); ok && intoLits {
				ast.Inspect(lit.Body, func(m ast.Node) bool {
					if c, ok := m.(*ast.CallExpr); ok {
						out = append(out, c)
					}
					return true
				})
			}
			return false
		}
		return true
	})
	return out
}

// ReachableNodes returns every CFG node reachable from just after `from`, not passing through
// a node for which barrier is true (the barrier node itself is not included), following only
// edges accepted by edgeOK (nil = all).
func ReachableNodes(g *cfg.CFG, from CFGPoint, barrier func(ast.Node) bool, edgeOK func(b *cfg.Block, succ int) bool) []ast.Node {
	var out []ast.Node
	visited := map[*cfg.Block]bool{}
	var walk func(b *cfg.Block, i int)
	walk = func(b *cfg.Block, i int) {
		for ; i < len(b.Nodes); i++ {
			n := b.Nodes[i]
			if barrier != nil && barrier(n) {
				return
			}
			out = append(out, n)
			if _, ok := n.(*ast.ReturnStmt); ok {
				return
			}
		}
		for si, s := range b.Succs {
			if edgeOK != nil && !edgeOK(b, si) {
				continue
			}
			if visited[s] {
				continue
			}
			visited[s] = true
			walk(s, 0)
		}
	}
	walk(from.B, from.I+1)
	return out
}
