package main

import (
	"go/ast"
	"go/constant"
	"go/token"
	"go/types"
	"sort"
	"strings"

	"golang.org/x/tools/go/packages"
)

// C23-L: writer/reader agreement on the two row layouts trigger execution relies on.
//
//	input||updated  buildSet returns row.Append(updated); shouldUseLogicResult (Set arm) and triggerBlockIter.Next
//	                take the upper half; the block arm of shouldUseLogicResult passes the (already reduced) row on
//	old||new        updateSourceIter.Next returns append(old, new...), updateIter.Next calls Update(lower, upper),
//	                getTriggerLogic resolves OLD/NEW against CrossJoin(old, new) — INSERT against new, DELETE against old
//	aliases         planbuilder's CREATE TRIGGER scope offers per event the aliases the analyzer scope offers
//	width           see c23_place.go (needs the DML node table)

// ---- shape readers -------------------------------------------------------------------------------

// c23HalfLen reports whether e is len(x)/2 (directly, or a variable whose only definition is that) and returns x.
func c23HalfLen(info *types.Info, scope ast.Node, e ast.Expr) types.Object {
	e = ast.Unparen(e)
	if id, ok := e.(*ast.Ident); ok {
		o := c23Obj(info, id)
		if o == nil {
			return nil
		}
		as := c23AssignmentsTo(info, scope, o)
		if len(as) != 1 || as[0].rhs == nil {
			return nil
		}
		e = ast.Unparen(as[0].rhs)
	}
	be, ok := e.(*ast.BinaryExpr)
	if !ok || be.Op != token.QUO {
		return nil
	}
	if tv, ok := info.Types[be.Y]; !ok || tv.Value == nil || !constant.Compare(tv.Value, token.EQL, constant.MakeInt64(2)) {
		return nil
	}
	call, ok := ast.Unparen(be.X).(*ast.CallExpr)
	if !ok || !IsBuiltinCall(info, call, "len") || len(call.Args) != 1 {
		return nil
	}
	return c23Obj(info, call.Args[0])
}

// c23Half classifies a slice expression as the lower (x[:len(x)/2]) or upper (x[len(x)/2:]) half of x.
func c23Half(info *types.Info, scope ast.Node, e ast.Expr) (base types.Object, upper bool, ok bool) {
	se, isSlice := ast.Unparen(e).(*ast.SliceExpr)
	if !isSlice || se.Slice3 {
		return nil, false, false
	}
	x := c23Obj(info, se.X)
	if x == nil {
		return nil, false, false
	}
	switch {
	case se.Low != nil && se.High == nil:
		if c23HalfLen(info, scope, se.Low) == x {
			return x, true, true
		}
	case se.Low == nil && se.High != nil:
		if c23HalfLen(info, scope, se.High) == x {
			return x, false, true
		}
	}
	return nil, false, false
}

// c23Concat recognises a||b on rows: append(a, b...) or a.Append(b) where the method's receiver is the Row type.
func c23Concat(e *c23Env, info *types.Info, x ast.Expr) (a, b ast.Expr, ok bool) {
	call, isCall := ast.Unparen(x).(*ast.CallExpr)
	if !isCall {
		return nil, nil, false
	}
	if IsBuiltinCall(info, call, "append") && len(call.Args) == 2 && call.Ellipsis.IsValid() {
		if t := info.TypeOf(call.Args[0]); t != nil && types.Identical(t, e.rowT) {
			return call.Args[0], call.Args[1], true
		}
		return nil, nil, false
	}
	if fn := Callee(info, call); fn != nil && fn.Name() == "Append" && len(call.Args) == 1 {
		if sig := fn.Type().(*types.Signature); sig.Recv() != nil && types.Identical(sig.Recv().Type(), e.rowT) {
			if se, ok := ast.Unparen(call.Fun).(*ast.SelectorExpr); ok {
				return se.X, call.Args[0], true
			}
		}
	}
	return nil, nil, false
}

// c23FindConcats lists the row concatenations in body.
func c23FindConcats(e *c23Env, info *types.Info, body ast.Node) []*ast.CallExpr {
	var out []*ast.CallExpr
	ast.Inspect(body, func(n ast.Node) bool {
		if call, ok := n.(*ast.CallExpr); ok {
			if _, _, ok := c23Concat(e, info, call); ok {
				out = append(out, call)
			}
		}
		return true
	})
	return out
}

// c23DefsFromChildNext: every definition of obj in body is the first result of RowIter.Next on a receiver field,
// or a re-slice of obj itself.
func c23OnlyChildRow(e *c23Env, info *types.Info, body ast.Node, recv, obj types.Object) bool {
	n := 0
	for _, a := range c23AssignmentsTo(info, body, obj) {
		if a.rhs == nil {
			call, ok := ast.Unparen(a.stmt.Rhs[0]).(*ast.CallExpr)
			if !ok || a.idx != 0 {
				return false
			}
			fn := Callee(info, call)
			se, isSel := ast.Unparen(call.Fun).(*ast.SelectorExpr)
			if fn == nil || fn.Origin() != e.iterNext || !isSel || !c23FieldOfRecv(info, se.X, recv) {
				return false
			}
			n++
			continue
		}
		if se, ok := ast.Unparen(a.rhs).(*ast.SliceExpr); ok && c23Obj(info, se.X) == obj {
			continue
		}
		return false
	}
	return n > 0
}

// c23DerivedFrom: every definition of obj is a call that takes `from` as an argument, or a re-slice of obj itself.
func c23DerivedFrom(info *types.Info, body ast.Node, obj, from types.Object) bool {
	n := 0
	for _, a := range c23AssignmentsTo(info, body, obj) {
		var rhs ast.Expr = a.rhs
		if rhs == nil {
			if a.idx != 0 {
				return false
			}
			rhs = a.stmt.Rhs[0]
		}
		if se, ok := ast.Unparen(rhs).(*ast.SliceExpr); ok && c23Obj(info, se.X) == obj {
			continue
		}
		call, ok := ast.Unparen(rhs).(*ast.CallExpr)
		if !ok {
			return false
		}
		takes := false
		for _, arg := range call.Args {
			if c23Obj(info, arg) == from {
				takes = true
			}
		}
		if !takes {
			return false
		}
		n++
	}
	return n > 0
}

func c23RowParam(e *c23Env, info *types.Info, fd *ast.FuncDecl) types.Object {
	for _, f := range fd.Type.Params.List {
		if t := info.TypeOf(f.Type); t != nil && types.Identical(t, e.rowT) && len(f.Names) == 1 {
			return info.Defs[f.Names[0]]
		}
	}
	return nil
}

// ---- scopes per event ---------------------------------------------------------------------------

type c23EventScope struct {
	event   string // constant name (InsertTrigger …)
	val     string // its value, lower case (insert …)
	clause  *ast.CaseClause
	aliases map[string]bool
}

// c23EventSwitch finds the switch over the trigger event string in fd and maps each clause to the event constant.
func c23EventSwitch(e *c23Env, pk *packages.Package, fd *ast.FuncDecl) []c23EventScope {
	consts, _ := EnumConsts(e.planPk, e.nm.eventType)
	info := pk.TypesInfo
	var out []c23EventScope
	ast.Inspect(fd.Body, func(n ast.Node) bool {
		sw, ok := n.(*ast.SwitchStmt)
		if !ok || sw.Tag == nil || len(out) > 0 {
			return true
		}
		var got []c23EventScope
		for _, st := range sw.Body.List {
			cc := st.(*ast.CaseClause)
			for _, x := range cc.List {
				tv, ok := info.Types[x]
				if !ok || tv.Value == nil || tv.Value.Kind() != constant.String {
					continue
				}
				for _, k := range consts {
					if strings.EqualFold(constant.StringVal(k.Val), constant.StringVal(tv.Value)) {
						got = append(got, c23EventScope{event: k.Obj.Name(), val: strings.ToLower(constant.StringVal(k.Val)), clause: cc, aliases: map[string]bool{}})
					}
				}
			}
		}
		if len(got) >= 2 {
			out = got
		}
		return true
	})
	return out
}

func c23ConstString(info *types.Info, x ast.Expr) (string, bool) {
	tv, ok := info.Types[x]
	if !ok || tv.Value == nil || tv.Value.Kind() != constant.String {
		return "", false
	}
	return strings.ToLower(constant.StringVal(tv.Value)), true
}

func c23SetString(m map[string]bool) string {
	var ks []string
	for k := range m {
		ks = append(ks, k)
	}
	sort.Strings(ks)
	return "{" + strings.Join(ks, ",") + "}"
}

func c23RunLayout(e *c23Env) {
	c := e.c
	info := e.execPk.TypesInfo

	// ---- input||updated: writer ----------------------------------------------------------------------------------
	if _, fd := c.P.FuncDecl(e.nm.execRel, e.nm.builder+"."+e.nm.setBuild); fd == nil {
		c.Undecided("C23-L", e.nm.setBuild+"/input-then-updated", 0, "function not found")
	} else {
		rowP := c23RowParam(e, info, fd)
		cs := c23FindConcats(e, info, fd.Body)
		if rowP == nil || len(cs) == 0 {
			c.Undecided("C23-L", e.nm.setBuild+"/input-then-updated", fd.Pos(), "no row concatenation found: the layout of the SET result row is not readable")
		}
		for _, call := range cs {
			a, b, _ := c23Concat(e, info, call)
			ao, bo := c23Obj(info, a), c23Obj(info, b)
			good := ao != nil && ao == rowP && bo != nil && bo != rowP && c23DerivedFrom(info, fd.Body, bo, rowP)
			c.Check(good, "C23-L", e.nm.setBuild+"/input-then-updated", call.Pos(), "SET on row fields returns input||updated",
				"the SET result row is not input||updated (input row first, the row with the assignments applied second): the readers take the upper half as the updated row")
		}
	}

	// ---- input||updated: readers ---------------------------------------------------------------------------------
	if _, fd := c.P.FuncDecl(e.nm.execRel, e.nm.selectorFn); fd == nil {
		c.Undecided("C23-L", e.nm.selectorFn+"/"+e.nm.setNode, 0, "function not found")
	} else {
		rowP := c23RowParam(e, info, fd)
		var ts *ast.TypeSwitchStmt
		ast.Inspect(fd.Body, func(n ast.Node) bool {
			if t, ok := n.(*ast.TypeSwitchStmt); ok && ts == nil {
				ts = t
			}
			return true
		})
		if ts == nil || rowP == nil {
			c.Undecided("C23-L", e.nm.selectorFn+"/"+e.nm.setNode, fd.Pos(), "no type switch over the logic node / no Row parameter")
		} else {
			seen := map[string]bool{}
			for _, st := range ts.Body.List {
				cc := st.(*ast.CaseClause)
				for _, tx := range cc.List {
					var which string
					switch {
					case c23IsNamed(info.TypeOf(tx), e.planPk, e.nm.setNode):
						which = e.nm.setNode
					case c23IsNamed(info.TypeOf(tx), e.planPk, e.nm.blockNode):
						which = e.nm.blockNode
					default:
						continue
					}
					seen[which] = true
					var rets []*ast.ReturnStmt
					for _, s := range cc.Body {
						ast.Inspect(s, func(n ast.Node) bool {
							switch r := n.(type) {
							case *ast.FuncLit:
								return false
							case *ast.ReturnStmt:
								rets = append(rets, r)
							}
							return true
						})
					}
					good := len(rets) > 0
					for _, r := range rets {
						if len(r.Results) != 2 {
							good = false
							continue
						}
						if which == e.nm.setNode {
							base, upper, ok := c23Half(info, fd.Body, r.Results[1])
							if !ok || !upper || base != rowP {
								good = false
							}
						} else if c23Obj(info, r.Results[1]) != rowP {
							good = false
						}
					}
					if which == e.nm.setNode {
						c.Check(good, "C23-L", e.nm.selectorFn+"/"+which, cc.Pos(), "a single SET hands on the upper half (the updated row) of input||updated",
							"the "+which+" arm does not hand on the upper half of the logic row: buildSet writes input||updated, so NEW as modified by the trigger is row[len(row)/2:]")
					} else {
						c.Check(good, "C23-L", e.nm.selectorFn+"/"+which, cc.Pos(), "a BEGIN…END body hands on the block iterator's row unchanged (already reduced per statement)",
							"the "+which+" arm does not hand on the block iterator's row as is (the block iterator already reduces each SET result to its upper half)")
					}
				}
			}
			for _, w := range []string{e.nm.setNode, e.nm.blockNode} {
				if !seen[w] {
					c.Bad("C23-L", e.nm.selectorFn+"/"+w, ts.Pos(), "no arm for *plan."+w+": a BEFORE trigger's SET NEW.x in such a body would never be what gets stored")
				}
			}
		}
	}
	for _, x := range c23Executors(e) {
		m := &c23Machine{e: e, info: info, x: x, recv: c23RecvObj(info, x.next)}
		m.prepare()
		if m.unit == nil {
			continue
		}
		f := c23FlowCollect(m)
		key := x.typeName + ".Next/statement-result-upper-half"
		var rets []*ast.ReturnStmt
		ast.Inspect(x.next.Body, func(n ast.Node) bool {
			switch r := n.(type) {
			case *ast.FuncLit:
				return false
			case *ast.ReturnStmt:
				if len(r.Results) >= 2 && !c23IsNilLit(info, r.Results[0]) {
					rets = append(rets, r)
				}
			}
			return true
		})
		if len(rets) != 1 || c23Obj(info, rets[0].Results[0]) == nil {
			c.Undecided("C23-L", key, x.next.Pos(), "current row of the block executor not readable")
			continue
		}
		cur := c23Obj(info, rets[0].Results[0])
		n := 0
		for _, a := range c23AssignmentsTo(info, x.next.Body, cur) {
			if !(m.unit.Pos() <= a.stmt.Pos() && a.stmt.End() <= m.unit.End()) {
				continue
			}
			n++
			base, upper, ok := c23Half(info, x.next.Body, a.rhs)
			c.Check(a.rhs != nil && ok && upper && f.logicRows[base], "C23-L", key, a.stmt.Pos(), "a statement's SET result replaces the current row by its upper half (the updated row)",
				"the block's current row is not replaced by the upper half of the statement's result row (input||updated)")
		}
		if n == 0 {
			c.Bad("C23-L", key, x.next.Pos(), "no statement result replaces the block's current row")
		}
	}

	// ---- old||new: writer and reader -----------------------------------------------------------------------------
	if _, fd := c.P.FuncDecl(e.nm.execRel, e.nm.updateSource+".Next"); fd == nil {
		c.Undecided("C23-L", e.nm.updateSource+".Next/old-then-new", 0, "function not found")
	} else {
		recv := c23RecvObj(info, fd)
		cs := c23FindConcats(e, info, fd.Body)
		if len(cs) == 0 {
			c.Undecided("C23-L", e.nm.updateSource+".Next/old-then-new", fd.Pos(), "no row concatenation found: the layout of UPDATE rows is not readable")
		}
		for _, call := range cs {
			a, b, _ := c23Concat(e, info, call)
			ao, bo := c23Obj(info, a), c23Obj(info, b)
			good := ao != nil && bo != nil && ao != bo && c23OnlyChildRow(e, info, fd.Body, recv, ao) && c23DerivedFrom(info, fd.Body, bo, ao)
			c.Check(good, "C23-L", e.nm.updateSource+".Next/old-then-new", call.Pos(), "UPDATE rows are old||new: the child's row first, the row with the SET expressions applied second",
				"the UPDATE source does not produce old||new (the row read from the child first, the row derived from it second)")
		}
	}
	if _, fd := c.P.FuncDecl(e.nm.execRel, e.nm.updateIter+".Next"); fd == nil {
		c.Undecided("C23-L", e.nm.updateIter+".Next/Update(lower,upper)", 0, "function not found")
	} else {
		recv := c23RecvObj(info, fd)
		var upd *types.Func
		if tn, _ := e.sqlPk.Types.Scope().Lookup(e.nm.rowUpdater).(*types.TypeName); tn != nil {
			if o, _, _ := types.LookupFieldOrMethod(tn.Type(), false, e.sqlPk.Types, "Update"); o != nil {
				upd, _ = o.(*types.Func)
			}
		}
		n := 0
		for _, call := range c23Calls(fd.Body) {
			fn := Callee(info, call)
			if fn == nil || upd == nil || fn.Origin() != upd {
				continue
			}
			n++
			rows := c23RowArgs(e, info, call)
			good := len(rows) == 2
			if good {
				halves := [2]bool{false, true}
				var bases [2]types.Object
				for i, r := range rows {
					o := c23Obj(info, r)
					var src ast.Expr = r
					if o != nil {
						as := c23AssignmentsTo(info, fd.Body, o)
						if len(as) != 1 || as[0].rhs == nil {
							good = false
							break
						}
						src = as[0].rhs
					}
					base, upper, ok := c23Half(info, fd.Body, src)
					if !ok || upper != halves[i] {
						good = false
						break
					}
					bases[i] = base
				}
				if good && (bases[0] != bases[1] || !c23OnlyChildRow(e, info, fd.Body, recv, bases[0])) {
					good = false
				}
			}
			c.Check(good, "C23-L", e.nm.updateIter+".Next/Update(lower,upper)", call.Pos(), "the updater is called with (lower half, upper half) of the child's row, i.e. (old, new)",
				"RowUpdater.Update is not called with (lower half, upper half) of the row pulled from the child: the writer produces old||new")
		}
		if n == 0 {
			c.Undecided("C23-L", e.nm.updateIter+".Next/Update(lower,upper)", fd.Pos(), "no call of "+e.nm.rowUpdater+".Update found")
		}
	}

	// ---- OLD/NEW scope of the analyzer ---------------------------------------------------------------------------
	ainfo := e.anPk.TypesInfo
	anScopes := map[string]map[string]bool{}
	if _, fd := c.P.FuncDecl(e.nm.anRel, e.nm.logicFn); fd == nil {
		c.Undecided("C23-L", e.nm.logicFn+"/scope", 0, "function not found")
	} else {
		evs := c23EventSwitch(e, e.anPk, fd)
		if len(evs) == 0 {
			c.Undecided("C23-L", e.nm.logicFn+"/scope", fd.Pos(), "no switch over the trigger event found")
		}
		isCtor := func(call *ast.CallExpr, names ...string) string {
			fn := Callee(ainfo, call)
			if fn == nil || fn.Pkg() != e.planPk.Types {
				return ""
			}
			for _, n := range names {
				if fn.Name() == n {
					return n
				}
			}
			return ""
		}
		aliasesIn := func(n ast.Node) map[string]bool {
			out := map[string]bool{}
			ast.Inspect(n, func(k ast.Node) bool {
				if call, ok := k.(*ast.CallExpr); ok && isCtor(call, e.nm.aliasCtors...) != "" && len(call.Args) > 0 {
					if s, ok := c23ConstString(ainfo, call.Args[0]); ok {
						out[s] = true
					} else {
						out["?"] = true
					}
				}
				return true
			})
			return out
		}
		for _, ev := range evs {
			all := map[string]bool{}
			for _, s := range ev.clause.Body {
				for k := range aliasesIn(s) {
					all[k] = true
				}
			}
			anScopes[ev.event] = all
			if e.scopeWidth == nil {
				e.scopeWidth = map[string]int{}
			}
			e.scopeWidth[ev.event] = len(all)
			var joins []*ast.CallExpr
			for _, s := range ev.clause.Body {
				ast.Inspect(s, func(k ast.Node) bool {
					if call, ok := k.(*ast.CallExpr); ok && isCtor(call, e.nm.crossJoin) != "" {
						joins = append(joins, call)
					}
					return true
				})
			}
			key := e.nm.logicFn + "/" + ev.event
			switch len(all) {
			case 0:
				c.Bad("C23-L", key, ev.clause.Pos(), "the scope of this event offers neither OLD nor NEW")
			case 1:
				// one table wide: no join; which alias is judged against planbuilder below and against the event here
				want := "new"
				if ev.val == "delete" {
					want = "old"
				}
				c.Check(all[want] && len(joins) == 0, "C23-L", key, ev.clause.Pos(), "one table wide scope named "+want+" (rows of this event are single table rows)",
					"the scope of this event must be the single alias "+want+" (got "+c23SetString(all)+")")
			default:
				// two tables wide: every scope node is CrossJoin(old, new) in that order
				if len(joins) == 0 {
					c.Bad("C23-L", key, ev.clause.Pos(), "two aliases but no cross join: the OLD||NEW scope is not readable")
				}
				for _, j := range joins {
					if len(j.Args) < 2 {
						c.Undecided("C23-L", key, j.Pos(), "cross join with fewer than two operands")
						continue
					}
					l, r := aliasesIn(j.Args[len(j.Args)-2]), aliasesIn(j.Args[len(j.Args)-1])
					sub := ""
					ast.Inspect(j, func(k ast.Node) bool {
						if call, ok := k.(*ast.CallExpr); ok && sub == "" {
							sub = isCtor(call, e.nm.aliasCtors...)
						}
						return true
					})
					c.Check(len(l) == 1 && l["old"] && len(r) == 1 && r["new"], "C23-L", key+"/"+sub, j.Pos(), "scope is CrossJoin(old, new): OLD resolves to the lower, NEW to the upper half of old||new",
						"the UPDATE scope is not CrossJoin(old, new) in this order (left "+c23SetString(l)+", right "+c23SetString(r)+"): rows are old||new, so OLD.x / NEW.x would read the wrong half")
				}
			}
		}
	}

	// ---- aliases offered by planbuilder per event ---------------------------------------------------------------------
	pinfo := e.pbPk.TypesInfo
	if _, fd := c.P.FuncDecl(e.nm.pbRel, e.nm.createFn); fd == nil {
		c.Undecided("C23-L", "aliases", 0, "function "+e.nm.createFn+" not found")
	} else {
		aliasOf := map[types.Object]string{}
		ast.Inspect(fd.Body, func(n ast.Node) bool {
			if call, ok := n.(*ast.CallExpr); ok {
				if se, ok := ast.Unparen(call.Fun).(*ast.SelectorExpr); ok && se.Sel.Name == e.nm.setAlias && len(call.Args) == 1 {
					if fn := Callee(pinfo, call); fn != nil && fn.Pkg() == e.pbPk.Types {
						if s, ok := c23ConstString(pinfo, call.Args[0]); ok {
							if o := c23Obj(pinfo, se.X); o != nil {
								aliasOf[o] = s
							}
						}
					}
				}
			}
			return true
		})
		evs := c23EventSwitch(e, e.pbPk, fd)
		if len(evs) == 0 || len(aliasOf) == 0 {
			c.Undecided("C23-L", "aliases", fd.Pos(), "no switch over the trigger event / no "+e.nm.setAlias+" calls found in "+e.nm.createFn)
		}
		for _, ev := range evs {
			got := map[string]bool{}
			for _, s := range ev.clause.Body {
				for _, call := range c23Calls(s) {
					if se, ok := ast.Unparen(call.Fun).(*ast.SelectorExpr); ok {
						if a, ok := aliasOf[c23Obj(pinfo, se.X)]; ok {
							got[a] = true
						}
					}
				}
			}
			want := anScopes[ev.event]
			c.Check(want != nil && c23SetString(got) == c23SetString(want), "C23-L", "aliases/"+ev.event, ev.clause.Pos(),
				"CREATE TRIGGER resolves the same aliases "+c23SetString(got)+" as the scope the body is analysed in",
				"planbuilder offers "+c23SetString(got)+" for this event but the analyzer scope offers "+c23SetString(want)+": a reference accepted at CREATE time cannot be resolved (or resolves elsewhere) at execution")
		}
	}
}
