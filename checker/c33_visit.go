package main

import (
	"fmt"
	"go/ast"
	"go/types"

	"golang.org/x/tools/go/packages"
)

// C33-G8 (the cacheability predicate looks at the node it is visiting): the functions that decide
// whether a REGEXP node may keep its matcher / result across rows walk the argument trees with
// the expression tree walker and a callback. The verdict must be taken from the node the walker
// hands to the callback: a dynamic-type test (type switch, type assertion) inside the callback on
// a *captured* expression - the root of the walk - tests the same node at every visit, so an
// argument that merely contains a column or a non-deterministic call is taken for a constant and
// the matcher or result of the first row is reused for later rows.
//
// Decided for every function literal passed to a function whose parameter is a callback taking an
// expression (the walker is recognised by that signature, not by name) inside the functions that
// the cache flags are assigned from (the functions returning bool that take expressions), in
// the package of the SQL functions: each type switch / type assertion whose operand is a variable
// of the expression interface type must test one of the callback's own parameters (or a local
// declared inside the callback).

func runC33Visit(c *Ctx, cfg c33Config, floor int) {
	const rule = "C33-G8"
	c.Rule(rule, "inside every callback handed to the expression tree walker by a cacheability predicate, dynamic-type tests on an expression are made on the visited node (a callback parameter or a local of the callback), never on a captured expression", floor)
	pk := c.P.Pkg(cfg.FuncRel)
	epk := c.P.Pkg(cfg.ExprRel)
	if pk == nil || epk == nil {
		c.Undecided(rule, cfg.FuncRel, 0, "package not loaded")
		return
	}
	etn, _ := epk.Types.Scope().Lookup(cfg.ExprIface).(*types.TypeName)
	if etn == nil {
		c.Undecided(rule, cfg.ExprIface, 0, "expression interface not found")
		return
	}
	exprT := etn.Type()
	isExpr := func(t types.Type) bool { return t != nil && types.Identical(types.Unalias(t), exprT) }
	takesExprCallback := func(sig *types.Signature, i int) bool {
		if sig == nil {
			return false
		}
		var pt types.Type
		switch {
		case i < sig.Params().Len():
			pt = sig.Params().At(i).Type()
		default:
			return false
		}
		cb, ok := types.Unalias(pt).Underlying().(*types.Signature)
		if !ok {
			return false
		}
		for j := 0; j < cb.Params().Len(); j++ {
			if isExpr(cb.Params().At(j).Type()) {
				return true
			}
		}
		return false
	}
	c.P.EachFuncDecl([]string{cfg.FuncRel}, func(p *packages.Package, fd *ast.FuncDecl) {
		info := p.TypesInfo
		fn, _ := info.Defs[fd.Name].(*types.Func)
		if fn == nil || fd.Body == nil {
			return
		}
		// predicates over expressions: result bool, some parameter is an expression or a slice of expressions
		sig := fn.Type().(*types.Signature)
		if sig.Results().Len() != 1 || !types.Identical(sig.Results().At(0).Type(), types.Typ[types.Bool]) {
			return
		}
		takes := false
		for i := 0; i < sig.Params().Len(); i++ {
			t := sig.Params().At(i).Type()
			if sl, ok := t.Underlying().(*types.Slice); ok {
				t = sl.Elem()
			}
			if isExpr(t) {
				takes = true
			}
		}
		if !takes {
			return
		}
		nlit := 0
		ast.Inspect(fd.Body, func(n ast.Node) bool {
			call, ok := n.(*ast.CallExpr)
			if !ok {
				return true
			}
			var csig *types.Signature
			if tv, ok := info.Types[call.Fun]; ok {
				csig, _ = tv.Type.Underlying().(*types.Signature)
			}
			for i, a := range call.Args {
				lit, ok := ast.Unparen(a).(*ast.FuncLit)
				if !ok || !takesExprCallback(csig, i) {
					continue
				}
				nlit++
				own := map[types.Object]bool{}
				ast.Inspect(lit, func(m ast.Node) bool {
					if id, ok := m.(*ast.Ident); ok {
						if o := info.Defs[id]; o != nil {
							own[o] = true
						}
					}
					return true
				})
				key := fmt.Sprintf("%s/callback#%d", DeclName(fd), nlit)
				tests, bad := 0, 0
				check := func(x ast.Expr, what string) {
					id := identOf(x)
					if id == nil {
						return
					}
					o := info.Uses[id]
					if o == nil || !isExpr(o.Type()) {
						return
					}
					tests++
					if !own[o] {
						bad++
						c.Bad(rule, key+"/"+what+" "+id.Name, x.Pos(), fmt.Sprintf("%s: the callback handed to the tree walker tests the dynamic type of the captured expression %s instead of the node it is visiting: every visit tests the root of the walk, so what lies below the root never influences the verdict (an argument that contains a column or a non-deterministic call is treated as constant and the first row's matcher/result is reused)", DeclName(fd), id.Name))
					}
				}
				ast.Inspect(lit.Body, func(m ast.Node) bool {
					switch x := m.(type) {
					case *ast.FuncLit:
						return false
					case *ast.TypeSwitchStmt:
						var e ast.Expr
						switch a := x.Assign.(type) {
						case *ast.AssignStmt:
							e = a.Rhs[0]
						case *ast.ExprStmt:
							e = a.X
						}
						if ta, ok := ast.Unparen(e).(*ast.TypeAssertExpr); ok {
							check(ta.X, "type switch on")
						}
					case *ast.TypeAssertExpr:
						if x.Type != nil {
							check(x.X, "type assertion on")
						}
					}
					return true
				})
				if bad == 0 {
					if tests == 0 {
						c.Note(rule, key, lit.Pos(), "callback makes no dynamic-type test on an expression")
					} else {
						c.Ok(rule, key, lit.Pos(), fmt.Sprintf("%d dynamic-type tests, all on the visited node", tests))
					}
				}
			}
			return true
		})
	})
}
