package main

import (
	"fmt"
	"go/ast"
	"go/token"
	"go/types"
	"sort"
	"strings"

	"golang.org/x/tools/go/cfg"
	"golang.org/x/tools/go/packages"
)

// C19 — CHECK / NOT NULL hold for stored rows: write-dominance in the DML iterators.

type c19Params struct {
	sqlRel    string   // package declaring Row, Column, CheckConstraints, EvaluateCondition, IsFalse, the editor interfaces
	ocIface   string   // "EditOpenerCloser"
	iterIface string   // "RowIter"
	execPkgs  []string // packages searched for DML iterator types
	floors    map[string]int
}

var c19Repo = c19Params{sqlRel: "sql", ocIface: "EditOpenerCloser", iterIface: "RowIter", execPkgs: []string{"sql/rowexec"},
	floors: map[string]int{"C19-V": 4, "C19-D": 8, "C19-W": 5}}

// c19Exceptions: store sites that are not dominated by a validator, with the reason the property
// still holds there. One symbol per entry.
var c19Exceptions = map[string]string{
	"insertIter.handleOnDuplicateKeyUpdate/updater.Update(evalRow)/nullability": "ON DUPLICATE KEY UPDATE does not re-validate nullability, but the property holds: the backend editor rejects the row (memory tableEditor.Update -> checkRow -> Column.Check fails for nil in a NOT NULL column, error `invalid type`), demonstrated harmless in the design round and by repro TestC19OnDuplicateKeyUpdateNullIsRejected",
}

func init() {
	register(&Property{
		ID:       "C19",
		Patterns: []string{"./sql/rowexec"},
		Explanation: "Write-dominance in the DML iterators (types of sql/rowexec that implement sql.RowIter and edit rows through editors held in their fields). Decided: (V) the validators are discovered by shape and their shape is checked — a check-constraint evaluation is a range loop over a sql.CheckConstraints value that calls sql.EvaluateCondition on the row, returns its error, and leaves (returns a non-nil error / never reaches the store) when sql.IsFalse(result); a nullability validation is a function with a branch on `!col.Nullable && row[i] == nil` that returns a non-nil error; " +
			"(D) every call that stores a row (Insert(ctx,row) / Update(ctx,old,new) on a field-held editor, incl. REPLACE and ON DUPLICATE KEY UPDATE) is dominated on every CFG path from the function entry by a check evaluation and by a nullability validation of the very variable that is stored (re-assignments in between must derive from the variable itself), and the store is unreachable while the validator's error may be non-nil; " +
			"(W) every composite literal of such an iterator sets its CheckConstraints field and the schema field that the nullability validator reads. " +
			"Recomputation of generated columns after the user's assignments on every UPDATE-like path (UPDATE, UPDATE … JOIN, INSERT … ON DUPLICATE KEY UPDATE), functions discovered by shape: " +
			"(G1) in the dependent-expression builder of sql/planbuilder (the function that ranges over a sql.Schema, reads Column.Generated and appends expression.NewSetField values to its []sql.Expression parameter) every path through the column loop with col.Generated != nil appends SetField(col, <expression computed from col.Generated>) — evaluated by a case split over (Generated, OnUpdate, assigned) with three-valued conditions, so no guard over the assignment list (or any other unknown condition) may skip it; the sibling ON UPDATE arm appends exactly when the column is not assigned by the statement; the column loop is reached unconditionally (guards may read only the ranged schema); the `assigned` predicate returns true exactly on paths that found an assignment whose column name equals col.Name; " +
			"(G2) the builder only ever extends its assignment slice with append(slice, expr) and returns it (derived expressions come after the user's assignments); plan.UpdateExprs values are built only by plan.NewUpdateExprs, whose every call takes the builder's result and len(assignments) as split index, the split index is never written afterwards, the explicit/derived accessors return exprs[:n] and exprs[n:] and HasDerivedUpdates is len(exprs) > n; " +
			"(G3) in the executors (functions of sql/rowexec that consume the explicit or derived accessor) each half is applied by a loop — inline or one call level down — in which every iteration evaluates its expression over the accumulator row and replaces the accumulator by the result before the next expression or the loop exit, a value that replaces a failed evaluation (IGNORE) is computed from the accumulator, the derived half is dominated by the explicit half and continues from its result, and every row that is stored or returned afterwards derives from the accumulator as left by the last application (no stale view); " +
			"(G4) after the explicit half, on every non-error path with HasDerivedUpdates() true and the change test false-for-same, the derived half is applied before any row is stored/returned, and the change test (sql.Row.Equals) compares the row before the explicit half with the row after it.",
		NotCovered: "that the evaluated checks / defaults / generated expressions are the right expressions (analyzer, column resolution), that omitted columns of an INSERT get their default (insert source projection), what SetField.Eval and GetField indexes do, analyzer rewrites of the expression list (positional WithExpressions in fix_exec_indexes keeps the split by length only), triggers that assign NEW.col, rows written by DDL rewrites, foreign-key cascades (own GeneratedProjections) and full-text side tables, the backend's own type checks; a value computed by a call from col.Generated is taken to be non-nil exactly when col.Generated is",
		Technique:  "CFG dominance with value identity of the stored row variable + validator summaries discovered by shape (one call level) + abstract error state; path enumeration of the builder's column loop under a case split with Kleene evaluation of branch conditions; who-may-construct/write over the update-expression container; accumulator chaining and stale-view dataflow (fresh/stale bit per local view) in the executors",
		Run:        func(c *Ctx) { runC19(c, c19Repo); runC19G(c, c19gRepo) },
		Fixture: func(c *Ctx, fx *Prog) {
			p := c19Params{sqlRel: "testdata/c19/sql", ocIface: "EditOpenerCloser", iterIface: "RowIter", execPkgs: []string{"testdata/c19/exec"}, floors: map[string]int{}}
			expectFixture(c, fx, "c19: stores that skip validation must be reported", []string{
				"C19-D:writer.Next/inserter.Insert(row)/nullability",
				"C19-D:writer.upsert/updater.Update(merged)/checks",
				"C19-D:writer.upsert/updater.Update(merged)/nullability",
				"C19-D:writer.replace/inserter.Insert(row)/checks",
				"C19-V:writer.softChecks/checks-shape",
				"C19-W:writer/construct@NewBadWriter/checks",
			}, func(fc *Ctx) { runC19(fc, p) })
			c19gFixture(c, fx)
		},
		FixturePkgs: []string{"./testdata/c19/sql", "./testdata/c19/exec", "./testdata/c19/expr", "./testdata/c19/plan", "./testdata/c19/build", "./testdata/c19/gexec"},
	})
}

type c19 struct {
	c     *Ctx
	p     c19Params
	sqlPk *packages.Package
	oc    *types.Interface
	ri    *types.Interface
	rowT  types.Type
	ccT   types.Type
	schT  types.Type
	evalF *types.Func
	isFF  *types.Func
	nullF *types.Var // field Column.Nullable
}

type c19Validator struct {
	kind  string // "checks" | "nullability"
	fn    *types.Func
	param int // index of the row parameter
	sch   int // index of the schema parameter (nullability), -1 if none
}

func runC19(c *Ctx, p c19Params) {
	c.Rule("C19-V", "validator shape: check loops evaluate every enforced check on the row, propagate the evaluation error and leave on a FALSE result; nullability validators return an error for nil in a non-nullable column", p.floors["C19-V"])
	c.Rule("C19-D", "every row store of a DML iterator is dominated by a check evaluation and a nullability validation of the stored variable, whose errors branch away from the store", p.floors["C19-D"])
	c.Rule("C19-W", "every DML iterator literal sets its CheckConstraints field and the schema field read by the nullability validator", p.floors["C19-W"])
	a := &c19{c: c, p: p, sqlPk: c.P.Pkg(p.sqlRel)}
	if a.sqlPk == nil {
		c.Undecided("C19-D", "packages", 0, "package "+p.sqlRel+" not loaded")
		return
	}
	a.oc, a.ri = dmlLookupIface(c.P, p.sqlRel, p.ocIface), dmlLookupIface(c.P, p.sqlRel, p.iterIface)
	sc := a.sqlPk.Types.Scope()
	lookT := func(n string) types.Type {
		if tn, ok := sc.Lookup(n).(*types.TypeName); ok {
			return tn.Type()
		}
		return nil
	}
	a.rowT, a.ccT, a.schT = lookT("Row"), lookT("CheckConstraints"), lookT("Schema")
	a.evalF, _ = sc.Lookup("EvaluateCondition").(*types.Func)
	a.isFF, _ = sc.Lookup("IsFalse").(*types.Func)
	if colT := lookT("Column"); colT != nil {
		if st, ok := colT.Underlying().(*types.Struct); ok {
			for i := 0; i < st.NumFields(); i++ {
				if st.Field(i).Name() == "Nullable" {
					a.nullF = st.Field(i)
				}
			}
		}
	}
	if a.oc == nil || a.ri == nil || a.rowT == nil || a.ccT == nil || a.schT == nil || a.evalF == nil || a.isFF == nil || a.nullF == nil {
		c.Undecided("C19-D", "anchors", 0, "one of Row/CheckConstraints/Schema/Column.Nullable/EvaluateCondition/IsFalse/"+p.ocIface+"/"+p.iterIface+" not found in "+p.sqlRel)
		return
	}
	for _, rel := range p.execPkgs {
		pk := c.P.Pkg(rel)
		if pk == nil {
			c.Undecided("C19-D", "package "+rel, 0, "package not loaded")
			continue
		}
		a.pkg(pk)
	}
}

func (a *c19) isRowVar(info *types.Info, e ast.Expr) types.Object {
	id, ok := ast.Unparen(e).(*ast.Ident)
	if !ok {
		return nil
	}
	o := info.Uses[id]
	if o == nil || !types.Identical(o.Type(), a.rowT) {
		return nil
	}
	return o
}

func (a *c19) pkg(pk *packages.Package) {
	c, info := a.c, pk.TypesInfo
	// 1. DML iterator types and their store sites
	editNames := map[string]int{"Insert": 1, "Update": 2} // index of the stored row argument
	type store struct {
		fd   *ast.FuncDecl
		call *ast.CallExpr
		row  types.Object
		desc string
	}
	var stores []store
	var iterTypes []*types.Named
	for _, nt := range dmlNamedTypes(pk) {
		if !dmlImplements(nt, a.ri) || dmlImplements(nt, a.oc) {
			continue
		}
		n0 := len(stores)
		for _, fd := range dmlMethodDecls(pk, nt) {
			recv := dmlRecvObj(info, fd)
			for _, call := range dmlCallsIn(fd.Body, true) {
				sel, ok := ast.Unparen(call.Fun).(*ast.SelectorExpr)
				if !ok || !dmlImplements(info.TypeOf(sel.X), a.oc) {
					continue
				}
				ai, isEdit := editNames[sel.Sel.Name]
				if !isEdit || len(call.Args) <= ai {
					continue
				}
				path := dmlNormPath(info, fd.Body, recv, sel.X)
				if !strings.HasPrefix(path, "recv.") {
					continue
				}
				row := a.isRowVar(info, call.Args[ai])
				desc := fmt.Sprintf("%s.%s(%s)", strings.TrimPrefix(path, "recv."), sel.Sel.Name, types.ExprString(call.Args[ai]))
				if row == nil {
					c.Undecided("C19-D", DeclName(fd)+"/"+desc, call.Pos(), "the stored row is not a plain variable of type Row: value identity cannot be followed")
					continue
				}
				stores = append(stores, store{fd, call, row, desc})
			}
		}
		if len(stores) > n0 {
			iterTypes = append(iterTypes, nt)
		}
	}
	if len(stores) == 0 {
		c.Undecided("C19-D", "stores/"+dmlRelOfPkg(pk.PkgPath), 0, "no row store through a field-held editor found in an iterator type")
		return
	}

	// 2. validators by shape (methods/functions of the package)
	var validators []c19Validator
	c.P.EachFuncDecl([]string{dmlRelOfPkg(pk.PkgPath)}, func(_ *packages.Package, fd *ast.FuncDecl) {
		fn, _ := info.Defs[fd.Name].(*types.Func)
		if fn == nil {
			return
		}
		sig := fn.Type().(*types.Signature)
		if n := sig.Results().Len(); n != 1 || !IsErrorType(sig.Results().At(0).Type()) {
			return
		}
		rowIdx, schIdx := -1, -1
		nRow := 0
		for i := 0; i < sig.Params().Len(); i++ {
			if types.Identical(sig.Params().At(i).Type(), a.rowT) {
				rowIdx = i
				nRow++
			}
			if types.Identical(sig.Params().At(i).Type(), a.schT) {
				schIdx = i
			}
		}
		if nRow != 1 {
			return
		}
		rowObj := sig.Params().At(rowIdx)
		name := DeclName(fd)
		if loops := a.checkLoops(info, fd.Body, rowObj); len(loops) > 0 {
			ok := true
			for _, rs := range loops {
				if why := a.checkLoopShape(pk, fd, rs, rowObj, nil); why != "" {
					c.Bad("C19-V", name+"/checks-shape", rs.Pos(), name+": "+why)
					ok = false
				}
			}
			if ok {
				c.Ok("C19-V", name+"/checks-shape", fd.Pos(), "evaluates every enforced check, returns the evaluation error and an error on FALSE")
				validators = append(validators, c19Validator{"checks", fn, rowIdx, -1})
			}
		}
		if a.isNullabilityShape(info, fd, rowObj) {
			if why := a.nullabilityReturns(pk, fd, rowObj); why != "" {
				c.Bad("C19-V", name+"/nullability-shape", fd.Pos(), name+": "+why)
			} else {
				c.Ok("C19-V", name+"/nullability-shape", fd.Pos(), "returns an error for nil in a non-nullable column")
				validators = append(validators, c19Validator{"nullability", fn, rowIdx, schIdx})
			}
		}
	})

	// 3. dominance at each store
	schemaFieldsRead := map[*types.Named]map[string]bool{}
	for _, s := range stores {
		fname := DeclName(s.fd)
		g := c.P.CFG(info, s.fd.Body)
		recvT := dmlRecvNamed(info, s.fd)
		for _, kind := range []string{"checks", "nullability"} {
			key := fmt.Sprintf("%s/%s/%s", fname, s.desc, kind)
			// validation nodes for this row variable
			isValidation := func(n ast.Node) (*ast.CallExpr, bool) {
				for _, call := range dmlCallsIn(n, false) {
					fn := Callee(info, call)
					if fn == nil {
						continue
					}
					for _, v := range validators {
						if v.kind == kind && v.fn == fn.Origin() && len(call.Args) > v.param && a.isRowVar(info, call.Args[v.param]) == s.row {
							if v.sch >= 0 && recvT != nil {
								if sel, ok := ast.Unparen(call.Args[v.sch]).(*ast.SelectorExpr); ok && dmlIsFieldSel(info, sel, dmlRecvObj(info, s.fd), sel.Sel.Name) {
									if schemaFieldsRead[recvT] == nil {
										schemaFieldsRead[recvT] = map[string]bool{}
									}
									schemaFieldsRead[recvT][sel.Sel.Name] = true
								}
							}
							return call, true
						}
					}
				}
				return nil, false
			}
			// inline check loops over the stored variable
			var inlineLoops []*ast.RangeStmt
			if kind == "checks" {
				inlineLoops = a.checkLoops(info, s.fd.Body, s.row)
			}
			shapeBad := ""
			for _, rs := range inlineLoops {
				if why := a.checkLoopShape(pk, s.fd, rs, s.row, s.call); why != "" {
					shapeBad = why
				}
			}
			if shapeBad != "" {
				c.Bad("C19-V", fname+"/inline-checks-shape", s.call.Pos(), fname+": "+shapeBad)
			} else if len(inlineLoops) > 0 {
				c.Ok("C19-V", fname+"/inline-checks-shape", inlineLoops[0].Pos(), "inline check loop: evaluation error returned, FALSE result never reaches the store")
			}
			isBarrier := func(n ast.Node) bool {
				if _, ok := isValidation(n); ok {
					return true
				}
				for _, rs := range inlineLoops {
					if n == ast.Node(rs.X) {
						return true
					}
				}
				return false
			}
			isStore := func(n ast.Node) bool { return n.Pos() <= s.call.Pos() && s.call.End() <= n.End() }
			// (a) dominance with value identity: from the entry, reach the store without a validation of
			// the variable, or with a foreign re-assignment of the variable after the validation
			path := dmlSearch(g, EntryPoint(g), 0, func(n ast.Node, st int) (int, dmlVerdict) {
				if isStore(n) {
					if st == 0 {
						return st, dmlHit
					}
					return st, dmlStop
				}
				if isBarrier(n) {
					st = 1
				}
				if as, ok := n.(*ast.AssignStmt); ok && dmlAssigns(info, as, s.row) && !dmlMentionsRHS(info, as, s.row) {
					st = 0 // the variable now holds a different row
				}
				return st, dmlGo
			}, nil, nil)
			if path != nil {
				if why := c19Exceptions[key]; why != "" && !c.fixtureMode {
					c.Exc("C19-D", key, s.call.Pos(), why)
				} else {
					c.Bad("C19-D", key, s.call.Pos(), fmt.Sprintf("%s stores `%s` through %s on a path without a %s validation of that variable: a row violating a %s can be written", fname, s.row.Name(), s.desc, kind, map[string]string{"checks": "CHECK constraint", "nullability": "NOT NULL column"}[kind]), c.P.DescribePath(path)...)
				}
				continue
			}
			// (b) the validator's error branches away from the store
			bad := []ast.Node(nil)
			for _, b := range g.Blocks {
				for i, n := range b.Nodes {
					call, ok := isValidation(n)
					if !ok {
						continue
					}
					ev := c19ErrVarOf(info, n, call)
					if ev == nil {
						if _, isRet := n.(*ast.ReturnStmt); isRet {
							continue
						}
						bad = []ast.Node{n}
						break
					}
					p := dmlSearch(g, CFGPoint{b, i}, dmlErrAny, func(m ast.Node, st int) (int, dmlVerdict) {
						if isStore(m) {
							if st&^dmlErrNil != 0 {
								return st, dmlHit
							}
							return st, dmlStop
						}
						if dmlAssigns(info, m, ev) {
							if st&^dmlErrNil != 0 {
								return st, dmlHit // the validator's error is overwritten before it was tested
							}
							return st, dmlStop
						}
						return st, dmlGo
					}, func(b2 *cfg.Block, si int, st int) (int, bool) { return dmlRefineErr(info, b2, si, ev, st) }, nil)
					if p != nil {
						bad = append([]ast.Node{n}, p...)
					}
				}
			}
			if bad != nil {
				c.Bad("C19-D", key, s.call.Pos(), fmt.Sprintf("%s: the store %s is reachable although the %s validation of `%s` may have returned an error (its result is not tested, or is overwritten, before the store)", fname, s.desc, kind, s.row.Name()), c.P.DescribePath(bad)...)
				continue
			}
			c.Ok("C19-D", key, s.call.Pos(), "dominated by a "+kind+" validation of `"+s.row.Name()+"`, error branches away")
		}
	}

	// 4. wiring of the literals
	sort.Slice(iterTypes, func(i, j int) bool { return iterTypes[i].Obj().Name() < iterTypes[j].Obj().Name() })
	for _, nt := range iterTypes {
		st, ok := nt.Underlying().(*types.Struct)
		if !ok {
			continue
		}
		need := map[string]string{}
		for i := 0; i < st.NumFields(); i++ {
			f := st.Field(i)
			if types.Identical(f.Type(), a.ccT) {
				need[f.Name()] = "checks"
			}
			if schemaFieldsRead[nt][f.Name()] {
				need[f.Name()] = "schema"
			}
		}
		for _, mpk := range a.c.P.Module {
			minfo := mpk.TypesInfo
			for _, file := range mpk.Syntax {
				ast.Inspect(file, func(n ast.Node) bool {
					cl, ok := n.(*ast.CompositeLit)
					if !ok || dmlNamedOf(minfo.TypeOf(cl)) != nt {
						return true
					}
					where := "?"
					if fd := dmlEnclosingDecl(mpk, cl.Pos()); fd != nil {
						where = DeclName(fd)
					}
					set := map[string]ast.Expr{}
					keyed := true
					for _, el := range cl.Elts {
						kv, ok := el.(*ast.KeyValueExpr)
						if !ok {
							keyed = false
							continue
						}
						if id, ok := kv.Key.(*ast.Ident); ok {
							set[id.Name] = kv.Value
						}
					}
					var names []string
					for f := range need {
						names = append(names, f)
					}
					sort.Strings(names)
					for _, f := range names {
						key := fmt.Sprintf("%s/construct@%s/%s", nt.Obj().Name(), where, need[f])
						v, has := set[f]
						switch {
						case !keyed:
							c.Undecided("C19-W", key, cl.Pos(), "positional composite literal")
						case !has || isNilIdent(minfo, v):
							c.Bad("C19-W", key, cl.Pos(), fmt.Sprintf("%s is constructed in %s without setting `%s`: the %s validation then runs over nothing and every row passes", nt.Obj().Name(), where, f, need[f]))
						default:
							c.Ok("C19-W", key, cl.Pos(), f+": "+types.ExprString(v))
						}
					}
					return true
				})
			}
		}
	}
}

func dmlMentionsRHS(info *types.Info, as *ast.AssignStmt, obj types.Object) bool {
	for _, r := range as.Rhs {
		if dmlMentions(info, r, obj, true) {
			return true
		}
	}
	return false
}

// c19ErrVarOf returns the error variable that receives the result of `call` in node n
// (`err := f()`, `err = f()`, `if err := f(); …`).
func c19ErrVarOf(info *types.Info, n ast.Node, call *ast.CallExpr) types.Object {
	as, ok := n.(*ast.AssignStmt)
	if !ok || len(as.Rhs) != 1 || ast.Unparen(as.Rhs[0]) != ast.Expr(call) || len(as.Lhs) == 0 {
		return nil
	}
	id, ok := as.Lhs[len(as.Lhs)-1].(*ast.Ident)
	if !ok || id.Name == "_" {
		return nil
	}
	if o := info.Defs[id]; o != nil {
		return o
	}
	return info.Uses[id]
}

// checkLoops finds range loops over a CheckConstraints value whose body calls
// sql.EvaluateCondition with the given row variable as the row argument.
func (a *c19) checkLoops(info *types.Info, body *ast.BlockStmt, row types.Object) []*ast.RangeStmt {
	var out []*ast.RangeStmt
	ast.Inspect(body, func(n ast.Node) bool {
		rs, ok := n.(*ast.RangeStmt)
		if !ok || !types.Identical(info.TypeOf(rs.X), a.ccT) {
			return true
		}
		for _, call := range dmlCallsIn(rs.Body, false) {
			if fn := Callee(info, call); fn == a.evalF && len(call.Args) == 3 && a.isRowVar(info, call.Args[2]) == row {
				out = append(out, rs)
				break
			}
		}
		return true
	})
	return out
}

// checkLoopShape verifies one check loop. In a validator function (store == nil) a FALSE result
// and an evaluation error must lead to a return with a non-nil error; inline (store != nil) they
// must never reach the store. Returns "" when fine.
func (a *c19) checkLoopShape(pk *packages.Package, fd *ast.FuncDecl, rs *ast.RangeStmt, row types.Object, store *ast.CallExpr) string {
	info := pk.TypesInfo
	g := a.c.P.CFG(info, fd.Body)
	sig := info.Defs[fd.Name].(*types.Func).Type().(*types.Signature)
	var evalAs *ast.AssignStmt
	ast.Inspect(rs.Body, func(n ast.Node) bool {
		if as, ok := n.(*ast.AssignStmt); ok && len(as.Rhs) == 1 && len(as.Lhs) == 2 {
			if call, ok := ast.Unparen(as.Rhs[0]).(*ast.CallExpr); ok && Callee(info, call) == a.evalF && a.isRowVar(info, call.Args[2]) == row {
				evalAs = as
			}
		}
		return true
	})
	if evalAs == nil {
		return "the result of EvaluateCondition is not kept in `res, err :=`"
	}
	objOf := func(e ast.Expr) types.Object {
		id, ok := e.(*ast.Ident)
		if !ok || id.Name == "_" {
			return nil
		}
		if o := info.Defs[id]; o != nil {
			return o
		}
		return info.Uses[id]
	}
	res, errV := objOf(evalAs.Lhs[0]), objOf(evalAs.Lhs[1])
	if res == nil || errV == nil {
		return "the result or the error of EvaluateCondition is discarded"
	}
	// the check expression must be the loop variable's Expr
	if call := ast.Unparen(evalAs.Rhs[0]).(*ast.CallExpr); true {
		okExpr := false
		if sel, ok := ast.Unparen(call.Args[1]).(*ast.SelectorExpr); ok {
			if id, ok := ast.Unparen(sel.X).(*ast.Ident); ok && rs.Value != nil {
				if vid, ok := rs.Value.(*ast.Ident); ok && info.Uses[id] == info.Defs[vid] {
					okExpr = true
				}
			}
		}
		if !okExpr {
			return "EvaluateCondition is not applied to the loop variable's expression"
		}
	}
	// no early exit from the loop other than return / continue guarded by !Enforced
	why := ""
	ast.Inspect(rs.Body, func(n ast.Node) bool {
		if br, ok := n.(*ast.BranchStmt); ok && br.Tok == token.BREAK {
			why = "the check loop contains `break`: later checks are not evaluated"
		}
		return true
	})
	if why != "" {
		return why
	}
	isFalseCond := func(n ast.Node) bool {
		e, ok := n.(ast.Expr)
		if !ok {
			return false
		}
		call, ok := ast.Unparen(e).(*ast.CallExpr)
		if !ok || Callee(info, call) != a.isFF || len(call.Args) != 1 {
			return false
		}
		id, ok := ast.Unparen(call.Args[0]).(*ast.Ident)
		return ok && info.Uses[id] == res
	}
	start, ok := FindNode(g, evalAs)
	if !ok {
		return "check evaluation not found in the CFG"
	}
	isStore := func(n ast.Node) bool { return store != nil && n.Pos() <= store.Pos() && store.End() <= n.End() }
	escapes := func(b *cfg.Block, si int) bool {
		t := b.Succs[si]
		return t.Stmt == ast.Stmt(rs) && (t.Kind == cfg.KindRangeLoop || t.Kind == cfg.KindRangeDone)
	}
	// (1) with a possibly non-nil evaluation error, neither the FALSE test, the next iteration nor the store is reached
	const escaped = 8
	p := dmlSearch(g, start, dmlErrAny, func(n ast.Node, st int) (int, dmlVerdict) {
		if st&escaped != 0 {
			return st, dmlHit
		}
		if r, ok := n.(*ast.ReturnStmt); ok {
			if e := dmlErrOperand(info, sig, r); st&^dmlErrNil&dmlErrAny != 0 && st&dmlErrNil == 0 && (e == nil || isNilIdent(info, e)) {
				return st, dmlHit
			}
			return st, dmlStop
		}
		if (isFalseCond(n) || isStore(n)) && st&(dmlErrEOF|dmlErrOther) != 0 {
			return st, dmlHit
		}
		if isFalseCond(n) {
			return st, dmlStop
		}
		return st, dmlGo
	}, func(b *cfg.Block, si int, st int) (int, bool) {
		abs, feasible := dmlRefineErr(info, b, si, errV, st&dmlErrAny)
		if !feasible {
			return st, false
		}
		st = st&^dmlErrAny | abs
		if escapes(b, si) && abs&(dmlErrEOF|dmlErrOther) != 0 {
			st |= escaped
		}
		return st, true
	}, func(st int) bool { return st&escaped != 0 })
	if p != nil {
		return "the error of EvaluateCondition is not returned before the result is used (a failing check expression lets the row through)"
	}
	// (2) the FALSE branch leaves
	found := false
	bad := false
	for _, b := range g.Blocks {
		if len(b.Nodes) == 0 || len(b.Succs) != 2 || !b.Live {
			continue
		}
		last := b.Nodes[len(b.Nodes)-1]
		if last.Pos() < rs.Body.Pos() || last.End() > rs.Body.End() || !isFalseCond(last) {
			continue
		}
		found = true
		q := dmlSearch(g, CFGPoint{b.Succs[0], -1}, 0, func(n ast.Node, st int) (int, dmlVerdict) {
			if st&escaped != 0 || isStore(n) {
				return st, dmlHit
			}
			if r, ok := n.(*ast.ReturnStmt); ok {
				if e := dmlErrOperand(info, sig, r); e == nil || isNilIdent(info, e) {
					return st, dmlHit
				}
				return st, dmlStop
			}
			return st, dmlGo
		}, func(b2 *cfg.Block, si int, st int) (int, bool) {
			if escapes(b2, si) {
				st |= escaped
			}
			return st, true
		}, func(st int) bool { return true })
		if q != nil || (b.Succs[0].Stmt == ast.Stmt(rs) && b.Succs[0].Kind != cfg.KindIfThen) {
			bad = true
		}
	}
	if !found {
		return "no `if sql.IsFalse(res)` test of the check result in the loop: a FALSE check does not reject the row"
	}
	if bad {
		return "a FALSE check result does not leave with an error (the loop goes on / the store is reached)"
	}
	return ""
}

// isNullabilityShape: the function has an if whose condition mentions <col>.Nullable (the field of
// sql.Column) and compares an element of the row parameter with nil.
func (a *c19) isNullabilityShape(info *types.Info, fd *ast.FuncDecl, row types.Object) bool {
	return a.nullabilityIf(info, fd, row) != nil
}

func (a *c19) nullabilityIf(info *types.Info, fd *ast.FuncDecl, row types.Object) *ast.IfStmt {
	var out *ast.IfStmt
	ast.Inspect(fd.Body, func(n ast.Node) bool {
		ifs, ok := n.(*ast.IfStmt)
		if !ok || out != nil {
			return true
		}
		hasNullable, hasNilCmp := false, false
		ast.Inspect(ifs.Cond, func(m ast.Node) bool {
			switch x := m.(type) {
			case *ast.UnaryExpr:
				if x.Op == token.NOT {
					if sel, ok := ast.Unparen(x.X).(*ast.SelectorExpr); ok && info.Uses[sel.Sel] == types.Object(a.nullF) {
						hasNullable = true
					}
				}
			case *ast.BinaryExpr:
				if x.Op == token.EQL && isNilIdent(info, x.Y) {
					if ix, ok := ast.Unparen(x.X).(*ast.IndexExpr); ok {
						if id, ok := ast.Unparen(ix.X).(*ast.Ident); ok && info.Uses[id] == row {
							hasNilCmp = true
						}
					}
				}
			}
			return true
		})
		if hasNullable && hasNilCmp {
			// the two must be conjoined at the top level of the condition
			if be, ok := ast.Unparen(ifs.Cond).(*ast.BinaryExpr); ok && be.Op == token.LAND {
				out = ifs
			}
		}
		return true
	})
	return out
}

// nullabilityReturns: inside the `!col.Nullable && row[i] == nil` branch some path returns a
// non-nil error, and no path returns nil without having re-assigned the element (the IGNORE arm
// writes the zero value). Returns "" when fine.
func (a *c19) nullabilityReturns(pk *packages.Package, fd *ast.FuncDecl, row types.Object) string {
	info := pk.TypesInfo
	ifs := a.nullabilityIf(info, fd, row)
	sig := info.Defs[fd.Name].(*types.Func).Type().(*types.Signature)
	hasErrReturn := false
	ast.Inspect(ifs.Body, func(n ast.Node) bool {
		if r, ok := n.(*ast.ReturnStmt); ok {
			if e := dmlErrOperand(info, sig, r); e != nil && !isNilIdent(info, e) {
				hasErrReturn = true
			}
		}
		return true
	})
	if !hasErrReturn {
		return "the `!col.Nullable && row[i] == nil` branch never returns an error"
	}
	// every path through the branch either returns an error or assigns row[i]
	g := a.c.P.CFG(info, fd.Body)
	var condBlock *cfg.Block
	for _, b := range g.Blocks {
		if len(b.Nodes) > 0 && b.Nodes[len(b.Nodes)-1] == ast.Node(ifs.Cond) && len(b.Succs) == 2 {
			condBlock = b
		}
	}
	if condBlock == nil {
		return "nullability branch not found in the CFG"
	}
	assignsElem := func(n ast.Node) bool {
		as, ok := n.(*ast.AssignStmt)
		if !ok {
			return false
		}
		for _, l := range as.Lhs {
			if ix, ok := ast.Unparen(l).(*ast.IndexExpr); ok {
				if id, ok := ast.Unparen(ix.X).(*ast.Ident); ok && info.Uses[id] == row {
					return true
				}
			}
		}
		return false
	}
	p := dmlSearch(g, CFGPoint{condBlock.Succs[0], -1}, 0, func(n ast.Node, st int) (int, dmlVerdict) {
		if assignsElem(n) {
			return st, dmlStop
		}
		if r, ok := n.(*ast.ReturnStmt); ok {
			if e := dmlErrOperand(info, sig, r); e == nil || isNilIdent(info, e) {
				return st, dmlHit
			}
			return st, dmlStop
		}
		if n.Pos() < ifs.Body.Pos() || n.End() > ifs.Body.End() {
			return st, dmlHit // left the branch without an error and without repairing the element
		}
		return st, dmlGo
	}, nil, func(int) bool { return true })
	if p != nil {
		return "a path through the `!col.Nullable && row[i] == nil` branch neither returns an error nor replaces the nil element"
	}
	return ""
}
