package main

import (
	"fmt"
	"go/ast"
	"go/token"
	"go/types"
	"os"
	"sort"
	"strings"
	"time"

	"golang.org/x/tools/go/packages"
)

func init() {
	register(&Property{
		ID:        "C10",
		Patterns:  enginePatterns,
		Thorough:  enginePatterns,
		Technique: "who-may-spawn + leading-defer recover shape (go/ast, go/types); panic-transport containment over a type-resolved call graph; zone-domain bounds analysis on go/ssa (overflow-aware for the SQL functions)",
		Explanation: "No SQL input crashes the engine — four structural clauses. (G1) every goroutine this module spawns (go statements, sync.WaitGroup.Go, time.AfterFunc, errgroup.Group.Go) " +
			"runs an entry function whose leading defer statements include one whose callee directly calls recover(); errgroup.Group.Go is called only inside errguard.Go; a panic in any other " +
			"goroutine kills the process and no caller can turn it into an error. (T1) panics used as exceptions (planbuilder.parseErr, memo.MemoErr): a function that can reach such a panic " +
			"without passing a frame that recovers it (a deferred literal that type-switches the recovered value on that type, or recovers everything) is not called from another package, unless " +
			"that caller is itself under such a frame on every module path: otherwise the exception escapes as a crash of the statement. (B1) the byte-level kernels that receive attacker-controlled " +
			"bytes (RangeMap.Decode/Encode/EncodeReplaceUnknown/DecodeRune/EncodeRune, rangeBounds.contains, validateMysqlNativePassword) index and slice only in range on every path (bounds engine; " +
			"the JSON quoting kernels are decided under C32). (B2) the built-in scalar SQL functions (packages sql/expression/function and sql/expression/function/json): in every function whose body " +
			"slices a value or indexes a string, []byte or []rune (function literals included), each index and slice expression — on the strings, byte and rune slices computed from the client's arguments, and on argument lists — is in range " +
			"on every path, with the integer operands taken as arbitrary 64-bit values: a sum, difference, negation or unsigned-to-signed conversion bounds something only where it provably does not wrap " +
			"(LEFT/RIGHT/SUBSTRING/INSERT/LPAD/LOCATE/TRIM/SUBSTRING_INDEX-style position and length clamps, including for MinInt64/MaxInt64 and empty strings). An expression out of range panics in " +
			"Expression.Eval and nothing up to Engine.Query or RowIter.Next recovers it.",
		NotCovered: "nil dereferences, failed type assertions, unbounded recursion and hangs; index panics outside the byte kernels and the two built-in function packages (sql/expression itself — LIKE matcher, CASE, MATCH — the " +
			"aggregation/window and spatial function packages are not decided: ST_GeomFromText('MULTIPOINT((1 2),)') panics in spatial.TrimWKTData today), and in functions of the two packages that neither slice nor index a text value (argument-list indexing alone); " +
			"allocation sizes (make / strings.Repeat with a client-chosen count: LPAD('a', 9223372036854775807, 'b') panics in makeslice today); panics raised by third-party code; " +
			"B2 rests on named exceptions for 7 expressions whose safety is a non-linear or constructor-established fact (listed in design_notes/C10.md), on standard-library contracts (io.Reader.Read, strings.Index, " +
			"strconv/time result lengths) and on lengths below 2^40; " +
			"T1 follows statically resolved calls and function literals (attributed to the enclosing function), not calls through interface values or stored function values",
		Run: func(c *Ctx) {
			defer c10Timer("total")()
			runC10G1(c, modPath+"/errguard", []string{"golang.org/x/sync/errgroup.Group.Go", "golang.org/x/sync/errgroup.Group.TryGo"}, 22)
			c10Timer("G1")()
			runC10T1(c, []c10Exc{{"sql/planbuilder", "parseErr"}, {"sql/memo", "MemoErr"}}, 24)
			c10Timer("T1")()
			runC10B1(c)
			c10Timer("B1")()
			runC10B2(c, c10B2Packages, c10B2Exceptions, 100)
			c10Timer("B2")()
		},
		Fixture: func(c *Ctx, fx *Prog) {
			expectFixture(c, fx, "c10: bare goroutine, recover not in the leading defers, errgroup.Go outside the guard, WaitGroup.Go without recover",
				[]string{
					"C10-G1:spawn.Bare/go func",
					"C10-G1:spawn.LateDefer/go func",
					"C10-G1:spawn.NestedRecover/go func",
					"C10-G1:spawn.Named/go worker.run",
					"C10-G1:spawn.Group/errgroup.Group.Go",
					"C10-G1:spawn.WG/sync.WaitGroup.Go",
					"C10-G1:spawn.Timer/time.AfterFunc",
					"C10-G1:spawn.Dynamic/go f",
				},
				func(fc *Ctx) {
					runC10G1(fc, "vchk/testdata/c10/guard", []string{"vchk/testdata/c10/guard.Group.Go"}, 0)
				})
			expectFixture(c, fx, "c10: exception panic escaping through an exported function called from another package",
				[]string{
					"C10-T1:parseErr: user.Use -> build.Builder.Resolve",
					"C10-T1:parseErr: user.Early -> build.Builder.Resolve",
					"C10-T1:MemoErr: user.Plan -> build.Memo.Optimize",
				},
				func(fc *Ctx) {
					runC10T1(fc, []c10Exc{{"testdata/c10/build", "parseErr"}, {"testdata/c10/build", "MemoErr"}}, 0)
				})
			expectFixture(c, fx, "c10: Encode without the length guard of its siblings, scramble loop indexed by the other slice",
				[]string{"C10-B1:Map.Encode/str[:n]", "C10-B1:Map.Encode/str[n:]", "C10-B1:validate/resp[i]"},
				func(fc *Ctx) {
					pk := fc.P.Pkg("testdata/c10/kern")
					fc.Rule("C10-B1", "", 0)
					BoundsCheckFuncs(fc, "C10-B1", []*types.Func{LookupFunc(pk, "Map.Decode"), LookupFunc(pk, "Map.Encode"), LookupFunc(pk, "validate"), LookupFunc(pk, "validateOK")})
				})
			expectFixture(c, fx, "c10: miniature SQL functions: wrapping clamp, unchecked negation, empty-string position, weakened length test, over-advancing scanner loop, slice in a literal, i+1 / uint64 conversion / start+n that wrap, a field assigned through a base pointer (their guarded twins stay silent)",
				[]string{
					"C10-B2:SubstrBad/text[idx:idx + length]",
					"C10-B2:TailBad/parts[start:end]",
					"C10-B2:LocateBad/str[pos - 1:]",
					"C10-B2:PrefixBad/v.([]byte)[:12]",
					"C10-B2:CountBad/s[n + 1:]",
					"C10-B2:LitBad/s[:n]",
					"C10-B2:AddWrapBad/s[j - 1:]",
					"C10-B2:ConvBad/s[i:]",
					"C10-B2:PairBad/s[start:start + n]",
					"C10-B2:C.First/c.kids[:1]",
				},
				func(fc *Ctx) { runC10B2(fc, []string{"testdata/c10/fn"}, nil, 0) })
		},
		FixturePkgs: []string{"./testdata/c10/spawn", "./testdata/c10/guard", "./testdata/c10/build", "./testdata/c10/user", "./testdata/c10/kern", "./testdata/c10/fn"},
	})
}

// ---------------------------------------------------------------------------------------
// B1

// BoundsRangeMapKernels returns the RangeMap kernels of sql/encodings (for C30's rule R5: call
// BoundsCheckFuncs(c, "C30-R5", BoundsRangeMapKernels(c.P)); the named exceptions in
// eng_bounds.go rest on C30-R1 and apply under any rule id).
func BoundsRangeMapKernels(p *Prog) []*types.Func {
	enc := p.Pkg("sql/encodings")
	var fns []*types.Func
	for _, n := range []string{"RangeMap.Decode", "RangeMap.Encode", "RangeMap.EncodeReplaceUnknown", "RangeMap.DecodeRune", "RangeMap.EncodeRune", "rangeBounds.contains"} {
		fns = append(fns, LookupFunc(enc, n))
	}
	return fns
}

func runC10B1(c *Ctx) {
	c.Rule("C10-B1", "every index/slice expression of the byte kernels is in range on every path (bounds engine; exceptions name the table-shape invariant C30-R1 they rest on)", 32)
	if c.P.Pkg("sql/encodings") == nil || c.P.Pkg("sql/mysql_db") == nil {
		c.Undecided("C10-B1", "packages", 0, "sql/encodings or sql/mysql_db not loaded")
		return
	}
	fns := append(BoundsRangeMapKernels(c.P), LookupFunc(c.P.Pkg("sql/mysql_db"), "validateMysqlNativePassword"))
	BoundsCheckFuncs(c, "C10-B1", fns)
}

// ---------------------------------------------------------------------------------------
// G1: goroutine entries recover

// c10Recovers: the function body directly (not inside a nested literal) calls the builtin recover.
func c10Recovers(info *types.Info, body *ast.BlockStmt) bool {
	found := false
	ast.Inspect(body, func(n ast.Node) bool {
		switch x := n.(type) {
		case *ast.FuncLit:
			return false
		case *ast.CallExpr:
			if IsBuiltinCall(info, x, "recover") {
				found = true
			}
		}
		return !found
	})
	return found
}

// c10EntryOK: among the leading defer statements of the entry body one defers a function that
// directly calls recover().
func c10EntryOK(c *Ctx, info *types.Info, body *ast.BlockStmt) (bool, string) {
	n := 0
	for _, st := range body.List {
		ds, ok := st.(*ast.DeferStmt)
		if !ok {
			break
		}
		n++
		switch f := ast.Unparen(ds.Call.Fun).(type) {
		case *ast.FuncLit:
			if c10Recovers(info, f.Body) {
				return true, "deferred literal calls recover()"
			}
		default:
			if fn := Callee(info, ds.Call); fn != nil {
				if fd := c.P.Decl(fn); fd != nil && fd.Body != nil {
					if pk := c.P.PkgOf(fn); pk != nil && c10Recovers(pk.TypesInfo, fd.Body) {
						return true, "defer " + FuncName(fn)
					}
				}
			}
		}
	}
	if n == 0 {
		return false, "the entry function does not start with a defer"
	}
	return false, fmt.Sprintf("none of the %d leading defers calls a function that directly calls recover()", n)
}

func runC10G1(c *Ctx, guardPkgPath string, groupGo []string, floor int) {
	c.Rule("C10-G1", "every goroutine spawn site (go statement, sync.WaitGroup.Go, time.AfterFunc, errgroup.Group.Go — the latter only inside errguard.Go; errguard.Go itself counts as a delegating site) runs an entry whose leading defers include a function that directly calls recover()", floor)
	for _, pk := range c.P.Module {
		info := pk.TypesInfo
		for _, file := range pk.Syntax {
			for _, d := range file.Decls {
				encl := "init"
				var enclFn *types.Func
				if fd, ok := d.(*ast.FuncDecl); ok {
					if fd.Body == nil {
						continue
					}
					encl = DeclName(fd)
					enclFn, _ = info.Defs[fd.Name].(*types.Func)
				}
				pkgShort := pk.Types.Name()
				// resolve an entry expression to (info, body, description)
				resolve := func(e ast.Expr) (*types.Info, *ast.BlockStmt, string) {
					switch f := ast.Unparen(e).(type) {
					case *ast.FuncLit:
						return info, f.Body, "func"
					case *ast.Ident, *ast.SelectorExpr:
						var obj types.Object
						if id, ok := f.(*ast.Ident); ok {
							obj = info.Uses[id]
						} else {
							sel := f.(*ast.SelectorExpr)
							if s := info.Selections[sel]; s != nil {
								obj = s.Obj()
							} else {
								obj = info.Uses[sel.Sel]
							}
						}
						if fn, ok := obj.(*types.Func); ok {
							if fd := c.P.Decl(fn); fd != nil && fd.Body != nil {
								return c.P.PkgOf(fn).TypesInfo, fd.Body, bndShortName(fn)
							}
							return nil, nil, bndShortName(fn)
						}
						return nil, nil, types.ExprString(e)
					}
					return nil, nil, types.ExprString(e)
				}
				decide := func(pos token.Pos, kind string, entry ast.Expr) {
					ei, body, desc := resolve(entry)
					key := fmt.Sprintf("%s.%s/%s %s", pkgShort, encl, kind, desc)
					if kind != "go" {
						key = fmt.Sprintf("%s.%s/%s", pkgShort, encl, kind)
					}
					if body == nil {
						c.Bad("C10-G1", key, pos, fmt.Sprintf("%s: goroutine entry %s cannot be resolved to a function body of this module (function value or external function): its panics cannot be shown to be recovered", encl, desc))
						return
					}
					ok, why := c10EntryOK(c, ei, body)
					if ok {
						c.Ok("C10-G1", key, pos, why)
					} else {
						c.Bad("C10-G1", key, pos, fmt.Sprintf("%s spawns a goroutine (%s) whose entry does not recover panics: %s; a panic there terminates the process", encl, kind, why))
					}
				}
				ast.Inspect(d, func(n ast.Node) bool {
					switch x := n.(type) {
					case *ast.GoStmt:
						decide(x.Pos(), "go", x.Call.Fun)
					case *ast.CallExpr:
						fn := Callee(info, x)
						if fn == nil {
							return true
						}
						switch full := FullName(fn); {
						case contains(groupGo, full):
							if enclFn != nil && enclFn.Pkg().Path() == guardPkgPath && enclFn.Name() == "Go" && len(x.Args) == 1 {
								decide(x.Pos(), "errgroup.Group.Go", x.Args[0])
							} else {
								c.Bad("C10-G1", fmt.Sprintf("%s.%s/errgroup.Group.Go", pkgShort, encl), x.Pos(),
									encl+" calls errgroup.Group.Go directly: goroutines of an errgroup must be started through errguard.Go, which converts a panic into the group's error")
							}
						case full == "sync.WaitGroup.Go" && len(x.Args) == 1:
							decide(x.Pos(), "sync.WaitGroup.Go", x.Args[0])
						case full == "time.AfterFunc" && len(x.Args) == 2:
							decide(x.Pos(), "time.AfterFunc", x.Args[1])
						case full == guardPkgPath+".Go":
							c.Ok("C10-G1", fmt.Sprintf("%s.%s/errguard.Go", pkgShort, encl), x.Pos(), "delegates to errguard.Go")
						}
					}
					return true
				})
			}
		}
	}
}

// ---------------------------------------------------------------------------------------
// T1: exception panics are contained

type c10Exc struct{ rel, name string }

type c10Call struct {
	callee *types.Func
	pos    token.Pos
	inGo   bool
}

type c10Fn struct {
	fn     *types.Func
	pk     *packages.Package
	decl   *ast.FuncDecl
	calls  []c10Call
	throws map[*types.TypeName]token.Pos // panic(T{...}) directly in this function
	// catches[T] = end position of the top-level defer that recovers T (or everything: key nil)
	catches map[*types.TypeName]token.Pos
}

func c10BuildGraph(c *Ctx) map[*types.Func]*c10Fn {
	g := map[*types.Func]*c10Fn{}
	c.P.EachModuleFuncDecl(func(pk *packages.Package, fd *ast.FuncDecl) {
		info := pk.TypesInfo
		fn, _ := info.Defs[fd.Name].(*types.Func)
		if fn == nil {
			return
		}
		f := &c10Fn{fn: fn, pk: pk, decl: fd, throws: map[*types.TypeName]token.Pos{}, catches: map[*types.TypeName]token.Pos{}}
		g[fn] = f
		// catching frames: top-level defers of the body
		for _, st := range fd.Body.List {
			ds, ok := st.(*ast.DeferStmt)
			if !ok {
				continue
			}
			lit, ok := ast.Unparen(ds.Call.Fun).(*ast.FuncLit)
			if !ok || !c10Recovers(info, lit.Body) {
				continue
			}
			repanics := false
			ast.Inspect(lit.Body, func(n ast.Node) bool {
				if call, ok := n.(*ast.CallExpr); ok && IsBuiltinCall(info, call, "panic") {
					repanics = true
				}
				return true
			})
			if !repanics {
				f.catches[nil] = ds.End() // recovers everything
				continue
			}
			// type switch arms that do not re-panic
			ast.Inspect(lit.Body, func(n ast.Node) bool {
				ts, ok := n.(*ast.TypeSwitchStmt)
				if !ok {
					return true
				}
				for _, cs := range ts.Body.List {
					cc := cs.(*ast.CaseClause)
					arm := false
					for _, s := range cc.Body {
						ast.Inspect(s, func(m ast.Node) bool {
							if call, ok := m.(*ast.CallExpr); ok && IsBuiltinCall(info, call, "panic") {
								arm = true
							}
							return true
						})
					}
					if arm {
						continue
					}
					for _, tx := range cc.List {
						if tv, ok := info.Types[tx]; ok && tv.IsType() {
							if nt, ok := types.Unalias(tv.Type).(*types.Named); ok {
								f.catches[nt.Obj()] = ds.End()
							}
						}
					}
				}
				return true
			})
		}
		var walk func(n ast.Node, inGo bool)
		walk = func(n ast.Node, inGo bool) {
			ast.Inspect(n, func(m ast.Node) bool {
				switch x := m.(type) {
				case *ast.GoStmt:
					for _, a := range x.Call.Args {
						walk(a, inGo)
					}
					walk(x.Call.Fun, true)
					if fn := Callee(info, x.Call); fn != nil {
						f.calls = append(f.calls, c10Call{fn.Origin(), x.Pos(), true})
					}
					return false
				case *ast.CallExpr:
					if IsBuiltinCall(info, x, "panic") && len(x.Args) == 1 {
						if tv, ok := info.Types[x.Args[0]]; ok && tv.Type != nil {
							if nt, ok := types.Unalias(tv.Type).(*types.Named); ok {
								if _, isIface := nt.Underlying().(*types.Interface); !isIface {
									f.throws[nt.Obj()] = x.Pos()
								}
							}
						}
						return true
					}
					if fn := Callee(info, x); fn != nil {
						f.calls = append(f.calls, c10Call{fn.Origin(), x.Pos(), inGo})
					}
				}
				return true
			})
		}
		walk(fd.Body, false)
	})
	return g
}

func runC10T1(c *Ctx, excs []c10Exc, floor int) {
	c.Rule("C10-T1", "for each exception type T (panic(T{…}) caught by type-switching recover frames): every call from another package into a function of T's package that can reach such a panic without passing a recovering frame is itself made under a recovering frame on every module path", floor)
	g := c10BuildGraph(c)
	// callers index
	callers := map[*types.Func][]*c10Fn{}
	for _, f := range g {
		seen := map[*types.Func]bool{}
		for _, cl := range f.calls {
			if !seen[cl.callee] {
				seen[cl.callee] = true
				callers[cl.callee] = append(callers[cl.callee], f)
			}
		}
	}
	for _, ex := range excs {
		pk := c.P.Pkg(ex.rel)
		if pk == nil {
			c.Undecided("C10-T1", ex.name, 0, "package "+ex.rel+" not loaded")
			continue
		}
		tn, _ := pk.Types.Scope().Lookup(ex.name).(*types.TypeName)
		if tn == nil {
			c.Undecided("C10-T1", ex.name, 0, "exception type not found in "+ex.rel)
			continue
		}
		// protected: the call at pos inside f is made after f registered a defer that recovers T
		protected := func(f *c10Fn, pos token.Pos) bool {
			if end, ok := f.catches[tn]; ok && pos > end {
				return true
			}
			if end, ok := f.catches[nil]; ok && pos > end {
				return true
			}
			return false
		}
		// throwers and frames
		var throwers, frames []string
		may := map[*types.Func]string{} // function -> why (next hop)
		var work []*types.Func
		for fn, f := range g {
			if pos, ok := f.throws[tn]; ok {
				throwers = append(throwers, FuncName(fn))
				if !protected(f, pos) {
					may[fn] = "panic(" + ex.name + ")"
					work = append(work, fn)
				}
			}
			if _, ok := f.catches[tn]; ok {
				frames = append(frames, FuncName(fn))
			}
		}
		sort.Strings(throwers)
		sort.Strings(frames)
		if len(throwers) == 0 {
			c.Undecided("C10-T1", ex.name+"/throwers", tn.Pos(), "no panic("+ex.name+"{…}) site found")
			continue
		}
		if len(frames) == 0 {
			// no frame recovers T any more: every boundary call below is reported
			c.Notef("T1 %s: no frame recovers it", ex.name)
		}
		c.Notef("T1 %s: panic sites in %v; recovering frames %v", ex.name, throwers, frames)
		for len(work) > 0 {
			fn := work[len(work)-1]
			work = work[:len(work)-1]
			for _, caller := range callers[fn] {
				if _, done := may[caller.fn]; done {
					continue
				}
				esc := false
				for _, cl := range caller.calls {
					if cl.callee == fn && !cl.inGo && !protected(caller, cl.pos) {
						esc = true
					}
				}
				if esc {
					may[caller.fn] = FuncName(fn)
					work = append(work, caller.fn)
				}
			}
		}
		// covered(f): the exception propagating out of f is recovered on every module path:
		// f has callers and every unprotected call of f comes from a covered function.
		covered := map[*types.Func]bool{}
		for fn := range may {
			covered[fn] = true
		}
		for changed := true; changed; {
			changed = false
			for fn := range may {
				if !covered[fn] {
					continue
				}
				ok := len(callers[fn]) > 0
				for _, caller := range callers[fn] {
					for _, cl := range caller.calls {
						if cl.callee != fn || cl.inGo {
							if cl.callee == fn && cl.inGo {
								ok = false
							}
							continue
						}
						if protected(caller, cl.pos) {
							continue
						}
						if _, m := may[caller.fn]; !m || !covered[caller.fn] {
							ok = false
						}
					}
				}
				if !ok {
					covered[fn] = false
					changed = true
				}
			}
		}
		// boundary edges
		type edge struct{ caller, callee *types.Func }
		edges := map[edge]token.Pos{}
		for fn := range may {
			if fn.Pkg() != pk.Types {
				continue
			}
			for _, caller := range callers[fn] {
				if caller.fn.Pkg() == pk.Types {
					continue
				}
				for _, cl := range caller.calls {
					if cl.callee == fn {
						if _, ok := edges[edge{caller.fn, fn}]; !ok {
							edges[edge{caller.fn, fn}] = cl.pos
						}
					}
				}
			}
		}
		var es []edge
		for e := range edges {
			es = append(es, e)
		}
		sort.Slice(es, func(i, j int) bool {
			return FuncName(es[i].caller)+FuncName(es[i].callee) < FuncName(es[j].caller)+FuncName(es[j].callee)
		})
		for _, e := range es {
			key := fmt.Sprintf("%s: %s -> %s", ex.name, c10Short(e.caller), c10Short(e.callee))
			cf := g[e.caller]
			allProt := true
			for _, cl := range cf.calls {
				if cl.callee == e.callee && (cl.inGo || !protected(cf, cl.pos)) {
					allProt = false
				}
			}
			// chain from callee to the panic
			var chain []string
			for cur, n := e.callee, 0; n < 12; n++ {
				nx := may[cur]
				chain = append(chain, FuncName(cur))
				if strings.HasPrefix(nx, "panic(") {
					chain = append(chain, nx)
					break
				}
				var next *types.Func
				for fn := range may {
					if FuncName(fn) == nx {
						next = fn
					}
				}
				if next == nil {
					break
				}
				cur = next
			}
			switch {
			case allProt:
				c.Ok("C10-T1", key, edges[e], "the call is made under the caller's own recovering frame")
			case covered[e.caller] && may[e.caller] != "":
				c.Ok("C10-T1", key, edges[e], "every module path to the caller passes a recovering frame")
			default:
				if why, ok := c10T1Exceptions[key]; ok && !c.fixtureMode {
					c.Exc("C10-T1", key, edges[e], why)
					continue
				}
				c.Bad("C10-T1", key, edges[e], fmt.Sprintf("%s calls %s, which can panic with %s without passing a frame that recovers it, and the caller is not under such a frame on every path: the exception escapes as a crash of the statement",
					FuncName(e.caller), FuncName(e.callee), ex.name), "call chain: "+strings.Join(chain, " -> "))
			}
		}
	}
}

// c10T1Exceptions: boundary calls that cannot crash for a reason outside the call graph. Each was
// checked against the real engine (repro/c10_test.go TestC10AlterStatementsReportUnresolvableGeneratedAsError).
var c10T1Exceptions = map[string]string{
	"parseErr: rowexec.addColumnIter.rewriteTable -> planbuilder.Builder.ResolveSchemaDefaults": "ALTER TABLE ADD COLUMN resolves the same table schema expressions during its own planning (under Builder.Parse's frame) before this iterator runs: an unresolvable expression is reported there as an error",
	"parseErr: rowexec.resolveGeneratedColumns -> planbuilder.Builder.ResolveSchemaDefaults":    "the ALTER statements that rewrite a table (MODIFY/DROP COLUMN, ADD/DROP PRIMARY KEY) resolve the same schema expressions during their own planning under Builder.Parse's frame",
	"parseErr: analyzer.resolveTableSchema -> planbuilder.Builder.ResolveSchemaDefaults":        "every statement that names the table resolves its hidden functional-index columns when the table is built into the plan, under Builder.Parse's frame, before this analyzer rule runs",
}

func c10Short(fn *types.Func) string {
	return fn.Pkg().Name() + "." + bndShortName(fn)
}

var c10T0 = time.Now()

func c10Timer(what string) func() {
	if os.Getenv("VCHK_TIMING") != "" {
		fmt.Fprintf(os.Stderr, "timing: %s at %.1fs\n", what, time.Since(c10T0).Seconds())
	}
	return func() {}
}
