package main

import (
	"go/ast"
	"go/constant"
	"go/token"
	"go/types"
	"sort"
	"strings"

	"golang.org/x/tools/go/packages"
)

// C51-F2 / C51-T / C51-K: sibling agreement between fulltext.TableEditor.Insert and Delete, and
// between the writer and the readers.

type c51Write struct {
	table  string // field of the per-index editor group, or "?" + receiver path
	kind   string // "I", "U", "D" or "H:<helper>"
	filter string // "" or the normalised skip test of the enclosing word loop ("len>84")
	pos    token.Pos
}

type c51Alt struct {
	toks map[string]c51Write // table:kind -> write
	done bool
}

func (a c51Alt) clone() c51Alt {
	m := map[string]c51Write{}
	for k, v := range a.toks {
		m[k] = v
	}
	return c51Alt{toks: m, done: a.done}
}

func (a *c51Alt) add(ws []c51Write) {
	for _, w := range ws {
		k := w.table + ":" + w.kind
		if old, ok := a.toks[k]; ok && old.filter != w.filter {
			w.filter = "mixed(" + old.filter + "|" + w.filter + ")"
		}
		a.toks[k] = w
	}
}

type c51Eval struct {
	c        *Ctx
	p        c51Params
	pk       *packages.Package
	info     *types.Info
	iface    *types.Interface
	perIdx   *types.Named
	fields   map[*types.Var]bool
	summary  map[*types.Func]map[string]bool
	method   string
	dirs     map[string]map[string][]string // method -> helper -> constant bool args seen
	problems []string
	cur      *c51Fn // the function whose body is being read (for local aliases)
}

// tableOf finds the per-index field through which the receiver expression of a DML call is reached.
func (ev *c51Eval) tableOf(x ast.Expr) string {
	hops := 0
	for {
		switch y := ast.Unparen(x).(type) {
		case *ast.SelectorExpr:
			if sel := ev.info.Selections[y]; sel != nil {
				if v, ok := sel.Obj().(*types.Var); ok && ev.fields[v] {
					return v.Name()
				}
			}
			x = y.X
		case *ast.IndexExpr:
			x = y.X
		case *ast.TypeAssertExpr:
			x = y.X
		case *ast.StarExpr:
			x = y.X
		case *ast.Ident:
			// a local copy of the group or of one of its members (rc := index.RowCount)
			if ev.cur == nil || hops > 4 {
				return ""
			}
			ds := ev.cur.defs[ev.info.Uses[y]]
			if len(ds) != 1 || ds[0].idx >= 0 {
				return ""
			}
			hops++
			x = ds[0].rhs
		default:
			return ""
		}
	}
}

func (ev *c51Eval) summarize(fn *types.Func, depth int) map[string]bool {
	fn = fn.Origin()
	if s, ok := ev.summary[fn]; ok {
		return s
	}
	s := map[string]bool{}
	ev.summary[fn] = s
	fd := ev.c.P.Decl(fn)
	if fd == nil || fd.Body == nil || depth > 3 {
		return s
	}
	saved := ev.cur
	ev.cur = c51NewFn(ev.info, fd)
	for _, call := range dmlCallsIn(fd.Body, true) {
		for _, w := range ev.writesOfCall(call, depth+1, false) {
			s[w.table] = true
		}
	}
	ev.cur = saved
	return s
}

func (ev *c51Eval) writesOfCall(call *ast.CallExpr, depth int, record bool) []c51Write {
	fn := Callee(ev.info, call)
	if fn == nil {
		return nil
	}
	switch fn.Name() {
	case "Insert", "Update", "Delete":
		if x, ok := dmlMethodCallOn(call, fn.Name()); ok && dmlImplements(ev.info.TypeOf(x), ev.iface) {
			t := ev.tableOf(x)
			if t == "" {
				t = "?" + types.ExprString(x)
			}
			return []c51Write{{table: t, kind: fn.Name()[:1], pos: call.Pos()}}
		}
	}
	if fn.Pkg() != ev.pk.Types || ev.c.P.Decl(fn) == nil {
		return nil
	}
	takesGroup := false
	for _, a := range call.Args {
		if nt := dmlNamedOf(ev.info.TypeOf(a)); nt != nil && nt.Obj() == ev.perIdx.Obj() {
			takesGroup = true
		}
	}
	if !takesGroup {
		return nil
	}
	sum := ev.summarize(fn, depth)
	var out []c51Write
	var tabs []string
	for t := range sum {
		tabs = append(tabs, t)
	}
	sort.Strings(tabs)
	for _, t := range tabs {
		out = append(out, c51Write{table: t, kind: "H:" + fn.Name(), pos: call.Pos()})
	}
	if record && len(out) > 0 {
		for _, a := range call.Args {
			if tv, ok := ev.info.Types[a]; ok && tv.Value != nil && tv.Value.Kind() == constant.Bool {
				if ev.dirs[ev.method] == nil {
					ev.dirs[ev.method] = map[string][]string{}
				}
				ev.dirs[ev.method][fn.Name()] = append(ev.dirs[ev.method][fn.Name()], tv.Value.String())
			}
		}
	}
	return out
}

func (ev *c51Eval) scan(n ast.Node, filter string) []c51Write {
	var out []c51Write
	if n == nil {
		return nil
	}
	for _, call := range dmlCallsIn(n, false) {
		for _, w := range ev.writesOfCall(call, 0, true) {
			w.filter = filter
			out = append(out, w)
		}
	}
	return out
}

// skipTest recognises `if len(x) OP const { continue }` and renders it as "len OP value".
func (ev *c51Eval) skipTest(s ast.Stmt) string {
	is, ok := s.(*ast.IfStmt)
	if !ok || is.Init != nil || is.Else != nil || len(is.Body.List) != 1 {
		return ""
	}
	br, ok := is.Body.List[0].(*ast.BranchStmt)
	if !ok || br.Tok != token.CONTINUE || br.Label != nil {
		return ""
	}
	be, ok := ast.Unparen(is.Cond).(*ast.BinaryExpr)
	if !ok {
		return ""
	}
	isLen := func(e ast.Expr) bool {
		call, ok := ast.Unparen(e).(*ast.CallExpr)
		return ok && IsBuiltinCall(ev.info, call, "len")
	}
	constOf := func(e ast.Expr) string {
		if tv, ok := ev.info.Types[e]; ok && tv.Value != nil {
			return tv.Value.ExactString()
		}
		return ""
	}
	flip := map[token.Token]token.Token{token.LSS: token.GTR, token.GTR: token.LSS, token.LEQ: token.GEQ, token.GEQ: token.LEQ, token.EQL: token.EQL, token.NEQ: token.NEQ}
	switch {
	case isLen(be.X) && constOf(be.Y) != "":
		return "len" + be.Op.String() + constOf(be.Y)
	case isLen(be.Y) && constOf(be.X) != "":
		if op, ok := flip[be.Op]; ok {
			return "len" + op.String() + constOf(be.X)
		}
	}
	return ""
}

// loopWrites summarises an inner (word) loop: every write in its body, tagged with the skip
// test that precedes it at the top level of the loop body.
func (ev *c51Eval) loopWrites(body *ast.BlockStmt, pre ...ast.Node) []c51Write {
	var out []c51Write
	for _, n := range pre {
		out = append(out, ev.scan(n, "")...)
	}
	filter := ""
	for _, s := range body.List {
		if f := ev.skipTest(s); f != "" {
			if filter == "" {
				filter = f
			} else {
				filter += "&" + f
			}
			continue
		}
		out = append(out, ev.scan(s, filter)...)
	}
	return out
}

func (ev *c51Eval) isErrorReturn(sig *types.Signature, r *ast.ReturnStmt) bool {
	e := dmlErrOperand(ev.info, sig, r)
	return e != nil && !isNilIdent(ev.info, e)
}

func (ev *c51Eval) isErrorExit(sig *types.Signature, b *ast.BlockStmt) bool {
	if len(b.List) == 0 {
		return false
	}
	r, ok := b.List[len(b.List)-1].(*ast.ReturnStmt)
	return ok && ev.isErrorReturn(sig, r) && len(ev.scan(b, "")) == 0
}

func (ev *c51Eval) block(sig *types.Signature, stmts []ast.Stmt, in []c51Alt) []c51Alt {
	alts := in
	for _, s := range stmts {
		var next []c51Alt
		for _, a := range alts {
			if a.done {
				next = append(next, a)
				continue
			}
			next = append(next, ev.stmt(sig, s, a)...)
		}
		alts = c51DedupAlts(next)
	}
	return alts
}

func (ev *c51Eval) stmt(sig *types.Signature, s ast.Stmt, a c51Alt) []c51Alt {
	switch x := s.(type) {
	case *ast.IfStmt:
		a = a.clone()
		a.add(ev.scan(x.Init, ""))
		a.add(ev.scan(x.Cond, ""))
		var out []c51Alt
		if !ev.isErrorExit(sig, x.Body) {
			out = append(out, ev.block(sig, x.Body.List, []c51Alt{a.clone()})...)
		}
		switch e := x.Else.(type) {
		case nil:
			out = append(out, a)
		case *ast.BlockStmt:
			out = append(out, ev.block(sig, e.List, []c51Alt{a.clone()})...)
		default:
			out = append(out, ev.stmt(sig, e, a.clone())...)
		}
		return out
	case *ast.ForStmt:
		a = a.clone()
		a.add(ev.loopWrites(x.Body, x.Init, x.Cond, x.Post))
		return []c51Alt{a}
	case *ast.RangeStmt:
		a = a.clone()
		a.add(ev.loopWrites(x.Body, x.X))
		return []c51Alt{a}
	case *ast.BlockStmt:
		return ev.block(sig, x.List, []c51Alt{a})
	case *ast.BranchStmt:
		a = a.clone()
		if x.Tok == token.CONTINUE && x.Label == nil {
			a.done = true
			return []c51Alt{a}
		}
		ev.problems = append(ev.problems, ev.c.P.Rel(x.Pos())+": `"+x.Tok.String()+"` leaves the loop over the indexes: the remaining indexes are not maintained")
		a.toks["!"+x.Tok.String()] = c51Write{table: "!", kind: x.Tok.String(), pos: x.Pos()}
		a.done = true
		return []c51Alt{a}
	case *ast.ReturnStmt:
		if ev.isErrorReturn(sig, x) {
			return nil
		}
		a = a.clone()
		a.add(ev.scan(x, ""))
		ev.problems = append(ev.problems, ev.c.P.Rel(x.Pos())+": successful return inside the loop over the indexes: the remaining indexes are not maintained")
		a.toks["!return"] = c51Write{table: "!", kind: "return", pos: x.Pos()}
		a.done = true
		return []c51Alt{a}
	case *ast.SwitchStmt, *ast.TypeSwitchStmt, *ast.SelectStmt, *ast.LabeledStmt, *ast.GoStmt, *ast.DeferStmt:
		if len(ev.scan(s, "")) > 0 {
			ev.problems = append(ev.problems, ev.c.P.Rel(s.Pos())+": index-table write inside a statement form the write-set evaluator does not read (switch/select/label/go/defer)")
		}
		return []c51Alt{a}
	}
	a = a.clone()
	a.add(ev.scan(s, ""))
	return []c51Alt{a}
}

func c51AltSig(a c51Alt, mirror func(kind string) string) string {
	var ks []string
	for _, w := range a.toks {
		ks = append(ks, w.table+":"+mirror(w.kind))
	}
	sort.Strings(ks)
	return strings.Join(ks, "+")
}

func c51DedupAlts(in []c51Alt) []c51Alt {
	seen := map[string]bool{}
	var out []c51Alt
	for _, a := range in {
		var ks []string
		for k, w := range a.toks {
			ks = append(ks, k+"|"+w.filter)
		}
		sort.Strings(ks)
		k := strings.Join(ks, "+")
		if a.done {
			k += "!"
		}
		if !seen[k] {
			seen[k] = true
			out = append(out, a)
		}
	}
	return out
}

// family evaluates the loop over the per-index groups of one DML method.
func (ev *c51Eval) family(fd *ast.FuncDecl) (map[string]c51Alt, *ast.RangeStmt) {
	ev.method = fd.Name.Name
	ev.cur = c51NewFn(ev.info, fd)
	fn, _ := ev.info.Defs[fd.Name].(*types.Func)
	if fn == nil {
		return nil, nil
	}
	sig := fn.Type().(*types.Signature)
	var loop *ast.RangeStmt
	for _, s := range fd.Body.List {
		if rs, ok := s.(*ast.RangeStmt); ok {
			if sl, ok := ev.info.TypeOf(rs.X).Underlying().(*types.Slice); ok {
				if nt := dmlNamedOf(sl.Elem()); nt != nil && nt.Obj() == ev.perIdx.Obj() {
					loop = rs
				}
			}
		}
	}
	if loop == nil {
		return nil, nil
	}
	alts := ev.block(sig, loop.Body.List, []c51Alt{{toks: map[string]c51Write{}}})
	mirror := func(kind string) string {
		switch {
		case kind == "U" || strings.HasPrefix(kind, "H:"):
			return kind
		case kind == fd.Name.Name[:1]:
			return "W"
		}
		return kind + "(wrong direction in " + fd.Name.Name + ")"
	}
	out := map[string]c51Alt{}
	for _, a := range alts {
		sig := c51AltSig(a, mirror)
		if sig == "" {
			continue
		}
		if old, ok := out[sig]; ok {
			// same tables, different filters on two paths: merge, marking the disagreement
			old.add(func() []c51Write {
				var ws []c51Write
				for _, w := range a.toks {
					ws = append(ws, w)
				}
				return ws
			}())
			out[sig] = old
			continue
		}
		out[sig] = a.clone()
	}
	return out, loop
}

func c51Symmetry(c *Ctx, p c51Params, ftPk *packages.Package, iface *types.Interface) {
	info := ftPk.TypesInfo
	perTn, _ := ftPk.Types.Scope().Lookup(p.perIndex).(*types.TypeName)
	if perTn == nil {
		c.Undecided("C51-F2", "anchors", 0, "type "+p.perIndex+" not found")
		return
	}
	perIdx, _ := perTn.Type().(*types.Named)
	pst, _ := perTn.Type().Underlying().(*types.Struct)
	if perIdx == nil || pst == nil {
		c.Undecided("C51-F2", "anchors", perTn.Pos(), p.perIndex+" is not a struct")
		return
	}
	fields := map[*types.Var]bool{}
	for i := 0; i < pst.NumFields(); i++ {
		f := pst.Field(i)
		if nt := dmlNamedOf(f.Type()); nt != nil {
			if st, ok := nt.Underlying().(*types.Struct); ok {
				for j := 0; j < st.NumFields(); j++ {
					if dmlImplements(st.Field(j).Type(), iface) {
						fields[f] = true
					}
				}
			}
		}
		if dmlImplements(f.Type(), iface) {
			fields[f] = true
		}
	}
	for _, tname := range p.transformers {
		tn, _ := ftPk.Types.Scope().Lookup(tname).(*types.TypeName)
		if tn == nil {
			c.Undecided("C51-F2", tname, 0, "transformer type not found")
			continue
		}
		nt := tn.Type().(*types.Named)
		decls := map[string]*ast.FuncDecl{}
		for _, fd := range dmlMethodDecls(ftPk, nt) {
			decls[fd.Name.Name] = fd
		}
		ins, del, upd := decls["Insert"], decls["Delete"], decls["Update"]
		if ins == nil || del == nil || upd == nil {
			c.Undecided("C51-F2", tname+"/methods", tn.Pos(), "Insert/Delete/Update not all declared")
			continue
		}
		ev := &c51Eval{c: c, p: p, pk: ftPk, info: info, iface: iface, perIdx: perIdx, fields: fields, summary: map[*types.Func]map[string]bool{}, dirs: map[string]map[string][]string{}}
		famI, loopI := ev.family(ins)
		famD, loopD := ev.family(del)
		pair := tname + ".Insert~Delete"
		if loopI == nil || loopD == nil {
			c.Undecided("C51-F2", pair+"/write-sets", ins.Pos(), "no top-level range over []"+p.perIndex+" in Insert or Delete")
			continue
		}
		for _, pr := range ev.problems {
			c.Bad("C51-F2", pair+"/index loop", loopI.Pos(), pr)
		}
		keys := func(m map[string]c51Alt) []string {
			var ks []string
			for k := range m {
				ks = append(ks, k)
			}
			sort.Strings(ks)
			return ks
		}
		kI, kD := keys(famI), keys(famD)
		if len(kI) == 0 || strings.Join(kI, " | ") != strings.Join(kD, " | ") {
			c.Bad("C51-F2", pair+"/write-sets", loopD.Pos(), tname+": per index, the successful paths of Insert write {"+strings.Join(kI, " | ")+"} but those of Delete undo {"+strings.Join(kD, " | ")+
				"} (W = row inserted resp. deleted, U = row updated, H:f = tables written by helper f): a table written by one and not by the other keeps rows for deleted documents or loses rows of existing ones")
		} else {
			for _, k := range kI {
				c.Ok("C51-F2", pair+"/write-set "+k, loopD.Pos(), "same tables written by Insert and undone by Delete in this regime")
			}
		}
		{
			// word-length filter per table, in every regime the two methods share
			for _, k := range kI {
				a := famI[k]
				b, shared := famD[k]
				if !shared {
					continue
				}
				var toks []string
				for t := range a.toks {
					toks = append(toks, t)
				}
				sort.Strings(toks)
				for _, t := range toks {
					wa := a.toks[t]
					var wb c51Write
					for _, w := range b.toks {
						if w.table == wa.table && (w.kind == wa.kind || (len(w.kind) == 1 && len(wa.kind) == 1 && wa.kind != "U" && w.kind != "U")) {
							wb = w
						}
					}
					key := pair + "/filter/" + wa.table + "@" + k
					switch {
					case wa.filter == wb.filter:
						c.Ok("C51-F2", key, wb.pos, "both "+c51OrNone(wa.filter))
					case p.f2Exc[key] != "" && !c.fixtureMode:
						c.Exc("C51-F2", key, wb.pos, p.f2Exc[key])
					default:
						c.Bad("C51-F2", key, wb.pos, tname+": words reach table "+wa.table+" in Insert under the skip test "+c51OrNone(wa.filter)+" but in Delete under "+c51OrNone(wb.filter)+
							": Delete is asked to remove entries for words that Insert never stored (or leaves entries behind), against a key column sized for the filtered words")
					}
				}
			}
		}
		// direction flags of shared helpers
		var helpers []string
		for h := range ev.dirs["Insert"] {
			helpers = append(helpers, h)
		}
		sort.Strings(helpers)
		for _, h := range helpers {
			vi, vd := c51Uniq(ev.dirs["Insert"][h]), c51Uniq(ev.dirs["Delete"][h])
			key := pair + "/direction " + h
			if len(vd) == 0 {
				continue
			}
			ok := len(vi) == 1 && len(vd) == 1 && vi[0] != vd[0]
			c.Check(ok, "C51-F2", key, loopD.Pos(), "Insert passes "+strings.Join(vi, ",")+", Delete passes "+strings.Join(vd, ","),
				tname+": the constant direction flag passed to "+h+" is "+strings.Join(vi, ",")+" in Insert and "+strings.Join(vd, ",")+" in Delete; it must be one constant per method and opposite between them, otherwise a deletion counts the words up (or an insertion down)")
		}
		// Update = Delete(old) + Insert(new)
		c51UpdateRule(c, tname, info, upd, decls)
		// tokenizer and key sources
		c51Tokenizer(c, p, ftPk, tname, ins, del, perIdx)
	}
}

func c51OrNone(s string) string {
	if s == "" {
		return "no word-length skip"
	}
	return "`" + s + " → continue`"
}

func c51Uniq(in []string) []string {
	seen := map[string]bool{}
	var out []string
	for _, s := range in {
		if !seen[s] {
			seen[s] = true
			out = append(out, s)
		}
	}
	sort.Strings(out)
	return out
}

func c51UpdateRule(c *Ctx, tname string, info *types.Info, upd *ast.FuncDecl, decls map[string]*ast.FuncDecl) {
	f := c51NewFn(info, upd)
	g := c.P.CFG(info, upd.Body)
	// row parameters in order
	var rows []string
	if upd.Type.Params != nil {
		i := 0
		for _, fl := range upd.Type.Params.List {
			n := len(fl.Names)
			if n == 0 {
				n = 1
			}
			for k := 0; k < n; k++ {
				if !c51IsCtxType(info.TypeOf(fl.Type)) {
					rows = append(rows, "$"+c51Itoa(i))
				}
				i++
			}
		}
	}
	if len(rows) != 2 {
		c.Undecided("C51-F2", tname+".Update/parameters", upd.Pos(), "Update does not take exactly (old, new)")
		return
	}
	for i, m := range []string{"Delete", "Insert"} {
		target, _ := info.Defs[decls[m].Name].(*types.Func)
		arg := rows[i]
		hit := func(n ast.Node) bool {
			return ContainsCall(info, n, func(fn *types.Func, call *ast.CallExpr) bool {
				if fn.Origin() != target {
					return false
				}
				for _, a := range call.Args {
					if f.Norm(a) == arg {
						return true
					}
				}
				return false
			})
		}
		key := tname + ".Update/" + m + "(" + arg + ")"
		bad := PathAvoiding(g, EntryPoint(g), hit, nil, c51ErrEdge(info))
		if bad == nil {
			c.Ok("C51-F2", key, upd.Pos(), "on every non-failed path")
		} else {
			c.Bad("C51-F2", key, upd.Pos(), tname+".Update: a non-failed path does not call "+m+" with the "+[]string{"old", "new"}[i]+" row ("+arg+"): the index tables keep the old document's words or never get the new one's", c.P.DescribePath(bad)...)
		}
	}
}

// ---- T, K --------------------------------------------------------------------------------------

type c51CtorSite struct {
	who  string
	f    *c51Fn
	info *types.Info
	pk   *packages.Package
	call *ast.CallExpr
	fn   *types.Func
}

// c51ResolveCtor follows pure forwarding wrappers: func w(a…) T { return g(a…) }.
func c51ResolveCtor(p *Prog, fn *types.Func, depth int) *types.Func {
	fn = fn.Origin()
	if depth > 3 {
		return fn
	}
	fd := p.Decl(fn)
	pk := p.PkgOf(fn)
	if fd == nil || pk == nil || fd.Body == nil || len(fd.Body.List) != 1 {
		return fn
	}
	r, ok := fd.Body.List[0].(*ast.ReturnStmt)
	if !ok || len(r.Results) != 1 {
		return fn
	}
	call, ok := ast.Unparen(r.Results[0]).(*ast.CallExpr)
	if !ok {
		return fn
	}
	g := Callee(pk.TypesInfo, call)
	if g == nil {
		return fn
	}
	f := c51NewFn(pk.TypesInfo, fd)
	for _, a := range call.Args {
		s := f.Norm(a)
		if !(strings.HasPrefix(s, "$") || s == "ctx") {
			return fn
		}
	}
	return c51ResolveCtor(p, g, depth+1)
}

// c51OriginCall finds the function whose call result an expression originates in, through
// locals and through the stores of the struct field it is read from.
func c51OriginCall(p *Prog, pk *packages.Package, f *c51Fn, e ast.Expr, depth int) *types.Func {
	if depth > 6 || e == nil {
		return nil
	}
	info := pk.TypesInfo
	switch x := ast.Unparen(e).(type) {
	case *ast.CallExpr:
		if tv, ok := info.Types[x.Fun]; ok && tv.IsType() && len(x.Args) == 1 {
			return c51OriginCall(p, pk, f, x.Args[0], depth+1)
		}
		if fn := Callee(info, x); fn != nil {
			return fn.Origin()
		}
	case *ast.Ident:
		o := info.Uses[x]
		if o == nil {
			return nil
		}
		var got *types.Func
		for _, d := range f.defs[o] {
			if d.idx > 0 {
				return nil
			}
			fn := c51OriginCall(p, pk, f, d.rhs, depth+1)
			if fn == nil || (got != nil && got != fn) {
				return nil
			}
			got = fn
		}
		return got
	case *ast.SelectorExpr:
		sel := info.Selections[x]
		if sel == nil {
			return nil
		}
		fv, ok := sel.Obj().(*types.Var)
		if !ok || !fv.IsField() {
			return nil
		}
		dpk := p.PkgOf(fv)
		if dpk == nil {
			return nil
		}
		var got *types.Func
		n := 0
		bad := false
		p.EachFuncDecl([]string{dmlRelOfPkg(dpk.PkgPath)}, func(_ *packages.Package, fd *ast.FuncDecl) {
			var ff *c51Fn
			visit := func(rhs ast.Expr) {
				if ff == nil {
					ff = c51NewFn(dpk.TypesInfo, fd)
				}
				n++
				fn := c51OriginCall(p, dpk, ff, rhs, depth+1)
				if fn == nil || (got != nil && got != fn) {
					bad = true
				}
				got = fn
			}
			ast.Inspect(fd.Body, func(m ast.Node) bool {
				switch y := m.(type) {
				case *ast.KeyValueExpr:
					if id, ok := y.Key.(*ast.Ident); ok && dpk.TypesInfo.Uses[id] == types.Object(fv) {
						visit(y.Value)
					}
				case *ast.AssignStmt:
					if len(y.Lhs) == len(y.Rhs) {
						for i, l := range y.Lhs {
							if s, ok := ast.Unparen(l).(*ast.SelectorExpr); ok && dpk.TypesInfo.Uses[s.Sel] == types.Object(fv) {
								visit(y.Rhs[i])
							}
						}
					}
				}
				return true
			})
		})
		if bad || n == 0 {
			return nil
		}
		return got
	}
	return nil
}

func c51Tokenizer(c *Ctx, p c51Params, ftPk *packages.Package, tname string, ins, del *ast.FuncDecl, perIdx *types.Named) {
	info := ftPk.TypesInfo
	// parser types: struct types of the package on whose values Insert/Delete call methods
	parserT := map[*types.TypeName]bool{}
	for _, fd := range []*ast.FuncDecl{ins, del} {
		for _, call := range dmlCallsIn(fd.Body, true) {
			sel, ok := ast.Unparen(call.Fun).(*ast.SelectorExpr)
			if !ok {
				continue
			}
			if s := info.Selections[sel]; s == nil || s.Kind() != types.MethodVal {
				continue
			}
			nt := dmlNamedOf(info.TypeOf(sel.X))
			if nt == nil || nt.Obj().Pkg() != ftPk.Types || nt.Obj().Name() == tname {
				continue
			}
			if _, isStruct := nt.Underlying().(*types.Struct); isStruct {
				parserT[nt.Obj()] = true
			}
		}
	}
	if len(parserT) == 0 {
		c.Undecided("C51-T", tname+"/parser type", ins.Pos(), "Insert/Delete call no method on a struct value of "+p.ftRel+": no tokenizer found")
		return
	}
	isCtor := func(inf *types.Info, call *ast.CallExpr) *types.Func {
		fn := Callee(inf, call)
		if fn == nil {
			return nil
		}
		sig, _ := fn.Type().(*types.Signature)
		if sig == nil || sig.Recv() != nil || sig.Results().Len() == 0 {
			return nil
		}
		if nt := dmlNamedOf(sig.Results().At(0).Type()); nt != nil && parserT[nt.Obj()] {
			return fn
		}
		return nil
	}
	var sites []c51CtorSite
	collect := func(who string, pk *packages.Package, fd *ast.FuncDecl) int {
		n := 0
		f := c51NewFn(pk.TypesInfo, fd)
		for _, call := range dmlCallsIn(fd.Body, true) {
			if fn := isCtor(pk.TypesInfo, call); fn != nil {
				sites = append(sites, c51CtorSite{who: who, f: f, info: pk.TypesInfo, pk: pk, call: call, fn: fn})
				n++
			}
		}
		return n
	}
	nW := 0
	for _, fd := range []*ast.FuncDecl{ins, del} {
		k := collect(tname+"."+fd.Name.Name, ftPk, fd)
		if k == 0 {
			c.Undecided("C51-T", tname+"."+fd.Name.Name+"/constructor", fd.Pos(), "no tokenizer construction found")
		}
		nW += k
	}
	var keyFds []c51CtorSite // K sites: writer methods and the first reader
	keyFds = append(keyFds, c51CtorSite{who: tname + ".Insert", f: c51NewFn(info, ins), info: info, pk: ftPk}, c51CtorSite{who: tname + ".Delete", f: c51NewFn(info, del), info: info, pk: ftPk})
	for i, rs := range p.readerSites {
		pk, fd := c.P.FuncDecl(rs.rel, rs.fn)
		if pk == nil || fd == nil {
			c.Undecided("C51-T", rs.fn+"/constructor", 0, "reader function "+rs.rel+"."+rs.fn+" not found")
			continue
		}
		if collect(rs.fn, pk, fd) == 0 {
			c.Undecided("C51-T", rs.fn+"/constructor", fd.Pos(), "the reader builds no tokenizer of the writer's type")
		}
		if i == 0 {
			keyFds = append(keyFds, c51CtorSite{who: rs.fn, f: c51NewFn(pk.TypesInfo, fd), info: pk.TypesInfo, pk: pk})
		}
	}
	if nW == 0 {
		return
	}
	ref := c51ResolveCtor(c.P, sites[0].fn, 0)
	// the collation parameter: the one whose type is the type of a field of the per-index group
	collIdx := -1
	pst := perIdx.Underlying().(*types.Struct)
	rsig := ref.Type().(*types.Signature)
	for i := 0; i < rsig.Params().Len(); i++ {
		for j := 0; j < pst.NumFields(); j++ {
			if types.Identical(rsig.Params().At(i).Type(), pst.Field(j).Type()) {
				collIdx = i
			}
		}
	}
	var refOrigin *types.Func
	refSrc := ""
	for i, s := range sites {
		got := c51ResolveCtor(c.P, s.fn, 0)
		c.Check(got == ref, "C51-T", s.who+"/constructor", s.call.Pos(), "tokenizer built by "+FuncName(ref),
			s.who+" builds its tokenizer with "+FuncName(got)+" while "+sites[0].who+" uses "+FuncName(ref)+": words are split by two different functions, so what is searched or removed need not be what was indexed")
		if got != ref {
			continue
		}
		if collIdx < 0 || collIdx >= len(s.call.Args) {
			c.Undecided("C51-T", s.who+"/collation", s.call.Pos(), "cannot tell which argument is the collation")
			continue
		}
		// when the site calls a forwarding wrapper the argument positions are those of the wrapper: only direct calls are read
		if s.fn.Origin() != ref {
			c.Undecided("C51-T", s.who+"/collation", s.call.Pos(), "constructor reached through a wrapper: argument positions not mapped")
			continue
		}
		org := c51OriginCall(c.P, s.pk, s.f, s.call.Args[collIdx], 0)
		if i == 0 {
			refOrigin = org
		}
		switch {
		case org == nil:
			c.Bad("C51-T", s.who+"/collation", s.call.Pos(), s.who+": the collation argument `"+types.ExprString(s.call.Args[collIdx])+"` does not originate in a single function call (through locals and the stores of the field it is read from)")
		case org != refOrigin:
			c.Bad("C51-T", s.who+"/collation", s.call.Pos(), s.who+": the tokenizer's collation comes from "+FuncName(org)+" but "+sites[0].who+" takes it from "+FuncName(refOrigin)+": the two sides fold words under collations derived in different ways")
		default:
			c.Ok("C51-T", s.who+"/collation", s.call.Pos(), "collation originates in "+FuncName(org))
		}
		if i < nW {
			var parts []string
			for _, a := range s.call.Args[collIdx+1:] {
				parts = append(parts, s.f.Norm(a))
			}
			src := strings.Join(parts, ",")
			if i == 0 {
				refSrc = src
			}
			c.Check(src == refSrc && src != "", "C51-T", s.who+"/source columns", s.call.Pos(), "tokenizes "+src,
				s.who+" tokenizes "+src+" while "+sites[0].who+" tokenizes "+refSrc+": the words removed are not the words that were indexed for the same row")
		}
	}
	c51KeySources(c, p, ftPk, keyFds)
}

func c51KeySources(c *Ctx, p c51Params, ftPk *packages.Package, sites []c51CtorSite) {
	ktn, _ := ftPk.Types.Scope().Lookup(p.keyColumns).(*types.TypeName)
	var posField *types.Var
	if ktn != nil {
		if st, ok := ktn.Type().Underlying().(*types.Struct); ok {
			for i := 0; i < st.NumFields(); i++ {
				if st.Field(i).Name() == p.keyPositions {
					posField = st.Field(i)
				}
			}
		}
	}
	if posField == nil {
		c.Undecided("C51-K", "anchors", 0, p.keyColumns+"."+p.keyPositions+" not found")
		return
	}
	ref := ""
	for i, s := range sites {
		fd := s.f.fd
		// the row parameter(s): parameters of a named slice type called Row
		rowParams := map[types.Object]bool{}
		for o := range s.f.params {
			if nt := dmlNamedOf(o.Type()); nt != nil && nt.Obj().Name() == "Row" {
				rowParams[o] = true
			}
		}
		atoms := map[string]bool{}
		baseObj := func(e ast.Expr) types.Object {
			for {
				switch y := ast.Unparen(e).(type) {
				case *ast.SliceExpr:
					e = y.X
					continue
				case *ast.Ident:
					return s.info.Uses[y]
				}
				return nil
			}
		}
		ast.Inspect(fd.Body, func(n ast.Node) bool {
			switch x := n.(type) {
			case *ast.IndexExpr:
				if !rowParams[baseObj(x.X)] {
					return true
				}
				id, ok := ast.Unparen(x.Index).(*ast.Ident)
				if !ok {
					return true
				}
				ranged, ok := s.f.rangeVal[s.info.Uses[id]]
				if !ok {
					return true
				}
				// through a local alias of the positions slice (pos := kc.Positions; for _, p := range pos)
				for hop := 0; hop < 4; hop++ {
					lid, isId := ast.Unparen(ranged).(*ast.Ident)
					if !isId {
						break
					}
					ds := s.f.defs[s.info.Uses[lid]]
					if len(ds) != 1 || ds[0].idx >= 0 {
						break
					}
					ranged = ds[0].rhs
				}
				if sel, ok := ast.Unparen(ranged).(*ast.SelectorExpr); ok {
					if sl := s.info.Selections[sel]; sl != nil && sl.Obj() == types.Object(posField) {
						atoms["row["+p.keyColumns+"."+p.keyPositions+"[*]]"] = true
					}
				}
			case *ast.CallExpr:
				fn := Callee(s.info, x)
				if fn == nil || fn.Pkg() != ftPk.Types {
					return true
				}
				if sig := fn.Type().(*types.Signature); sig.Recv() != nil {
					return true
				}
				for _, a := range x.Args {
					if rowParams[baseObj(a)] {
						if _, isIdx := ast.Unparen(a).(*ast.IndexExpr); !isIdx {
							atoms[fn.Name()+"(row)"] = true
						}
					}
				}
			}
			return true
		})
		var as []string
		for a := range atoms {
			as = append(as, a)
		}
		sort.Strings(as)
		sig := strings.Join(as, " , ")
		if i == 0 {
			ref = sig
		}
		key := s.who + "/key sources"
		switch {
		case len(as) < 2:
			c.Bad("C51-K", key, fd.Pos(), s.who+": the row identity used for the index-table keys is drawn from {"+sig+"}; expected both the key-column positions of the index ("+p.keyColumns+"."+p.keyPositions+") and the row hash for keyless tables")
		case sig != ref:
			c.Bad("C51-K", key, fd.Pos(), s.who+" identifies a row by {"+sig+"} but "+sites[0].who+" by {"+ref+"}: entries are looked up or removed under another key than they were stored under")
		default:
			c.Ok("C51-K", key, fd.Pos(), "row identity from {"+sig+"}")
		}
	}
}
