package main

import (
	"fmt"
	"go/token"
	"go/types"
	"strings"

	"golang.org/x/tools/go/ssa"
)

// C28 — wire representation, NULL clause: every Type.SQL / ValueType.SQLValue maps a NULL
// input to the SQL NULL value before doing anything else with it.

type c28Config struct {
	Rels        []string
	IfaceRel    string // "sql"
	Iface       string // "Type"
	Method      string // "SQL": (ctx, dest, v) — v is parameter 2
	VParam      int
	ValueIface  string // "ValueType"
	ValueMethod string // "SQLValue": (ctx, v, dest) — v is parameter 1
	ValueVParam int
	NilPredRel  string
	NilPred     string
	NullPkg     string // package path declaring the SQL NULL value
	NullVar     string // "NULL"
	Floor       int
}

func init() {
	register(&Property{
		ID:       "C28",
		Patterns: []string{"./sql/types"},
		Explanation: "NULL clause of 'the wire representation denotes the stored value': every implementation of sql.Type.SQL(ctx, dest, v) and sql.ValueType.SQLValue(ctx, v, dest) " +
			"answers a NULL input (v == nil / v.IsNull()) with sqltypes.NULL and a nil error before any conversion, assertion or formatting of v. Decided per implementation: " +
			"(uses) every use of v other than a nil test is dominated by the non-NULL edge of a nil test of v; (null-return) every return that is not inside the non-NULL region " +
			"returns the value of the variable sqltypes.NULL with a nil error, or the results of a sibling SQL call that receives v unchanged. A deviant sends an error or a formatted zero " +
			"value to the client where the stored value is NULL.",
		NotCovered: "text/binary formatting of non-NULL values, announced maximum lengths, binary prepared-statement encoding, the server's own nil-cell shortcut in RowToSQL (redundant once every implementation conforms)",
		Technique:  "sibling agreement over all implementations of an interface method: SSA dominance of a nil test over every other use (nil-guard engine)",
		Run: func(c *Ctx) {
			rels := []string{}
			for _, pk := range c.P.Module {
				rels = append(rels, strings.TrimPrefix(strings.TrimPrefix(pk.PkgPath, modPath), "/"))
			}
			runC28(c, c28Config{Rels: rels, IfaceRel: "sql", Iface: "Type", Method: "SQL", VParam: 2, ValueIface: "ValueType", ValueMethod: "SQLValue", ValueVParam: 1,
				NilPredRel: "sql", NilPred: "Value.IsNull", NullPkg: "github.com/dolthub/vitess/go/sqltypes", NullVar: "NULL", Floor: 74})
		},
		Fixture: func(c *Ctx, fx *Prog) {
			expectFixture(c, fx, "c28: SQL without nil test, nil answered with an empty value, conversion before the test",
				[]string{
					"C28-T1:testdata/c28/wire.NoTest.SQL/uses",
					"C28-T1:testdata/c28/wire.NoTest.SQL/null-return",
					"C28-T1:testdata/c28/wire.EmptyForNull.SQL/null-return",
					"C28-T1:testdata/c28/wire.LateTest.SQL/uses",
					"C28-T1:testdata/c28/wire.FieldBeforeTest.SQLValue/uses",
				},
				func(fc *Ctx) {
					runC28(fc, c28Config{Rels: []string{"testdata/c28/wire"}, IfaceRel: "testdata/c28/wire", Iface: "Type", Method: "SQL", VParam: 2,
						ValueIface: "ValueType", ValueMethod: "SQLValue", ValueVParam: 1, NilPredRel: "testdata/c28/wire", NilPred: "Val.IsNull",
						NullPkg: "vchk/testdata/c28/wire", NullVar: "NULL"})
				})
		},
		FixturePkgs: []string{"./testdata/c28/wire"},
	})
}

var c28Exceptions = map[string]string{
	"sql/types.TupleType.SQL/null-return":  "tuples are never result columns: SQL() is an unconditional error for every input and never reads v",
	"sql.FakeExtendedType.SQL/null-return": "test double for an external engine's type system (sql/testutils.go), never the type of a result column in this engine; v is never read",
}

func runC28(c *Ctx, cfg c28Config) {
	c.Rule("C28-T1", "every Type.SQL / ValueType.SQLValue implementation: each non-test use of v is dominated by the non-NULL edge of a nil test of v, and each return outside that region returns sqltypes.NULL with a nil error (or delegates v unchanged to a sibling)", cfg.Floor)
	iface := ngLookupIface(c.P, cfg.IfaceRel, cfg.Iface)
	if iface == nil {
		c.Undecided("C28-T1", "anchors", 0, fmt.Sprintf("interface %s.%s not found", cfg.IfaceRel, cfg.Iface))
		return
	}
	var nullVar *types.Var
	if pk := c.P.ByPath[cfg.NullPkg]; pk != nil {
		nullVar, _ = pk.Types.Scope().Lookup(cfg.NullVar).(*types.Var)
	}
	if nullVar == nil {
		c.Undecided("C28-T1", "sqltypes.NULL", 0, "the SQL NULL value variable "+cfg.NullPkg+"."+cfg.NullVar+" was not found")
		return
	}
	spec := &NilGuardSpec{Deciders: map[*types.Func]NilDecider{}, NilPreds: map[*types.Func]int{}}
	if np := LookupFunc(c.P.Pkg(cfg.NilPredRel), cfg.NilPred); np != nil {
		spec.NilPreds[np] = 0
	} else {
		c.Undecided("C28-T1", cfg.NilPred, 0, "NULL predicate of the value struct not found")
	}
	doSet := func(it *types.Interface, method string, vParam int) {
		impls := ngImplementers(c.P, it, method, cfg.Rels)
		sibs := map[*types.Func]bool{}
		for _, f := range impls {
			sibs[f] = true
		}
		for _, f := range impls {
			sf := c.P.SSAFunc(f)
			key := ngFuncKey(f)
			if sf == nil || len(sf.Blocks) == 0 {
				c.Undecided("C28-T1", key+"/uses", f.Pos(), "no SSA body")
				continue
			}
			pv := ngParam(sf, vParam)
			if pv == nil {
				c.Undecided("C28-T1", key+"/uses", f.Pos(), "value parameter not found")
				continue
			}
			v := ngTrack(pv)
			tr := map[ssa.Value]bool{v: true}
			isDeleg := func(cc *ssa.CallCommon) bool {
				args := cc.Args
				if cc.IsInvoke() {
					if cc.Method.Name() != method {
						return false
					}
				} else {
					fn := ngStaticCallee(cc)
					if fn == nil || !sibs[fn] {
						return false
					}
					args = args[1:]
				}
				return vParam < len(args) && ngCanon(args[vParam], tr) == v
			}
			sp := *spec
			sp.Delegate = func(call ssa.CallInstruction, _ ssa.Value) bool { return isDeleg(call.Common()) }
			r := NilGuardAnalyze(sf, []ssa.Value{v}, &sp)
			if len(r.Unguarded) == 0 {
				c.Ok("C28-T1", key+"/uses", f.Pos(), fmt.Sprintf("%d guarded uses, %d delegated, %d nil tests", r.Guarded, r.Delegated, r.Tests))
			} else {
				var path []string
				for _, u := range r.Unguarded {
					path = append(path, ngDescribeUse(c.P, u))
				}
				if why, ok := c28Exceptions[key+"/uses"]; ok && !c.fixtureMode {
					c.Exc("C28-T1", key+"/uses", f.Pos(), why)
				} else {
					c.Bad("C28-T1", key+"/uses", f.Pos(), fmt.Sprintf("%s converts or formats v without first testing it for NULL: %d use(s) of v are not dominated by the non-NULL edge of a nil test; a NULL value is sent to conversion code instead of being answered with sqltypes.NULL (every conforming sibling starts with `if v == nil { return sqltypes.NULL, nil }`)", key, len(r.Unguarded)), path...)
				}
			}
			var badRet []string
			for _, ret := range r.NilReturns {
				if !c28NullReturnOK(ret, nullVar, isDeleg) {
					badRet = append(badRet, fmt.Sprintf("%s: this return can be reached with v == NULL and does not return sqltypes.NULL, nil", c.P.Rel(ret.Pos())))
				}
			}
			if len(badRet) == 0 {
				c.Ok("C28-T1", key+"/null-return", f.Pos(), fmt.Sprintf("%d return(s) outside the non-NULL region, all sqltypes.NULL", len(r.NilReturns)))
			} else if why, ok := c28Exceptions[key+"/null-return"]; ok && !c.fixtureMode {
				c.Exc("C28-T1", key+"/null-return", f.Pos(), why)
			} else {
				c.Bad("C28-T1", key+"/null-return", f.Pos(), fmt.Sprintf("%s: a return reachable with a NULL input yields something other than (sqltypes.NULL, nil): the client receives an error or a non-NULL representation for a NULL value", key), badRet...)
			}
		}
	}
	doSet(iface, cfg.Method, cfg.VParam)
	if cfg.ValueIface != "" {
		if vi := ngLookupIface(c.P, cfg.IfaceRel, cfg.ValueIface); vi != nil {
			doSet(vi, cfg.ValueMethod, cfg.ValueVParam)
		} else {
			c.Undecided("C28-T1", cfg.ValueIface, 0, "value interface not found")
		}
	}
}

// c28NullReturnOK: `return sqltypes.NULL, nil` (a load of the NULL variable and a nil error)
// or `return sibling.SQL(ctx, dest, v)`.
func c28NullReturnOK(ret *ssa.Return, nullVar *types.Var, isDeleg func(*ssa.CallCommon) bool) bool {
	if len(ret.Results) != 2 {
		return false
	}
	if ld, ok := ret.Results[0].(*ssa.UnOp); ok && ld.Op == token.MUL {
		if g, ok := ld.X.(*ssa.Global); ok && g.Object() == nullVar {
			return ngIsNilConst(ret.Results[1])
		}
		return false
	}
	if ex, ok := ret.Results[0].(*ssa.Extract); ok && ex.Index == 0 {
		if call, ok := ex.Tuple.(*ssa.Call); ok && isDeleg(&call.Call) {
			if e2, ok := ret.Results[1].(*ssa.Extract); ok && e2.Tuple == ex.Tuple && e2.Index == 1 {
				return true
			}
		}
	}
	return false
}
